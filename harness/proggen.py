"""Structured programs for the layout properties (C02-C06, C11, C16, C17): generation with an exact
tracker (so that values can be placed on/next to boundaries), rendering to .asm text + ISA, and
encoding for the Lean driver (op "asm")."""
import random

import exprgen as X

INSTRS = {  # mnemonic -> (opcode, [arg widths in bytes])
    'nop': (0xAA, []), 'op1': (0x11, [1]), 'op2': (0x22, [2]), 'op3': (0x33, [1, 2]), 'op4': (0x44, [3]),
}


def make_isa(cfg):
    general = {'address_size': cfg['bits'], 'endian': 'little' if cfg['little'] else 'big', 'registers': list(cfg['regs'])}
    if cfg.get('origin', 0) or cfg.get('force_origin'):
        general['origin'] = cfg.get('origin', 0)
    if cfg.get('pageSize', 1) != 1:
        general['page_size'] = cfg['pageSize']
    if 'cstr_terminator' in cfg:
        general['cstr_terminator'] = cfg['cstr_terminator']
    if cfg.get('allow_embedded_strings'):
        general['allow_embedded_strings'] = True
    opsets = {f'imm{8 * w}': {'operand_values': {'v': {'type': 'numeric', 'argument': {'size': 8 * w, 'byte_align': True}}}}
              for w in (1, 2, 3)}
    instrs = {}
    for m, (opc, ws) in INSTRS.items():
        d = {'bytecode': {'value': opc, 'size': 8}}
        if ws:
            d['operands'] = {'count': len(ws), 'operand_sets': {'list': [f'imm{8 * w}' for w in ws]}}
        instrs[m] = d
    # a 12-bit instruction (4-bit opcode, 8-bit unaligned immediate: 2 bytes on its own) and a macro of two of them;
    # generated only as statement kinds 'nib' / 'macro' (numeric operand 0..254), modelled by their byte expansion
    opsets['nimm8'] = {'operand_values': {'v': {'type': 'numeric', 'argument': {'size': 8, 'byte_align': False}}}}
    instrs['ldn'] = {'bytecode': {'value': 0xA, 'size': 4}, 'operands': {'count': 1, 'operand_sets': {'list': ['nimm8']}}}
    # a one-byte instruction with a 4-bit immediate (a field whose width is no multiple of 8); used by fault injection only
    opsets['nimm4'] = {'operand_values': {'v': {'type': 'numeric', 'argument': {'size': 4, 'byte_align': False}}}}
    instrs['ld4'] = {'bytecode': {'value': 0xB, 'size': 4}, 'operands': {'count': 1, 'operand_sets': {'list': ['nimm4']}}}
    # a bit-number operand with explicit bounds 0..7 in a 3-bit code field (a bound that is 0 is a bound); fault injection only
    opsets['bitno'] = {'operand_values': {'n': {'type': 'numeric_bytecode', 'bytecode': {'size': 3, 'min': 0, 'max': 7}}}}
    instrs['bit3'] = {'bytecode': {'value': 0x15, 'size': 5}, 'operands': {'count': 1, 'operand_sets': {'list': ['bitno']}}}
    macros = {'ldn2': [{'operands': {'count': 1, 'operand_sets': {'list': ['nimm8']}},
                        'instructions': ['ldn @ARG(0)', 'ldn @ARG(0) + 1']}]}
    isa = {'description': 'layout', 'general': general, 'operand_sets': opsets, 'instructions': instrs, 'macros': macros}
    pre = {}
    if cfg.get('preZones'):
        pre['memory_zones'] = [{'name': n, 'start': s, 'end': e} for n, s, e in cfg['preZones']]
    if cfg.get('preConsts'):
        pre['constants'] = [{'name': n, 'value': v} for n, v in cfg['preConsts']]
    if cfg.get('preData'):
        pre['data'] = [{'name': n, 'address': a, 'value': v, 'size': s} for n, a, v, s in cfg['preData']]
    if pre:
        isa['predefined'] = pre
    return isa


def rexpr(rng, t):
    s = X.join(rng, X.render(rng, t, extra_parens=0.05))
    if s.startswith("'") and rng.random() < 0.5:
        s = '(' + s + ')'
    return s


def render_stmt(rng, st, files=None):
    k = st['k']
    if k == 'label':
        return st['name'] + ':'
    if k == 'const':
        return st['name'] + rng.choice([' = ', ' = ', ' EQU ']) + rexpr(rng, st['e'])
    if k == 'data':
        d = {1: '.byte', 2: '.2byte', 4: '.4byte', 8: '.8byte'}[st['w']]
        items = [rexpr(rng, e) for e in st['vals']]
        if rng.random() < 0.12 and not (items and items[0].startswith(("'", '"'))):
            # an item with nothing in it (trailing, doubled or leading comma) is no value: it reserves and emits nothing
            items.insert(rng.choice([0, len(items), len(items), rng.randint(0, len(items))]), rng.choice(['', '', ' ']))
            return d + ' ' + ','.join(items)
        return d + ' ' + ', '.join(items)
    if k in ('bytes', 'str'):
        return st['text']
    if k == 'fill':
        if st.get('zero'):
            return '.zero ' + rexpr(rng, st['cnt'])
        return '.fill ' + rexpr(rng, st['cnt']) + ', ' + rexpr(rng, st['val'])
    if k == 'zerountil':
        return '.zerountil ' + rexpr(rng, st['a'])
    if k == 'org':
        return '.org ' + rexpr(rng, st['e']) + (f' "{st["zone"]}"' if st.get('zone') else '')
    if k == 'memzone':
        return '.memzone ' + st['z']
    if k == 'align':
        return '.align' + (' ' + rexpr(rng, st['p']) if st.get('p') is not None else '')
    if k == 'instr':
        return st['mn'] + (' ' + ', '.join(rexpr(rng, a[0]) for a in st['args']) if st['args'] else '')
    if k == 'cond':
        if st['d'] in ('ifdef', 'ifndef'):
            return '#' + st['d'] + ' ' + st['s']
        return '#' + st['d'] + (' ' + str(st['c']['lhs'][1]) if 'c' in st else '')
    if k == 'nib':
        return 'ldn ' + str(st['v'])
    if k == 'macro':
        return 'ldn2 ' + str(st['v'])
    if k == 'mute':
        return '#mute'
    if k == 'unmute':
        return '#unmute'
    if k == 'createZone':
        return f'#create_memzone {st["name"]} {st["s"]} {st["e"]}'
    if k == 'comment':
        return '; ' + st.get('text', 'just a comment')
    if k == 'include':
        return f'#include "{st["name"]}"'
    if k == 'define':
        return '#define ' + st['name'] + ('' if 'v' not in st else ' ' + str(st['v']))
    raise ValueError(k)


def render_file(rng, stmts):
    out = ''
    for i, s in enumerate(stmts):
        # 'join_next': the next statement follows on the same source line (a string directive followed by a statement)
        join = s.get('join_next')
        nxt = stmts[i + 1]['k'] if i + 1 < len(stmts) else None
        # an address / fill directive ends where a label definition begins; a zone switch is followed by anything
        if not join and rng.random() < 0.25 and ((s['k'] in ('org', 'fill', 'zerountil') and nxt == 'label') or
                                                 (s['k'] == 'align' and s.get('p') is not None and nxt == 'label') or
                                                 (s['k'] == 'memzone' and nxt in ('label', 'data', 'instr', 'fill'))):
            join = True
        out += render_stmt(rng, s) + (rng.choice([' ', '  ', '\t']) if join else '\n')
    return out


def model_stmt(st):
    st = dict(st)
    st.pop('text', None)
    st.pop('join_next', None)
    if st['k'] == 'instr':
        st['opcode'] = INSTRS[st['mn']][0]
    if st['k'] in ('nib', 'macro'):
        # byte expansion of the 12-bit instruction(s): A v_hi | v_lo 0 (fixed order, whatever the endianness)
        vs = [st['v']] if st['k'] == 'nib' else [st['v'], st['v'] + 1]
        st = {'k': 'data', 'w': 1, 'vals': [x for v in vs for x in (('num', 0xA0 | (v >> 4)), ('num', (v & 15) << 4))]}
    return st


def model_cfg(cfg):
    return {'bits': cfg['bits'], 'origin': cfg.get('origin', 0), 'little': cfg['little'], 'pageSize': cfg.get('pageSize', 1),
            'regs': cfg['regs'], 'preZones': [list(z) for z in cfg.get('preZones', [])],
            'preConsts': [list(c) for c in cfg.get('preConsts', [])], 'preData': [list(d) for d in cfg.get('preData', [])]}


class Tracker:
    """exact replica of the placement rules, used only to aim generated values at boundaries"""
    def __init__(self, cfg):
        bits = cfg['bits']
        self.zones = {}
        for n, s, e in cfg.get('preZones', []):
            self.zones[n] = [s, e, s]
        if 'GLOBAL' not in self.zones:
            self.zones['GLOBAL'] = [0, (1 << bits) - 1, 0]
        self.zones['GLOBAL'][2] = cfg.get('origin', 0)
        self.zone = 'GLOBAL'
        self.env = {n: v for n, v in cfg.get('preConsts', [])}
        for n, a, v, s in cfg.get('preData', []):
            self.env[n] = a
        self.occupied = []   # (start, size)
        for n, a, v, s in cfg.get('preData', []):
            self.occupied.append((a, s))

    @property
    def cur(self):
        return self.zones[self.zone][2]

    def advance(self, n):
        self.occupied.append((self.cur, n))
        self.zones[self.zone][2] += n


def simple_expr(rng, v, env_names, env, depth=1):
    """an expression tree whose value is v (exactly), of small depth"""
    r = rng.random()
    if r < 0.45 or v < 0:
        if v < 0:
            return ('bin', '-', ('num', 0), ('num', -v)) if rng.random() < 0.5 else ('neg', ('num', -v))
        return ('num', v)
    if r < 0.7 and env_names:
        n = rng.choice(env_names)
        d = v - env[n]
        if d == 0:
            return ('label', n)
        return ('bin', '+', ('label', n), ('num', d)) if d > 0 else ('bin', '-', ('label', n), ('num', -d))
    if r < 0.8:
        a = rng.randint(0, max(0, v))
        return ('bin', '+', ('num', a), ('num', v - a))
    if r < 0.9 and v % 2 == 0:
        return ('bin', '*', ('num', v // 2), ('num', 2))
    return ('bin', '-', ('num', v + 5), ('num', 5))


def gen_cfg(rng, zones=True, predefined=True, bits=None):
    bits = bits or rng.choice([8, 8, 10, 12, 16])
    maxa = (1 << bits) - 1
    cfg = {'bits': bits, 'little': rng.random() < 0.4, 'regs': ['ra', 'rb'], 'preZones': [], 'preConsts': [], 'preData': []}
    gs, ge = 0, maxa
    if zones and rng.random() < 0.3:
        gs = rng.randint(0, maxa // 4)
        ge = rng.randint(max(gs + 60, maxa // 2), maxa)
        cfg['preZones'].append(('GLOBAL', gs, ge))
    if rng.random() < 0.4 or gs > 0:
        cfg['origin'] = rng.randint(gs, min(ge, gs + 40))
        cfg['force_origin'] = True
    if zones:
        for i in range(rng.choice([0, 0, 1, 2])):
            s = rng.randint(gs, ge - 8)
            e = rng.randint(s + 3, min(ge, s + 60))
            cfg['preZones'].append((f'PZ{i}', s, e))
    if rng.random() < 0.3:
        cfg['pageSize'] = rng.choice([2, 4, 8, 16, 32])
    if predefined and rng.random() < 0.3:
        cfg['preConsts'].append(('PK_A', rng.randint(0, 200)))
    if predefined and rng.random() < 0.25:
        s = rng.randint(1, 5)
        a = rng.randint(gs, ge - s)
        cfg['preData'].append(('PD_BUF', a, rng.randint(0, 300), s))
        if rng.random() < 0.5:
            # a second block with another value and size right behind (or a few bytes after) the first one
            s2 = rng.randint(1, 4)
            a2 = a + s + rng.choice([0, 0, 1, 5])
            if a2 + s2 - 1 <= ge:
                cfg['preData'].append(('PD_TAB', a2, rng.randint(0, 300), s2))
    return cfg


def gen_program(rng, cfg, n_stmts=None, weights=None, allow_bad=0.1, gprefix='gl', extra_defined=(), end_label=True):
    """returns list of stmts (single file)"""
    w = {'label': 3, 'const': 1.5, 'data': 4, 'fill': 1.5, 'zerountil': 1, 'org': 1.5, 'memzone': 0.8, 'align': 1,
         'instr': 4, 'mute': 0.6, 'createZone': 0.5, 'comment': 0.5, 'macro': 0}
    if weights:
        w.update(weights)
    kinds = list(w)
    tr = Tracker(cfg)
    stmts = []
    n = n_stmts or rng.randint(3, 14)
    nl = [0, 0, 0, 0]
    muted = 0
    have_region = False
    gs, ge = tr.zones['GLOBAL'][0], tr.zones['GLOBAL'][1]
    for _ in range(n):
        k = rng.choices(kinds, [w[x] for x in kinds])[0]
        names = [x for x in tr.env if not x.startswith('.')] + (tr.local_names if hasattr(tr, 'local_names') else [])
        names = [x for x in names if x in tr.env]
        z = tr.zones[tr.zone]
        if k == 'label':
            kind = rng.choice([0, 0, 1, 2, 2]) if have_region else rng.choice([0, 0, 1] + ([2] if rng.random() < allow_bad else []))
            if kind == 0:
                name = f'{gprefix}_{nl[0]}'; nl[0] += 1
            elif kind == 1:
                name = f'_fl_{nl[1]}'; nl[1] += 1
            else:
                name = f'.lc_{rng.randint(0, 2)}'
            if rng.random() < allow_bad * 0.3 and tr.env:
                name = rng.choice(list(tr.env))      # duplicate (maybe)
            stmts.append({'k': 'label', 'name': name})
            if kind != 2:
                have_region = True
                tr.local_names = []
                for x in [x for x in tr.env if x.startswith('.')]:
                    del tr.env[x]
            else:
                tr.local_names = getattr(tr, 'local_names', []) + [name]
            tr.env[name] = tr.cur
        elif k == 'const':
            name = f'k{gprefix}_{nl[3]}'; nl[3] += 1
            v = rng.randint(0, 300)
            cn = [x for x in names if x.startswith('k' + gprefix + '_') or x.startswith('PK_')]
            stmts.append({'k': 'const', 'name': name, 'e': simple_expr(rng, v, cn, tr.env)})
            tr.env[name] = v
        elif k == 'data':
            wd = rng.choice([1, 1, 1, 2, 2, 4, 8])
            cnt = rng.randint(1, 4)
            vals = []
            for _i in range(cnt):
                v = rng.choice([rng.randint(0, 255), rng.randint(-300, 70000), rng.randint(0, 1 << (8 * wd))])
                if rng.random() < 0.25:
                    # forward / backward reference to a label that may not exist yet
                    vals.append(('label', rng.choice([gprefix + '_0', gprefix + '_1', '_fl_0', '.lc_0', 'end_lbl'] + list(extra_defined))))
                else:
                    vals.append(simple_expr(rng, v, names, tr.env))
            stmts.append({'k': 'data', 'w': wd, 'vals': vals})
            tr.advance(wd * cnt)
        elif k == 'fill':
            room = z[1] + 1 - tr.cur
            c = rng.choice([0, 1, 2, 3, rng.randint(0, 12)] + ([room, room + 1] if 0 <= room < 40 else []) +
                           ([-1, -2] if rng.random() < 0.15 else []))      # a negative count moves the cursor backwards
            v = rng.choice([0, 0xFF, rng.randint(0, 255), rng.randint(256, 1000), -1])
            cn = [x for x in names]
            st = {'k': 'fill', 'cnt': simple_expr(rng, c, cn, tr.env), 'val': simple_expr(rng, v, names, tr.env)}
            if rng.random() < 0.3:
                st['zero'] = True
                st['val'] = ('num', 0)
            stmts.append(st)
            tr.advance(c)
        elif k == 'zerountil':
            t = tr.cur + rng.choice([-2, -1, 0, 1, 2, 5, rng.randint(0, 20)])
            t = max(0, t)
            stmts.append({'k': 'zerountil', 'a': simple_expr(rng, t, names, tr.env)})
            tr.advance(t - tr.cur + 1 if t >= tr.cur else 0)
        elif k == 'org':
            zn = None
            if len(tr.zones) > 1 and rng.random() < 0.5:
                zn = rng.choice(list(tr.zones))
            if zn:
                zz = tr.zones[zn]
                off = rng.choice([0, 0, 1, zz[1] - zz[0], zz[1] - zz[0] + 1, rng.randint(0, max(0, zz[1] - zz[0]))])
                if rng.random() < allow_bad:
                    off = zz[1] - zz[0] + 2
                stmts.append({'k': 'org', 'e': simple_expr(rng, off, names, tr.env), 'zone': zn})
                tr.zone = zn
                tr.zones[zn][2] = zz[0] + off
            else:
                cands = [gs, ge, rng.randint(gs, min(ge, gs + 120))]
                for (a, s) in tr.occupied[-4:]:
                    cands += [a, a + s, a + s - 1, max(gs, a - 1), max(gs, a - 2)]
                t = rng.choice(cands)
                if rng.random() < allow_bad:
                    t = rng.choice([ge + 1, max(0, gs - 1)])
                stmts.append({'k': 'org', 'e': simple_expr(rng, t, names, tr.env)})
                tr.zone = 'GLOBAL'
                tr.zones['GLOBAL'][2] = t
            have_region = False
            for x in [x for x in tr.env if x.startswith('.')]:
                del tr.env[x]
        elif k == 'memzone':
            zn = rng.choice(list(tr.zones))
            if rng.random() < allow_bad * 0.5:
                zn = 'NOZONE'
            stmts.append({'k': 'memzone', 'z': zn})
            if zn in tr.zones:
                tr.zone = zn
            have_region = False
            for x in [x for x in tr.env if x.startswith('.')]:
                del tr.env[x]
        elif k == 'align':
            p = rng.choice([None, 2, 4, 8, 16, 3, 1])
            st = {'k': 'align'}
            pv = cfg.get('pageSize', 1) if p is None else p
            if p is not None:
                st['p'] = simple_expr(rng, p, [], {})
            stmts.append(st)
            c = tr.cur
            tr.zones[tr.zone][2] = c if c % pv == 0 else c + (pv - c % pv)
        elif k == 'instr':
            mn = rng.choice(list(INSTRS))
            args = []
            for wd in INSTRS[mn][1]:
                lo, hi = -(1 << (8 * wd - 1)), (1 << (8 * wd)) - 1
                v = rng.choice([0, hi, lo, rng.randint(0, hi), rng.randint(lo, hi)])
                if rng.random() < allow_bad * 0.5:
                    v = rng.choice([hi + 1, lo - 1])
                if rng.random() < 0.2:
                    args.append([('label', rng.choice([gprefix + '_0', gprefix + '_1', '_fl_0', '.lc_0', '.lc_1', 'end_lbl'] + list(extra_defined))), wd])
                else:
                    args.append([simple_expr(rng, v, names, tr.env), wd])
            stmts.append({'k': 'instr', 'mn': mn, 'args': args})
            tr.advance(1 + sum(INSTRS[mn][1]))
        elif k == 'macro':
            v = rng.choice([0, 254, 15, 16, rng.randint(0, 254)])
            if rng.random() < 0.4:
                stmts.append({'k': 'nib', 'v': v}); tr.advance(2)
            else:
                stmts.append({'k': 'macro', 'v': v}); tr.advance(4)
        elif k == 'mute':
            if muted and rng.random() < 0.7:
                stmts.append({'k': 'unmute'}); muted -= 1
            elif not muted and rng.random() < 0.25:
                # an #unmute / #emit with nothing to undo has no effect (the depth never goes below zero): a later #mute mutes
                stmts.append({'k': 'unmute'})
            else:
                stmts.append({'k': 'mute'}); muted += 1
        elif k == 'createZone':
            s = rng.randint(gs, max(gs, ge - 8))
            e = rng.randint(s, min(ge, s + 40))
            name = f'CZ{len(tr.zones)}'
            if rng.random() < allow_bad:
                name, s, e = rng.choice([(name, ge - 2, ge + 3), (rng.choice(list(tr.zones)), s, e), (name, e + 1, s)])
                s = max(s, 0)
            stmts.append({'k': 'createZone', 'name': name, 's': s, 'e': e})
            if name not in tr.zones and gs <= s <= e <= ge:
                tr.zones[name] = [s, e, s]
        elif k == 'comment':
            stmts.append({'k': 'comment'})
    if end_label and rng.random() < 0.6:
        stmts.append({'k': 'label', 'name': 'end_lbl'})
    # references to labels that never get defined are kept only rarely (they are the "unresolved" fault)
    defined = [s['name'] for s in stmts if s['k'] == 'label' and not s['name'].startswith('.')]
    defined += [n for n, _ in cfg.get('preConsts', [])] + [d[0] for d in cfg.get('preData', [])] + list(extra_defined)

    def fix(t):
        if t[0] == 'label' and t[1] not in defined and not (t[1].startswith('.') and rng.random() < 0.3):
            if rng.random() < allow_bad:
                return t
            return ('label', rng.choice(defined)) if defined else ('num', rng.randint(0, 200))
        return t
    for st in stmts:
        if st['k'] == 'data':
            st['vals'] = [fix(v) for v in st['vals']]
        elif st['k'] == 'instr':
            st['args'] = [[fix(a[0]), a[1]] for a in st['args']]
    return stmts


def COND_IF(v):
    return {'k': 'cond', 'd': 'if', 'c': {'lhs': ('num', v), 'op': '!=', 'rhs': ('num', 0)}}


def add_dead_blocks(rng, cfg, stmts, n=1):
    """insert `#if 0 ... #endif` blocks whose content would move the cursor / switch the zone / reset the region / define
    names if it were (wrongly) processed, and wrap a stretch of the program in `#if 1 ... #endif`; neither changes the
    meaning of the program (C08), so every layout property must hold unchanged"""
    stmts = list(stmts)
    zones = [z[0] for z in cfg.get('preZones', []) if z[0] != 'GLOBAL']
    for _ in range(n):
        dead = []
        for _i in range(rng.randint(1, 3)):
            k = rng.choice(['memzone', 'org', 'align', 'data', 'label', 'fill', 'mute', 'createZone'])
            if k == 'memzone':
                dead.append({'k': 'memzone', 'z': rng.choice(zones)} if zones else {'k': 'org', 'e': ('num', 3)})
            elif k == 'org':
                st = {'k': 'org', 'e': ('num', rng.randint(0, 9))}
                if zones and rng.random() < 0.5:
                    st['zone'] = rng.choice(zones)
                dead.append(st)
            elif k == 'align':
                dead.append({'k': 'align', 'p': ('num', 16)})
            elif k == 'data':
                dead.append({'k': 'data', 'w': rng.choice([1, 2]), 'vals': [('num', 0xDE)]})
            elif k == 'label':
                dead.append({'k': 'label', 'name': f'dead_{rng.randint(0, 3)}'})
            elif k == 'fill':
                dead.append({'k': 'fill', 'cnt': ('num', 3), 'val': ('num', 0xDD)})
            elif k == 'mute':
                dead.append({'k': 'mute'})
            else:
                dead.append({'k': 'createZone', 'name': 'DEADZ', 's': 0, 'e': 3})
        i = rng.randint(0, len(stmts))
        if rng.random() < 0.5:
            stmts[i:i] = [COND_IF(0)] + dead + [{'k': 'cond', 'd': 'endif'}]
        else:
            j = rng.randint(i, len(stmts))
            stmts[i:j] = [COND_IF(0)] + dead + [{'k': 'cond', 'd': 'else'}] + stmts[i:j] + [{'k': 'cond', 'd': 'endif'}]
    if rng.random() < 0.4 and stmts:
        i = rng.randint(0, len(stmts) - 1)
        j = rng.randint(i, len(stmts))
        stmts[i:j] = [COND_IF(1)] + stmts[i:j] + [{'k': 'cond', 'd': 'endif'}]
    return stmts


def isa_tables(cfg):
    """the instruction / macro tables of make_isa() in the model's format (for the text route: statements parsed from the
    source text are ISA statements, selected and encoded by the Select / Macro model)"""
    L = bool(cfg['little'])
    num = lambda n, al: {'id': 'v', 't': 'numeric', 'arg': {'n': n, 'align': al, 'little': L}}  # noqa
    instrs = []
    for m, (opc, ws) in INSTRS.items():
        v = {'opcode': {'v': opc, 'n': 8, 'little': L}}
        if ws:
            v['count'] = len(ws)
            v['sets'] = {'sets': [[num(8 * w, True)] for w in ws]}
        instrs.append({'mn': m, 'variants': [v]})
    instrs.append({'mn': 'ldn', 'variants': [{'opcode': {'v': 0xA, 'n': 4, 'little': L}, 'count': 1, 'sets': {'sets': [[num(8, False)]]}}]})
    instrs.append({'mn': 'ld4', 'variants': [{'opcode': {'v': 0xB, 'n': 4, 'little': L}, 'count': 1, 'sets': {'sets': [[num(4, False)]]}}]})
    macros = [{'mn': 'ldn2', 'variants': [{'operands': {'opcode': {'v': 0, 'n': 1, 'little': L}, 'count': 1, 'sets': {'sets': [[num(8, False)]]}},
                                           'steps': [{'mn': 'ldn', 'ops': [{'t': 'arg', 'n': 0}]},
                                                     {'mn': 'ldn', 'ops': [{'t': 'argPlus', 'n': 0, 'k': 1}]}]}]}]
    return instrs, macros


def to_text_request(cfg, texts, start=0, end=None, fill=0):
    """texts: list of (file name, source text) in file-index order"""
    mc = model_cfg(cfg)
    mc['instrs'], mc['macros'] = isa_tables(cfg)
    req = {'op': 'asmtext', 'cfg': mc, 'files': [{'name': n.split('/')[-1], 'text': t} for n, t in texts], 'start': start, 'fill': fill,
           'cstrTerm': cfg.get('cstr_terminator', 0), 'embedded': bool(cfg.get('allow_embedded_strings'))}
    if end is not None:
        req['end'] = end
    return req


def to_model_request(cfg, files, start=0, end=None, fill=0):
    req = {'op': 'asm', 'cfg': model_cfg(cfg), 'files': [[model_stmt(s) for s in f] for f in files], 'start': start,
           'fill': fill}
    if end is not None:
        req['end'] = end
    return req
