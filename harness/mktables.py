#!/usr/bin/env python
"""Development tool: render seeded/MATRIX.json and seeded/REVERSE_FIX.json as the markdown tables of DESIGN.md section 13."""
import json
import os

VERIF = os.path.dirname(os.path.dirname(os.path.abspath(__file__)))


def seeds_table():
    m = json.load(open(os.path.join(VERIF, 'seeded', 'MATRIX.json')))
    rows = ['| seeded change | what it breaks (summary by its author) | needs to manifest | caught by (quick tier, seed 0) | own check |',
            '|---|---|---|---|---|']
    for name in sorted(m):
        meta = json.load(open(os.path.join(VERIF, 'seeded', name, 'meta.json')))
        summ = (meta.get('summary') or meta.get('description') or '').replace('|', '/').replace('\n', ' ')
        summ = summ[:230] + ('…' if len(summ) > 230 else '')
        needs = meta.get('needs') or meta.get('manifests_when') or meta.get('manifest_requires') or meta.get('requires') or ''
        if isinstance(needs, (list, dict)):
            needs = json.dumps(needs)
        needs = str(needs).replace('|', '/').replace('\n', ' ')[:160]
        det = m[name]['detected_by']
        kinds = m[name].get('kinds', {})
        own = name.split('-')[0]
        det_s = ', '.join(p + ('' if kinds.get(p) == 'failing-input' else ' (corr.)') for p in det) or '**none**'
        rows.append(f'| {name} | {summ} | {needs} | {det_s} | {"yes" if own in det else "**no**"} |')
    return '\n'.join(rows)


def reverse_table():
    r = json.load(open(os.path.join(VERIF, 'seeded', 'REVERSE_FIX.json')))
    rows = ['| fix reverted | properties named in known_findings.txt | reported again by | not reported by |', '|---|---|---|---|']

    def key(k):
        t = k.split()[0]
        import re
        return int(re.findall(r'\d+', t)[0]), t
    for k in sorted(r, key=key):
        e = r[k]
        if not e.get('reverted'):
            rows.append(f'| {k} | {", ".join(e["props"])} | (not revertible on its own: {e.get("why", "")[:80]}) | |')
            continue
        det = e['detected_by']
        miss = [p for p in e['props'] if p not in det]
        rows.append(f'| {k} | {", ".join(e["props"])} | {", ".join(det) or "**none**"} | {", ".join(miss)} |')
    return '\n'.join(rows)


if __name__ == '__main__':
    print(seeds_table())
    print()
    print(reverse_table())
