#!/usr/bin/env python
"""Development tool (not a registered check): reverse-fix sweep.

For every `fixed:` entry of known_findings.txt: revert that commit in /repo's working tree (git apply -R of the commit's
own diff), run the quick check of the entry's property (plus the "(also Cnn)" ones), undo.  A fixed entry suppresses
nothing, so the check must report the violation again.  The shrunk failing input of each detection is stored under
corpus/<Cnn>/ (corpus cases run first on every later run of that check).  Writes seeded/REVERSE_FIX.json.
"""
import json
import os
import re
import shutil
import subprocess
import sys

REPO = '/repo'
VERIF = os.path.dirname(os.path.dirname(os.path.abspath(__file__)))


def sh(cmd, **kw):
    return subprocess.run(cmd, shell=True, capture_output=True, text=True, **kw)


def entries():
    out = []
    for ln in open(os.path.join(VERIF, 'known_findings.txt')):
        m = re.match(r'fixed:\s+property=(C\d+)\s+([0-9a-f]{7,})\s+(.*)$', ln.strip())
        if m:
            also = re.findall(r'also ((?:C\d+(?:, )?)+)', m.group(3))
            props = [m.group(1)] + [p for a in also for p in re.findall(r'C\d+', a)]
            tag = re.findall(r'\[(D[\w/ ,]+)\]', m.group(3))
            out.append({'commit': m.group(2), 'props': props, 'what': m.group(3)[:160], 'tag': (tag or ['?'])[-1]})
    return out


def run_check(p):
    c = sh(f'cd {VERIF} && /venv/bin/python harness/check.py {p} --tier quick', timeout=3600,
           env=dict(os.environ, VERIF_EVIDENCE_DIR='/tmp/revsweep_ev'))
    vio = [l for l in c.stdout.splitlines() if l.startswith('VIOLATION')]
    kind, rp = None, None
    if vio:
        rp = os.path.join(VERIF, vio[0].split('replay=')[1].split()[0])
        try:
            kind = json.load(open(rp))['kind']
        except Exception:
            kind = '?'
    return {'exit': c.returncode, 'kind': kind, 'replay': rp}


if __name__ == '__main__':
    only = set(sys.argv[1:])
    res = {}
    outp = os.path.join(VERIF, 'seeded', 'REVERSE_FIX.json')
    if os.path.exists(outp):
        res = json.load(open(outp))
    for e in entries():
        if only and e['commit'] not in only and e['tag'] not in only:
            continue
        if sh(f'git -C {REPO} status --porcelain').stdout.strip():
            raise SystemExit('/repo is not clean')
        patch = f'/tmp/revsweep_{e["commit"]}.patch'
        sh(f'git -C {REPO} show {e["commit"]} -- src > {patch}')
        r = sh(f'git -C {REPO} apply -R --3way {patch}')
        key = f'{e["tag"]} {e["commit"]}'
        if r.returncode:
            sh(f'git -C {REPO} checkout -- . ; git -C {REPO} reset -q')
            res[key] = {'reverted': False, 'why': 'later fixes touch the same lines: ' + r.stderr.strip()[-200:], 'props': e['props']}
            print(key, 'NOT REVERTIBLE', flush=True)
            os.remove(patch)
            continue
        try:
            sh(f'git -C {REPO} reset -q')
            outcome = {}
            for p in e['props']:
                o = run_check(p)
                outcome[p] = {'exit': o['exit'], 'kind': o['kind']}
                if o['exit'] == 1 and o['kind'] == 'failing-input' and o['replay']:
                    d = os.path.join(VERIF, 'corpus', p)
                    os.makedirs(d, exist_ok=True)
                    name = re.sub(r'[^\w]+', '_', e['tag']) + '_' + e['commit'] + '.json'
                    rp = json.load(open(o['replay']))
                    json.dump({'origin': f'reverse-fix sweep: {key}: {e["what"]}', 'case': rp['case']},
                              open(os.path.join(d, name), 'w'), indent=1)
            res[key] = {'reverted': True, 'props': e['props'], 'outcome': outcome,
                        'detected_by': [p for p, o in outcome.items() if o['exit'] == 1]}
            print(key, res[key]['detected_by'], outcome, flush=True)
        finally:
            sh(f'git -C {REPO} checkout -- .')
            sh(f'git -C {REPO} clean -fdq src')
            os.remove(patch)
        json.dump(res, open(outp, 'w'), indent=1, sort_keys=True)
    shutil.rmtree('/tmp/revsweep_ev', ignore_errors=True)
