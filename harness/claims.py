# property claims (exec'd by mkmanifest.py)
NOTE = ('Trusted: Lean 4.33 kernel + axioms propext/Classical.choice/Quot.sound only (audited every run); the model is '
        'hand-written and tied to /repo by the differential correspondence on generated cases through the public CLI, so '
        'what the generators do not reach is not validated; Python re/int.to_bytes/PyYAML/click are modelled, not verified.')

claim('C01', 'Lean 4 refinement proof (bit packer = specified bit string, field order) + differential correspondence',
      'Kernel-checked theorems: for every field list the cursor-based packer emits exactly the bytes of the specified bit '
      'string (sizes 1..inf, any alignment/endianness), reserved size = emitted size, field order = documented order under '
      'both reverse options. Each run re-validates the model against the real CLI on generated ISAs/statements.',
      NOTE + ' Operand text -> (code, argument) mapping per operand type is produced by the generator.')

claim('C12', 'Lean 4 decision-logic proofs (accept iff constraint holds, exact emitted value, width fit) + differential correspondence',
      'Kernel-checked theorems: each constraint kind (min/max, numeric enumeration, zone membership, sliced address MSB match, '
      'relative offset from start/end, signed-or-unsigned width fit for every width) accepts exactly the satisfying values and '
      'emits the documented value; a whole statement is assembled iff every constraint holds, otherwise rejected. Each run '
      'drives the real CLI with values on and adjacent to every boundary and compares with the model.',
      NOTE + ' Operand text -> constraint kind mapping is produced by the generator.')

claim('C07', 'Lean 4 proofs (recursive-descent parser = stratified grammar, exact-rational evaluation, byte extraction, literal notations) + differential correspondence',
      'Kernel-checked theorems: the five-level parser is sound and complete for the stratified left-associative grammar (hence '
      'unambiguous, malformed token lists rejected, fuel never exhausted, every tree re-read from its minimal-parenthesis print); '
      'evaluation is exact rational arithmetic with floored %, power-of-two shifts, two\'s-complement bitwise operators and final '
      'truncation toward zero; BYTEn = two\'s-complement byte n; every literal notation denotes its value. Each run compares the '
      'real CLI with the model on grammar-generated, malformed and corner-case expression texts.',
      NOTE + ' The tokeniser regex is modelled by a hand-written scanner (validated, not verified).')

claim('C03', 'Lean 4 proofs (image = window of the address->byte map) + differential correspondence',
      'Kernel-checked theorems: the image of window [start,end] has length end-start+1 and at offset a-start the byte an unmuted '
      'line emitted for a, the fill value elsewhere (also for lines straddling the window edges); muted lines contribute nothing; '
      'without an end the window stops at the highest emitted address. For every program the model accepts this holds without '
      'further hypothesis: every byte line emits exactly the bytes the first pass reserved, so a passing overlap check means '
      'disjoint byte ranges (accepted_no_common_address, accepted_image_is_spec); the line-by-line image the driver computes is '
      'proved equal to the dictionary route (assemble_eq_fast). Each run compares .bin of the real CLI with the model on '
      'generated programs x windows, incl. images of several KiB with lines across 256 / 1024 / 4096-byte blocks.',
      NOTE)
claim('C04', 'Lean 4 proofs (adjacent-range check on the stable address sort <-> pairwise disjointness) + differential correspondence',
      'Kernel-checked theorems: on the address-sorted line list the adjacent-range check passes iff all byte lines occupying at '
      'least one address are pairwise disjoint (both directions), independently of source order; zero-length lines never cause a '
      'rejection; the sort is a stable permutation; the emitted lines of EVERY program are address-sorted, so for every program '
      'accepted <-> pairwise disjoint holds without hypothesis (check_passes_iff_disjoint, accepted_program_disjoint, '
      'overlapping_program_rejected). Each run compares the accept/reject verdict of the real CLI with the impl-level '
      'check and with the pairwise spec on generated placements.',
      NOTE)

claim('C06', 'Lean 4 proofs (scope lookup soundness/completeness, definition acceptance) + differential correspondence',
      'Kernel-checked theorems: a reference resolves only to a definition in the same local region, the same file, or the global '
      'table (never a register), never to a same-named label of another region or file; a definition is accepted iff the name is no '
      'keyword, not yet defined in its scope and (local) inside a region; later definitions never change earlier resolutions. Each '
      'run compares accept/reject and label values (through the image) of the real CLI with the model on multi-file programs that '
      'reuse names across regions and files.',
      NOTE + ' Cross-table shadowing lemmas assume predefined names carry no "_"/"." prefix (GlobKinded).')

claim('C02', 'Lean 4 proofs (placement at the zone cursor, reserved = emitted size, label = cursor, least-multiple alignment) + differential correspondence',
      'Kernel-checked theorems: a line is placed at its zone\'s cursor unless it is an .org/.align, the cursor then sits right behind '
      'it and no other zone moves (contiguity); the bytes finally emitted number exactly the reserved size - also for every bit-packed '
      'ISA statement and macro invocation (sizes come from variant selection, which evaluates nothing; the second pass with the final '
      'labels emits exactly that many bytes); an address label is bound '
      'to the cursor at its definition; .align yields the least multiple of the page size not below the address; .zerountil reaches '
      'exactly its target. Each run compares the image (label values observed through data/operands) of the real CLI with the model, '
      'incl. whole programs of real ISA statements (relative jumps to forward / backward labels, macros) assembled by the layout model itself.',
      NOTE)
claim('C05', 'Lean 4 proofs (zone cursor invariant, confinement, zone-relative vs absolute origin, zone declaration rejection, concatenation of stretches) + differential correspondence',
      'Kernel-checked theorems: every zone keeps start <= cursor <= end+1 and lies inside GLOBAL; every byte line lies inside its '
      'zone and inside GLOBAL, a line that would not is rejected; a zone-relative .org is offset from the zone start, a bare one is '
      'absolute; separate stretches of one zone are laid out consecutively whatever other zones do in between; a source-declared zone '
      'is accepted iff its name is new and it is non-inverted, inside the address width and inside GLOBAL; end to end, for every '
      'program the model places (any zone configuration initZones accepts, any zones the source creates, any includes) every '
      'byte-producing source line lies inside its zone and inside GLOBAL (program_lines_confined); at the text level a '
      'statement written behind a zone / origin directive on the same source line is the next statement of the list these theorems '
      'speak about (text_zone_directive_line, text_origin_label_line). Each run compares accept/reject and image of the real CLI '
      'with the model on zone-heavy programs, whose source text is also parsed by the Lean front end (structured route = text route).',
      NOTE + ' Two predefined zones with the same name: the later one wins (mirrored; outside the property statement).')

claim('C08', 'Lean 4 refinement proof (condition-stack machine = block-tree semantics) + differential correspondence',
      'Kernel-checked theorems: for every list of well-nested blocks, any nesting depth and any symbol history, the condition-stack '
      'machine run over the directive stream selects exactly the lines and symbol definitions the block-tree semantics selects '
      '(first branch whose condition held when reached, else #else; nothing inside an unselected branch is selected, evaluated or '
      'defined) and restores the stack; stray #else/#elif/#endif and #else/#elif after #else are rejected; #ifdef tests definedness '
      'only; numeric conditions compare integers. Each run compares the image (markers between all directives) of the real CLI with '
      'the tree semantics and with the stack machine.',
      NOTE + ' String-mode comparisons are generated with single-token sides only.')

claim('C11', 'Lean 4 proofs (value bytes mod 2^(8w) in byte order, escape processing, fill / zero / zerountil) + differential correspondence',
      'Kernel-checked theorems: a listed value emits exactly w bytes, the base-256 digits of v mod 2^(8w) in the configured order '
      '(negative / oversized values wrap); a quoted string emits one byte per character after escape processing, then the '
      'terminator; .fill emits n copies of the low byte; .zerountil zeros up to and including its target. Each run compares the image '
      'of the real CLI with the model on data-directive programs (strings with escapes and both quote kinds, all terminators).',
      NOTE + ' unicode_escape decoding is modelled for the listed escapes only; finding D30 (value list starting with a quote) is outside the generated language.')

claim('C09', 'Lean 4 refinement proof (candidate-scan / recursive resolution / re-scan algorithm = whole-word full expansion) + metamorphic differential correspondence',
      'Kernel-checked theorems: the substitution algorithm of the code computes exactly the whole-word full expansion for every '
      'table and line (incl. error kinds; fuel never exhausted); the expansion contains no defined symbol; lines without a defined '
      'whole word (identifiers that merely contain a symbol name, undefined words, non-word text) are returned verbatim; a symbol '
      'leading back to itself is rejected when used; a second definition is rejected; each line is expanded with the table as of '
      'that line. Each run checks on the real CLI that a program with symbols (ISA, -D and #define sources) assembles to the same '
      'image as the program whose lines were expanded by the model, or that both are rejected.',
      NOTE + ' Symbol names have >= 2 characters; substitution inside quoted strings is not generated.')
claim('C17', 'Lean 4 proofs (fresh file scope, double/missing include rejected, includer state continues, payload pasting, order-free directory search) + differential and metamorphic correspondence',
      'Kernel-checked theorems: every line read from a file carries that file\'s own scope; a file opened twice or missing is '
      'rejected, and the record of opened files of an accepted program holds no file twice - whichever file of the include tree '
      'opened it (nested, sibling, diamond); after a selected #include the includer continues with unchanged region, zone, mute depth and condition stack, an '
      'unselected #include has no effect; including a payload-only file yields exactly the lines of the pasted text; the directory '
      'search accepts exactly one hit independently of directory order and de-duplication keeps one entry per real path. Each run '
      'compares split programs (nested includes, several include directories, symlinks) with the model and, for scope-neutral '
      'programs, the split image with the unsplit image on the real CLI.',
      NOTE + ' os.path.exists/realpath are parameters of the model.')

claim('C16', 'Lean 4 proofs (decoders invert the reference encoders: Intel HEX records with checksum / 64K extension, compact hex, listing rows) + decode-level correspondence on real output',
      'Kernel-checked theorems: an Intel HEX record is read back exactly and only with a valid checksum, the records of a run decode '
      'to the run (16-byte records, 64 K boundaries, extended-address records); compact hex decodes to exactly the unmuted bytes at '
      'their addresses when every gap is announced by an .org (partial: the excluded class is the listed finding, with a proved '
      'counterexample); muted lines contribute to no format; listing rows map to address/byte pairs. Each run decodes the text the real '
      'CLI prints in all four formats with these decoders and compares with the address->byte map recovered from two real .bin runs, '
      'matches listing rows against the assembled statements, and compares two windowed images (-s strictly inside a statement, '
      'optional -e, three fill values) with the same map. End to end (no hypothesis beyond acceptance): the lines handed to the '
      'printers carry exactly the address/byte pairs of the emitted lines the image is made of, so every byte of every accepted '
      'image is what the printers\' line list says about its address; the rows the listing spreads a statement over carry all its '
      'bytes in order, at most k per row, and decode to the statement exactly once (the row helper of the real printer is compared '
      'with the model function on every run).',
      NOTE + ' The third-party intelhex writer is not modelled; its output is only decoded. Known finding D17 (minhex-gap-without-org) is reported as KNOWN-FINDING.')

claim('C13', 'Lean 4 decision-logic proofs (first matching variant, specific before sets, disallowed skipped, stable rank order inside a set, registers never numeric) + differential correspondence',
      'Kernel-checked theorems: the selected variant is the first in definition order whose operand pattern accepts and all earlier '
      'ones decline; rejection iff every variant declines; specific operand combinations precede operand sets and are the variant\'s match '
      'whatever the operand_sets section and its disallowed list say; a disallowed '
      'combination is skipped; inside a set the alternatives are tried in a stable sort by type rank (bracketed / indexed < keys < '
      'registers < numeric) and the first acceptance wins; numeric-like types never accept an expression containing a register name '
      '(in any letter case, also under unary minus / BYTEn). '
      'Each run compares the bytes (unique opcodes / operand codes identify the choice) and exit status of the real CLI with the '
      'model on deliberately ambiguous generated ISAs, incl. multi-statement programs (special-then-general variants in every statement '
      'order, variants sharing one operands mapping, mirrored disallowed pairs, decorated indirect registers).',
      NOTE + ' Operand forms are syntactic classes of operand text; quirks of the regexes outside the generated forms (e.g. enumeration keys matched as a prefix) are listed in DESIGN.md.')

claim('C10', 'Lean 4 refinement proof (step loop with running address = expanded statements at prefix-sum addresses) + metamorphic and differential correspondence',
      'Kernel-checked theorems: the macro step loop emits exactly the concatenation of the bytes of the instantiated templates '
      'assembled in order as ordinary statements, statement k at addr + sum of earlier sizes (errors included); size = sum of step '
      'sizes = the size reserved in the first pass from selection alone, whatever the operands evaluate to; the macro variant is the first whose operand pattern accepts; unfillable placeholders (index out of range, @ARG '
      'without argument, @REG on a non-register operand) are rejected. Each run compares on the real CLI the program with '
      'invocations against the hand-expanded program (image incl. following label addresses) and the invocation bytes against the model.',
      NOTE + ' @ARG(n) inside a larger expression is generated for atomic argument texts only (substitution is textual); @OP(n) not with empty operands.')

claim('C19', 'Lean 4 proofs (validate accepts iff well-formed; version comparison is a numeric total order; gate and #require decision logic) + fault-catalogue correspondence',
      'Kernel-checked theorems: the model validator accepts a definition iff it is well-formed in the declarative sense of the '
      'property (sections, keywords, macro/instruction names, declared sets and registers, counts, non-inverted ranges, zones inside '
      'the address space and GLOBAL); version comparison is a total order comparing release numbers as numbers with pre-releases '
      'before the release; the min_version gate holds iff minSupported <= required <= running; #require is honoured iff name and '
      'comparison hold. Each run drives the real CLI with well-formed generated definitions (all accepted) and every single-fault '
      'corruption of the catalogue (all rejected), version strings where numeric and lexical order differ, and #require lines; the '
      'abstraction given to the model is extracted from the final definition, not from the injected fault.',
      NOTE + ' PyYAML and packaging.version are modelled (release numbers + a/b/rc); configuration errors outside the named checks are outside the catalogue.')

claim('C18', 'Lean 4 proofs about the model scanner (whitespace / comment / blank-line / case / label-placement / compound-line invariance) + metamorphic correspondence on the real CLI',
      'PARTIAL. Kernel-checked theorems about the hand-written model scanner: tokens are recovered whatever the amount and kind of '
      'whitespace between them; comments, blank lines and indentation contribute nothing; mnemonics and registers are case-folded, other '
      'identifiers kept; a quoted literal is one token whatever it contains (; , : blanks, mnemonics); a label splits off as its own statement; a line is split where the next mnemonic starts; the program is the '
      'concatenation of its lines; the parser that feeds the layout model drops comments outside literals only, ignores surrounding '
      'blanks, and reads `name: rest` as the label followed by the statements of `rest`; rendering `.org N` / `.byte N` with any decimal numeral N, and any list of statements of a small fragment, and parsing the text again gives the statements back (text_* theorems). The real code uses Python '
      'regular expressions for this: they are modelled, not verified. The tie is '
      'checked on every run: each generated program is rendered in one canonical and three random layouts (all listed rewrites at '
      'random positions) and all must give the same image on the real CLI (the property itself), and the text re-rendered from the '
      'model scanner\'s statement list must give that image too.',
      NOTE + ' Runtime behaviour the model cannot exhibit: Python re on the real patterns. A data directive is always last on its line.',
      category='proof')

claim('C14', 'Lean 4 proofs (fail-closed run function, error propagation, no false success, bounded image iteration) + corruption-stream observation with watchdog and sentinel files',
      'PARTIAL. Kernel-checked theorems on the model: a failed assembly leaves the file system unchanged and reports failure, a '
      'successful one writes exactly the image and nothing else; an error of any line (unresolvable label, value that does not fit, '
      'no accepting variant, unknown instruction) makes the whole assembly fail, whether that line is muted or not (an accepted '
      'program has built the bytes of every line); the image is a bounded iteration on which a zero-length '
      'line has no influence; every model function is total (fuel-indexed ones never exhaust their fuel: C07, C09). Observed, not proved: '
      'that the Python process terminates (watchdog 5 s + one retry at 60 s) and that nothing fails after the image was written '
      '(output file pre-created with sentinel content in half of the cases). Each run feeds single and double corruptions of valid '
      'programs (incl. zero-length directives anywhere and very long tokens) and single injected mandatory faults to the real CLI.',
      NOTE + ' Runtime behaviour the model cannot exhibit: process termination, OS file-system effects.')
claim('C15', 'Lean 4 proofs (order-insensitivity of every consumer of a hash-ordered collection) + static set-iteration scan + multi-hash-seed subprocess runs',
      'PARTIAL. Kernel-checked theorems: operand acceptance, operand-set matching, variant selection and label lookup are invariant '
      'under permutation of the register collection; locating an included file and the de-duplicated directory collection are '
      'invariant under permutation of the include directories. That these are the only hash-ordered collections the assembler '
      'iterates is established on every run by an AST scan of /repo/src/bespokeasm/assembler (new set-iteration sites break the '
      'correspondence) and by assembling each generated case in real subprocesses under several PYTHONHASHSEED values, both -I orders, '
      'two working directories and a scrubbed environment: image, listing, hex, Intel HEX and compact hex must be byte-identical.',
      NOTE + ' Runtime behaviour the model cannot exhibit: CPython hash randomisation, environment, working directory.')

claim('C20', 'Lean 4 proofs about a backtracking regex-matcher model (\\b-delimited word alternation takes exactly the vocabulary words, all-or-nothing, order-independent; rule-order classification = membership) + structural validation of the really generated packages',
      'PARTIAL. Kernel-checked theorems on the model matcher: a \\b-delimited alternation of plain words takes a plain word completely iff '
      'the word is in the list (case-insensitively for instructions/registers, exactly for predefined names), never takes only part of it '
      '("#ifdef" is not "if"+"def"), and the outcome is independent of the order of the alternatives (hash order of Python sets); classifying '
      'by the rules in grammar order equals membership in the configured vocabularies. Tested, not proved, on every run: the packages the real '
      'CLI generates (VS Code and Sublime) parse as JSON / YAML / plist / zip, contain no ##TOKEN## placeholder, their vocabulary alternations '
      'equal the configured sets, and probe words (vocabulary, prefixes, extensions, case variants, directives) are classified by Python re on '
      'the generated patterns in rule order exactly as the model and the membership spec say.',
      NOTE + ' Runtime behaviour the model cannot exhibit: json/yaml/plistlib/zipfile writers; Python re on the generated patterns (validated per probe).',
      category='proof')
