# property claims (exec'd by mkmanifest.py)
