"""Shared pieces of the layout properties (C02-C06, C11, C17): run a structured program through the
real CLI and through the Lean `asm` op and compare acceptance + image."""
import random

import impl
import proggen as P
from core import Verdict


def render(case):
    r = random.Random(case['seed'])
    out = {}
    for i, f in enumerate(case['files']):
        out[case.get('names', {}).get(str(i), 'main.asm' if i == 0 else f'inc{i}.asm')] = P.render_file(r, f)
    return out


def to_impl(case):
    kw = {}
    if case.get('include_dirs'):
        kw['include_dirs'] = case['include_dirs']
    return impl.compile_case(P.make_isa(case['cfg']), render(case), start=case.get('start', 0), end=case.get('end'),
                             fill=case.get('fill', 0), **kw)


def to_model(case):
    """[structured program, the very source text]: the second request goes through the Lean front end (Model/Parse)"""
    files = render(case)
    return [P.to_model_request(case['cfg'], case['files'], case.get('start', 0), case.get('end'), case.get('fill', 0)),
            P.to_text_request(case['cfg'], list(files.items()), case.get('start', 0), case.get('end'), case.get('fill', 0))]


def split(mrs):
    return (mrs[0], mrs[1]) if isinstance(mrs, list) else (mrs, None)


def text_route_disagrees(case, mr, mt):
    """model-side tie: the rendered text, parsed by the model's front end, is the program the structured route assembles"""
    if mt is None or mt.get('err') == 'badDirective' and 'err' in mr:
        return None
    if ('err' in mr) != ('err' in mt) or mr.get('image') != mt.get('image'):
        return {'verdict': Verdict.CORR, 'tags': ['text-route-differs'],
                'detail': f'model front end: text route {mt.get("err") or mt.get("image")} != structured route '
                          f'{mr.get("err") or mr.get("image")}; files={render(case)!r}'[:1600]}
    return None


def base_judge(case, ir, mr, tags=None, mt=None):
    """returns (verdict dict or None if agree, actual bytes, info)"""
    tags = tags if tags is not None else []
    bad = text_route_disagrees(case, mr, mt)
    if bad:
        return bad, None, bad['detail']
    if mt is not None:
        tags.append('text-route=structured-route')
    files = render(case)
    det = f'start={case.get("start", 0)} end={case.get("end")} fill={case.get("fill", 0)} files={files!r}'[:1500]
    actual = impl.fbytes(ir, 'out.bin') if ir['status'] == 'ok' else None
    if ir['status'] == 'timeout':
        return {'verdict': Verdict.VIOLATION, 'detail': 'no termination; ' + det, 'tags': tags}, None, det
    if 'err' in mr:
        tags.append('rejected:' + mr['err'])
        if actual is None:
            return None, None, det
        return {'verdict': Verdict.VIOLATION, 'tags': tags,
                'detail': f'model/spec rejects ({mr["err"]}) but the real code assembled {actual.hex()[:80]}; ' + det}, actual, det
    tags.append('assembled')
    if actual is None:
        return {'verdict': Verdict.VIOLATION, 'tags': tags,
                'detail': f'model/spec assembles, real code rejects: {str(ir.get("msg"))[:200]}; ' + det}, None, det
    img = bytes(mr['image'])
    if actual != img:
        return {'verdict': Verdict.VIOLATION, 'tags': tags,
                'detail': f'actual={actual.hex()[:200]} model={img.hex()[:200]}; ' + det}, actual, det
    return None, actual, det
