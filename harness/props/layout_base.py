"""Shared pieces of the layout properties (C02-C06, C11, C17): run a structured program through the
real CLI and through the Lean `asm` op and compare acceptance + image."""
import random

import impl
import proggen as P
from core import Verdict


def render(case):
    r = random.Random(case['seed'])
    out = {}
    for i, f in enumerate(case['files']):
        out[case.get('names', {}).get(str(i), 'main.asm' if i == 0 else f'inc{i}.asm')] = P.render_file(r, f)
    return out


def to_impl(case):
    kw = {}
    if case.get('include_dirs'):
        kw['include_dirs'] = case['include_dirs']
    return impl.compile_case(P.make_isa(case['cfg']), render(case), start=case.get('start', 0), end=case.get('end'),
                             fill=case.get('fill', 0), **kw)


def to_model(case):
    return P.to_model_request(case['cfg'], case['files'], case.get('start', 0), case.get('end'), case.get('fill', 0))


def base_judge(case, ir, mr, tags=None):
    """returns (verdict dict or None if agree, actual bytes, info)"""
    tags = tags if tags is not None else []
    files = render(case)
    det = f'start={case.get("start", 0)} end={case.get("end")} fill={case.get("fill", 0)} files={files!r}'[:1500]
    actual = impl.fbytes(ir, 'out.bin') if ir['status'] == 'ok' else None
    if ir['status'] == 'timeout':
        return {'verdict': Verdict.VIOLATION, 'detail': 'no termination; ' + det, 'tags': tags}, None, det
    if 'err' in mr:
        tags.append('rejected:' + mr['err'])
        if actual is None:
            return None, None, det
        return {'verdict': Verdict.VIOLATION, 'tags': tags,
                'detail': f'model/spec rejects ({mr["err"]}) but the real code assembled {actual.hex()[:80]}; ' + det}, actual, det
    tags.append('assembled')
    if actual is None:
        return {'verdict': Verdict.VIOLATION, 'tags': tags,
                'detail': f'model/spec assembles, real code rejects: {str(ir.get("msg"))[:200]}; ' + det}, None, det
    img = bytes(mr['image'])
    if actual != img:
        return {'verdict': Verdict.VIOLATION, 'tags': tags,
                'detail': f'actual={actual.hex()[:200]} model={img.hex()[:200]}; ' + det}, actual, det
    return None, actual, det
