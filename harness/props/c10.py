"""C10 — a macro assembles to exactly its expanded instruction sequence."""
import random

import gen
import impl
import leanio
from core import Verdict

RULE = ('generated ISAs with instructions of whole-byte and non-whole-byte widths (4-bit opcode + 8-bit argument), '
        'relative-address instructions measured from the start and from the end (with min/max), indirect and register '
        'operands, and a macro with 1..3 variants x 1..4 steps using @ARG / @REG / @OP placeholders (also unfillable ones); '
        'programs with 1..2 invocations whose operands are numbers, constants, backward and forward labels; checked: '
        '(a) metamorphic on the real code: program with invocations vs the hand-expanded program -> identical images (bytes and '
        'addresses of following labels), (b) bytes of each invocation vs the model (impl loop and step-wise spec); '
        'non-trivial = >= 2 steps with a non-whole-byte or address-relative step; distinct by hash')
EXPLANATION = ('Theorems in Props/C10.lean: the step loop with running address equals assembling the expanded statements at '
               'prefix-sum addresses; size = sum of step sizes; selection by the instruction matching rules. '
               'Correspondence: real CLI vs model, and expanded vs unexpanded on the real CLI.')
ASSUMPTIONS = ['@ARG(n) inside a larger expression is generated only for atomic argument texts (substitution is textual)',
               '@OP(n) is generated only for macro variants without empty operands']
REGS = ['a', 'b', 'sp']


def isa_base(rng, de):
    little = de == 'little'
    fld = lambda v, n: {'v': v, 'n': n, 'little': little}  # noqa
    osets = {
        'imm8': {'operand_values': {'i8': {'type': 'numeric', 'argument': {'size': 8, 'byte_align': True}}}},
        'imm8u': {'operand_values': {'i8u': {'type': 'numeric', 'argument': {'size': 8, 'byte_align': False}}}},
        'imm16': {'operand_values': {'i16': {'type': 'numeric', 'argument': {'size': 16, 'byte_align': True}}}},
        'regs': {'operand_values': {f'r_{r}': {'type': 'register', 'register': r, 'bytecode': {'value': i + 1, 'size': 2}}
                                    for i, r in enumerate(REGS)}},
        'rega': {'operand_values': {'only_a': {'type': 'register', 'register': 'a', 'bytecode': {'value': 1, 'size': 2}}}},
        'ind16': {'operand_values': {'in16': {'type': 'indirect_numeric', 'argument': {'size': 16, 'byte_align': True}}}},
        'rel8': {'operand_values': {'rl8': {'type': 'relative_address', 'argument': {'size': 8, 'byte_align': True}}}},
        'def16': {'operand_values': {'df16': {'type': 'deferred_numeric', 'argument': {'size': 16, 'byte_align': True}}}},
        # one instruction, two addressing modes told apart by a 2-bit code: [x] and [[x]]
        'mem': {'operand_values': {'m_in': {'type': 'indirect_numeric', 'bytecode': {'value': 1, 'size': 2}, 'argument': {'size': 16, 'byte_align': True}},
                                   'm_df': {'type': 'deferred_numeric', 'bytecode': {'value': 2, 'size': 2}, 'argument': {'size': 16, 'byte_align': True}}}},
        'rel8e': {'operand_values': {'rl8e': {'type': 'relative_address', 'argument': {'size': 8, 'byte_align': True, 'min': -100, 'max': 100},
                                              'offset_from_instruction_end': True}}},
        # register + offset between brackets: @REG is the register, @ARG the offset expression
        'ixr': {'operand_values': {f'x_{r}': {'type': 'indirect_register', 'register': r, 'bytecode': {'value': i + 1, 'size': 2},
                                              'offset': {'size': 8, 'byte_align': True}} for i, r in enumerate(['sp', 'a'])}},
    }
    A8 = {'n': 8, 'align': True, 'little': little}
    A8u = {'n': 8, 'align': False, 'little': little}
    A16 = {'n': 16, 'align': True, 'little': little}
    msets = {
        'imm8': [{'id': 'i8', 't': 'numeric', 'arg': A8}],
        'imm8u': [{'id': 'i8u', 't': 'numeric', 'arg': A8u}],
        'imm16': [{'id': 'i16', 't': 'numeric', 'arg': A16}],
        'regs': [{'id': f'r_{r}', 't': 'register', 'r': r, 'code': {'v': i + 1, 'n': 2}} for i, r in enumerate(REGS)],
        'rega': [{'id': 'only_a', 't': 'register', 'r': 'a', 'code': {'v': 1, 'n': 2}}],
        'ind16': [{'id': 'in16', 't': 'indirect_numeric', 'arg': A16}],
        'rel8': [{'id': 'rl8', 't': 'relative_address', 'arg': A8}],
        'def16': [{'id': 'df16', 't': 'deferred_numeric', 'arg': A16}],
        'mem': [{'id': 'm_in', 't': 'indirect_numeric', 'code': {'v': 1, 'n': 2}, 'arg': A16},
                {'id': 'm_df', 't': 'deferred_numeric', 'code': {'v': 2, 'n': 2}, 'arg': A16}],
        'rel8e': [{'id': 'rl8e', 't': 'relative_address', 'arg': A8, 'min': -100, 'max': 100, 'fromEnd': True}],
        'ixr': [{'id': f'x_{r}', 't': 'indirect_register', 'r': r, 'code': {'v': i + 1, 'n': 2}, 'offset': A8}
                for i, r in enumerate(['sp', 'a'])],
    }
    defs = [('nop', 0xEA, 8, []), ('ldn', 0x3, 4, ['imm8u']), ('ldi', 0x11, 8, ['regs', 'imm8']), ('ldw', 0x22, 8, ['imm16']),
            ('jr', 0x40, 8, ['rel8']), ('jre', 0x41, 8, ['rel8e']), ('st', 0x50, 8, ['ind16']), ('inc', 0x7, 6, ['regs']),
            ('mv', 0x9, 4, ['regs', 'regs']), ('ldd', 0x60, 8, ['def16']), ('lda', 0x2A, 6, ['mem']),
            ('ldx', 0x2B, 6, ['ixr'])]
    instrs_y, instrs_m = {}, []
    for mn, opc, n, sets in defs:
        y = {'bytecode': {'value': opc, 'size': n}}
        m = {'opcode': fld(opc, n)}
        if sets:
            y['operands'] = {'count': len(sets), 'operand_sets': {'list': sets}}
            m['count'] = len(sets)
            m['sets'] = {'sets': [msets[s] for s in sets]}
        instrs_y[mn] = y
        instrs_m.append({'mn': mn, 'variants': [m]})
    return osets, msets, instrs_y, instrs_m


# step templates by the operand kind they need: (text template, mnemonic, [tforms])
def steps_for(rng, kinds):
    """kinds: list of operand kinds of the macro variant ('num', 'reg', 'ind'); returns list of (text, model step)"""
    cat = []
    for n, k in enumerate(kinds):
        A, R, O = f'@ARG({n})', f'@REG({n})', f'@OP({n})'
        if k == 'def':
            # a deferred operand handed on as a whole (@OP keeps both bracket levels) or by its inner expression (@ARG)
            cat += [(f'ldd {O}', {'mn': 'ldd', 'ops': [{'t': 'op', 'n': n}]}),
                    (f'lda {O}', {'mn': 'lda', 'ops': [{'t': 'op', 'n': n}]}),
                    (f'lda {O}', {'mn': 'lda', 'ops': [{'t': 'op', 'n': n}]}),
                    (f'ldw {A}', {'mn': 'ldw', 'ops': [{'t': 'arg', 'n': n}]}),
                    (f'st [{A}]', {'mn': 'st', 'ops': [{'t': 'indArg', 'n': n}]}),
                    (f'lda [{A}]', {'mn': 'lda', 'ops': [{'t': 'indArg', 'n': n}]})]
            continue
        if k == 'ixr':
            # `[reg + offset]`: the operand as a whole, its register, its offset - the offset also as the right-hand
            # operand of a product (the substitution is textual: `2*@ARG(n)` with the offset text `3` is `2*3`)
            cat += [(f'ldx {O}', {'mn': 'ldx', 'ops': [{'t': 'op', 'n': n}]}),
                    (f'ldx [{R} + 2*{A}]', {'mn': 'ldx', 'ops': [{'t': 'indRegArgMul', 'n': n, 'k': 2}]}),
                    (f'ldx [{R} + 3 * {A}]', {'mn': 'ldx', 'ops': [{'t': 'indRegArgMul', 'n': n, 'k': 3}]}),
                    (f'ldx [{R}+1*{A}]', {'mn': 'ldx', 'ops': [{'t': 'indRegArgMul', 'n': n, 'k': 1}]}),
                    (f'ldw {A}', {'mn': 'ldw', 'ops': [{'t': 'arg', 'n': n}]}),
                    (f'ldn {A}', {'mn': 'ldn', 'ops': [{'t': 'arg', 'n': n}]}),
                    (f'inc {R}', {'mn': 'inc', 'ops': [{'t': 'reg', 'n': n}]})]
            continue
        if k in ('num', 'ind'):
            cat += [(f'ldw {A}', {'mn': 'ldw', 'ops': [{'t': 'arg', 'n': n}]}),
                    (f'ldn {A}', {'mn': 'ldn', 'ops': [{'t': 'arg', 'n': n}]}),
                    (f'st [{A}]', {'mn': 'st', 'ops': [{'t': 'indArg', 'n': n}]}),
                    (f'ldw {A} + 1', {'mn': 'ldw', 'ops': [{'t': 'argPlus', 'n': n, 'k': 1}]}),
                    (f'jr {A}', {'mn': 'jr', 'ops': [{'t': 'arg', 'n': n}]}),
                    (f'jre {A}', {'mn': 'jre', 'ops': [{'t': 'arg', 'n': n}]}),
                    (f'ldi a, {A}', {'mn': 'ldi', 'ops': [{'t': 'fixed', 'form': {'f': 'plain', 'e': ('label', 'a')}}, {'t': 'arg', 'n': n}]})]
            if k == 'num':
                cat += [(f'ldw {O}', {'mn': 'ldw', 'ops': [{'t': 'op', 'n': n}]})]
            else:
                cat += [(f'st {O}', {'mn': 'st', 'ops': [{'t': 'op', 'n': n}]})]
            if rng.random() < 0.15:
                cat += [(f'inc {R}', {'mn': 'inc', 'ops': [{'t': 'reg', 'n': n}]})]          # unfillable
        else:
            cat += [(f'inc {R}', {'mn': 'inc', 'ops': [{'t': 'reg', 'n': n}]}),
                    (f'ldi {R}, 5', {'mn': 'ldi', 'ops': [{'t': 'reg', 'n': n}, {'t': 'fixed', 'form': {'f': 'plain', 'e': ('num', 5)}}]}),
                    (f'inc {O}', {'mn': 'inc', 'ops': [{'t': 'op', 'n': n}]}),
                    (f'mv {R}, b', {'mn': 'mv', 'ops': [{'t': 'reg', 'n': n}, {'t': 'fixed', 'form': {'f': 'plain', 'e': ('label', 'b')}}]})]
            if rng.random() < 0.15:
                cat += [(f'ldw {A}', {'mn': 'ldw', 'ops': [{'t': 'arg', 'n': n}]})]          # unfillable
    cat += [('nop', {'mn': 'nop', 'ops': []}), ('ldn 7', {'mn': 'ldn', 'ops': [{'t': 'fixed', 'form': {'f': 'plain', 'e': ('num', 7)}}]})]
    if rng.random() < 0.08:
        cat += [('ldw @ARG(7)', {'mn': 'ldw', 'ops': [{'t': 'arg', 'n': 7}]})]
    k = rng.choice([0, 1, 1, 2, 2, 3, 3, 4, 4, 1, 2, 3])     # also a variant that expands to nothing at all
    return [rng.choice(cat) for _ in range(k)]


def gen_case(rng, tier):
    de = rng.choice(['big', 'little'])
    osets, msets, instrs_y, instrs_m = isa_base(rng, de)
    little = de == 'little'
    nvar = rng.choice([1, 1, 2, 3])
    mac_y, mac_m, var_kinds = [], [], []
    overlap = rng.random() < 0.15
    if overlap:
        nvar = rng.choice([2, 3])
    for vi in range(nvar):
        kinds = [rng.choice(['num', 'reg', 'ind', 'num', 'reg', 'ind', 'def', 'ixr']) for _ in range(rng.choice([0, 1, 1, 2]))]
        if overlap:
            # a special case first (register a only), the general form (any register) after it: which one an invocation
            # gets depends on the definition order only, never on what was invoked before
            kinds = [['rega'], ['reg'], ['num']][vi]
        sets = [{'num': 'imm16', 'reg': 'regs', 'ind': 'ind16', 'rega': 'rega', 'def': 'def16', 'ixr': 'ixr'}[k] for k in kinds]
        steps = steps_for(rng, ['reg' if k == 'rega' else k for k in kinds])
        y = {'instructions': [t for t, _ in steps]}
        m = {'operands': {'opcode': {'v': 0, 'n': 1}}, 'steps': [s for _, s in steps]}
        if kinds == ['num'] and rng.random() < 0.5:
            # explicitly listed operand combination with a trailing implied (empty) operand
            steps = [st for st in steps if '@OP' not in st[0]] or [('nop', {'mn': 'nop', 'ops': []})]
            y = {'instructions': [t for t, _ in steps],
                 'operands': {'count': 2, 'specific_operands': {'sp0': {'list': {
                     'sn0': {'type': 'numeric', 'argument': {'size': 16, 'byte_align': True}},
                     'se0': {'type': 'empty', 'bytecode': {'value': 1, 'size': 1}}}}}}}
            m = {'operands': {'opcode': {'v': 0, 'n': 1}, 'count': 2,
                              'specific': [{'ops': [{'id': 'sn0', 't': 'numeric', 'arg': {'n': 16, 'align': True, 'little': little}},
                                                    {'id': 'se0', 't': 'empty', 'code': {'v': 1, 'n': 1}}]}]},
                 'steps': [st for _, st in steps]}
        elif kinds or rng.random() < 0.5:
            y['operands'] = {'count': len(kinds)}
            m['operands']['count'] = len(kinds)
            if kinds:
                y['operands']['operand_sets'] = {'list': sets}
                m['operands']['sets'] = {'sets': [msets[s] for s in sets]}
        mac_y.append(y)
        mac_m.append(m)
        var_kinds.append(kinds)
    isa = {'description': 'c10', 'general': {'address_size': 16, 'endian': de, 'registers': REGS}, 'operand_sets': osets,
           'instructions': instrs_y, 'macros': {'mac': mac_y}}
    # labels are case sensitive, mnemonics and registers are not: `Kone` / `KTWO` are different constants
    consts = {'kone': rng.randint(0, 200), 'ktwo': rng.randint(0, 60000), 'Kone': rng.randint(0, 200), 'KTWO': rng.randint(0, 60000),
              'kix': rng.randint(0, 40)}
    twin = rng.random() < 0.3
    base = rng.choice([0, 0, 16, 300])
    pre = rng.randint(0, 3)
    invs = []
    if overlap:
        twin = False
    for _ in range(2 if (twin or overlap) else rng.choice([1, 1, 2])):
        kinds = rng.choice(var_kinds)
        forms, texts, over = [], [], {}
        if overlap:
            r = gen.rcase(rng, rng.choice(['b', 'sp', 'a'] if not invs else ['a', 'a', 'b']))
            invs.append({'forms': [{'f': 'plain', 'e': ('label', r)}], 'texts': [r]})
            continue
        if twin and invs:
            # the same invocation again, its operand text differing only in letter case / blanks: same registers, other constants
            first = invs[0]
            for f, t in zip(first['forms'], first['texts']):
                e = f['e']
                if e[0] == 'label' and e[1] in ('kone', 'ktwo'):
                    e2 = ('label', {'kone': 'Kone', 'ktwo': 'KTWO'}[e[1]])
                    forms.append({'f': f['f'], 'e': e2})
                    texts.append(t.replace(e[1], e2[1]))
                elif e[0] == 'label' and e[1].lower() in REGS:
                    forms.append(f)
                    texts.append(t.swapcase())
                else:
                    forms.append(f)
                    texts.append(t if not t.startswith('[') else '[ ' + t[1:-1] + ' ]')
            invs.append({'forms': forms, 'texts': texts, 'over': first.get('over', {})})
            continue
        for pos, k in enumerate(kinds):
            if k in ('reg', 'rega'):
                r = gen.rcase(rng, 'a' if k == 'rega' else rng.choice(REGS))
                forms.append({'f': 'plain', 'e': ('label', r)})
                texts.append(r)
            elif k == 'ixr':
                r = gen.rcase(rng, rng.choice(['sp', 'a']))
                atom = rng.choice([('num', rng.choice([0, 1, 3, 5, 20, 40])), ('label', 'kix')])
                sp_ = rng.choice(['', ' '])
                forms.append({'f': 'ind', 'e': ('bin', '+', ('label', r), atom)})
                texts.append(f'[{r}{sp_}+{sp_}{atom[1]}]')
                over.setdefault('arg', {})[pos] = str(atom[1])
                over.setdefault('reg', {})[pos] = r.lower()
            else:
                atom = rng.choice([('num', rng.choice([0, 1, 5, 77, 255, 300, 4000])), ('label', 'kone'), ('label', 'ktwo'),
                                   ('label', 'start'), ('label', 'after'), ('label', 'fwd'),
                                   ('label', 'kone')] +
                                  # a character literal is an operand text too (not inside [ ]: the bracket pattern admits no quote)
                                  ([('char', rng.choice(['@', '@', '@', 'A', '#', '(', '$']))] * 4 if k == 'num' else []))
                if atom[0] == 'char' and any(f'[@ARG({pos})' in t for y in mac_y for t in y['instructions']):
                    atom = ('num', ord(atom[1]))       # a step would put the literal inside [ ]
                if twin and rng.random() < 0.7:
                    atom = rng.choice([('label', 'kone'), ('label', 'ktwo')])
                t = str(atom[1]) if atom[0] != 'char' else "'" + atom[1] + "'"
                if k == 'ind':
                    forms.append({'f': 'ind', 'e': atom})
                    texts.append(f'[{t}]')
                elif k == 'def':
                    forms.append({'f': 'ind2', 'e': atom})
                    texts.append(rng.choice([f'[[{t}]]', f'[[ {t} ]]']))
                else:
                    forms.append({'f': 'plain', 'e': atom})
                    texts.append(t)
        if rng.random() < 0.05 and forms:
            forms.pop(); texts.pop()
        invs.append({'forms': forms, 'texts': texts, 'over': over})
    return {'isa': isa, 'consts': consts, 'base': base, 'pre': pre, 'invs': invs, 'twin': twin, 'overlap': overlap,
            'model_base': {'op': 'macro', 'regs': REGS, 'gs': 0, 'ge': 65535, 'instrs': instrs_m, 'macro': mac_m},
            'templates': [[t for t in y['instructions']] for y in mac_y], 'seed': rng.randrange(1 << 30)}


def generate(rng, tier):
    n = 300 if tier == 'quick' else 6000
    # + whole programs in which macro invocations stand among labels, relative jumps and data (model: `asm` op with `isa`
    # statements - sizes reserved in the first pass from selection alone, labels behind the invocation placed accordingly)
    from props import isa_prog as IP
    return [gen_case(rng, tier) for _ in range(n)] + [IP.gen_case(rng, tier) for _ in range(n // 3)]


def program(case, expansions=None):
    lines = [f'{k} = {v}' for k, v in case['consts'].items()]
    if case['base']:
        lines.append(f'.org {case["base"]}')
    lines.append('start:')
    lines += ['nop'] * case['pre']
    for i, inv in enumerate(case['invs']):
        if expansions is None:
            lines.append('mac' + (' ' + ', '.join(inv['texts']) if inv['texts'] else ''))
        else:
            lines += expansions[i]
        if i == 0:
            lines.append('after:')
    lines += ['.2byte after, fwd', 'nop', 'fwd:', '.byte 1']
    return '\n'.join(lines) + '\n'


def to_impl(case):
    if case.get('kind') == 'isa-program':
        from props import isa_prog as IP
        return IP.to_impl(case)
    return impl.compile_case(case['isa'], {'main.asm': program(case)}, start=case['base'])


def to_model(case):
    if case.get('kind') == 'isa-program':
        from props import isa_prog as IP
        return IP.to_model(case)
    # first pass with a dummy environment: selection, step count and sizes do not depend on values
    env = [[k, v] for k, v in case['consts'].items()] + [['start', 0], ['after', 0], ['fwd', 0]]
    return [dict(case['model_base'], env=env, addr=0, forms=inv['forms']) for inv in case['invs']]


def arg_text(form_text):
    t = form_text.strip()
    while t.startswith('['):
        t = t[1:-1].strip()
    return t


def expand_text(case, inv, variant):
    out = []
    for tpl in case['templates'][variant]:
        s = tpl
        over = inv.get('over') or {}
        for n, t in enumerate(inv['texts']):
            a = (over.get('arg') or {}).get(n, (over.get('arg') or {}).get(str(n), arg_text(t)))
            r = (over.get('reg') or {}).get(n, (over.get('reg') or {}).get(str(n), t.strip().lower()))
            s = s.replace(f'@ARG({n})', a).replace(f'@REG({n})', r).replace(f'@OP({n})', t)
        out.append(s)
    return out


def judge(case, ir, mrs):
    if case.get('kind') == 'isa-program':
        from props import isa_prog as IP
        return IP.judge(case, ir, mrs, 'C10')
    tags = ['invocations=%d' % len(case['invs'])] + (['case-twin-invocations'] if case.get('twin') else []) + \
        (['overlapping-macro-variants'] if case.get('overlap') else [])
    det = f'asm={program(case)!r} macros={case["isa"]["macros"]}'[:1500]
    if ir['status'] == 'timeout':
        return {'verdict': Verdict.VIOLATION, 'detail': 'no termination; ' + det, 'tags': tags}
    actual = impl.fbytes(ir, 'out.bin') if ir['status'] == 'ok' else None
    if any('err' in m['exp'] or m['exp'].get('sizes') is None for m in mrs):
        tags.append('rejected:expansion')
        if actual is not None:
            return {'verdict': Verdict.VIOLATION, 'tags': tags, 'detail': f'spec rejects the invocation ({[m["exp"] for m in mrs]}) but assembled {actual.hex()}; ' + det}
        return {'verdict': Verdict.OK, 'nontrivial': True, 'tags': tags, 'detail': det[:300]}
    # sizes come from the selection alone (no value is evaluated)
    sizes = []
    for m in mrs:
        sz = m['exp'].get('sizes')
        sizes.append(sum(sz) if sz is not None else None)
    expansions = [expand_text(case, inv, m['exp']['variant']) for inv, m in zip(case['invs'], mrs)]
    # metamorphic: the hand-expanded program on the real code
    ir2 = impl.run_one(impl.compile_case(case['isa'], {'main.asm': program(case, expansions)}, start=case['base']), timeout=10)
    exp_img = impl.fbytes(ir2, 'out.bin') if ir2['status'] == 'ok' else None
    if (exp_img is None) != (actual is None) or exp_img != actual:
        return {'verdict': Verdict.VIOLATION, 'tags': tags,
                'detail': f'macro program: {actual.hex() if actual is not None else str(ir.get("msg"))[:150]!r} but hand-expanded program '
                          f'{expansions}: {exp_img.hex() if exp_img is not None else str(ir2.get("msg"))[:150]!r}; ' + det}
    if actual is None:
        tags.append('both-rejected')
        return {'verdict': Verdict.OK, 'nontrivial': False, 'tags': tags, 'detail': det[:300]}
    # model with the real label values: derive the addresses from the real image layout
    # (the image is start..fwd; the tail is ".2byte after, fwd / nop / fwd: .byte 1" = 6 bytes)
    total = len(actual)
    fwd = case['base'] + total - 1
    body = total - 6 - case['pre']
    # second pass needs per-invocation sizes: take them from the first pass when available, else from the image
    if None in sizes:
        return {'verdict': Verdict.VIOLATION, 'tags': tags, 'detail': 'spec: some step matches no instruction variant, yet the real code assembles; ' + det}
    if sum(sizes) != body:
        return {'verdict': Verdict.VIOLATION, 'tags': tags,
                'detail': f'macro invocations occupy {body} bytes in the image, spec sizes {sizes}; ' + det}
    a0 = case['base'] + case['pre']
    after = a0 + sizes[0]
    env = [[k, v] for k, v in case['consts'].items()] + [['start', case['base']], ['after', after], ['fwd', fwd]]
    addrs = [a0] + ([a0 + sizes[0]] if len(sizes) > 1 else [])
    m2 = leanio.run_driver([dict(case['model_base'], env=env, addr=a, forms=inv['forms']) for a, inv in zip(addrs, case['invs'])], procs=1)
    off = case['pre']
    for m, sz in zip(m2, sizes):
        got = list(actual[off:off + sz])
        if 'err' in m:
            return {'verdict': Verdict.CORR, 'tags': tags, 'detail': f'model rejects ({m["err"]}) what the real code assembles to {got}; ' + det}
        spec_bytes = [b for s in m['spec']['steps'] for b in s]
        if got != spec_bytes:
            return {'verdict': Verdict.VIOLATION, 'tags': tags, 'detail': f'invocation bytes {got} != expansion spec {spec_bytes}; ' + det}
        if m['bytes'] != spec_bytes:
            return {'verdict': Verdict.CORR, 'tags': tags, 'detail': f'model impl {m["bytes"]} != spec {spec_bytes}; ' + det}
        off += sz
    steps_all = [s for e in expansions for s in e]
    odd = any(s.startswith(('ldn', 'inc', 'mv', 'jr', 'jre')) for s in steps_all)
    tags.append('assembled')
    return {'verdict': Verdict.OK, 'nontrivial': len(steps_all) >= 2 and odd, 'tags': tags, 'detail': det[:300]}
