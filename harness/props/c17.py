"""C17 — including a file is equivalent to assembling its text in place."""
import copy
import random
import re

import impl
import proggen as P
from core import Verdict
from props import layout_base as LB

RULE = ('generated programs split into 2..4 files at line boundaries (nested includes, files in 1..3 include directories incl. '
        'the same directory given twice and through a symlink): (a) every split program, real CLI vs model (fresh file scope, '
        'included file starts in GLOBAL / unmuted / with its own condition stack, includer state continues); (b) metamorphic on '
        'the real code for scope-neutral programs (global labels only, GLOBAL zone only): split image == unsplit image; '
        '(c) rejection cases: direct / diamond / nested double inclusion, missing file, name found in two directories; '
        'non-trivial = assembled split program with >= 2 files, or a rejection case; distinct by hash')
EXPLANATION = ('Theorems in Props/C17.lean: included lines carry the included file\'s own scope, a file opened twice or missing is '
               'rejected, the includer resumes with unchanged region / zone / mute / condition state, payload-only files read as if '
               'pasted, directory search is order independent. Correspondence: accept/reject + image.')
ASSUMPTIONS = ['os.path.exists / realpath are trusted (directory search is modelled on the set of hit directories)']
to_model = LB.to_model


def split_files(rng, stmts, maxfiles):
    """split a statement list into a tree of files; returns list of files (0 = main) with include stmts"""
    files = [list(stmts)]
    for _ in range(rng.randint(1, maxfiles - 1)):
        host = rng.randrange(len(files))
        f = files[host]
        body = [i for i, s in enumerate(f)]
        if len(f) < 2:
            continue
        a = rng.randrange(len(f))
        b = rng.randint(a + 1, len(f))
        chunk = f[a:b]
        idx = len(files)
        files.append(chunk)
        files[host] = f[:a] + [{'k': 'include', 'f': idx, 'name': f'inc{idx}.asm'}] + f[b:]
    return files


def neutral(stmts):
    for s in stmts:
        if s['k'] == 'label' and (s['name'].startswith('.') or s['name'].startswith('_')):
            return False
        if s['k'] in ('memzone', 'mute', 'unmute', 'createZone') or (s['k'] == 'org' and s.get('zone')):
            return False
    return True


def gen_case(rng, tier):
    r = rng.random()
    cfg = P.gen_cfg(rng, zones=rng.random() < 0.4, bits=16)
    if r < 0.75:
        neutral_only = rng.random() < 0.5
        w = {'label': 4, 'data': 5, 'instr': 4, 'const': 1.5, 'org': 0.5, 'memzone': 0.0 if neutral_only else 0.8,
             'fill': 1, 'zerountil': 0.3, 'align': 0.5, 'mute': 0.0 if neutral_only else 0.5, 'createZone': 0.0 if neutral_only else 0.3}
        stmts = P.gen_program(rng, cfg, n_stmts=rng.randint(5, 14), weights=w, allow_bad=0.02)
        if neutral_only:
            for s in stmts:
                if s['k'] == 'label' and s['name'].startswith(('.', '_')):
                    s['name'] = 'g' + s['name'].replace('.', 'l').replace('_', 'f', 1)
            # references follow the renaming

            def ren(t):
                if t[0] == 'label' and t[1].startswith(('.', '_')):
                    return ('label', 'g' + t[1].replace('.', 'l').replace('_', 'f', 1))
                return tuple(ren(c) if isinstance(c, tuple) else c for c in t)
            for s in stmts:
                if s['k'] == 'data':
                    s['vals'] = [ren(v) for v in s['vals']]
                elif s['k'] == 'instr':
                    s['args'] = [[ren(a[0]), a[1]] for a in s['args']]
                elif s['k'] in ('fill',):
                    s['cnt'], s['val'] = ren(s['cnt']), ren(s['val'])
                elif s['k'] == 'zerountil':
                    s['a'] = ren(s['a'])
                elif s['k'] == 'org':
                    s['e'] = ren(s['e'])
                elif s['k'] == 'const':
                    s['e'] = ren(s['e'])
        files = split_files(rng, stmts, rng.choice([2, 2, 3, 4]))
        case = {'kind': 'split', 'cfg': cfg, 'files': files, 'unsplit': stmts if neutral(stmts) else None}
    else:
        kind = rng.choice(['twice-direct', 'diamond', 'nested-twice', 'missing', 'two-dirs', 'same-dir-twice', 'symlink-dir',
                           'unselected-include', 'unselected-missing', 'unselected-then-selected', 'selected-include',
                           'case-twin-names', 'define-across-include', 'define-across-include'])
        d = lambda v: {'k': 'data', 'w': 1, 'vals': [('num', v)]}  # noqa
        inc = lambda i: {'k': 'include', 'f': i, 'name': f'inc{i}.asm'}  # noqa
        cfg = {'bits': 16, 'little': False, 'regs': ['ra', 'rb'], 'preZones': [], 'preConsts': [], 'preData': []}
        if kind == 'twice-direct':
            files = [[d(1), inc(1), d(2), inc(1)], [d(9)]]
        elif kind == 'diamond':
            files = [[inc(1), inc(2)], [d(1), inc(3)], [d(2), inc(3)], [d(9)]]
        elif kind == 'nested-twice':
            files = [[inc(1), d(1)], [inc(2), d(2)], [d(3), inc(1)]]
        elif kind == 'define-across-include':
            # a symbol defined in one file and tested with #ifdef / #ifndef in the other, the #define standing on a HIGHER line
            # number in its file than the test in the other file (and the other way round): "defined" means defined at that
            # point of the flattened program
            tst = {'k': 'cond', 'd': rng.choice(['ifdef', 'ifndef']), 's': 'SYM_X'}
            blk = [tst, d(0x51), {'k': 'cond', 'd': 'else'}, d(0x52), {'k': 'cond', 'd': 'endif'}]
            dfn = {'k': 'define', 'name': 'SYM_X', 'v': 1}
            pad = [d(0x10 + i) for i in range(rng.randint(2, 5))]
            shape = rng.choice(['lib-defines', 'main-defines', 'lib-defines-late-test', 'test-before-define'])
            if shape == 'lib-defines':
                files = [[inc(1)] + blk + [d(2)], pad + [dfn]]
            elif shape == 'main-defines':
                files = [pad + [dfn, inc(1), d(2)], blk]
            elif shape == 'lib-defines-late-test':
                files = [[inc(1)] + pad + pad + blk, [dfn, d(9)]]
            else:
                files = [blk + [inc(1)] + blk, pad + [dfn]]
        elif kind == 'case-twin-names':
            # two DIFFERENT files whose names differ in letter case only (also: a re-capitalisation of the main file's name):
            # each is included once, so this is no double inclusion
            n1, n2 = rng.choice([('Part.asm', 'part.asm'), ('TABLES.asm', 'tables.asm'), ('Main.asm', 'mAIN.asm')])
            files = [[d(1), {'k': 'include', 'f': 1, 'name': n1}, d(2), {'k': 'include', 'f': 2, 'name': n2}], [d(9)], [d(8), d(7)]]
            twin_names = {'0': 'main.asm', '1': n1, '2': n2}
        elif kind == 'missing':
            files = [[d(1), {'k': 'include', 'f': 7, 'name': 'nothere.asm'}]]
        elif kind == 'unselected-include':
            # an #include in an unselected branch has no effect (the file is neither read nor marked as used)
            files = [[d(1), P.COND_IF(0), inc(1), d(5), {'k': 'cond', 'd': 'endif'}, d(2)], [d(9), {'k': 'label', 'name': 'in_inc'}]]
        elif kind == 'unselected-missing':
            files = [[d(1), P.COND_IF(0), {'k': 'include', 'f': 7, 'name': 'nothere.asm'}, {'k': 'cond', 'd': 'endif'}, d(2)]]
        elif kind == 'unselected-then-selected':
            files = [[P.COND_IF(0), inc(1), {'k': 'cond', 'd': 'else'}, d(3), {'k': 'cond', 'd': 'endif'}, inc(1), d(2)], [d(9)]]
        elif kind == 'selected-include':
            files = [[d(1), P.COND_IF(1), inc(1), {'k': 'cond', 'd': 'endif'}, d(2)], [d(9)]]
        else:
            files = [[d(1), inc(1), d(2)], [d(9)]]
        case = {'kind': kind, 'cfg': cfg, 'files': files, 'unsplit': None}
        if kind == 'case-twin-names':
            case['names'] = twin_names
    if rng.random() < 0.35:
        # a preprocessor symbol named like a word of an included file's name: the directive names the file literally
        incs = [s['name'] for f in case['files'] for s in f if s['k'] == 'include']
        if incs:
            word = rng.choice(re.split(r'[.\-]', rng.choice(incs)) + ['include'])
            dfn = {'k': 'define', 'name': word}
            if rng.random() < 0.6:
                dfn['v'] = rng.choice([5, 'inc2', 'main', 'other'])
            main = case['files'][0]
            main.insert(rng.choice([0, 0, rng.randint(0, len(main))]), dfn)
            if case.get('unsplit') is not None:
                case['unsplit'] = [dfn] + case['unsplit']
    case['seed'] = rng.randrange(1 << 30)
    case['dirs'] = rng.choice([[], ['d1'], ['d1', 'd2']]) if case['kind'] == 'split' else []
    case['placement'] = {str(i): rng.choice([''] + case['dirs']) for i in range(1, len(case['files']))}
    case['start'], case['end'], case['fill'] = 0, None, 0
    return case


def generate(rng, tier):
    return [gen_case(rng, tier) for _ in range(400 if tier == 'quick' else 8000)]


def build(case, files):
    r = random.Random(case['seed'])
    texts = {}
    for i, f in enumerate(files):
        name = case.get('names', {}).get(str(i)) or ('main.asm' if i == 0 else f'inc{i}.asm')
        sub = case['placement'].get(str(i), '') if i else ''
        texts[(sub + '/' if sub else '') + name] = P.render_file(r, f)
    dirs = list(case['dirs'])
    sym = {}
    k = case['kind']
    if k == 'two-dirs':
        texts['d1/inc1.asm'] = texts['inc1.asm']
        dirs = ['d1']
    elif k == 'same-dir-twice':
        texts['d1/inc1.asm'] = texts.pop('inc1.asm')
        dirs = ['d1', 'd1', 'd1/../d1']
    elif k == 'symlink-dir':
        texts['d1/inc1.asm'] = texts.pop('inc1.asm')
        sym = {'d2': 'd1'}
        dirs = ['d1', 'd2']
    for dname in dirs:
        if not any(p.startswith(dname.split('/')[0] + '/') for p in texts) and dname not in sym:
            texts[dname.split('/')[0] + '/.keep'] = ''
    # the main file named with its full path, or bare from its own directory (which is searched for includes either way)
    c = impl.compile_case(P.make_isa(case['cfg']), texts, include_dirs=dirs, bare_main=r.random() < 0.35)
    if sym:
        c['symlinks'] = sym
    return c


def to_impl(case):
    out = [build(case, case['files'])]
    if case.get('unsplit') is not None:
        c2 = dict(case, placement={}, dirs=[], kind='unsplit')
        out.append(build(c2, [case['unsplit']]))
    return out


def judge(case, irs, mr):
    mr, mt = LB.split(mr)
    tags = ['kind=' + case['kind'], 'files=%d' % len(case['files'])]
    ir = irs[0]
    if case['kind'] in ('two-dirs',):
        # found in more than one search directory -> must be rejected (the model has one flat file table)
        if ir['status'] == 'ok':
            return {'verdict': Verdict.VIOLATION, 'tags': tags, 'detail': 'include name found in two directories was accepted'}
        return {'verdict': Verdict.OK, 'nontrivial': True, 'tags': tags, 'detail': str(ir.get('msg'))[:200]}
    bad, actual, det = LB.base_judge(dict(case, names=case.get('names') or {str(i): ('main.asm' if i == 0 else f'inc{i}.asm') for i in range(len(case['files']))}), ir, mr, tags, mt)
    if bad:
        return bad
    if case.get('unsplit') is not None and len(irs) > 1:
        tags.append('metamorphic')
        ir2 = irs[1]
        un = impl.fbytes(ir2, 'out.bin') if ir2['status'] == 'ok' else None
        if (un is None) != (actual is None) or un != actual:
            return {'verdict': Verdict.VIOLATION, 'tags': tags,
                    'detail': f'split image {actual.hex() if actual is not None else None} != unsplit image '
                              f'{un.hex() if un is not None else ir2.get("msg")}; ' + det}
    return {'verdict': Verdict.OK, 'nontrivial': case['kind'] != 'split' or actual is not None, 'tags': tags, 'detail': det[:300]}
