"""C15 — assembly is deterministic."""
import ast
import hashlib
import os
import random
import shutil
import subprocess
import tempfile
from concurrent.futures import ThreadPoolExecutor

import impl
import proggen as P
import yaml
from core import Verdict
from props import c13 as C13
from props import layout_base as LB

RULE = ('per case one program + ISA (ambiguous operand sets incl. enumeration keys that are prefixes of each other up to a '
        'non-word character, registers, multi-file programs whose includes live in several -I directories, one of them given '
        'twice under different spellings / through a symlink) assembled in REAL subprocesses (python -m bespokeasm) under '
        '4 (quick) / 16 (thorough) PYTHONHASHSEED values, both -I orders, two working directories and a scrubbed environment, '
        'once per output format; image, listing, hex, intel_hex and minhex must be byte-identical across all runs; plus a static '
        'AST scan of /repo/src/bespokeasm/assembler for iteration over set-typed values, which must be a subset of the modelled '
        'sites; non-trivial = assembled program with >= 2 files or an ambiguous operand set; distinct by hash')
EXPLANATION = ('Theorems in Props/C15.lean: operand acceptance, variant selection, label lookup and include-file location do not '
               'depend on the order of the register collection / directory collection. The claim that these are the only '
               'hash-ordered collections that matter is established by the scan and by observation.')
ASSUMPTIONS = ['run-to-run variation of CPython comes only from set / dict iteration order under hash randomisation, the environment '
               'and the working directory', 'listing "File:" headers show real paths; runs are compared within one temp directory']
PY = '/venv/bin/python'

# set-typed iteration sites of the assembler that the model accounts for (file, enclosing function)
MODELLED_SET_SITES = {
    ('assembler/assembly_file.py', '_locate_filename'),      # include_paths: exactly-one-hit semantics (locate_perm)
    ('assembler/model/__init__.py', '__init__'),             # self._registers: keyword check, order irrelevant
}


def scan_set_iteration():
    """AST scan: `for x in <set-valued>` / join / list / tuple / sorted over names assigned from set(...) / set literals /
    set-annotated parameters, inside src/bespokeasm/assembler. Returns set of (relative file, function)."""
    root = os.path.join(impl.SRC, 'bespokeasm')
    sites = set()
    for dp, dn, fn in os.walk(os.path.join(root, 'assembler')):
        for n in fn:
            if not n.endswith('.py'):
                continue
            path = os.path.join(dp, n)
            rel = os.path.relpath(path, root)
            try:
                tree = ast.parse(open(path).read())
            except SyntaxError:
                continue
            for func in ast.walk(tree):
                if not isinstance(func, (ast.FunctionDef, ast.AsyncFunctionDef)):
                    continue
                setnames = set()
                for a in func.args.args + func.args.kwonlyargs:
                    ann = ast.unparse(a.annotation) if a.annotation is not None else ''
                    if ann.startswith('set'):
                        setnames.add(a.arg)
                for node in ast.walk(func):
                    if isinstance(node, ast.Assign):
                        v = node.value
                        is_set = isinstance(v, (ast.Set, ast.SetComp)) or \
                            (isinstance(v, ast.Call) and isinstance(v.func, ast.Name) and v.func.id in ('set', 'frozenset'))
                        if is_set:
                            for t in node.targets:
                                setnames.add(ast.unparse(t))

                def is_setexpr(e):
                    s = ast.unparse(e)
                    if s in setnames or s in ('self._registers', 'self.registers', 'isa_model.registers', 'register_labels',
                                              'regsiters', 'registers', 'include_paths', 'include_dirs'):
                        return True
                    return isinstance(e, (ast.Set, ast.SetComp)) or \
                        (isinstance(e, ast.Call) and isinstance(e.func, ast.Name) and e.func.id in ('set', 'frozenset'))
                # iteration whose result cannot depend on the order: a set comprehension, or a generator / list
                # comprehension consumed directly by an order-insensitive reducer (membership tests, any / all / set ...)
                order_free = set()
                for node in ast.walk(func):
                    if isinstance(node, ast.SetComp):
                        order_free.update(id(g) for g in node.generators)
                    if isinstance(node, ast.Call) and isinstance(node.func, ast.Name) and \
                            node.func.id in ('any', 'all', 'set', 'frozenset', 'len', 'sum') and node.args and \
                            isinstance(node.args[0], (ast.GeneratorExp, ast.ListComp)):
                        order_free.update(id(g) for g in node.args[0].generators)
                for node in ast.walk(func):
                    if isinstance(node, ast.comprehension) and id(node) in order_free:
                        continue
                    if isinstance(node, (ast.For, ast.comprehension)) and is_setexpr(node.iter):
                        sites.add((rel, func.name))
                    if isinstance(node, ast.Call):
                        f = node.func
                        if isinstance(f, ast.Attribute) and f.attr == 'join' and node.args and is_setexpr(node.args[0]):
                            sites.add((rel, func.name))
                        if isinstance(f, ast.Name) and f.id in ('list', 'tuple', 'enumerate', 'next', 'iter') and node.args \
                                and is_setexpr(node.args[0]):
                            sites.add((rel, func.name))
                        # sorted(<set>, key=...) is stable: elements with equal keys keep the set's iteration order
                        if isinstance(f, ast.Name) and f.id in ('sorted', 'min', 'max') and node.args and is_setexpr(node.args[0]) \
                                and any(k.arg == 'key' for k in node.keywords):
                            sites.add((rel, func.name))
    return sites


def static_checks(tier):
    sites = scan_set_iteration()
    extra = sorted(s for s in sites if s not in MODELLED_SET_SITES)
    if extra:
        return [({'static': 'set-iteration-scan', 'new_sites': extra},
                 {'verdict': Verdict.CORR, 'detail': f'iteration over a set-typed value at sites the model does not account for: {extra}'})]
    return [({'static': 'set-iteration-scan'}, {'verdict': Verdict.OK, 'detail': f'set-iteration sites found: {sorted(sites)} (all modelled)'})]


KINDS = ['ambiguous', 'multifile', 'prefix-keys', 'same-name-in-two-dirs', 'same-type-ties', 'multifile']


def gen_case(rng, tier, kind=None, variant=0):
    kind = kind or rng.choice(KINDS)
    if kind == 'same-type-ties':
        # several alternatives of ONE operand type in a set that accept the same text: the first one listed wins - in every run
        e1 = {'zz': 1, 'nz': 2}
        e2 = {'zz': 5, 'nz': 6, 'cc': 7, 'nc': 8}
        ov = {'en_short': {'type': 'enumeration', 'bytecode': {'size': 8, 'value_dict': e1},
                           'argument': {'size': 8, 'byte_align': True, 'value_dict': {k: v + 16 for k, v in e1.items()}}},
              'en_long': {'type': 'enumeration', 'bytecode': {'size': 8, 'value_dict': e2},
                          'argument': {'size': 8, 'byte_align': True, 'value_dict': {k: v + 32 for k, v in e2.items()}}},
              'n8': {'type': 'numeric', 'bytecode': {'value': 0x20, 'size': 8}, 'argument': {'size': 8, 'byte_align': True}},
              'n16': {'type': 'numeric', 'bytecode': {'value': 0x21, 'size': 8}, 'argument': {'size': 16, 'byte_align': True}},
              'ir0': {'type': 'indirect_register', 'register': 'ra', 'bytecode': {'value': 0x30, 'size': 8}},
              'ir1': {'type': 'indirect_register', 'register': 'ra', 'bytecode': {'value': 0x31, 'size': 8},
                      'offset': {'size': 8, 'byte_align': True}}}
        items = list(ov.items())
        rng.shuffle(items)
        isa = {'description': 'c15t', 'general': {'address_size': 16, 'endian': 'big', 'registers': ['ra', 'rb']},
               'operand_sets': {'mix': {'operand_values': dict(items)}},
               'instructions': {'br': {'bytecode': {'value': 0x77, 'size': 8}, 'operands': {'count': 1, 'operand_sets': {'list': ['mix']}}}}}
        asm = ''.join(f'br {t}\n' for t in rng.sample(['zz', 'nz', 'cc', '5', '200', '[ra]', '[ra + 2]', 'nc'], 6))
        return {'kind': kind, 'isa': isa, 'files': {'main.asm': asm}, 'dirs': []}
    if kind == 'same-name-in-two-dirs':
        # an include name that exists in two search directories - as identical copies, or with different text of the same
        # length: whatever the assembler makes of it, it must make the same of it in every run and for every -I order
        cfg = P.gen_cfg(rng, zones=False, bits=16)
        body = P.render_file(random.Random(rng.randrange(1 << 30)), [{'k': 'data', 'w': 1, 'vals': [('num', rng.randint(16, 99))]}])
        other = body if variant % 2 == 0 else body.replace(body.strip()[-1], str((int(body.strip()[-1]) + 1) % 10) if body.strip()[-1].isdigit() else 'A')
        files = {'main.asm': '.byte 1\n#include "dup.asm"\n.byte 2\n', 'lib/dup.asm': body, 'other/dup.asm': other}
        return {'kind': kind, 'isa': P.make_isa(cfg), 'files': files, 'dirs': ['lib', 'other']}
    if kind == 'ambiguous':
        c = C13.gen_case(rng, tier)
        return {'kind': kind, 'isa': c['isa'], 'files': {'main.asm': c['asm']}, 'dirs': []}
    if kind == 'prefix-keys':
        keys = {'ax': 1, 'ax.l': 2, 'bx': 3, 'bx.h': 4, 'cx': 5}
        items = list(keys.items())
        rng.shuffle(items)
        isa = {'description': 'c15', 'general': {'address_size': 16, 'endian': 'big', 'registers': ['ra', 'rb']},
               'operand_sets': {'sel': {'operand_values': {'e': {'type': 'enumeration',
                                                                 'bytecode': {'size': 8, 'value_dict': dict(items)},
                                                                 'argument': {'size': 8, 'byte_align': True, 'value_dict': dict(items)}}}}},
               'instructions': {'sel': {'bytecode': {'value': 0x55, 'size': 8}, 'operands': {'count': 1, 'operand_sets': {'list': ['sel']}}}}}
        asm = ''.join(f'sel {k}\n' for k in rng.sample(list(keys), 4))
        return {'kind': kind, 'isa': isa, 'files': {'main.asm': asm}, 'dirs': []}
    cfg = P.gen_cfg(rng, zones=False, bits=16)
    stmts = P.gen_program(rng, cfg, n_stmts=rng.randint(4, 9), allow_bad=0.0,
                          weights={'org': 0.3, 'memzone': 0, 'createZone': 0, 'mute': 0.5, 'label': 2})
    inc1 = P.gen_program(rng, cfg, n_stmts=rng.randint(2, 5), allow_bad=0.0, gprefix='ga', end_label=False,
                         weights={'org': 0, 'memzone': 0, 'createZone': 0, 'align': 0, 'zerountil': 0})
    inc2 = [{'k': 'data', 'w': 1, 'vals': [('num', rng.randint(0, 255))]}]
    r = random.Random(rng.randrange(1 << 30))
    # inc3.asm stands next to main.asm: it is found through the main file's own directory, however that file is named on
    # the command line
    inc3 = [{'k': 'data', 'w': 1, 'vals': [('num', rng.randint(0, 255))]}]
    files = {'main.asm': P.render_file(r, stmts[:2] + [{'k': 'include', 'name': 'inc1.asm'}] + stmts[2:] +
                                        [{'k': 'include', 'name': 'inc2.asm'}, {'k': 'include', 'name': 'inc3.asm'}]),
             'lib/inc1.asm': P.render_file(r, inc1), 'other/inc2.asm': P.render_file(r, inc2), 'inc3.asm': P.render_file(r, inc3)}
    return {'kind': kind, 'isa': P.make_isa(cfg), 'files': files, 'dirs': ['lib', 'other', 'vendor', 'lib/../lib'],
            'symlinks': {'vendor': 'lib'}}


def generate(rng, tier):
    n = 12 if tier == 'quick' else 60
    return [gen_case(rng, tier, KINDS[i % len(KINDS)], i // len(KINDS)) for i in range(n)]     # every kind in every run


def to_impl(case):
    return {'argv': ['--version'], 'files': {}, 'collect': []}      # the real work is done in subprocesses by judge()


def to_model(case):
    return {'op': 'ping'}


def run_sub(workdir, argv, hashseed, cwd, scrub):
    env = {'PATH': '/usr/bin:/bin', 'PYTHONPATH': impl.SRC, 'PYTHONHASHSEED': str(hashseed)}
    if not scrub:
        env = dict(os.environ, **env)
    try:
        p = subprocess.run([PY, '-m', 'bespokeasm'] + argv, cwd=cwd, env=env, capture_output=True, timeout=120)
        return p.returncode, p.stdout
    except subprocess.TimeoutExpired:
        return 'timeout', b''


def judge(case, ir, mr):
    if 'static' in case:
        return static_checks('quick')[0][1]        # replay of the static scan
    tier_seeds = int(os.environ.get('VERIF_HASHSEEDS', '0')) or (16 if os.environ.get('VERIF_TIER_EFFECTIVE') == 'thorough' else 4)
    tags = ['kind=' + case['kind']]
    wd = tempfile.mkdtemp(prefix='bvd_')
    try:
        for rel, text in case['files'].items():
            p = os.path.join(wd, rel)
            os.makedirs(os.path.dirname(p), exist_ok=True)
            open(p, 'w').write(text)
            os.utime(p, (1700000000, 1700000000))      # equal time stamps: nothing may depend on when a file was written
        for rel, target in case.get('symlinks', {}).items():
            os.symlink(os.path.join(wd, target), os.path.join(wd, rel))
        open(os.path.join(wd, 'isa.yaml'), 'w').write(yaml.safe_dump(case['isa'], sort_keys=False))
        os.makedirs(os.path.join(wd, 'elsewhere'), exist_ok=True)
        jobs = []
        fmts = ['listing', 'hex', 'intel_hex', 'minhex']
        for hs in range(tier_seeds):
            for fi, fmt in enumerate(fmts):
                dirs = list(case['dirs'])
                if dirs:
                    # every rotation, forwards and backwards: each directory is the last / the first -I in some run
                    orders = []
                    for k in range(len(dirs)):
                        for o in (dirs[k:] + dirs[:k], list(reversed(dirs[k:] + dirs[:k]))):
                            if o not in orders:
                                orders.append(o)
                    dirs = orders[(hs * len(fmts) + fi) % len(orders)]
                out = os.path.join(wd, f'o_{hs}_{fmt}.bin')
                pp = os.path.join(wd, f'p_{hs}_{fmt}.txt')
                # how the main file is named on the command line carries no meaning either: absolute, bare (its directory is
                # the working directory), ./name, ../name from a sub-directory (the listing prints the name as given, so the
                # spelling varies for the other formats only)
                cwd = wd if hs % 2 == 0 else os.path.join(wd, 'elsewhere')
                main_arg = os.path.join(wd, 'main.asm')
                if fmt != 'listing':
                    main_arg, cwd = [(main_arg, cwd), ('main.asm', wd), ('./main.asm', wd),
                                     ('../main.asm', os.path.join(wd, 'elsewhere'))][(hs + fi) % 4]
                argv = ['compile', '-c', os.path.join(wd, 'isa.yaml'), main_arg, '-o', out, '-p', '-t', fmt,
                        '--pretty-print-output', pp]
                for d in dirs:
                    argv += ['-I', os.path.join(wd, d)]
                jobs.append((hs, fmt, out, pp, argv, cwd, hs % 3 == 0))
        with ThreadPoolExecutor(max_workers=min(16, os.cpu_count() or 4)) as ex:
            res = list(ex.map(lambda j: run_sub(wd, j[4], 101 + 7919 * j[0], j[5], j[6]), jobs))
        obs = {}
        for (hs, fmt, out, pp, argv, cwd, scrub), (rc, so) in zip(jobs, res):
            if rc == 'timeout':
                return {'verdict': Verdict.VIOLATION, 'tags': tags, 'detail': f'run did not terminate (hash seed {hs}, {fmt})'}
            img = open(out, 'rb').read() if os.path.exists(out) else None
            txt = open(pp, 'rb').read() if os.path.exists(pp) else None
            obs.setdefault('status', set()).add(rc)
            obs.setdefault('image', set()).add(img)
            obs.setdefault(fmt, set()).add(txt)
        det = f'kind={case["kind"]} files={ {k: v[:120] for k, v in case["files"].items()} }'[:700]
        for k, v in obs.items():
            if len(v) > 1:
                shown = [x if not isinstance(x, bytes) else hashlib.sha1(x).hexdigest()[:8] + ':' + x[:80].decode('latin-1') for x in list(v)[:2]]
                return {'verdict': Verdict.VIOLATION, 'tags': tags,
                        'detail': f'{k} differs between runs with different hash seeds / -I orders / cwd: {shown}; ' + det}
        ok = obs['status'] == {0}
        tags.append('assembled' if ok else 'rejected')
        return {'verdict': Verdict.OK, 'nontrivial': ok, 'tags': tags + [f'runs={len(jobs)}'], 'detail': det}
    finally:
        shutil.rmtree(wd, ignore_errors=True)
