"""C04 — two lines never silently occupy the same address."""
import random

import impl
import proggen as P
from core import Verdict
from props import layout_base as LB

RULE = ('generated programs placing byte lines via .org (absolute, zone-relative, aimed at the start/inside/end of earlier '
        'lines), overlapping predefined zones, .align, fills (incl. zero-length), .zerountil and predefined data blocks, in '
        'any source order; verdict of the real CLI vs (impl) adjacent-range check on the sorted list and (spec) pairwise '
        'disjointness; non-trivial = at least two occupying byte lines and an .org/zone directive; distinct by hash')
EXPLANATION = ('Theorems in Props/C04.lean: on the address-sorted list the adjacent check passes iff the occupying lines are '
               'pairwise disjoint; independent of source order; zero-length lines never matter; the sort is a stable permutation.')
ASSUMPTIONS = []


def to_model(case):
    if case.get('wide_string'):
        return {'op': 'ping'}
    return LB.to_model(case)


def to_impl(case):
    if case.get('wide_string'):
        return impl.compile_case(P.make_isa(case['cfg']), {'main.asm': case['text']})
    return _to_impl(case)


def _to_impl(case):
    if case.get('nobin'):
        # no binary image requested (-n), only a listing: an overlap is an error whatever outputs are asked for
        import impl
        return impl.compile_case(P.make_isa(case['cfg']), LB.render(case), pretty=case['nobin'], extra_argv=['-n'])
    return LB.to_impl(case)


def gen_case(rng, tier):
    cfg = P.gen_cfg(rng)
    stmts = P.gen_program(rng, cfg, allow_bad=0.02,
                          weights={'org': 5, 'fill': 3, 'zerountil': 1.5, 'label': 1, 'const': 0.5, 'mute': 0.8, 'data': 4,
                                   'instr': 3, 'memzone': 1.5, 'createZone': 0.8, 'macro': 2})
    if rng.random() < 0.25:
        # a line that emits nothing, placed between (in address order) a long line and a line that starts inside it - or just
        # behind it: the empty line neither hides the collision nor causes one
        hi = (1 << cfg['bits']) - 1
        n = rng.randint(3, 9)
        a = rng.randint(0, max(0, hi - 2 * n - 4))
        k = rng.choice([rng.randint(1, n - 1), rng.randint(1, n - 1), n, n + 1])
        empty = rng.choice([{'k': 'fill', 'cnt': ('num', 0), 'val': ('num', 7)}, {'k': 'zerountil', 'a': ('num', max(0, a + k - 1))},
                            {'k': 'fill', 'cnt': ('bin', '-', ('num', 2), ('num', 2)), 'val': ('num', 0)}])
        gadget = [{'k': 'org', 'e': ('num', a)}, {'k': 'fill', 'cnt': ('num', n), 'val': ('num', rng.randint(1, 255))},
                  {'k': 'org', 'e': ('num', a + k)}, empty, {'k': 'data', 'w': 1, 'vals': [('num', 0xAA), ('num', 0xBB)]}]
        if rng.random() < 0.3:
            gadget = gadget[2:] + gadget[:2]          # source order is irrelevant
        stmts = stmts + gadget
    if rng.random() < 0.12:
        # a string whose escapes denote characters beyond one byte: the line is as long as its character count says, and the
        # line behind it starts right there
        text = rng.choice(['5\\u20ac', '\\u20acx', 'a\\u0100b\\u20ac', '\\xff\\u00e9'])
        d = rng.choice(['.byte', '.cstr'])
        st = {'k': 'str', 'raw': text, 'text': f'{d} "{text}"'}
        if d == '.cstr':
            st['term'] = 0
        stmts = stmts + [st, {'k': 'data', 'w': 1, 'vals': [('num', 0x11), ('num', 0x22), ('num', 0x33)]}]
    nobin = rng.choice(['listing', 'intel_hex', 'hex']) if rng.random() < 0.2 else None
    return {'cfg': cfg, 'files': [stmts], 'start': 0, 'end': None, 'fill': 0, 'seed': rng.randrange(1 << 30), 'nobin': nobin}


def gen_huge(rng):
    """size: ONE line of more than 64 KiB (it covers whole 4 KiB / 64 KiB blocks of the address space) and a short line that
    lies wholly inside it, far from both of its ends - or just behind its end (the disjoint control)"""
    cfg = {'bits': rng.choice([18, 20, 24]), 'little': False, 'regs': ['ra', 'rb'], 'preZones': [], 'preConsts': [], 'preData': []}
    a = rng.choice([0x8000, 0x8000, 0xFFF0, 0x10000, 0x123])
    n = rng.choice([0x20000, 0x20000, 0x18001, 0x2FFFF])
    big = [{'k': 'org', 'e': ('num', a)}, {'k': 'fill', 'cnt': ('num', n), 'val': ('num', rng.randint(1, 255))}]
    # (a disjoint control of this size costs the model some seconds - the image is built line by line with the bytes of each
    # line in an array, `imageFastA` - so there is one in seven)
    where = rng.choice(['middle', 'middle', 'middle', 'near-start', 'near-end', 'last-byte', 'behind'])
    at = a + {'middle': rng.choice([0x10000, min(n - 8, 0x10000 + rng.randint(0, 0xFFF0)), n // 2]), 'near-start': rng.randint(0, 0x200),
              'near-end': n - rng.randint(5, 0x200), 'last-byte': n - 1, 'behind': n + rng.choice([0, 1, 0x100])}[where]
    small = [{'k': 'org', 'e': ('num', at)}, {'k': 'data', 'w': 1, 'vals': [('num', 1), ('num', 2), ('num', 3), ('num', 4)]}]
    stmts = big + small if rng.random() < 0.5 else small + big
    return {'cfg': cfg, 'files': [stmts], 'start': 0, 'end': None, 'fill': 0, 'seed': rng.randrange(1 << 30), 'huge': where}


def gen_wide_string(rng):
    """a bare embedded string with a character beyond one byte (written as an escape), followed by data: the code rejects such
    a string (fail closed); were it ever accepted, the bytes it emits must be the bytes it reserved - the statement behind it
    starts where the string (with its terminator) ends, under either plausible encoding"""
    esc, low, utf8 = rng.choice([('\\u20ac', [0xAC], [0xE2, 0x82, 0xAC]), ('\\u0100', [0x00], [0xC4, 0x80]),
                                 ('\\u0416', [0x16], [0xD0, 0x96])])
    pre, post = rng.choice(['', 'A', 'xy']), rng.choice(['', 'B', 'AB'])
    term = rng.choice([0, 0, 3])
    data = [rng.randint(1, 255) for _ in range(rng.randint(1, 4))]
    text = f'"{pre}{esc}{post}"\n.byte ' + ', '.join(str(d) for d in data) + '\n'
    ok_images = [bytes([ord(c) for c in pre] + enc + [ord(c) for c in post] + [term] + data) for enc in (low, utf8)]
    return {'wide_string': True, 'text': text, 'term': term, 'ok_images': [i.hex() for i in ok_images],
            'cfg': {'bits': 16, 'little': False, 'regs': ['ra', 'rb'], 'preZones': [], 'preConsts': [], 'preData': [],
                    'allow_embedded_strings': True, 'cstr_terminator': term}}


def generate(rng, tier):
    n = 500 if tier == 'quick' else 12000
    return [gen_case(rng, tier) for _ in range(n)] + [gen_huge(rng) for _ in range(n // 60)] + \
        [gen_wide_string(rng) for _ in range(n // 60)]


def judge(case, ir, mr):
    tags = []
    if case.get('wide_string'):
        tags.append('embedded-string-with-a-character-beyond-one-byte')
        det = f'text={case["text"]!r}'
        if ir['status'] == 'timeout':
            return {'verdict': Verdict.VIOLATION, 'detail': 'no termination; ' + det, 'tags': tags}
        if ir['status'] != 'ok':
            tags.append('rejected')
            return {'verdict': Verdict.OK, 'nontrivial': True, 'tags': tags, 'detail': det}
        actual = impl.fbytes(ir, 'out.bin')
        if actual.hex() in case['ok_images']:
            return {'verdict': Verdict.OK, 'nontrivial': True, 'tags': tags + ['accepted-consistently'], 'detail': det}
        return {'verdict': Verdict.VIOLATION, 'tags': tags,
                'detail': f'the statement behind the string does not start where the string ends (its bytes and the string\'s share '
                          f'addresses): image {actual.hex()}, consistent images would be {case["ok_images"]}; ' + det}
    mr, mt = LB.split(mr)
    if case.get('nobin'):
        tags.append('no-binary-run')
        det = f'-n -p -t {case["nobin"]}; files={LB.render(case)!r}'[:1500]
        if ir['status'] == 'timeout':
            return {'verdict': Verdict.VIOLATION, 'detail': 'no termination; ' + det, 'tags': tags}
        ok = ir['status'] == 'ok'
        if 'err' in mr and ok:
            kind = Verdict.VIOLATION
            what = 'two byte lines share an address but' if mr.get('overlapSpec') else f'model/spec rejects ({mr["err"]}) but'
            return {'verdict': kind, 'tags': tags, 'detail': f'{what} the run without a binary image reports success; ' + det}
        if 'err' not in mr and not ok:
            return {'verdict': Verdict.VIOLATION, 'tags': tags,
                    'detail': f'model/spec assembles, the run without a binary image fails: {str(ir.get("msg"))[:200]}; ' + det}
        tags.append('spec:overlap' if mr.get('overlapSpec') else 'spec:disjoint')
        return {'verdict': Verdict.OK, 'nontrivial': mr.get('overlapSpec') is not None, 'tags': tags, 'detail': det[:300]}
    if case.get('huge'):
        tags.append('line-of-more-than-64KiB:' + case['huge'])
    bad, actual, det = LB.base_judge(case, ir, mr, tags, mt)
    ov = mr.get('overlapSpec')
    lines = mr.get('lines') or []
    occ = [l for l in lines if l['isByte'] and l['size'] > 0]
    has_org = any(s['k'] in ('org', 'memzone') for s in case['files'][0])
    if ov is True:
        tags.append('spec:overlap')
        if ir['status'] == 'ok':
            return {'verdict': Verdict.VIOLATION, 'tags': tags,
                    'detail': 'two byte lines share an address but the program was assembled silently; ' + det}
        if mr.get('err') != 'overlap':
            return {'verdict': Verdict.CORR, 'tags': tags, 'detail': 'impl check and pairwise spec disagree in the model; ' + det}
    elif ov is False:
        tags.append('spec:disjoint')
        if mr.get('err') == 'overlap':
            return {'verdict': Verdict.CORR, 'tags': tags, 'detail': 'impl check rejects a disjoint program in the model; ' + det}
        if ir['status'] != 'ok' and 'overlap' in str(ir.get('msg', '')):
            return {'verdict': Verdict.VIOLATION, 'tags': tags,
                    'detail': 'pairwise disjoint byte lines rejected for overlap: ' + str(ir.get('msg'))[:200] + '; ' + det}
    if any(l['isByte'] and l['size'] <= 0 for l in lines):
        tags.append('zero-length-line')
    if bad:
        return bad
    return {'verdict': Verdict.OK, 'nontrivial': len(occ) >= 2 and has_org and ov is not None, 'tags': tags, 'detail': det[:300]}
