"""C02 — address assignment and label values are consistent across both passes."""
import random

import proggen as P
from core import Verdict
from props import isa_prog as IP
from props import layout_base as LB

RULE = ('generated programs interleaving labels (global/file/local), constants, instructions of sizes 1..4, data of widths '
        '1/2/4/8, fills, .zerountil on/around the cursor, .align at aligned and unaligned cursors (explicit and default page '
        'size), .org, zone switches, muted lines, forward and backward label references inside expressions; label values and '
        'addresses are observed through the image (data/operands that reference labels) over the whole address range; '
        'non-trivial = assembled, with a label reference and (an .align/.zerountil/.org or a forward reference)')
EXPLANATION = ('Theorems in Props/C02.lean: contiguity within a zone, reserved size = emitted size, label value = cursor at '
               'definition, .align = least multiple not below. Correspondence: image of the real CLI vs the model.')
ASSUMPTIONS = []


def to_impl(case):
    return IP.to_impl(case) if case.get('kind') == 'isa-program' else LB.to_impl(case)


def to_model(case):
    return IP.to_model(case) if case.get('kind') == 'isa-program' else LB.to_model(case)


def has_label_ref(t):
    return isinstance(t, (list, tuple)) and (t[0] == 'label' or any(has_label_ref(c) for c in t[1:]))


def gen_case(rng, tier):
    cfg = P.gen_cfg(rng)
    stmts = P.gen_program(rng, cfg, n_stmts=rng.randint(5, 18), allow_bad=0.02,
                          weights={'label': 5, 'align': 2.5, 'zerountil': 2, 'org': 1, 'data': 5, 'instr': 5, 'const': 2,
                                   'fill': 1.5, 'memzone': 0.6, 'createZone': 0.3, 'mute': 0.8, 'macro': 2})
    if rng.random() < 0.3:
        stmts = P.add_dead_blocks(rng, cfg, stmts, n=rng.randint(1, 2))
    gs = 0
    for z in cfg['preZones']:
        if z[0] == 'GLOBAL':
            gs = z[1]
    return {'cfg': cfg, 'files': [stmts], 'start': gs, 'end': None, 'fill': rng.choice([0, 0xEE]), 'seed': rng.randrange(1 << 30)}


def gen_wide(rng, tier):
    """address spaces wider than a double's mantissa: addresses above 2^53 are exact integers like any other"""
    bits = rng.choice([56, 60, 64, 64])
    hi = (1 << bits) - 1
    base = rng.choice([(1 << 53) + rng.randint(1, 1 << 20), hi - rng.randint(0x2000, 0x100000), 0xFFFFFFFF80000001 & hi,
                       (1 << (bits - 1)) + rng.randint(1, 5000)])
    cfg = {'bits': bits, 'little': rng.random() < 0.5, 'regs': ['ra', 'rb'], 'preZones': [], 'preConsts': [], 'preData': []}
    if rng.random() < 0.4:
        cfg['pageSize'] = rng.choice([2, 16, 256, 4096])
    stmts = [{'k': 'org', 'e': ('num', base)}]
    for i in range(rng.randint(2, 5)):
        stmts.append({'k': 'data', 'w': 1, 'vals': [('num', rng.randint(0, 255)) for _ in range(rng.randint(1, 3))]})
        r = rng.random()
        if r < 0.6:
            stmts.append({'k': 'align', 'p': ('num', rng.choice([2, 3, 8, 16, 100, 256, 4096]))} if rng.random() < 0.8 else {'k': 'align'})
        elif r < 0.8:
            stmts.append({'k': 'zerountil', 'a': ('num', 0)})       # already passed: nothing
        stmts.append({'k': 'label', 'name': f'wl_{i}'})
        stmts.append({'k': 'data', 'w': 8, 'vals': [('label', f'wl_{i}')]})
    return {'cfg': cfg, 'files': [stmts], 'start': base, 'end': None, 'fill': 0, 'seed': rng.randrange(1 << 30), 'wide': True}


def generate(rng, tier):
    n = 500 if tier == 'quick' else 12000
    # + whole programs of real bit-packed ISA statements and macro invocations with forward / backward label operands
    return [gen_case(rng, tier) for _ in range(n)] + [IP.gen_case(rng, tier) for _ in range(n // 4)] + \
        [gen_wide(rng, tier) for _ in range(n // 10)]


def judge(case, ir, mr):
    if case.get('kind') == 'isa-program':
        return IP.judge(case, ir, mr, 'C02')
    tags = []
    mr, mt = LB.split(mr)
    bad, actual, det = LB.base_judge(case, ir, mr, tags, mt)
    if bad:
        return bad
    st = case['files'][0]
    refs = any(has_label_ref(v) for s in st if s['k'] == 'data' for v in s['vals']) or \
        any(has_label_ref(a[0]) for s in st if s['k'] == 'instr' for a in s['args'])
    special = any(s['k'] in ('align', 'zerountil', 'org') for s in st)
    for k in ('align', 'zerountil', 'org', 'memzone'):
        if any(s['k'] == k for s in st):
            tags.append('has-' + k)
    if refs:
        tags.append('label-ref')
    if case.get('wide'):
        tags.append('address-space-wider-than-53-bits')
    return {'verdict': Verdict.OK, 'nontrivial': actual is not None and refs and special, 'tags': tags, 'detail': det[:300]}
