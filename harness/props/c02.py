"""C02 — address assignment and label values are consistent across both passes."""
import random

import proggen as P
from core import Verdict
from props import isa_prog as IP
from props import layout_base as LB

RULE = ('generated programs interleaving labels (global/file/local), constants, instructions of sizes 1..4, data of widths '
        '1/2/4/8, fills, .zerountil on/around the cursor, .align at aligned and unaligned cursors (explicit and default page '
        'size), .org, zone switches, muted lines, forward and backward label references inside expressions; label values and '
        'addresses are observed through the image (data/operands that reference labels) over the whole address range; '
        'non-trivial = assembled, with a label reference and (an .align/.zerountil/.org or a forward reference)')
EXPLANATION = ('Theorems in Props/C02.lean: contiguity within a zone, reserved size = emitted size, label value = cursor at '
               'definition, .align = least multiple not below. Correspondence: image of the real CLI vs the model.')
ASSUMPTIONS = []


def to_impl(case):
    return IP.to_impl(case) if case.get('kind') == 'isa-program' else LB.to_impl(case)


def to_model(case):
    return IP.to_model(case) if case.get('kind') == 'isa-program' else LB.to_model(case)


def has_label_ref(t):
    return isinstance(t, (list, tuple)) and (t[0] == 'label' or any(has_label_ref(c) for c in t[1:]))


def gen_case(rng, tier):
    cfg = P.gen_cfg(rng)
    stmts = P.gen_program(rng, cfg, n_stmts=rng.randint(5, 18), allow_bad=0.02,
                          weights={'label': 5, 'align': 2.5, 'zerountil': 2, 'org': 1, 'data': 5, 'instr': 5, 'const': 2,
                                   'fill': 1.5, 'memzone': 0.6, 'createZone': 0.3, 'mute': 0.8, 'macro': 2})
    if rng.random() < 0.3:
        stmts = P.add_dead_blocks(rng, cfg, stmts, n=rng.randint(1, 2))
    gs = 0
    for z in cfg['preZones']:
        if z[0] == 'GLOBAL':
            gs = z[1]
    return {'cfg': cfg, 'files': [stmts], 'start': gs, 'end': None, 'fill': rng.choice([0, 0xEE]), 'seed': rng.randrange(1 << 30)}


def generate(rng, tier):
    n = 500 if tier == 'quick' else 12000
    # + whole programs of real bit-packed ISA statements and macro invocations with forward / backward label operands
    return [gen_case(rng, tier) for _ in range(n)] + [IP.gen_case(rng, tier) for _ in range(n // 4)]


def judge(case, ir, mr):
    if case.get('kind') == 'isa-program':
        return IP.judge(case, ir, mr, 'C02')
    tags = []
    bad, actual, det = LB.base_judge(case, ir, mr, tags)
    if bad:
        return bad
    st = case['files'][0]
    refs = any(has_label_ref(v) for s in st if s['k'] == 'data' for v in s['vals']) or \
        any(has_label_ref(a[0]) for s in st if s['k'] == 'instr' for a in s['args'])
    special = any(s['k'] in ('align', 'zerountil', 'org') for s in st)
    for k in ('align', 'zerountil', 'org', 'memzone'):
        if any(s['k'] == k for s in st):
            tags.append('has-' + k)
    if refs:
        tags.append('label-ref')
    return {'verdict': Verdict.OK, 'nontrivial': actual is not None and refs and special, 'tags': tags, 'detail': det[:300]}
