"""C14 — assembly always terminates and fails closed."""
import random

import impl
import proggen as P
from core import Verdict
from props import layout_base as LB

RULE = ('(A) corruption stream: valid generated programs whose text is corrupted (dropped / duplicated / garbled tokens and '
        'lines, stray punctuation, unbalanced quotes and brackets, zero-length directives (.fill 0,x / .zero 0 / bare .byte) at '
        'any position, very long words and numbers after directives and #if, truncated directives), with and without a pretty-print '
        'request, the output file pre-created with sentinel content in half of the cases: the run must terminate within the '
        'budget (5 s, one retry with 60 s), a non-zero exit must leave the output file absent or unchanged, a zero exit must leave '
        'a freshly written image; (B) mandated rejections: programs with exactly one injected fault (unresolvable label in data / '
        'operand / fill count, unknown mnemonic, operands no variant accepts, value too large for its field incl. sub-byte fields and '
        'macro steps, text that is no expression where a value is expected) must not succeed; '
        'valid programs must succeed; non-trivial = corrupted or fault-injected case; distinct by text hash')
EXPLANATION = ('Theorems in Props/C14.lean: failure leaves the file system unchanged, success writes exactly the image, '
               'errors of a line propagate to the whole assembly, no variant / unfit value / unresolved label are errors, the '
               'image is a bounded iteration. Process termination and file-system effects of the Python program are observed.')
ASSUMPTIONS = ['wall-clock watchdog: 5 s per run, one retry at 60 s; a run that exceeds both counts as non-terminating',
               'the OS file system (open/write) is trusted']
GARBLE = ['!', '@', '#', '"', "'", '[', ']', '{', '}', '(', ')', ',', ':', ';', '=', '\\', '..', '__', '%', '$', '<', '>', '+', '*']


def corrupt(rng, text):
    lines = text.split('\n')
    kind = rng.choice(['drop-token', 'dup-token', 'garble-token', 'drop-line', 'dup-line', 'stray', 'zero-length', 'long-token',
                       'truncate', 'quote', 'zero-length', 'long-token'])
    idx = [i for i, l in enumerate(lines) if l.strip()]
    if not idx:
        return text, 'none'
    i = rng.choice(idx)
    toks = lines[i].split()
    if kind == 'drop-token' and len(toks) > 1:
        del toks[rng.randrange(len(toks))]
        lines[i] = ' '.join(toks)
    elif kind == 'dup-token':
        j = rng.randrange(len(toks))
        toks.insert(j, toks[j])
        lines[i] = ' '.join(toks)
    elif kind == 'garble-token':
        j = rng.randrange(len(toks))
        t = toks[j]
        p = rng.randrange(len(t) + 1)
        toks[j] = t[:p] + rng.choice(GARBLE) + t[p:]
        lines[i] = ' '.join(toks)
    elif kind == 'drop-line':
        del lines[i]
    elif kind == 'dup-line':
        lines.insert(i, lines[i])
    elif kind == 'stray':
        lines.insert(i, rng.choice(GARBLE + ['#else', '#endif', '#elif 1', '.org', '.fill', '.fill 3', '.memzone', '.align x y']))
    elif kind == 'zero-length':
        lines.insert(rng.randrange(len(lines) + 1), rng.choice(['.fill 0, 1', '.zero 0', '.byte', '.fill 0,0', '.zerountil 0', '.2byte', '.cstr ""']))
    elif kind == 'long-token':
        w = rng.choice(['a', '1', 'A', 'f', '0', 'b1', 'Z_']) * rng.randint(25, 60)
        lines.insert(i, rng.choice(['.fill ', '#if ', '.zero ', '.org ', '.byte ', 'op1 ', '.fill 1, ', '#ifdef ', '.align ',
                                    'kk = ', '.zerountil ', '#define QQ ']) + w)
    elif kind == 'truncate':
        lines[i] = lines[i][:rng.randrange(len(lines[i]) + 1)]
    else:
        lines[i] = lines[i] + rng.choice([' "', " '", ' "abc', " 'x"])
    return '\n'.join(lines), kind


def gen_case(rng, tier):
    cfg = P.gen_cfg(rng)
    stmts = P.gen_program(rng, cfg, allow_bad=0.0)
    seed = rng.randrange(1 << 30)
    base = {'cfg': cfg, 'files': [stmts], 'seed': seed, 'start': 0, 'end': None, 'fill': 0}
    text = LB.render(base)['main.asm']
    r = rng.random()
    case = dict(base, sentinel=rng.random() < 0.5, pretty=rng.choice([None, None, 'listing', 'hex', 'minhex', 'intel_hex']))
    if r < 0.55:
        t2, kind = corrupt(rng, text)
        if rng.random() < 0.3:
            t2, k2 = corrupt(rng, t2)
            kind += '+' + k2
        case.update(kind='corrupt', how=kind, text=t2)
    elif r < 0.85:
        fault = rng.choice(['unresolved-data', 'unresolved-operand', 'unresolved-fill', 'unknown-mnemonic', 'no-variant', 'unfit',
                            'unfit', 'unfit-subbyte', 'unfit-subbyte', 'bad-expression', 'empty-operand'])
        ins = {'unresolved-data': '.2byte nosuchlabel + 1', 'unresolved-operand': 'op2 nosuchlabel', 'unresolved-fill': '.fill nosuch, 1',
               'unknown-mnemonic': rng.choice(['frob 1', 'nopx', 'op9 1, 2']), 'no-variant': rng.choice(['op1', 'nop 5', 'op3 1', 'op2 [5]', 'op1 ra']),
               'unfit': rng.choice(['op1 256', 'op1 -129', 'op2 65536', 'op4 $1000000', 'op3 300, 1']),
               # an 8-bit unaligned immediate behind a 4-bit opcode (12-bit instruction), also as the second step of a macro
               'unfit-subbyte': rng.choice(['ldn 256', 'ldn -129', 'ldn2 255', 'ld4 16', 'ld4 -9', 'ld4 200', 'ld4 $FF',
                                            'ld4 -%d' % rng.randint(9, 15), 'ld4 0 - %d' % rng.randint(9, 15), 'ld4 -16', 'ld4 -17',
                                            'ld4 -%d' % rng.randint(9, 15), 'ld4 -15', 'ld4 -9',
                                            # below an explicit lower bound of 0, above the upper bound of 7
                                            'bit3 -1', 'bit3 -4', 'bit3 0 - 2', 'bit3 8', 'bit3 -1']),
               # an empty operand field (trailing, doubled, leading or lone comma) is an operand no variant accepts: dropping
               # the empty fields would leave a valid statement
               'empty-operand': rng.choice(['op3 1, 2,', 'op3 1,,2', 'op3 ,1,2', 'op1 5,', 'op1 ,5', 'nop ,', 'op2 7 ,', 'op3 1 , , 2']),
               # text that is no expression where a value is expected
               'bad-expression': rng.choice(['op1 1 +! 2', 'op2 3 -? 4', 'op1 2 *~ 1', 'op3 1 +` 1, 2', 'op1 1 +! 2', '.byte 1 ! 2',
                                             '.2byte 5 }', '.byte 1 +', 'op1 (1', '.fill 2 ! 3, 1'])}[fault]
        lines = text.split('\n')
        # at the end of the program the faulty statement disturbs nothing else (no shifted addresses, no split local region),
        # so it is the only reason for a rejection
        lines.insert(len(lines) if rng.random() < 0.5 else rng.randrange(len(lines)), ins)
        if rng.random() < 0.3:
            # the faulty statement is the letter-case twin of a VALID statement that stands earlier in the program: mnemonics
            # and registers ignore case, labels and the H suffix of hexadecimal literals do not
            good, bad = rng.choice([('op1 twn_k', 'op1 Twn_K'), ('op2 twn_k + 1', 'OP2 TWN_K + 1'), ('op1 10H', 'op1 10h'),
                                    ('op2 0FFH', 'op2 0ffh'), ('.byte twn_k', '.byte TWN_k'), ('ldn twn_k', 'ldn twn_K')])
            lines = text.split('\n')
            i = rng.randrange(len(lines) + 1)
            j = rng.randint(i, len(lines))
            lines.insert(j, bad)
            lines.insert(i, good)
            lines.insert(0, 'twn_k = 5')
            fault = 'case-twin-of-valid-statement'
        case.update(kind='fault', how=fault, text='\n'.join(lines))
    else:
        case.update(kind='valid', how='valid', text=text)
    return case


def generate(rng, tier):
    return [gen_case(rng, tier) for _ in range(500 if tier == 'quick' else 12000)]


def to_impl(case):
    c = impl.compile_case(P.make_isa(case['cfg']), {'main.asm': case['text']}, pretty=case['pretty'], presentinel=case['sentinel'])
    return c


def to_model(case):
    if case['kind'] == 'valid':
        return P.to_model_request(case['cfg'], case['files'], 0, None, 0)
    return {'op': 'ping'}


def judge(case, ir, mr):
    tags = ['kind=' + case['kind'], 'how=' + case['how']] + (['pretty=' + case['pretty']] if case['pretty'] else [])
    det = f'pretty={case["pretty"]} sentinel={case["sentinel"]} text={case["text"]!r}'[:1200]
    if ir['status'] == 'timeout':
        return {'verdict': Verdict.VIOLATION, 'tags': tags, 'detail': 'assembly did not terminate within 5 s + 60 s; ' + det}
    out = impl.fbytes(ir, 'out.bin')
    if ir['status'] != 'ok':
        tags.append('exit!=0')
        if case['sentinel']:
            if out != b'SENTINEL':
                return {'verdict': Verdict.VIOLATION, 'tags': tags,
                        'detail': f'assembly failed ({str(ir.get("msg"))[:120]}) but the existing output file was altered to {None if out is None else out[:32].hex()}; ' + det}
        elif out is not None:
            return {'verdict': Verdict.VIOLATION, 'tags': tags,
                    'detail': f'assembly failed ({str(ir.get("msg"))[:120]}) but an image of {len(out)} bytes was created; ' + det}
        if case['kind'] == 'valid':
            if 'err' in mr:
                return {'verdict': Verdict.OK, 'nontrivial': False, 'tags': tags, 'detail': det[:200]}
            return {'verdict': Verdict.CORR, 'tags': tags, 'detail': 'valid program rejected: ' + str(ir.get('msg'))[:200] + det}
        return {'verdict': Verdict.OK, 'nontrivial': True, 'tags': tags, 'detail': det[:200]}
    tags.append('exit=0')
    if out is None or (case['sentinel'] and out == b'SENTINEL'):
        return {'verdict': Verdict.VIOLATION, 'tags': tags, 'detail': 'success reported but no image was written; ' + det}
    if case['kind'] == 'fault':
        return {'verdict': Verdict.VIOLATION, 'tags': tags,
                'detail': f'success reported for a program with an injected fault ({case["how"]}); image {out[:32].hex()}; ' + det}
    if case['kind'] == 'valid' and 'image' in mr and bytes(mr['image']) != out:
        return {'verdict': Verdict.CORR, 'tags': tags, 'detail': f'image {out.hex()[:100]} != model {bytes(mr["image"]).hex()[:100]}; ' + det}
    return {'verdict': Verdict.OK, 'nontrivial': case['kind'] != 'valid', 'tags': tags, 'detail': det[:200]}
