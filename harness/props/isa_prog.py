"""Whole programs of REAL ISA statements (bit-packed instructions of whole-byte and non-whole-byte widths, address-relative
operands measured from the start / the end of the instruction, macro invocations) mixed with labels, constants, data and
origin directives.  The model (`asm` op with `isa` statements) selects variants, reserves sizes in the first pass and
encodes with the final label values in the second pass - the same definitions `C02.reserved_eq_emitted`,
`C02.instruction_reserved_eq_emitted` and `C10.macro_reserved_eq_emitted` are about.  Used by C02 and C10."""
import gen
import impl
from core import Verdict
from props import c10 as C10

LABELS = ['lab0', 'lab1', 'lab2', 'lab3', 'far_lab']


def gen_case(rng, tier):
    base = C10.gen_case(rng, tier)
    isa = base['isa']
    mb = base['model_base']
    consts = dict(base['consts'])
    n = rng.randint(4, 12)
    nlab = rng.randint(1, 4)
    labs = LABELS[:nlab]
    stmts, lines = [], []
    for k, v in consts.items():
        stmts.append({'k': 'const', 'name': k, 'e': ['num', v]})
        lines.append(f'{k} = {v}')
    origin = rng.choice([0, 0, 16, 300])
    if origin:
        stmts.append({'k': 'org', 'e': ['num', origin]})
        lines.append(f'.org {origin}')
    place = sorted(rng.sample(range(n + 1), nlab))
    val = lambda: rng.choice([['num', rng.choice([0, 1, 5, 77, 200, 255])], ['label', 'kone'], ['label', rng.choice(labs)]])  # noqa
    lab = lambda: ['label', rng.choice(labs)]  # noqa
    reg = lambda: gen.rcase(rng, rng.choice(C10.REGS))  # noqa

    def txt(e):
        return str(e[1])
    for i in range(n + 1):
        while place and place[0] == i:
            place.pop(0)
            name = labs[nlab - len(place) - 1]
            stmts.append({'k': 'label', 'name': name})
            lines.append(name + ':')
        if i == n:
            break
        r = rng.random()
        if r < 0.08:
            stmts.append({'k': 'data', 'w': 2, 'vals': [lab(), ['bin', '+', lab(), ['num', 1]]]})
            lines.append(f'.2byte {txt(stmts[-1]["vals"][0])}, {txt(stmts[-1]["vals"][1][2])} + 1')
            continue
        if r < 0.13:
            # a forward gap, small enough for the relative operands around it
            stmts.append({'k': 'fill', 'cnt': ['num', rng.randint(0, 5)], 'val': ['num', 0xEE]})
            lines.append(f'.fill {stmts[-1]["cnt"][1]}, $EE')
            continue
        if r < 0.3 and base['invs']:
            inv = rng.choice(base['invs'])
            stmts.append({'k': 'isa', 'mn': 'mac', 'forms': inv['forms']})
            lines.append(gen.rcase(rng, 'mac') + (' ' + ', '.join(inv['texts']) if inv['texts'] else ''))
            continue
        mn = rng.choice(['nop', 'ldn', 'ldi', 'ldw', 'jr', 'jre', 'st', 'inc', 'mv', 'jr', 'jre', 'ldw'])
        if mn == 'nop':
            forms, t = [], ''
        elif mn == 'ldn':
            e = rng.choice([['num', rng.choice([0, 7, 255, 256])], ['label', 'kone']])
            forms, t = [{'f': 'plain', 'e': e}], txt(e)
        elif mn == 'ldi':
            r_, e = reg(), rng.choice([['num', rng.choice([0, 7, 255])], ['label', 'kone']])
            forms, t = [{'f': 'plain', 'e': ['label', r_]}, {'f': 'plain', 'e': e}], f'{r_}, {txt(e)}'
        elif mn == 'ldw':
            e = val()
            if rng.random() < 0.3:
                e2 = ['bin', '+', e, ['num', 2]]
                forms, t = [{'f': 'plain', 'e': e2}], f'{txt(e)} + 2'
            else:
                forms, t = [{'f': 'plain', 'e': e}], txt(e)
        elif mn in ('jr', 'jre'):
            e = lab()
            forms, t = [{'f': 'plain', 'e': e}], txt(e)
        elif mn == 'st':
            e = val()
            forms, t = [{'f': 'ind', 'e': e}], f'[{txt(e)}]'
        elif mn == 'inc':
            r_ = reg()
            forms, t = [{'f': 'plain', 'e': ['label', r_]}], r_
        else:
            r1, r2 = reg(), reg()
            forms, t = [{'f': 'plain', 'e': ['label', r1]}, {'f': 'plain', 'e': ['label', r2]}], f'{r1}, {r2}'
        stmts.append({'k': 'isa', 'mn': mn, 'forms': forms})
        lines.append(gen.rcase(rng, mn) + (' ' + t if t else ''))
    # the macro's operand forms may mention these labels
    for extra in ('start', 'after', 'fwd'):
        stmts.append({'k': 'label', 'name': extra})
        lines.append(extra + ':')
        stmts.append({'k': 'data', 'w': 1, 'vals': [['num', 1]]})
        lines.append('.byte 1')
    cfgm = {'bits': 16, 'origin': 0, 'little': isa['general']['endian'] == 'little', 'pageSize': 1, 'regs': list(C10.REGS),
            'preZones': [], 'preConsts': [], 'preData': [], 'instrs': mb['instrs'],
            'macros': [{'mn': 'mac', 'variants': mb['macro']}]}
    return {'kind': 'isa-program', 'isa': isa, 'cfgm': cfgm, 'stmts': stmts, 'text': '\n'.join(lines) + '\n',
            'start': origin}


def to_impl(case):
    return impl.compile_case(case['isa'], {'main.asm': case['text']}, start=case['start'])


def to_model(case):
    # the structured program, and the very source text the real assembler reads (parsed by the Lean front end)
    return [{'op': 'asm', 'cfg': case['cfgm'], 'files': [case['stmts']], 'start': case['start'], 'fill': 0},
            {'op': 'asmtext', 'cfg': case['cfgm'], 'files': [{'name': 'main.asm', 'text': case['text']}], 'start': case['start'],
             'fill': 0}]


def judge(case, ir, mrs, pid):
    mr, mt = mrs
    tags = ['isa-program']
    # model-side tie: parsing the rendered text must give the program the structured route assembles
    if ('err' in mr) != ('err' in mt) or mr.get('image') != mt.get('image'):
        return {'verdict': Verdict.CORR, 'tags': tags,
                'detail': f'model front end: text route {mt.get("err") or mt.get("image")} != structured route '
                          f'{mr.get("err") or mr.get("image")}; asm={case["text"]!r}'[:1500]}
    tags.append('text-route=structured-route')
    det = f'asm={case["text"]!r} macros={case["isa"].get("macros")}'[:1500]
    if ir['status'] == 'timeout':
        return {'verdict': Verdict.VIOLATION, 'detail': 'no termination; ' + det, 'tags': tags}
    actual = impl.fbytes(ir, 'out.bin') if ir['status'] == 'ok' else None
    if 'err' in mr:
        tags.append('isa-program:rejected:' + mr['err'])
        if actual is None:
            return {'verdict': Verdict.OK, 'nontrivial': False, 'tags': tags, 'detail': det[:300]}
        return {'verdict': Verdict.VIOLATION, 'tags': tags,
                'detail': f'model/spec rejects ({mr["err"]}) but the real code assembled {actual.hex()[:120]}; ' + det}
    tags.append('isa-program:assembled')
    if actual is None:
        return {'verdict': Verdict.VIOLATION, 'tags': tags,
                'detail': f'model/spec assembles, real code rejects: {str(ir.get("msg"))[:200]}; ' + det}
    img = bytes(mr['image'])
    if actual != img:
        # which statement differs first: the lines of the model carry address and bytes
        return {'verdict': Verdict.VIOLATION, 'tags': tags,
                'detail': f'actual={actual.hex()[:240]} model={img.hex()[:240]}; lines={[(l["addr"], l["bytes"]) for l in mr["lines"] if l["isByte"]][:12]}; ' + det}
    nbyte = sum(1 for s in case['stmts'] if s['k'] == 'isa')
    return {'verdict': Verdict.OK, 'nontrivial': nbyte >= 3, 'tags': tags, 'detail': det[:300]}
