"""C03 — the binary image is a faithful window onto the assembled memory map."""
import random

import impl
import proggen as P
from core import Verdict

RULE = ('generated programs (labels, data, fills, .zerountil, .org, zones, .align, instructions, muted regions, predefined '
        'data blocks) x window (start, end or none, fill incl. >255) aimed at line boundaries and interiors; non-trivial = '
        'assembled and (window cuts a multi-byte line, or contains a hole, or a muted/predefined line); distinct by hash')
EXPLANATION = ('Theorems in Props/C03.lean: image = window of the address->byte map, fill elsewhere, exact length. '
               'Correspondence: .bin of the real CLI vs model image (impl) and per-address spec image.')
ASSUMPTIONS = ['click parses -s/-e/-f as decimal; -e < 0 means "no end"']


def gen_case(rng, tier):
    cfg = P.gen_cfg(rng)
    stmts = P.gen_program(rng, cfg, allow_bad=0.03, weights={'mute': 1.2, 'macro': 1})
    tail_empty = False
    if rng.random() < 0.15:
        # a line that emits nothing, far behind the last emitted byte: an open-ended window ends at the highest address that
        # RECEIVED A BYTE, not at the highest address a line was placed at
        hi = (1 << cfg['bits']) - 1
        far = min(hi, cfg.get('origin', 0) + rng.randint(30, 90))
        stmts += [{'k': 'org', 'e': ('num', far)},
                  rng.choice([{'k': 'fill', 'cnt': ('num', 0), 'val': ('num', rng.randint(0, 255))},
                              {'k': 'zerountil', 'a': ('num', max(0, far - rng.randint(1, 5)))},
                              {'k': 'fill', 'cnt': ('bin', '-', ('num', 3), ('num', 3)), 'val': ('num', 1)}])]
        tail_empty = True
    tr_addrs = []
    # window: aim at line boundaries by replaying a tracker-free guess: use small offsets around typical addresses
    base = cfg.get('origin', 0)
    start = rng.choice([0, base, base + rng.randint(0, 12), max(0, base - 2), rng.randint(0, 80)])
    r = rng.random()
    if r < 0.4:
        end = None
    elif r < 0.9:
        end = start + rng.choice([0, 1, 2, 3, 5, 8, rng.randint(0, 40)])
    else:
        end = max(0, start - rng.randint(1, 3))     # empty window
    fill = rng.choice([0, 0, 0xFF, rng.randint(0, 255), 256 + rng.randint(0, 300)])
    if tail_empty and rng.random() < 0.8:
        end = None
    return {'cfg': cfg, 'files': [stmts], 'start': start, 'end': end, 'fill': fill, 'seed': rng.randrange(1 << 30),
            'tail_empty': tail_empty}


def aim_windows(rng, cases):
    """second generation phase: lay every program out with the model (no window) and aim 60 % of the windows at the
    actual lines: strictly inside one multi-byte line (both edges cut the same line), one edge inside a line, exactly a
    line, from inside one line to inside a later one, around muted lines and holes"""
    import leanio
    try:
        res = leanio.run_driver([P.to_model_request(c['cfg'], c['files'], 0, None, 0) for c in cases])
    except Exception:
        return
    for c, r in zip(cases, res):
        if not r.get('lines') or rng.random() < 0.4 or (c.get('tail_empty') and c['end'] is None):
            continue
        ls = [l for l in r['lines'] if l['isByte'] and l['bytes'] and l['addr'] >= 0]
        if not ls:
            continue
        long_ = [l for l in ls if len(l['bytes']) >= 3 and not l['muted']]
        mode = rng.choice(['inside', 'inside', 'inside', 'start-cut', 'end-cut', 'exact', 'span', 'muted'])
        l = rng.choice(long_ or ls)
        a, n = l['addr'], len(l['bytes'])
        if mode == 'inside' and n >= 3:
            s = rng.randint(a + 1, a + n - 2)
            e = rng.randint(s, a + n - 2)
        elif mode == 'start-cut':
            s = rng.randint(a + (1 if n > 1 else 0), a + n - 1)
            e = rng.choice([None, s + rng.randint(0, 30)])
        elif mode == 'end-cut':
            e = rng.randint(a, max(a, a + n - 2))
            s = max(0, a - rng.randint(0, 10))
        elif mode == 'exact':
            s, e = a, a + n - 1
        elif mode == 'span':
            l2 = rng.choice(ls)
            lo, hi = sorted([(a, n), (l2['addr'], len(l2['bytes']))])
            s = rng.randint(lo[0], lo[0] + lo[1] - 1)
            e = rng.randint(max(s, hi[0]), max(s, hi[0] + hi[1] - 1))
        else:
            m = [x for x in ls if x['muted']] or ls
            x = rng.choice(m)
            s = max(0, x['addr'] - rng.randint(0, 3))
            e = x['addr'] + len(x['bytes']) - 1 + rng.randint(0, 3)
        c['start'], c['end'] = s, e
        c['aimed'] = mode


def gen_big(rng):
    """size: images of several KiB in which multi-byte lines straddle the multiples of 256 / 1024 / 4096 counted from the
    window start, a long fill crosses several of them, and the window starts on / off such a boundary"""
    cfg = {'bits': 16, 'little': rng.random() < 0.5, 'regs': ['ra', 'rb'], 'preZones': [], 'preConsts': [], 'preData': []}
    start = rng.choice([0, 0, 1, 0x101, 0x0FFF, 0x1000])
    stmts, cur = [], start
    block = rng.choice([256, 1024, 4096, 4096, 4096])
    nblocks = rng.randint(2, 4)
    for k in range(1, nblocks + 1):
        b = start + k * block
        at = b - rng.choice([1, 2, 3, 1])
        if at <= cur:
            continue
        stmts.append({'k': 'org', 'e': ('num', at)})
        kind = rng.choice(['data4', 'data2', 'fill', 'bytes'])
        if kind == 'data4':
            stmts.append({'k': 'data', 'w': 4, 'vals': [('num', rng.randint(0x01020304, 0xFFFFFFFF))]})
            cur = at + 4
        elif kind == 'data2':
            stmts.append({'k': 'data', 'w': 2, 'vals': [('num', rng.randint(0x0102, 0xFFFF)), ('num', rng.randint(0x0102, 0xFFFF))]})
            cur = at + 4
        elif kind == 'fill':
            n = rng.choice([5, 300, block + 7])
            stmts.append({'k': 'fill', 'cnt': ('num', n), 'val': ('num', rng.randint(1, 255))})
            cur = at + n
        else:
            stmts.append({'k': 'data', 'w': 1, 'vals': [('num', rng.randint(1, 255)) for _ in range(6)]})
            cur = at + 6
    fill = rng.choice([0, 0xFF, 0x5A])
    end = rng.choice([None, None, cur - 1, cur + 10, start + nblocks * block - 1, start + nblocks * block])
    return {'cfg': cfg, 'files': [stmts], 'start': start, 'end': end, 'fill': fill, 'seed': rng.randrange(1 << 30),
            'tail_empty': False, 'big': True}


def generate(rng, tier):
    n = 500 if tier == 'quick' else 12000
    cases = [gen_case(rng, tier) for _ in range(n)]
    aim_windows(rng, cases)
    return cases + [gen_big(rng) for _ in range(n // 40)]


def render(case):
    r = random.Random(case['seed'])
    return {('main.asm' if i == 0 else f'inc{i}.asm'): P.render_file(r, f) for i, f in enumerate(case['files'])}


def to_impl(case):
    return impl.compile_case(P.make_isa(case['cfg']), render(case), start=case['start'], end=case['end'], fill=case['fill'])


def to_model(case):
    return P.to_model_request(case['cfg'], case['files'], case['start'], case['end'], case['fill'])


def judge(case, ir, mr):
    tags = []
    actual = impl.fbytes(ir, 'out.bin') if ir['status'] == 'ok' else None
    det = f'start={case["start"]} end={case["end"]} fill={case["fill"]} asm={render(case)["main.asm"]!r}'
    if ir['status'] == 'timeout':
        return {'verdict': Verdict.VIOLATION, 'detail': 'no termination; ' + det, 'tags': tags}
    if 'err' in mr:
        tags.append('rejected:' + mr['err'])
        if actual is None:
            return {'verdict': Verdict.OK, 'tags': tags, 'detail': det}
        return {'verdict': Verdict.CORR, 'tags': tags, 'detail': f'model rejects ({mr["err"]}) but assembled {actual.hex()}; ' + det}
    tags.append('assembled')
    if actual is None:
        return {'verdict': Verdict.CORR, 'tags': tags, 'detail': f'model assembles, real code rejects: {str(ir.get("msg"))[:200]}; ' + det}
    img, spec = bytes(mr['image']), bytes(mr['specImage'])
    lines = [l for l in mr['lines'] if l['isByte'] and l['bytes']]
    s, e = case['start'], case['end']
    cut = any(l['addr'] < s < l['addr'] + len(l['bytes']) or (e is not None and l['addr'] <= e < l['addr'] + len(l['bytes']) - 1)
              for l in lines if not l['muted'])
    hole = len(set(spec)) > 1 and (case['fill'] & 0xFF) in spec
    special = any(l['muted'] for l in lines) or bool(case['cfg'].get('preData'))
    both = any(l['addr'] < s and e is not None and e < l['addr'] + len(l['bytes']) - 1 for l in lines if not l['muted'])
    if both:
        tags.append('window-strictly-inside-one-line')
    if case.get('big'):
        tags.append('image-of-several-KiB')
    if case.get('tail_empty'):
        tags.append('empty-line-behind-last-byte')
    if case.get('aimed'):
        tags.append('aimed:' + case['aimed'])
    if cut:
        tags.append('window-cuts-line')
    if any(l['muted'] for l in lines):
        tags.append('muted-bytes')
    if e is None:
        tags.append('no-end')
    if actual == spec and actual == img:
        return {'verdict': Verdict.OK, 'nontrivial': bool(lines) and (cut or hole or special), 'tags': tags, 'detail': det}
    if actual != spec:
        return {'verdict': Verdict.VIOLATION, 'tags': tags,
                'detail': f'actual={actual.hex()} spec={spec.hex()} impl={img.hex()}; ' + det}
    return {'verdict': Verdict.CORR, 'tags': tags, 'detail': f'actual={actual.hex()} impl={img.hex()}; ' + det}
