"""C12 — configured operand value constraints are enforced, not silently bypassed."""
import random

import gen
import impl
from core import Verdict

RULE = ('one ISA + one statement per case with one constrained operand (min/max, numeric enumeration, zone membership '
        'incl. redefined GLOBAL and custom zones, sliced address, relative offset from start/end, plain width fit) '
        'plus 0..2 ordinary operands; the constrained value is drawn ON or ADJACENT to a boundary '
        '(min-1,min,max,max+1; zone start-1,start,end,end+1; -2^(n-1)-1,-2^(n-1),2^n-1,2^n; MSB equal/unequal) '
        'for widths 1..64; non-trivial = value on/adjacent to a boundary; distinct by structural hash')
EXPLANATION = ('Theorems in Props/C12.lean: resolve accepts iff the declarative constraint holds and emits the documented '
               'value; fits iff in the signed-or-unsigned range; a statement is assembled iff all constraints hold. '
               'Correspondence: exit status and .bin of the real CLI vs the model.')
ASSUMPTIONS = ['operand text -> constraint kind mapping is produced by the generator']


def pick_boundary(rng, lo, hi):
    c = [lo - 1, lo, hi, hi + 1]
    if lo < hi:
        c += [lo + 1, hi - 1, rng.randint(lo, hi)]
    return rng.choice(c)


def gen_case(rng: random.Random, tier):
    # wide address spaces too: every comparison of addresses is exact integer arithmetic, also beyond 2**53
    addr_bits = rng.choice([8, 10, 12, 16, 16, 16, 20, 24, 56, 64, 64])
    isa, ctx = gen.base_isa(rng, addr_bits=addr_bits)
    de = ctx.default_endian
    maxaddr = (1 << addr_bits) - 1
    zones = []
    gstart, gend = 0, maxaddr
    if rng.random() < 0.4:
        gstart = rng.randint(0, maxaddr // 2)
        gend = rng.randint(gstart + 40, maxaddr) if gstart + 40 <= maxaddr else maxaddr
        zones.append({'name': 'GLOBAL', 'start': gstart, 'end': gend})
        isa['general']['origin'] = gstart
    ctx.gstart, ctx.gend = gstart, gend
    kind = rng.choice(['ranged', 'fit', 'fit', 'valid_address', 'addr_zone', 'sliced', 'rel', 'rel', 'numenum', 'indirect_fit'])
    addr = rng.randint(gstart, max(gstart, gend - 30))
    if addr_bits > 53 and rng.random() < 0.7:
        addr = max(gstart, gend - rng.randint(30, 1 << 20))       # near the top of the wide address space
    opcfg = {}
    arg = code = None
    n = gen.gen_size(rng)
    boundary = True
    if kind == 'ranged':
        n = rng.choice([1, 2, 3, 4, 5, 7, 8, 9, 12])
        span = (1 << n) + 2
        lo = rng.randint(-span, span)
        hi = rng.randint(lo, span + 2)
        opcfg = {'type': 'numeric_bytecode', 'bytecode': {'size': n, 'min': lo, 'max': hi}}
        if rng.random() < 0.5:
            opcfg['bytecode']['position'] = rng.choice(['prefix', 'suffix'])
        c = [lo - 1, lo, hi, hi + 1, -(1 << (n - 1)) - 1, -(1 << (n - 1)), (1 << n) - 1, 1 << n]
        v = rng.choice(c)
        code = {'src': {'k': 'ranged', 'v': v, 'min': lo, 'max': hi}, 'n': n,
                'pos': opcfg['bytecode'].get('position', 'suffix')}
        text = gen.lit(rng, v)
    elif kind in ('fit', 'indirect_fit'):
        t = 'numeric' if kind == 'fit' else rng.choice(['indirect_numeric', 'deferred_numeric'])
        opcfg = {'type': t, 'argument': gen.gen_arg_cfg(rng, de, size=n)}
        if rng.random() < 0.5:
            opcfg['bytecode'] = gen.gen_code_cfg(rng)
            code = gen.code_src(opcfg['bytecode'])
        v = rng.choice([-(1 << (n - 1)) - 1, -(1 << (n - 1)), (1 << n) - 1, 1 << n, -(1 << (n - 1)) + 1, (1 << n) - 2,
                        -(1 << n), (1 << (n + 1)) - 1])
        arg = {'src': {'k': 'plain', 'v': v}, 'n': n, 'align': opcfg['argument']['byte_align'],
               'little': gen.arg_little(opcfg['argument'], de)}
        text = gen.lit(rng, v)
        if t == 'indirect_numeric':
            text = '[' + text + ']'
        elif t == 'deferred_numeric':
            text = '[[' + text + ']]'
    elif kind == 'valid_address':
        n = rng.randint(addr_bits, addr_bits + 6)
        # the flag is honoured by every operand type that takes a numeric argument: plain, [indirect] and [[deferred]]
        t = rng.choice(['numeric', 'numeric', 'indirect_numeric', 'deferred_numeric'])
        opcfg = {'type': t, 'argument': gen.gen_arg_cfg(rng, de, size=n)}
        opcfg['argument']['valid_address'] = True
        v = pick_boundary(rng, gstart, gend)
        arg = {'src': {'k': 'zone', 'v': v, 'zs': gstart, 'ze': gend}, 'n': n,
               'align': opcfg['argument']['byte_align'], 'little': gen.arg_little(opcfg['argument'], de)}
        text = gen.lit(rng, v)
        if t == 'indirect_numeric':
            text = '[' + text + ']'
        elif t == 'deferred_numeric':
            text = '[[' + text + ']]'
    elif kind == 'addr_zone':
        n = rng.randint(addr_bits, addr_bits + 6)
        opcfg = {'type': 'address', 'argument': gen.gen_arg_cfg(rng, de, size=n)}
        zs, ze = gstart, gend
        if rng.random() < 0.7:
            zs = rng.randint(gstart, gend)
            ze = rng.randint(zs, gend)
            zones.append({'name': 'ZN1', 'start': zs, 'end': ze})
            opcfg['argument']['memory_zone'] = 'ZN1'
        v = pick_boundary(rng, zs, ze)
        arg = {'src': {'k': 'zone', 'v': v, 'zs': zs, 'ze': ze}, 'n': n,
               'align': opcfg['argument']['byte_align'], 'little': gen.arg_little(opcfg['argument'], de)}
        text = gen.lit(rng, v)
    elif kind == 'sliced':
        w = rng.randint(1, max(1, addr_bits - 1))
        if addr_bits > 53 and rng.random() < 0.7:
            w = rng.choice([4, 8, 8, 12, 16])                      # small pages: neighbouring pages differ far below 2**53
        opcfg = {'type': 'address', 'argument': gen.gen_arg_cfg(rng, de, size=w)}
        opcfg['argument']['slice_lsb'] = True
        opcfg['argument']['match_address_msb'] = rng.random() < 0.85
        page = addr >> w
        c = [(page << w), (page << w) + (1 << w) - 1, (page << w) - 1, ((page + 1) << w), addr,
             (page << w) + rng.randint(0, (1 << w) - 1)]
        v = rng.choice(c)
        if opcfg['argument']['match_address_msb']:
            src = {'k': 'sliced', 'v': v, 'zs': gstart, 'ze': gend}
        else:
            src = {'k': 'zone', 'v': v, 'zs': gstart, 'ze': gend}
        arg = {'src': src, 'n': w, 'align': opcfg['argument']['byte_align'],
               'little': gen.arg_little(opcfg['argument'], de)}
        text = gen.lit(rng, v)
    elif kind == 'rel':
        n = rng.choice([3, 4, 5, 8, 8, 9, 12, 16])
        opcfg = {'type': 'relative_address', 'argument': gen.gen_arg_cfg(rng, de, size=n)}
        mn, mx = gen.fits_range(n)
        lo = hi = None
        if rng.random() < 0.7:
            lo = rng.choice([rng.randint(mn - 2, 0), 0, 0, -1])      # 0: a forward-only branch
            opcfg['argument']['min'] = lo
        if rng.random() < 0.7:
            hi = rng.choice([rng.randint(0, mx + 2), 0, 0, 1])       # 0: a backward-only branch
            opcfg['argument']['max'] = hi
        from_end = rng.random() < 0.5
        if from_end:
            opcfg['offset_from_instruction_end'] = True
        if rng.random() < 0.3:
            opcfg['use_curly_braces'] = True
        text = None  # needs the size -> resolved in finish
        arg = {'src': {'k': 'rel', 't': None, 'fromEnd': from_end, 'zs': gstart, 'ze': gend}, 'n': n,
               'align': opcfg['argument']['byte_align'], 'little': gen.arg_little(opcfg['argument'], de)}
        if lo is not None:
            arg['src']['min'] = lo
        if hi is not None:
            arg['src']['max'] = hi
    else:  # numenum
        keys = rng.sample(range(0, 30), rng.randint(1, 4))
        n = rng.choice([2, 3, 4, 8, 11])
        opcfg = {'type': 'numeric_enumeration',
                 'bytecode': {'size': n, 'value_dict': {k: rng.randint(0, (1 << n) - 1) for k in keys}}}
        k0 = rng.choice(keys)
        v = rng.choice([k0, k0, k0 + 1, k0 - 1, rng.randint(-2, 31)])
        d = [[a, b] for a, b in opcfg['bytecode']['value_dict'].items()]
        code = {'src': {'k': 'enum', 'v': v, 'dict': d}, 'n': n, 'pos': 'suffix'}
        text = gen.lit(rng, v)
        if v >= 0 and rng.random() < 0.4:
            # the key is the value of the WHOLE operand expression, whatever operators it uses
            text = rng.choice([f'{v}*1', f'1*{v}', f'{2 * v}/2', f'{v} | 0', f'({v} << 1) >> 1', f'{v + 16} & 15' if v < 16 else f'{v}*1',
                               f'{v + 7} - 7', f'{v} ^ 0'])
    # other operands
    others = []
    for i in range(rng.choice([0, 0, 1, 2])):
        cfg, inst = gen.gen_operand(rng, ctx, kind=rng.choice(['numeric', 'register', 'enumeration']), opid=f'x{i}')
        others.append((cfg, inst(rng)))
    pos = rng.randint(0, len(others))
    ops_cfg = [c for c, _ in others]
    parts = [p for _, p in others]
    ops_cfg.insert(pos, opcfg)
    parts.insert(pos, {'text': text, 'code': code, 'arg': arg})
    opn = rng.choice([3, 4, 5, 8, 8, 11])
    opv = rng.randint(0, (1 << opn) - 1)
    instr = {'bytecode': {'value': opv, 'size': opn}, 'operands': {'count': len(ops_cfg), 'operand_sets': {'list': []}}}
    for i, c in enumerate(ops_cfg):
        isa['operand_sets'][f'os{i}'] = {'operand_values': {f'op{i}': c}}
        instr['operands']['operand_sets']['list'].append(f'os{i}')
    isa['instructions']['tst'] = instr
    if zones:
        isa['predefined'] = {'memory_zones': zones}
    model = {'op': 'bits', 'addr': addr, 'opcode': {'v': opv, 'n': opn, 'little': de == 'little'},
             'ops': [{'code': p['code'], 'arg': p['arg']} for p in parts]}
    case = {'isa': isa, 'addr': addr, 'model': model, 'kind': kind, 'pos': pos, 'texts': [p['text'] for p in parts],
            'boundary': boundary}
    if kind == 'rel':
        # instruction size from the shapes (python replica only used to pick a boundary target; the model computes its own)
        bits = 0
        order = [{'n': opn, 'align': False}]
        codes_pre = [p['code'] for p in parts if p['code'] and p['code'].get('pos') == 'prefix']
        codes_suf = [p['code'] for p in parts if p['code'] and p['code'].get('pos') != 'prefix']
        order = codes_pre + order + codes_suf + [p['arg'] for p in parts if p['arg']]
        for f in order:
            if f.get('align') and bits % 8:
                bits += 8 - bits % 8
            bits += f['n']
        size = (bits + 7) // 8
        base = addr + (size - 1 if arg['src']['fromEnd'] else 0)
        lo_eff = arg['src'].get('min', mn)
        hi_eff = arg['src'].get('max', mx)
        off = rng.choice([lo_eff - 1, lo_eff, hi_eff, hi_eff + 1, mn - 1, mn, mx, mx + 1, 0, -1, 1])
        t = base + off
        if rng.random() < 0.15:
            t = rng.choice([gstart - 1, gstart, gend, gend + 1])
        arg['src']['t'] = t
        txt = gen.lit(rng, t)
        if opcfg.get('use_curly_braces'):
            txt = '{' + txt + '}'
        case['texts'][pos] = txt
    case['asm'] = f'.org {addr}\ntst ' + ', '.join(case['texts']) + '\n'
    if rng.random() < 0.25 and addr - 1 >= gstart:
        # the same statement as the second step of a macro (one pad byte in front, outside the image window): a macro
        # step is an ordinary statement at its own address with its own size, so the constraint must decide the same
        isa['instructions']['padx'] = {'bytecode': {'value': 0x5A, 'size': 8}}
        isa['macros'] = {'mtst': [{'operands': {'count': 0}, 'instructions': ['padx', 'tst ' + ', '.join(case['texts'])]}]}
        case['asm'] = f'.org {addr - 1}\nmtst\n'
        case['via_macro'] = True
    elif rng.random() < 0.15:
        # the same statement inside a muted stretch: it emits nothing, but it is assembled - its operands are checked
        # against their constraints exactly as if it were not muted
        case['asm'] = f'.org {addr}\n#mute\ntst ' + ', '.join(case['texts']) + '\n' + rng.choice(['#emit', '#unmute', '']) + '\n'
        case['muted'] = True
    return case


def generate(rng, tier):
    n = 600 if tier == 'quick' else 15000
    return [gen_case(rng, tier) for _ in range(n)]


def to_impl(case):
    return impl.compile_case(case['isa'], {'main.asm': case['asm']}, start=case['addr'])


def to_model(case):
    return case['model']


def judge(case, ir, mr):
    tags = ['kind=' + case['kind']] + (['via-macro'] if case.get('via_macro') else [])
    actual = impl.fbytes(ir, 'out.bin') if ir['status'] == 'ok' else None
    a = ('bytes', list(actual)) if actual is not None else ('err', ir['status'])
    mi = ('bytes', mr['impl']['bytes']) if 'bytes' in mr['impl'] else ('err', mr['impl']['err'])
    ms = ('bytes', mr['spec']['bytes']) if 'bytes' in mr['spec'] else ('err', mr['spec']['err'])
    if case.get('muted'):
        tags.append('muted')
        a, mi, ms = [(x[0], []) if x[0] == 'bytes' else x for x in (a, mi, ms)]
    tags.append('accepted' if a[0] == 'bytes' else 'rejected')
    det = f'{case["asm"].splitlines()[-1]!r} actual={a} impl={mi} spec={ms} msg={str(ir.get("msg"))[:100]}'
    same = lambda x, y: x[0] == y[0] and (x[0] == 'err' or x[1] == y[1])  # noqa
    if ir['status'] == 'timeout':
        return {'verdict': Verdict.VIOLATION, 'detail': 'no termination; ' + det, 'tags': tags}
    if same(a, ms) and same(a, mi):
        return {'verdict': Verdict.OK, 'nontrivial': True, 'tags': tags, 'detail': det}
    if not same(a, ms):
        return {'verdict': Verdict.VIOLATION, 'detail': det, 'tags': tags}
    return {'verdict': Verdict.CORR, 'detail': det, 'tags': tags}
