"""C01 — instruction encoding is exactly the bit layout the ISA prescribes."""
import copy
import random

import gen
import impl
import probes
from core import Verdict

RULE = ('one generated ISA + one instruction statement per case (1..5 operands drawn from 10 operand types, '
        'sizes 1..64, per-field endianness/alignment, prefix/suffix codes, opcode suffix, both reverse options, '
        'via operand sets or specific operands), placed at a random address after a random predecessor; '
        'non-trivial = assembled successfully with >= 2 fields of which one is not a whole number of bytes or '
        'is aligned/little-endian; distinct by structural hash')
EXPLANATION = ('Theorems in Props/C01.lean: the cursor-based packer refines the specified bit string for every '
               'field list; field order equals the documented order; sizes agree. Correspondence: .bin bytes of '
               'the real assembler vs model impl and spec predictions.')
ASSUMPTIONS = ['the relative order of several prefix-positioned operand codes follows the code (no offline document pins it)',
               'operand text -> (code, argument) mapping per operand type is done by the generator (harness), not by the Lean model']


def gen_case(rng: random.Random, tier):
    isa, ctx = gen.base_isa(rng)
    nops = rng.choice([0, 1, 1, 2, 2, 2, 3, 3, 4, 5])
    ops_cfg, insts = [], []
    for i in range(nops):
        cfg, inst = gen.gen_operand(rng, ctx, opid=f'op{i}')
        ops_cfg.append(cfg)
        insts.append(inst)
    opn = rng.choice([1, 2, 3, 4, 4, 5, 6, 7, 8, 8, 8, 9, 12, 16])
    opv = rng.randint(0, (1 << opn) - 1)
    bytecode = {'value': opv, 'size': opn}
    if rng.random() < 0.4:
        bytecode['endian'] = rng.choice(['big', 'little'])
    suffix = None
    if rng.random() < (0.3 if nops > 0 else 0.6):
        sn = rng.choice([1, 2, 3, 4, 8, 9, 12, 16, 16])      # wider than a byte: the suffix has the byte order of its opcode
        suffix = {'value': rng.randint(0, (1 << sn) - 1), 'size': sn}
        bytecode['suffix'] = suffix
    instr = {'bytecode': bytecode}
    rev_args = rng.random() < 0.35
    rev_codes = rng.random() < 0.35
    use_specific = nops > 0 and rng.random() < 0.3
    if nops > 0:
        operands = {'count': nops}
        if use_specific:
            lst = {f'op{i}': ops_cfg[i] for i in range(nops)}
            sp = {'list': lst}
            if rev_args:
                sp['reverse_argument_order'] = True
            if rev_codes:
                sp['reverse_bytecode_order'] = True
            operands['specific_operands'] = {'sp0': sp}
        else:
            for i in range(nops):
                isa['operand_sets'][f'os{i}'] = {'operand_values': {f'op{i}': ops_cfg[i]}}
            os_ = {'list': [f'os{i}' for i in range(nops)]}
            if rev_args:
                os_['reverse_argument_order'] = True
            if rev_codes:
                os_['reverse_bytecode_order'] = True
            operands['operand_sets'] = os_
        instr['operands'] = operands
    else:
        rev_args = rev_codes = False
        if rng.random() < 0.4:
            instr['operands'] = {'count': 0}       # the same instruction with an explicit empty operand section
    if not isa['operand_sets']:
        isa['operand_sets'] = {'unused': {'operand_values': {'r': {'type': 'register', 'register': ctx.regs[0],
                                                                    'bytecode': {'value': 0, 'size': 1}}}}}
    isa['instructions']['tst'] = instr
    # placement
    maxaddr = (1 << ctx.addr_bits) - 1
    base = rng.choice([0, 0, rng.randint(0, max(0, maxaddr - 80))])
    pred = rng.randint(0, 5)
    addr = base + pred
    parts = []
    for i, inst in enumerate(insts):
        if ops_cfg[i]['type'] == 'relative_address':
            parts.append(inst(rng, addr=addr))
        elif ops_cfg[i]['type'] in ('numeric', 'indirect_numeric', 'deferred_numeric') and rng.random() < 0.08 \
                and not ops_cfg[i]['argument'].get('valid_address'):
            # a value just outside the field: must be rejected, never truncated into the neighbouring fields
            mn, mx = gen.fits_range(ops_cfg[i]['argument']['size'])
            parts.append(inst(rng, value=rng.choice([mx + 1, mn - 1])))
        else:
            parts.append(inst(rng))
    little_op = bytecode.get('endian', ctx.default_endian) == 'little'
    model = {
        'op': 'bits', 'addr': addr,
        'opcode': {'v': opv, 'n': opn, 'little': little_op},
        'ops': [{'code': p['code'], 'arg': p['arg']} for p in parts],
        'revArgs': rev_args, 'revCodes': rev_codes,
    }
    if suffix is not None:
        model['suffix'] = {'v': suffix['value'], 'n': suffix['size'], 'little': little_op}
    lines = [p['pre'] for p in parts if p.get('pre')]
    if base:
        lines.append(f'.org {base}')
    if pred:
        lines.append('.byte ' + ', '.join(str(rng.randint(0, 255)) for _ in range(pred)))
    sep = rng.choice([' ', '  ', ' '])
    stmt = gen.rcase(rng, 'tst') + (sep + (',' + rng.choice(['', ' '])).join(p['text'] for p in parts) if parts else '')
    lines.append(stmt)
    return {'isa': isa, 'asm': '\n'.join(lines) + '\n', 'addr': addr, 'model': model,
            'types': [c['type'] for c in ops_cfg], 'specific': use_specific}


def gen_unit(rng):
    """a raw field list for the packer itself (function-level probe of PackedBits): every size / alignment / endianness mix,
    values on the edges of the signed-or-unsigned range and just outside it"""
    fields = []
    for _ in range(rng.randint(1, 7)):
        n = rng.choice([1, 2, 3, 4, 5, 7, 8, 9, 12, 15, 16, 17, 24, 31, 32, 33, 64, rng.randint(1, 70)])
        mn, mx = gen.fits_range(n)
        v = rng.choice([mn, mx, 0, 1, -1, (1 << (n - 1)) - 1, 1 << (n - 1), rng.randint(mn, mx), rng.randint(mn, mx)])
        v = max(mn, min(mx, v))
        if rng.random() < 0.04:
            v = rng.choice([mx + 1, mn - 1])
        fields.append({'v': v, 'n': n, 'align': rng.random() < 0.35, 'little': rng.random() < 0.4})
    return {'unit': 'packed_bits', 'fields': fields, 'types': ['unit-packed-bits'], 'specific': False}


def generate(rng, tier):
    n = 500 if tier == 'quick' else 12000
    # programs of several statements of ONE instruction with overlapping variants (the C13 generator): every statement's
    # bits depend on the ISA, its operands and its address only - never on the statements assembled before it
    from props import c13 as C13
    multi = [{'c13': C13.gen_case(rng, tier), 'types': ['multi-statement'], 'specific': False} for _ in range(n // 5)]
    multi += [{'c13': C13.gen_case_shadow(rng, tier), 'types': ['multi-statement'], 'specific': False} for _ in range(n // 20)]
    multi += [{'c13': C13.gen_case_history(rng, tier), 'types': ['multi-statement'], 'specific': False} for _ in range(n // 5)]
    # statements whose operand texts differ in letter case only (a constant named like an enumeration key): the bits of a
    # statement depend on its own operand values, not on a statement that looks the same after lower-casing
    multi += [{'c13': C13.gen_case_set_history(rng, tier), 'types': ['multi-statement'], 'specific': False} for _ in range(n // 10)]
    return [gen_case(rng, tier) for _ in range(n)] + [gen_unit(rng) for _ in range(n // 2)] + multi


def to_impl(case):
    if case.get('c13'):
        from props import c13 as C13
        return C13.to_impl(case['c13'])
    if case.get('unit'):
        return probes.call('packed_bits', [[f['v'], f['n'], f['align'], f['little']] for f in case['fields']])
    return impl.compile_case(case['isa'], {'main.asm': case['asm']}, start=case['addr'])


def to_model(case):
    if case.get('c13'):
        from props import c13 as C13
        return C13.to_model(case['c13'])
    if case.get('unit'):
        return {'op': 'fields', 'fields': case['fields']}
    return case['model']


def _fields(case):
    fs = []
    if case.get('unit'):
        return case['fields']
    for o in case['model']['ops']:
        for k in ('code', 'arg'):
            if o.get(k):
                fs.append(o[k])
    return fs


def judge(case, ir, mr):
    if case.get('c13'):
        from props import c13 as C13
        j = C13.judge(case['c13'], ir, mr)
        j['tags'] = ['history-independence: several statements, overlapping variants'] + \
            [t for t in j.get('tags', []) if not t.startswith(('variant=', 'nvar=', 'stmts='))]
        return j
    tags = ['nops=%d' % len(case['types'])] + ['type=' + t for t in set(case['types'])]
    if case['specific']:
        tags.append('specific')
    actual = impl.fbytes(ir, 'out.bin') if ir['status'] == 'ok' else None
    if case.get('unit'):
        actual = bytes(ir['ret']['bytes']) if ir['status'] == 'ok' and isinstance(ir.get('ret'), dict) else None
    a = ('bytes', list(actual)) if actual is not None else ('err', ir['status'])
    mi = ('bytes', mr['impl']['bytes']) if 'bytes' in mr['impl'] else ('err', mr['impl']['err'])
    ms = ('bytes', mr['spec']['bytes']) if 'bytes' in mr['spec'] else ('err', mr['spec']['err'])
    fs = _fields(case)
    odd = any(f['n'] % 8 or f.get('align') or f.get('little') for f in fs)
    nontrivial = a[0] == 'bytes' and len(fs) >= 1 and odd
    tags.append('assembled' if a[0] == 'bytes' else 'rejected')
    if any(f['n'] % 8 for f in fs):
        tags.append('non-byte-width')
    det = f'actual={a} impl={mi} spec={ms}'
    same = lambda x, y: x[0] == y[0] and (x[0] == 'err' or x[1] == y[1])  # noqa
    if ir['status'] == 'timeout':
        return {'verdict': Verdict.VIOLATION, 'detail': 'assembler did not terminate; ' + det, 'tags': tags}
    if same(a, ms) and same(a, mi):
        return {'verdict': Verdict.OK, 'nontrivial': nontrivial, 'tags': tags, 'detail': det}
    if not same(a, ms):
        # the spec-level prediction is the property: statement accepted => exactly these bytes
        if ms[0] == 'bytes':
            return {'verdict': Verdict.VIOLATION, 'detail': det + ' msg=' + str(ir.get('msg'))[:150], 'tags': tags}
        # spec says rejected (constraint / overflow): C01 only speaks of accepted statements -> C12's business,
        # but an accepted statement whose value does not fit cannot have "exactly its bits" emitted
        return {'verdict': Verdict.VIOLATION, 'detail': det, 'tags': tags}
    return {'verdict': Verdict.CORR, 'detail': det, 'tags': tags}


def shrink_candidates(case):
    if case.get('c13'):
        return []
    # drop operands one at a time (keeps ISA and statement consistent by regenerating text is not possible here),
    # so only simplify placement
    out = []
    if case['asm'].count('\n') > 1:
        c = copy.deepcopy(case)
        stmt = c['asm'].strip().split('\n')[-1]
        c['asm'] = stmt + '\n'
        c['model']['addr'] = 0
        c['addr'] = 0
        if not any(t == 'relative_address' for t in c['types']):
            out.append(c)
    return out
