"""C07 — numeric expressions evaluate to their arithmetic value."""
import random
import re

import exprgen as X
import impl
import probes
from core import Verdict

RULE = ('expressions generated from the grammar (depth <= 5 quick / 9 thorough) over all literal notations, labels '
        '(constants and a forward address label), unary minus, BYTEn/LSB and the ten binary operators, rendered with '
        'minimal + random redundant parentheses and random blanks, observed through .8byte lines (6 per program) and a '
        '64-bit numeric operand; plus single-fault malformed token streams, evaluation errors (division by zero, negative '
        'shift) and lexer corner cases; non-trivial = well-formed with >= 2 operators, or malformed; distinct by text')
EXPLANATION = ('Theorems in Props/C07.lean (parser = stratified grammar, evaluation = exact arithmetic, BYTEn = two\'s-'
               'complement byte, literal notations). Correspondence: bytes of .8byte lines from the real CLI vs evalText.')
ASSUMPTIONS = ['the tokeniser (Python re on EXPRESSION_PARTS_PATTERN) is modelled by a hand-written scanner, validated here, not verified',
               'a "%" operator is always rendered with a following blank ("5 %10" is the binary literal %10 by maximal munch)',
               'label names avoid literal look-alikes (b101, FACEH, BYTEx)']

ISA = {
    'description': 'c07', 'general': {'address_size': 16, 'endian': 'big', 'registers': ['rq']},
    'operand_sets': {'imm': {'operand_values': {'v': {'type': 'numeric', 'argument': {'size': 512, 'byte_align': True}}}}},
    'instructions': {'nop': {'bytecode': {'value': 0, 'size': 8}},
                     'ldq': {'bytecode': {'value': 1, 'size': 8}, 'operands': {'count': 1, 'operand_sets': {'list': ['imm']}}},
                     # the offset of an indirect register operand is an expression too: `[rq + E]` is E, `[rq - E]` is `0 - E`
                     'ldo': {'bytecode': {'value': 2, 'size': 8}, 'operands': {'count': 1, 'operand_sets': {'list': ['off']}}}},
}
ISA['operand_sets']['off'] = {'operand_values': {'o': {'type': 'indirect_register', 'register': 'rq', 'bytecode': {'value': 3, 'size': 8},
                                                        'offset': {'size': 512, 'byte_align': True}}}}
OFFSET_TEXT = re.compile(r'[\s\w+\-*/&|^()$%]+')        # what the bracket pattern of the operand admits


def gen_env(rng):
    names = rng.sample(X.SAFE_LABELS, rng.randint(0, 4))
    return {n: rng.choice([0, 1, 2, 7, 255, 256, 1000, 65535, 1 << 20, rng.randint(0, 1 << 40)]) for n in names}


def gen_valid_text(rng, env, depth, labels):
    for _ in range(50):
        t = X.gen_tree(rng, rng.randint(1, depth), labels)
        try:
            if X.too_big(t, env):
                continue
            X.evaluate(t, env)
        except X.EvalError:
            continue
        toks = X.render(rng, t)
        s = X.join(rng, toks)
        if s.startswith("'") and rng.random() < 0.5:
            s = '(' + s + ')'
        nops = sum(1 for x in toks if x in X.LEVEL or x == '-')
        return s, nops
    return '1', 0


LEXCASES = ['b101', 'B101', 'FACEH', 'ffh', '0X1F', '1AH', '%101', '7 %10', '7 % 3', '7 % 1', '$zz', "'a'+1",
            'BYTE1(513)', 'BYTE9(1)', 'LSB(1234H)', 'BYTES', 'BYTE1 513)', '__x', '..x', '_', 'x.y', '5 5', '0x10',
            '$10', '10H', '10h', 'bH', 'b1H', 'deadH', 'b2', '12ab', '1 + b1', '9H+1', "'''", "' '", '1 << 2 >> 1',
            '-1 + 2', '- - 3', '-(3)', '-3*-3', '2*-3', '1/49*49', '7/2', '-7/2', '(0-7)/2', '-7 % 3', '7 % (0-3)',
            '1 << 64', '(1 << 64) - 1 >> 60', '-1 >> 3', '-8 >> 1', '-5 & 3', '-5 | 3', '-5 ^ 3', '6 & 3 | 8 ^ 1',
            '2 + 3 * 4', '2 * 3 + 4', '2 + 3 << 1', '1 << 2 + 3', '1 | 2 << 1', '8 / 2 / 2', '8 - 2 - 2', '2 * 7 % 4',
            '(2+3)*4', '((2))', '()', '', ' ', '\t ', '+', '1 +', '(1', '1)', 'BYTE0(-1)', 'BYTE1(-256)', 'BYTE2(-65536) + BYTE3(-1)',
            'LSB(-129)', 'BYTE1(0-129)', 'BYTE1(65535/2)', 'LSB(7/2)', 'LSB(-7/2)', '10 / 4 * 4', '10 / 4 + 10 / 4',
            'BYTE10(513)', 'BYTE10($112233445566778899AABBCCDD)', 'BYTE12(1)', 'BYTE00(5)', 'BYTE01(513)', 'BYTE20(-1)',
            'BYTE1(2)(3)', 'LSB1(5)', 'LSB0(5)', 'BYTE(5)', 'byte1(513)', 'lsb(5)', 'Byte1(513)', 'BYTE1 (513)', 'LSB (5)',
            'BYTE1(BYTE10(5))', '1 + BYTE11(70000)', 'BYTE3($12345678) + BYTE10($12345678)',
            '1/3 + 1/3 + 1/3', '1/3*3', '(1 << 70) / 3 * 3', '(1<<53)+1', '9007199254740993 / 1', '9007199254740993 / 3 * 3']
N_LEXCASES = len(LEXCASES)


def gen_case(rng, tier, fixed=None):
    depth = 5 if tier == 'quick' else 9
    env = gen_env(rng)
    labels = list(env)
    r = rng.random() if fixed is None else 2.0
    if r < 0.1:
        # whitespace twins in ONE program: a well-formed text, then the same characters with one blank more (inside a
        # number, an operator, a name, a character literal ...) or all blanks removed. Every text has its own meaning;
        # nothing an earlier statement did (a parse cache, an interned tree) may leak into a later one.
        s_, k = gen_valid_text(rng, env, min(depth, 3), labels)
        s_ = s_.strip()
        pos = [i for i in range(1, len(s_)) if not s_[i - 1].isspace() and not s_[i].isspace()]
        twins = [s_]
        for _ in range(rng.randint(1, 2)):
            if pos and rng.random() < 0.8:
                i = rng.choice(pos)
                twins.append(s_[:i] + rng.choice([' ', ' ', '\t']) + s_[i:])
            else:
                twins.append(''.join(s_.split()))
        if rng.random() < 0.3:
            twins = ["' '", "'\t'"] if rng.random() < 0.5 else ["'\t'", "' '"]
        if rng.random() < 0.3:
            twins.reverse()
        # a quoted text in a data directive is a string (one value per character), not an expression: quoted twins go
        # through the operand channel only
        return {'kind': 'ws-twin', 'env': env, 'exprs': twins, 'end': False, 'nops': max(k, 2), 'endian': 'big',
                'via_operand': rng.random() < 0.5 or any("'" in t or '"' in t for t in twins)}
    if r < 0.5:
        n = 6
        exprs = []
        use_end = rng.random() < 0.4
        env2 = dict(env)
        if use_end:
            env2['end_lbl'] = 8 * n
        for _ in range(n):
            exprs.append(gen_valid_text(rng, env2, depth, list(env2)))
        return {'kind': 'valid', 'env': env, 'exprs': [e for e, _ in exprs], 'end': use_end,
                'nops': max(k for _, k in exprs), 'endian': rng.choice(['big', 'little']),
                'via_operand': False}
    if r < 0.58:
        s, k = gen_valid_text(rng, env, depth, labels)
        c = {'kind': 'valid', 'env': env, 'exprs': [s], 'end': False, 'nops': k, 'endian': 'big', 'via_operand': True}
        if rng.random() < 0.5:
            # the sign in front of the offset is a BINARY operator: `rq - 7 % 4` is rq - (7 % 4), and `rq - 9 - 2` is (rq - 9) - 2
            a, b, d = rng.randint(1, 40), rng.randint(2, 9), rng.randint(1, 9)
            s2 = rng.choice([f'{a} % {b}', f'{a} % {b} + {d}', f'{a} * {d} % {b}', f'{a} % {b} * {d}', f'{a} / {b}', f'{a} - {d}',
                             f'{a} % {b} - {d}', f'({a} % {b})', f'{a} % {b} % {d + 1}'])
            c['exprs'], c['nops'] = [s2], 2
        if rng.random() < 0.6 and OFFSET_TEXT.fullmatch(c['exprs'][0]) and c['exprs'][0].strip():
            c['offset_sign'] = rng.choice(['+', '-', '-'])
        return c
    if r < 0.68:
        # evaluation errors
        t = X.gen_tree(rng, 2, labels)
        z = rng.choice([('num', 0), ('bin', '-', ('num', 5), ('num', 5)), ('bin', '/', ('num', 1), ('num', 3))])
        bad = rng.choice([('bin', '/', t, z), ('bin', '%', t, z), ('bin', '<<', t, ('neg', ('num', rng.randint(1, 3)))),
                          ('bin', '>>', t, ('neg', ('num', 1))), ('label', 'undefined_lbl')])
        if X.too_big(t, env):
            bad = ('bin', '/', ('num', 1), ('num', 0))
        toks = X.render(rng, bad)
        return {'kind': 'eval-error', 'env': env, 'exprs': [X.join(rng, toks)], 'end': False, 'nops': 1,
                'endian': 'big', 'via_operand': True}
    if r < 0.9:
        for _ in range(20):
            t = X.gen_tree(rng, rng.randint(1, 3), labels)
            try:
                if X.too_big(t, env):
                    continue
                X.evaluate(t, env)
            except X.EvalError:
                continue
            break
        else:
            t = ('bin', '+', ('num', 1), ('num', 2))
        toks, how = X.mutate_tokens(rng, X.render(rng, t, extra_parens=0.05))
        s = X.join(rng, toks)
        return {'kind': 'malformed', 'how': how, 'env': env, 'exprs': [s], 'end': False, 'nops': 1,
                'endian': 'big', 'via_operand': True}
    s = rng.choice(LEXCASES) if fixed is None else LEXCASES[fixed % len(LEXCASES)]
    return {'kind': 'corner', 'env': {'x': 3} if 'x' in s else {}, 'exprs': [s], 'end': False, 'nops': 2, 'endian': 'big',
            'via_operand': True}


def generate(rng, tier):
    n = 450 if tier == 'quick' else 10000
    cases = [gen_case(rng, tier) for _ in range(n)]
    cases += [gen_case(rng, tier, fixed=i) for i in range(N_LEXCASES)]     # every lexer corner text once per run
    for c in cases:
        # a third channel: parse_expression(text).get_value(scope) called directly (function-level probe, no statement
        # syntax around the text, so blank text and ''' are in scope too)
        if c.get('offset_sign'):
            continue
        if len(c['exprs']) == 1 and (rng.random() < 0.3 or not c['exprs'][0].strip()):
            # (a text that is empty or all blanks is no operand and no data value: only this channel asks for ITS value)
            c['direct'] = True
            continue
        # error / malformed / corner texts are observed through both channels: a 512-bit numeric operand and a .8byte line
        # (a blank text is "no value" for a data line, and ''' is an empty string followed by a quote there)
        if c['kind'] not in ('valid', 'ws-twin') and rng.random() < 0.5 and c['exprs'][0].strip() and "'''" not in c['exprs'][0]:
            c['via_operand'] = False
    return cases


def asm_text(case):
    lines = [f'{k} = {v}' for k, v in case['env'].items()]
    for e in case['exprs']:
        if case.get('offset_sign'):
            lines.append(f'ldo [rq {case["offset_sign"]} {e}]')
        elif case['via_operand']:
            lines.append('ldq ' + e)
        else:
            lines.append('.8byte ' + e)
    if case['end']:
        lines.append('end_lbl:')
    return '\n'.join(lines) + '\n'


def to_impl(case):
    if case.get('direct'):
        return probes.call('eval_expr', case['exprs'][0], [[k, v] for k, v in case['env'].items()])
    isa = dict(ISA)
    isa['general'] = dict(ISA['general'], endian=case['endian'])
    return impl.compile_case(isa, {'main.asm': asm_text(case)})


def to_model(case):
    env = [[k, v] for k, v in case['env'].items()]
    if case['end']:
        env.append(['end_lbl', 8 * len(case['exprs'])])
    if case.get('offset_sign') == '-':
        return [{'op': 'expr', 'text': '0 - ' + e, 'env': env} for e in case['exprs']]
    return [{'op': 'expr', 'text': e, 'env': env} for e in case['exprs']]


def judge(case, ir, mrs):
    tags = ['kind=' + case['kind']]
    if case.get('how'):
        tags.append('fault=' + case['how'])
    if case.get('offset_sign'):
        tags.append('via-indirect-register-offset' + case['offset_sign'])
    elif case['via_operand']:
        tags.append('via-operand')
    det = f'exprs={case["exprs"]!r} env={case["env"]}'
    if ir['status'] == 'timeout':
        return {'verdict': Verdict.VIOLATION, 'detail': 'no termination; ' + det, 'tags': tags}
    model_err = [m for m in mrs if 'err' in m]
    if case.get('direct'):
        tags.append('direct-call')
        got = ir['ret']['value'] if ir['status'] == 'ok' and isinstance(ir.get('ret'), dict) else None
        if got is None:
            tags.append('rejected')
            if model_err:
                return {'verdict': Verdict.OK, 'nontrivial': True, 'tags': tags, 'detail': det + ' both rejected'}
            return {'verdict': Verdict.VIOLATION, 'tags': tags,
                    'detail': det + f' parse_expression/get_value rejected ({str(ir.get("msg"))[:120]}), model value={mrs[0].get("value")}'}
        tags.append('evaluated')
        if model_err:
            return {'verdict': Verdict.VIOLATION, 'tags': tags,
                    'detail': det + f' real code evaluates to {got} but the text is not a well-formed/defined expression: {model_err[0]}'}
        if got == mrs[0]['value']:
            return {'verdict': Verdict.OK, 'nontrivial': case['nops'] >= 2, 'tags': tags, 'detail': det}
        return {'verdict': Verdict.VIOLATION, 'tags': tags, 'detail': det + f' real code evaluates to {got}, arithmetic value {mrs[0]["value"]}'}
    actual = impl.fbytes(ir, 'out.bin') if ir['status'] == 'ok' else None
    if actual is None:
        tags.append('rejected')
        if model_err:
            return {'verdict': Verdict.OK, 'nontrivial': True, 'tags': tags, 'detail': det + ' both rejected'}
        # model (= arithmetic value) says well-formed, the real code rejects
        return {'verdict': Verdict.VIOLATION, 'tags': tags,
                'detail': det + f' real code rejected ({str(ir.get("msg"))[:120]}), model values={[m.get("value") for m in mrs]}'}
    tags.append('evaluated')
    if model_err:
        return {'verdict': Verdict.VIOLATION, 'tags': tags,
                'detail': det + f' real code assembled {actual.hex()} but the text is not a well-formed/defined expression: {model_err[0]}'}
    exp = bytearray()
    for m in mrs:
        v = m['value']
        if case.get('offset_sign'):
            if not (-(1 << 511) <= v < (1 << 512)):
                return {'verdict': Verdict.CORR, 'tags': tags, 'detail': det + ' value does not fit the 512-bit offset but was assembled'}
            exp += b'\x02\x03' + (v % (1 << 512)).to_bytes(64, case['endian'])
        elif case['via_operand']:
            if not (-(1 << 511) <= v < (1 << 512)):
                return {'verdict': Verdict.CORR, 'tags': tags, 'detail': det + ' value does not fit the 512-bit operand but was assembled'}
            exp += b'\x01' + (v % (1 << 512)).to_bytes(64, case['endian'])
        else:
            exp += (v % (1 << 64)).to_bytes(8, case['endian'])
    if bytes(exp) == actual:
        return {'verdict': Verdict.OK, 'nontrivial': case['nops'] >= 2, 'tags': tags, 'detail': det}
    return {'verdict': Verdict.VIOLATION, 'tags': tags,
            'detail': det + f' actual={actual.hex()} expected={bytes(exp).hex()} values={[m["value"] for m in mrs]}'}
