"""C20 — generated editor extensions are well-formed and mirror the ISA vocabulary."""
import base64
import io
import json
import plistlib
import random
import re
import xml.dom.minidom
import zipfile

import impl
import yaml
from core import Verdict
from props import c10 as C10

RULE = ('generated ISAs with random vocabularies (mnemonics, macro names, registers, predefined constant / data / zone names; names '
        'that are prefixes, suffixes and extensions of one another; with and without macros, registers, predefined names) x both '
        'editor targets via the real CLI (generate-extension vscode|sublime): (i) every produced file parses (JSON, YAML, '
        'property list / XML, zip) — a test, not a proof; (ii) no ##PLACEHOLDER## is left; (iii) the alternatives of each vocabulary '
        'pattern equal the configured vocabulary as a set; (iv) probe identifiers (every configured name in lower / upper / mixed '
        'case, every assembler directive keyword, and non-members derived from them) are classified with Python re on the generated '
        'patterns in the grammars\' rule order and compared with the Lean model of the patterns and with the membership spec; '
        'non-trivial = ISA with macros and registers and prefix-related names')
EXPLANATION = ('Theorems in Props/C20.lean: for plain-word vocabularies the generated alternation pattern, matched leftmost-first, '
               'takes a whole word iff the word is in the vocabulary (case-folded), independently of the order of the alternatives. '
               'Well-formedness of JSON/YAML/plist/zip written by Python libraries is tested by parsing, not proved.')
ASSUMPTIONS = ['the Lean theorems cover plain-word vocabularies; names containing a dot (ld.w) are covered by the correspondence only',
               'TextMate/Oniguruma and Sublime regex semantics agree with Python re on the generated fragment']
MN_POOL = ['ld', 'ldx', 'ld2', 'l', 'add', 'addc', 'sub', 'b', 'mov', 'mv', 'jmp', 'j', 'sta', 'st', 'inc', 'x', 'nop', 'ret', 'subb',
           'ld.w', 'st.b', 'mov.l', 'ld.b', '_brk', 'inc_', 'ld_x']
# 'ld' / 'st' / 'mov' as MACRO names next to the instructions 'ld.w' / 'st.b' / 'mov.l': a name of one vocabulary extended by a
# name of the other (the order of the rules decides which wins where both match)
MAC_POOL = ['push2', 'mac', 'ld16', 'addw', 'm', 'retz', 'mac.w', '_save', 'clr_', 'ld', 'st', 'mov']
REG_POOL = ['a', 'b2', 'ab', 'sp', 'hl', 'h', 'r0', 'r10', 'r1', 'ix', 'r_', '_t']
PRE_POOL = ['PK_A', 'pk_a', 'BUF', 'BUFFER', 'ZN_IO', 'IO', 'K1']
COMPILER = ['org', 'memzone', 'align']
BYTECODE = ['fill', 'zero', 'zerountil', 'byte', '2byte', '4byte', '8byte', 'cstr', 'asciiz']
PREPROC = ['include', 'require', 'create_memzone', 'define', 'if', 'elif', 'else', 'endif', 'ifdef', 'ifndef', 'mute', 'unmute', 'emit']


# size: names of ten and more characters that extend a short name of the same vocabulary (lengths compare as numbers: 12 > 3)
LONG_MN = [('ld', 'ld.immediate'), ('jmp', 'jmp.ifcarryset'), ('st', 'st.byte_indexed'), ('add', 'add.with_carry_in'), ('mov', 'mov.l.extended')]
LONG_MAC = [('push2', 'push2.extended'), ('mac', 'mac.accumulate16'), ('m', 'm.longer_than_ten')]
LONG_REG = [('r1', 'r1_shadow_bank'), ('sp', 'sp_supervisor0'), ('a', 'a_accumulator')]


def gen_case(rng, tier):
    mns = rng.sample(MN_POOL, rng.randint(1, 7))
    macs = rng.sample([m for m in MAC_POOL if m not in mns], rng.choice([0, 0, 1, 2, 3]))
    regs = rng.sample([r for r in REG_POOL if r not in mns and r not in macs], rng.choice([0, 1, 2, 4, 5]))
    if rng.random() < 0.3:
        for pool, target in ((LONG_MN, mns), (LONG_MAC, macs), (LONG_REG, regs)):
            if rng.random() < 0.6:
                short, long_ = rng.choice(pool)
                for nm in (short, long_):
                    if nm not in mns and nm not in macs and nm not in regs:
                        target.insert(rng.randint(0, len(target)), nm)
    pre = rng.sample(PRE_POOL, rng.choice([0, 0, 1, 2, 3]))
    isa = {'description': 'c20 test isa', 'general': {'address_size': 16, 'endian': 'big', 'registers': regs,
                                                       'identifier': {'name': rng.choice(['tlang', 'my-isa', 'cpu8']), 'version': '1.0.0',
                                                                      'extension': rng.choice(['asm', 'tl', 's8'])}},
           'operand_sets': {'imm': {'operand_values': {'v': {'type': 'numeric', 'argument': {'size': 8, 'byte_align': True}}}}},
           'instructions': {}}
    for i, m in enumerate(mns):
        nm = m if rng.random() < 0.8 else m.upper()
        isa['instructions'][nm] = {'bytecode': {'value': i + 1, 'size': 8}}
    if macs:
        isa['macros'] = {m: [{'instructions': [mns[0]]}] for m in macs}
    elif rng.random() < 0.4:
        isa['macros'] = {}        # the section written, nothing in it
    if pre:
        p = {}
        kinds = ['constants', 'data', 'memory_zones']
        for j, n in enumerate(pre):
            k = kinds[j % 3]
            if k == 'constants':
                p.setdefault('constants', []).append({'name': n, 'value': j})
            elif k == 'data':
                p.setdefault('data', []).append({'name': n, 'address': 0x100 + 4 * j, 'value': 0, 'size': 2})
            else:
                p.setdefault('memory_zones', []).append({'name': n, 'start': 0x200 + 16 * j, 'end': 0x20F + 16 * j})
        isa['predefined'] = p
    return {'isa': isa, 'mns': [m.lower() for m in mns], 'macs': macs, 'regs': regs, 'pre': pre, 'seed': rng.randrange(1 << 30)}


def generate(rng, tier):
    return [gen_case(rng, tier) for _ in range(120 if tier == 'quick' else 2500)]


def to_impl(case):
    files = {'isa.yaml': yaml.safe_dump(case['isa'], sort_keys=False), 'vs/.keep': '', 'sb/.keep': ''}
    return [{'files': files, 'argv': ['generate-extension', 'vscode', '-c', '{W}/isa.yaml', '-d', '{W}/vs'], 'collect': [], 'collect_tree': 'vs'},
            {'files': files, 'argv': ['generate-extension', 'sublime', '-c', '{W}/isa.yaml', '-d', '{W}/sb'], 'collect': [], 'collect_tree': 'sb'}]


def probes(case):
    r = random.Random(case['seed'])
    out = []
    for w in case['mns'] + case['macs'] + case['regs']:
        out += [w, w.upper(), w.capitalize(), w + 'x', 'x' + w, w + '2', w[:-1] if len(w) > 1 else w + w, w + '_', '_' + w,
                'do' + w, w + 'all', '9' + w]
        if '.' in w:
            out += [w.replace('.', 'x'), w.replace('.', '_'), w.replace('.', ''), w.replace('.', '0'), w.upper().replace('.', 'Q')]
    for w in case['pre']:
        out += [w, w.lower(), w.upper(), w + '2', w[:-1] if len(w) > 1 else w + w]
    out += ['zz9', 'foo', 'q']
    seen, res = set(), []
    for w in out:
        if w not in seen and re.fullmatch(r'[\w.]+', w):
            seen.add(w)
            res.append(w)
    return res


def to_model(case):
    return {'op': 'classify', 'instrs': case['mns'], 'macros': case['macs'], 'regs': case['regs'], 'pre': case['pre'],
            'probes': probes(case)}


def alternatives(pattern):
    """the literal alternatives of a generated word-list pattern"""
    body = re.sub(r'^\(\?i\)', '', pattern)
    body = re.sub(r'^\((?:\?:)?', '', body)
    body = re.sub(r'\)$', '', body)
    parts = [p for p in body.split('|')]
    return [re.sub(r'\\(.)', r'\1', re.sub(r'^\\b|\\b$', '', p)) for p in parts]


def take(pattern, text, pos=0):
    """does `pattern`, tried at `pos`, take the whole rest of the word? returns None (no match) / True / False (partial)"""
    try:
        m = re.compile(pattern).match(text, pos)
    except re.error:
        return 'bad-regex'
    if m is None:
        return None
    if m.end() < len(text) and m.end() > pos and re.match(r'\w', text[m.end()]) and re.match(r'\w', text[m.end() - 1]):
        return 'mid-word'       # the match stops between two word characters: part of a longer identifier is claimed
    return m.end() == len(text)


def classify_with(rules, w):
    for cls, pat in rules:
        t = take(pat, w)
        if t == 'bad-regex':
            return 'bad-regex'
        if t == 'mid-word':
            return 'part-of-identifier-as-' + cls
        if t is not None:
            return cls if t else 'none'
    return 'none'


def classify_line(top_rules, end_pats, reg_pat, words):
    """a small interpreter of the two-level structure both grammars share: at statement level the instruction / macro
    rules are tried; a match opens the operand context, which is left where its end look-ahead matches (end of line,
    comment, or the next operation on the same line); inside it registers are registers and other words parameters.
    end_pats: class -> end look-ahead of the context that class opens."""
    text = ' '.join(words)
    out, pos, ctx = [], 0, None
    for w in words:
        p = text.index(w, pos)
        pos = p + len(w)
        if ctx is not None:
            try:
                # the look-ahead may start with \s*: try it from the blank in front of the word as well as at the word
                if re.compile(end_pats[ctx]).match(text, p) or (p > 0 and re.compile(end_pats[ctx]).match(text, p - 1)):
                    ctx = None
            except re.error:
                return 'bad-regex'
        if ctx is None:
            got = 'none'
            for cls, pat in top_rules:
                m = re.compile(pat).match(text, p)
                if m is not None:
                    got = cls if m.end() == p + len(w) else 'partial'
                    break
            if got in ('instruction', 'macro'):
                ctx = got
            out.append(got)
        else:
            m = re.compile(reg_pat).match(text, p) if reg_pat else None
            out.append('register' if m is not None and m.end() == p + len(w) else 'param')
    return out


def check_text_files(tree, tags):
    for name, b64 in tree.items():
        data = base64.b64decode(b64)
        if name.endswith('.sublime-package'):
            continue
        try:
            text = data.decode('utf-8')
        except UnicodeDecodeError:
            continue
        m = re.search(r'##[A-Z_]+##', text)
        if m:
            return f'unsubstituted placeholder {m.group(0)} in {name}'
        try:
            if name.endswith('.json') or name.endswith('.sublime-color-scheme') or name.endswith('.sublime-keymap'):
                json.loads(text)
            elif name.endswith('.sublime-syntax'):
                yaml.safe_load(text)
            elif name.endswith('.tmTheme') or name.endswith('.tmPreferences'):
                plistlib.loads(data)
            elif name.endswith('.sublime-snippet') or name.endswith('.xml'):
                xml.dom.minidom.parseString(data)
        except Exception as e:  # noqa
            return f'{name} is not well-formed: {type(e).__name__}: {str(e)[:100]}'
    return None


def judge(case, irs, mr):
    tags = ['macros=%d' % bool(case['macs']), 'regs=%d' % bool(case['regs']), 'pre=%d' % bool(case['pre'])]
    det = f'mnemonics={case["mns"]} macros={case["macs"]} registers={case["regs"]} predefined={case["pre"]}'
    for r in irs:
        if r['status'] == 'timeout':
            return {'verdict': Verdict.VIOLATION, 'tags': tags, 'detail': 'no termination; ' + det}
        if r['status'] != 'ok':
            return {'verdict': Verdict.VIOLATION, 'tags': tags, 'detail': f'generator failed on an accepted ISA: {str(r.get("msg"))[:200]}; ' + det}
    vs, sb = irs[0].get('tree', {}), irs[1].get('tree', {})
    pkgs = [n for n in sb if n.endswith('.sublime-package')]
    if len(pkgs) != 1:
        return {'verdict': Verdict.VIOLATION, 'tags': tags, 'detail': f'expected one .sublime-package, found {sorted(sb)}; ' + det}
    try:
        zf = zipfile.ZipFile(io.BytesIO(base64.b64decode(sb[pkgs[0]])))
        if zf.testzip() is not None:
            raise zipfile.BadZipFile('corrupt member')
        sbt = {n: base64.b64encode(zf.read(n)).decode() for n in zf.namelist()}
    except Exception as e:  # noqa
        return {'verdict': Verdict.VIOLATION, 'tags': tags, 'detail': f'sublime package is not a valid zip: {e}; ' + det}
    for tree, what in ((vs, 'vscode'), (sbt, 'sublime')):
        bad = check_text_files(tree, tags)
        if bad:
            return {'verdict': Verdict.VIOLATION, 'tags': tags, 'detail': f'{what}: {bad}; ' + det}
    gname = [n for n in vs if n.endswith('tmGrammar.json')]
    sname = [n for n in sbt if n.endswith('.sublime-syntax')]
    if len(gname) != 1 or len(sname) != 1:
        return {'verdict': Verdict.VIOLATION, 'tags': tags, 'detail': f'grammar files missing: {sorted(vs)} {sorted(sbt)}; ' + det}
    g = json.loads(base64.b64decode(vs[gname[0]]))['repository']
    s = yaml.safe_load(base64.b64decode(sbt[sname[0]]).decode())['contexts']
    # (iii) vocabulary as sets
    want = {'instruction': set(case['mns']), 'macro': set(case['macs']), 'register': set(case['regs']), 'predefined': set(case['pre'])}
    vs_pats = {'instruction': g.get('instructions', {}).get('begin'), 'macro': g.get('macros', {}).get('begin'),
               'register': g.get('registers', {}).get('match'), 'predefined': g.get('compiler_labels', {}).get('match')}
    sb_instr = {r.get('scope'): r.get('match') for r in s.get('instructions', []) if isinstance(r, dict) and 'match' in r}
    sb_pats = {'instruction': sb_instr.get('variable.function.instruction'), 'macro': sb_instr.get('variable.function.macro'),
               'register': (s.get('registers') or [{}])[0].get('match'), 'predefined': (s.get('compiler_labels') or [{}])[0].get('match')}
    for what, pats in (('vscode', vs_pats), ('sublime', sb_pats)):
        for cls, vocab in want.items():
            p = pats[cls]
            if not vocab:
                if p is not None and '##' not in str(p) and cls != 'instruction':
                    return {'verdict': Verdict.VIOLATION, 'tags': tags, 'detail': f'{what}: a {cls} rule exists although the ISA has none: {p}; ' + det}
                continue
            if p is None:
                return {'verdict': Verdict.VIOLATION, 'tags': tags, 'detail': f'{what}: no {cls} rule although the ISA has {sorted(vocab)}; ' + det}
            inner = p
            mm = re.search(r'\(\?:?(.*)\)', p) if cls != 'predefined' else re.search(r'\(\?:(.*)\)', p)
            alts = set(x.lower() if cls != 'predefined' else x for x in alternatives(mm.group(0) if mm else inner))
            exp = set(x.lower() if cls != 'predefined' else x for x in vocab)
            if alts != exp:
                return {'verdict': Verdict.VIOLATION, 'tags': tags,
                        'detail': f'{what}: {cls} pattern {p!r} lists {sorted(alts)} but the ISA configures {sorted(exp)}; ' + det}
    # (iii-b) the scope each rule assigns is the scope of ITS class (a word list under the wrong scope name classifies wrongly)
    vs_scopes = {'instruction': (g.get('instructions', {}).get('beginCaptures', {}).get('0', {}).get('name'), 'variable.function.instruction'),
                 'macro': (g.get('macros', {}).get('beginCaptures', {}).get('0', {}).get('name'), 'variable.function.macro'),
                 'register': (g.get('registers', {}).get('name'), 'variable.language.register'),
                 'predefined': (g.get('compiler_labels', {}).get('name'), 'constant.language')}
    for cls, (got_scope, want_scope) in vs_scopes.items():
        if want[cls] and vs_pats[cls] is not None and got_scope != want_scope:
            return {'verdict': Verdict.VIOLATION, 'tags': tags,
                    'detail': f'vscode: the {cls} rule assigns the scope {got_scope!r}, expected {want_scope!r}; ' + det}
    sb_reg_scope = (s.get('registers') or [{}])[0].get('scope')
    if want['register'] and sb_pats['register'] is not None and sb_reg_scope is not None and 'register' not in str(sb_reg_scope):
        return {'verdict': Verdict.VIOLATION, 'tags': tags, 'detail': f'sublime: the register rule assigns the scope {sb_reg_scope!r}; ' + det}
    # (iv) classification of probe identifiers, in the rule order of each grammar
    pr = probes(case)
    # the order in which each grammar lists its rules (of two rules that match at one place the first one listed wins)
    inc2cls = {'#instructions': 'instruction', '#macros': 'macro', '#registers': 'register', '#compiler_labels': 'predefined'}
    vs_order = [inc2cls[i.get('include')] for i in g.get('main', {}).get('patterns', []) if i.get('include') in inc2cls]
    sc2cls = {'variable.function.instruction': 'instruction', 'variable.function.macro': 'macro'}
    sb_order = [sc2cls[r.get('scope')] for r in s.get('instructions', []) if isinstance(r, dict) and r.get('scope') in sc2cls]
    orders = {}
    for what, lst in (('vscode', vs_order), ('sublime', sb_order)):
        orders[what] = lst + [c for c in ('instruction', 'macro', 'register', 'predefined') if c not in lst]
    for what, pats in (('vscode', vs_pats), ('sublime', sb_pats)):
        order = orders[what]
        rules = [(c, pats[c]) for c in order if pats[c] is not None and want[c]]
        for w, mi, ms in zip(pr, mr['impl'], mr['spec']):
            got = classify_with(rules, w)
            if got != ms:
                return {'verdict': Verdict.VIOLATION, 'tags': tags,
                        'detail': f'{what}: identifier {w!r} is classified as {got}, the vocabulary says {ms}; rules={rules}; ' + det}
            if mi != ms:
                return {'verdict': Verdict.CORR, 'tags': tags, 'detail': f'model pattern classifies {w!r} as {mi}, spec {ms}; ' + det}
    # (v) several operations on one line: the operand context of one operation ends where the next configured operation
    # (instruction OR macro) starts, so each of them is classified by its own rule, and operands never are
    ops = [(w, 'instruction') for w in case['mns']] + [(w, 'macro') for w in case['macs']]
    r5 = random.Random(case['seed'] + 5)
    sb_end = None
    for rule in s.get('pop_instruction_end', []):
        if isinstance(rule, dict) and rule.get('name') == 'instructions':
            sb_end = rule.get('match')
    ends = {'vscode': {'instruction': g.get('instructions', {}).get('end'), 'macro': g.get('macros', {}).get('end')},
            'sublime': {'instruction': sb_end, 'macro': sb_end}}
    amb = lambda w: any(w.lower() == x.lower() for x in case['regs'] + case['pre'])  # noqa
    if len(ops) >= 2:
        for _ in range(12):
            k = r5.randint(2, 4)
            seq = [r5.choice(ops) for _ in range(k)]
            words, expect = [], []
            for w, cls in seq:
                words.append(r5.choice([w, w.upper()]))
                expect.append(cls)
                for _ in range(r5.randint(0, 2)):
                    if case['regs'] and r5.random() < 0.5:
                        rg = r5.choice(case['regs'])
                        if not any(rg.lower() == o.lower() for o, _ in ops):
                            words.append(rg)
                            expect.append('register')
                            continue
                    words.append(r5.choice(['zz9', 'q7', 'foo_bar']))
                    expect.append('param')
            for what, pats in (('vscode', vs_pats), ('sublime', sb_pats)):
                top = [(c, pats[c]) for c in orders[what] if c in ('instruction', 'macro') and pats[c] is not None and want[c]]
                if any(ends[what].get(c) is None for c, _ in top):
                    return {'verdict': Verdict.VIOLATION, 'tags': tags, 'detail': f'{what}: no end-of-operands pattern; ' + det}
                got = classify_line(top, ends[what], pats['register'] if want['register'] else None, words)
                if got != expect:
                    return {'verdict': Verdict.VIOLATION, 'tags': tags,
                            'detail': f'{what}: words of the line {" ".join(words)!r} are classified {got}, the vocabulary says {expect}; '
                                      f'end patterns {ends[what]}; ' + det}
        tags.append('compound-line-classification')

    # directive keywords
    def dir_rules_vs():
        out = []
        for item in g['directives']['patterns']:
            if item.get('name') == 'meta.directive':
                out.append(('directive', item['begin']))
            elif item.get('name') == 'storage.type':
                out.append(('directive', item['match']))
            elif item.get('name') == 'meta.preprocessor':
                for ptn in item['patterns']:
                    if ptn.get('name') == 'keyword.control.preprocessor':
                        out.append(('preproc', ptn['match']))
        return out

    def dir_rules_sb():
        out = [('directive', s['compiler_directives'][0]['match']), ('directive', s['data_types_directives'][0]['match'])]
        for rule in s['preprocessor_directives'][0]['push']:
            if isinstance(rule, dict) and rule.get('scope') == 'keyword.control.preprocessor':
                out.append(('preproc', rule['match']))
        return out
    for what, rules in (('vscode', dir_rules_vs()), ('sublime', dir_rules_sb())):
        dirp = [p for c, p in rules if c == 'directive']
        prep = [p for c, p in rules if c == 'preproc']
        if not prep or len(dirp) < 2:
            return {'verdict': Verdict.VIOLATION, 'tags': tags, 'detail': f'{what}: directive rules missing; ' + det}
        for kw in COMPILER + BYTECODE:
            if not any(take(p, '.' + kw) is True for p in dirp):
                return {'verdict': Verdict.VIOLATION, 'tags': tags, 'detail': f'{what}: directive .{kw} is not classified as a directive by {dirp}; ' + det}
            for bad in ('.' + kw + 'x', '.x' + kw):
                if any(take(p, bad) is True for p in dirp):
                    return {'verdict': Verdict.VIOLATION, 'tags': tags, 'detail': f'{what}: {bad} is classified as a directive; ' + det}
        for kw in PREPROC:
            if not any(take(p, '#' + kw, 1) is True for p in prep):
                return {'verdict': Verdict.VIOLATION, 'tags': tags,
                        'detail': f'{what}: preprocessor directive #{kw} is not classified as a whole by {prep}; ' + det}
    nontrivial = bool(case['macs']) and bool(case['regs'])
    return {'verdict': Verdict.OK, 'nontrivial': nontrivial, 'tags': tags, 'detail': det}
