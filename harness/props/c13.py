"""C13 — variant and operand selection follows the documented priority only."""
import random

import exprgen as X
import gen
import impl
from core import Verdict

RULE = ('deliberately ambiguous ISAs: one mnemonic with 1..4 variants (unique opcodes), per variant optional specific operand '
        'configurations (incl. empty operands and differing counts) and operand sets of 1..5 alternatives of different types '
        '(unique operand codes) in random definition order, disallowed pairs hitting preferred matches; statements whose operand '
        'texts are acceptable to several alternatives / variants (register names in any case, enumeration keys that are also '
        'constants, numbers, [reg], [reg+off], [num], [[num]], reg+idx, {num}, decorated registers); the opcode / operand codes in '
        'the image identify the choice; non-trivial = >= 2 variants or an operand set with >= 2 alternatives accepting the text')
EXPLANATION = ('Theorems in Props/C13.lean: first matching variant in definition order, specific before sets, disallowed '
               'skipped, minimal rank (stable) within a set, register names never numeric, rejection iff nothing accepts. '
               'Correspondence: .bin / exit status of the real CLI vs selectVariant + encodeInstr.')
ASSUMPTIONS = ['an enumeration key is generated only as a whole operand (the code matches keys as a prefix of the text)',
               'decorated-register alternatives are not mixed with numeric_enumeration / relative_address / numeric_bytecode in one set',
               'index operands of indexed registers are register / numeric / numeric_bytecode']
REGS = ['a', 'b', 'sp', 'hl', 'ix']
KEYS = ['zflag', 'carry', 'never', 'odd']
DECOS = {'plus': '+', 'plus_plus': '++', 'minus': '-', 'minus_minus': '--', 'exclamation': '!', 'at': '@'}


class Alloc:
    def __init__(self):
        self.code = 0

    def next_code(self):
        self.code = (self.code + 1) % 15 or 1
        return self.code


def mk_code(al, rng, size=4):
    v = al.next_code()
    pos = rng.choice(['suffix', 'suffix', 'prefix'])
    y = {'value': v, 'size': size}
    if pos == 'prefix':
        y['position'] = 'prefix'
    return y, {'v': v, 'n': size, 'pos': pos}


def mk_arg(rng, de, size=8):
    y = {'size': size, 'byte_align': True}
    if rng.random() < 0.3:
        y['endian'] = rng.choice(['big', 'little'])
    return y, {'n': size, 'align': True, 'little': y.get('endian', de) == 'little'}


def gen_alt(rng, al, kind, regs, de, gz, oid, consts):
    """returns (yaml cfg, model cfg) for one operand alternative"""
    cy, cm = mk_code(al, rng)
    if kind == 'register':
        r = rng.choice(regs)
        return {'type': 'register', 'register': r, 'bytecode': cy}, {'id': oid, 't': 'register', 'r': r, 'code': cm}
    if kind == 'deco_register':
        r = rng.choice(regs)
        dk = rng.choice(list(DECOS))
        pre = rng.random() < 0.5
        y = {'type': 'register', 'register': r, 'bytecode': cy, 'decorator': {'type': dk, 'is_prefix': pre}}
        m = {'id': oid, 't': 'register', 'r': r, 'code': cm, 'decoPre': DECOS[dk] if pre else '', 'decoPost': '' if pre else DECOS[dk]}
        return y, m
    if kind in ('numeric', 'indirect_numeric', 'deferred_numeric'):
        ay, am = mk_arg(rng, de)
        y = {'type': kind, 'bytecode': cy, 'argument': ay}
        m = {'id': oid, 't': kind, 'code': cm, 'arg': am}
        return y, m
    if kind == 'address':
        ay, am = mk_arg(rng, de, 16)
        return {'type': 'address', 'bytecode': cy, 'argument': ay}, {'id': oid, 't': 'address', 'code': cm, 'arg': am, 'zs': gz[0], 'ze': gz[1]}
    if kind == 'relative_address':
        ay, am = mk_arg(rng, de, 8)
        curly = rng.random() < 0.4
        y = {'type': 'relative_address', 'bytecode': cy, 'argument': ay}
        if curly:
            y['use_curly_braces'] = True
        return y, {'id': oid, 't': 'relative_address', 'code': cm, 'arg': am, 'curly': curly}
    if kind == 'numeric_bytecode':
        lo, hi = 0, rng.choice([7, 15])
        y = {'type': 'numeric_bytecode', 'bytecode': {'size': 4, 'min': lo, 'max': hi}}
        return y, {'id': oid, 't': 'numeric_bytecode', 'n': 4, 'pos': 'suffix', 'min': lo, 'max': hi}
    if kind == 'numeric_enumeration':
        keys = rng.sample(range(0, 12), 3)
        d = {k: al.next_code() for k in keys}
        y = {'type': 'numeric_enumeration', 'bytecode': {'size': 4, 'value_dict': d}}
        return y, {'id': oid, 't': 'numeric_enumeration', 'code': {'n': 4, 'pos': 'suffix', 'dict': [[k, v] for k, v in d.items()]}}
    if kind == 'enumeration':
        keys = rng.sample(KEYS, rng.randint(1, 3))
        ay, am = mk_arg(rng, de)
        # 0 is a value like any other (a key that maps to 0 is still a key of the enumeration)
        ad = {k: rng.choice([0, 0, rng.randint(0, 200)]) for k in keys}
        cd = {k: rng.choice([0, al.next_code(), al.next_code()]) for k in keys}
        pos = cy.get('position', 'suffix')
        yb = {'size': 4, 'value_dict': cd}
        if pos == 'prefix':
            yb['position'] = 'prefix'
        ay = dict(ay, value_dict=ad)
        y = {'type': 'enumeration', 'bytecode': yb, 'argument': ay}
        m = {'id': oid, 't': 'enumeration', 'code': {'n': 4, 'pos': pos, 'dict': [[k, v] for k, v in cd.items()]},
             'arg': dict(am, dict=[[k, v] for k, v in ad.items()])}
        return y, m
    if kind == 'deco_indirect_register':
        # `-[sp]`, `[hl]++` ...: the decorator stands outside the brackets
        r = rng.choice(regs)
        dk = rng.choice(list(DECOS))
        pre = rng.random() < 0.5
        y = {'type': 'indirect_register', 'register': r, 'bytecode': cy, 'decorator': {'type': dk, 'is_prefix': pre}}
        m = {'id': oid, 't': 'indirect_register', 'r': r, 'code': cm, 'decoPre': DECOS[dk] if pre else '',
             'decoPost': '' if pre else DECOS[dk]}
        return y, m
    if kind == 'indirect_register':
        r = rng.choice(regs)
        y = {'type': 'indirect_register', 'register': r, 'bytecode': cy}
        m = {'id': oid, 't': 'indirect_register', 'r': r, 'code': cm}
        if rng.random() < 0.6:
            oy, om = mk_arg(rng, de)
            y['offset'] = oy
            m['offset'] = om
        return y, m
    if kind in ('indexed_register', 'indirect_indexed_register'):
        r = rng.choice(regs)
        idx_y, idx_m = {}, []
        for j, ik in enumerate(rng.sample(['register', 'numeric', 'numeric_bytecode'], rng.randint(1, 3))):
            iid = f'{oid}_i{j}'
            if ik == 'register':
                r2 = rng.choice(regs)
                icv = al.next_code()
                idx_y[iid] = {'type': 'register', 'register': r2, 'bytecode': {'value': icv, 'size': 4}}
                idx_m.append({'id': iid, 't': 'register', 'r': r2, 'code': {'v': icv, 'n': 4}})
            elif ik == 'numeric':
                ay, am = mk_arg(rng, de)
                icv = al.next_code()
                idx_y[iid] = {'type': 'numeric', 'bytecode': {'value': icv, 'size': 4}, 'argument': ay}
                idx_m.append({'id': iid, 't': 'numeric', 'code': {'v': icv, 'n': 4}, 'arg': am})
            else:
                lo, hi = rng.choice([(0, 15), (-8, 7), (-4, 3)])
                idx_y[iid] = {'type': 'numeric_bytecode', 'bytecode': {'size': 4, 'min': lo, 'max': hi}}
                idx_m.append({'id': iid, 't': 'numeric_bytecode', 'n': 4, 'min': lo, 'max': hi})
        y = {'type': kind, 'register': r, 'bytecode': cy, 'index_operands': idx_y}
        return y, {'id': oid, 't': kind, 'r': r, 'code': cm, 'idx': idx_m}
    raise ValueError(kind)


CLEAN = ['register', 'numeric', 'address', 'indirect_register', 'indirect_numeric', 'deferred_numeric', 'enumeration',
         'indexed_register', 'indirect_indexed_register']
ALLK = CLEAN + ['relative_address', 'numeric_bytecode', 'numeric_enumeration']


def gen_form(rng, regs, consts, keys):
    """(form json, text)"""
    r = rng.random()
    num = lambda: ('num', rng.choice([0, 1, 5, 7, 12, 200, 255, 256]))  # noqa
    rc = lambda s: gen.rcase(rng, s)  # noqa
    if r < 0.18:
        reg = rng.choice(regs)
        t = rc(reg)
        return {'f': 'plain', 'e': ('label', t)}, t
    if r < 0.3:
        k = rng.choice(keys + list(consts))
        return {'f': 'plain', 'e': ('label', k)}, k
    if r < 0.45:
        nk = [c for c in consts if c not in KEYS]
        e = rng.choice([num(), ('bin', '+', ('label', rng.choice(nk)), num()) if nk else num(),
                        ('bin', '*', num(), ('num', 2)), ('label', 'undefined_l')])
        if e[0] == 'num':
            return {'f': 'plain', 'e': e}, str(e[1])
        return {'f': 'plain', 'e': e}, X.join(rng, X.render(rng, e, extra_parens=0))
    if r < 0.57:
        reg = rc(rng.choice(regs))
        k = rng.random()
        if k < 0.4:
            return {'f': 'ind', 'e': ('label', reg)}, f'[{reg}]'
        sign = rng.choice(['+', '+', '-'])
        off = rng.choice([num(), ('label', rng.choice(list(consts))) if consts else num(), ('label', rng.choice(regs))])
        ot = str(off[1])
        return {'f': 'ind', 'e': ('bin', sign, ('label', reg), off)}, f'[{reg} {sign} {ot}]'
    if r < 0.67:
        e = rng.choice([num(), ('bin', '+', num(), num()), ('bin', '*', num(), ('num', 2))])
        t = str(e[1]) if e[0] == 'num' else f'{e[2][1]} {e[1]} {e[3][1]}'
        if rng.random() < 0.3:
            return {'f': 'ind2', 'e': e}, f'[[{t}]]'
        return {'f': 'ind', 'e': e}, f'[ {t} ]'
    if r < 0.8:
        reg = rng.choice(regs)      # exact case needed by the code
        if rng.random() < 0.2:
            reg = reg.upper()
        i = rng.choice([num(), ('label', rc(rng.choice(regs))), ('label', rng.choice(list(consts))) if consts else num()])
        it = str(i[1])
        e = ('bin', '+', ('label', reg), i)
        if rng.random() < 0.5:
            return {'f': 'plain', 'e': e}, f'{reg} + {it}'
        return {'f': 'ind', 'e': e}, f'[{reg}+{it}]'
    if r < 0.87:
        e = num()
        return {'f': 'curly', 'e': e}, '{' + str(e[1]) + '}'
    reg = rc(rng.choice(regs))
    d = rng.choice(list(DECOS.values()))
    if rng.random() < 0.5:
        return {'f': 'deco', 'pre': d, 'r': reg, 'post': ''}, d + reg
    return {'f': 'deco', 'pre': '', 'r': reg, 'post': d}, reg + d


def form_for(rng, m, regs, consts):
    """a form (json, text) that the alternative `m` (model cfg) accepts"""
    t = m['t']
    rc = lambda s: gen.rcase(rng, s)  # noqa
    num = lambda hi=200: rng.choice([0, 1, 5, 7, 12, hi])  # noqa
    if t == 'register':
        r = rc(m['r'])
        pre, post = m.get('decoPre', ''), m.get('decoPost', '')
        if pre or post:
            return {'f': 'deco', 'pre': pre, 'r': r, 'post': post}, pre + r + post
        return {'f': 'plain', 'e': ('label', r)}, r
    if t in ('numeric', 'address', 'numeric_bytecode', 'numeric_enumeration'):
        if t == 'numeric_enumeration':
            v = rng.choice([k for k, _ in m['code']['dict']] + [13])
        elif t == 'numeric_bytecode':
            v = rng.choice([m['min'], m['max'], m['max'] + 1])
        else:
            v = num()
        if consts and rng.random() < 0.25:
            k = rng.choice(list(consts))
            return {'f': 'plain', 'e': ('label', k)}, k
        return {'f': 'plain', 'e': ('num', v)}, str(v)
    if t == 'relative_address':
        v = num(100)
        if m.get('curly'):
            return {'f': 'curly', 'e': ('num', v)}, '{' + str(v) + '}'
        return {'f': 'plain', 'e': ('num', v)}, str(v)
    if t == 'enumeration':
        k = rng.choice([x for x, _ in m['arg']['dict']])
        return {'f': 'plain', 'e': ('label', k)}, k
    if t == 'indirect_numeric':
        v = num()
        return {'f': 'ind', 'e': ('num', v)}, f'[{v}]'
    if t == 'deferred_numeric':
        v = num()
        return {'f': 'ind2', 'e': ('num', v)}, f'[[{v}]]'
    if t == 'indirect_register' and (m.get('decoPre') or m.get('decoPost')):
        r = rc(m['r'])
        return ({'f': 'indDeco', 'pre': m.get('decoPre', ''), 'e': ('label', r), 'post': m.get('decoPost', '')},
                m.get('decoPre', '') + '[' + rng.choice(['', ' ']) + r + rng.choice(['', ' ']) + ']' + m.get('decoPost', ''))
    if t == 'indirect_register':
        r = rc(m['r'])
        if 'offset' in m and rng.random() < 0.7:
            v = num()
            sign = rng.choice(['+', '-'])
            return {'f': 'ind', 'e': ('bin', sign, ('label', r), ('num', v))}, f'[{r}{sign}{v}]'
        return {'f': 'ind', 'e': ('label', r)}, f'[{r}]'
    if t in ('indexed_register', 'indirect_indexed_register'):
        r = m['r']
        i = rng.choice(m['idx'])
        if i['t'] == 'register':
            ie, it = ('label', rc(i['r'])), None
            it = ie[1]
        elif i['t'] == 'numeric_bytecode' and i['min'] < 0 and 'kneg' in consts and rng.random() < 0.6:
            ie, it = ('label', 'kneg'), 'kneg'
        else:
            v = num(15)
            ie, it = ('num', v), str(v)
        e = ('bin', '+', ('label', r), ie)
        if t == 'indexed_register':
            return {'f': 'plain', 'e': e}, f'{r} + {it}'
        return {'f': 'ind', 'e': e}, f'[{r} + {it}]'
    return None


def gen_case(rng, tier):
    regs = rng.sample(REGS, rng.randint(2, 4))
    de = rng.choice(['big', 'little'])
    gz = (0, 65535)
    consts = {n: rng.randint(0, 250) for n in rng.sample(['kfoo', 'kbar', 'zflag', 'carry'], rng.randint(1, 3))}
    if rng.random() < 0.5:
        consts['kneg'] = -rng.randint(1, 8)
    al = Alloc()
    isa = {'description': 'c13', 'general': {'address_size': 16, 'endian': de, 'registers': regs}, 'operand_sets': {},
           'instructions': {}}
    nvar = rng.choice([1, 2, 2, 3, 4])
    nops = rng.choice([1, 1, 2, 2, 3])
    variants_y, variants_m = [], []
    oid_n = [0]

    def new_id():
        oid_n[0] += 1
        return f'o{oid_n[0]}'
    for vi in range(nvar):
        count = nops if rng.random() < 0.75 else rng.choice([0, 1, 2, 3])
        opc = 0x10 + vi
        if vi > 0 and rng.random() < 0.15 and variants_m[-1].get('sets'):
            # this variant REUSES the previous variant's `operands` mapping: the same Python object, which the YAML dump
            # writes as an anchor / alias pair, so the loaded configuration shares one dict between the two variants
            # (what one variant's constructor does to its configuration must not leak into the other)
            py, pm = variants_y[-1], variants_m[-1]
            if 'disallowed' not in pm['sets']:
                pair = [rng.choice(s_)['id'] for s_ in pm['sets']['sets']]
                py['operands']['operand_sets']['disallowed_pairs'] = [pair]
                pm['sets']['disallowed'] = [pair]
            vy = {'bytecode': {'value': opc, 'size': 8}, 'operands': py['operands']}
            vm = {'opcode': {'v': opc, 'n': 8, 'little': de == 'little'}}
            for k in ('count', 'sets', 'specific'):
                if k in pm:
                    vm[k] = pm[k]
            vm['shared'] = True
            variants_y.append(vy)
            variants_m.append(vm)
            continue
        vy = {'bytecode': {'value': opc, 'size': 8}}
        vm = {'opcode': {'v': opc, 'n': 8, 'little': de == 'little'}}
        if rng.random() < 0.15 and count > 0:
            vy['bytecode']['suffix'] = {'value': 5, 'size': 4}
            vm['suffix'] = {'v': 5, 'n': 4, 'little': de == 'little'}
        if count == 0 and rng.random() < 0.5:
            variants_y.append(vy)
            variants_m.append(vm)       # no operands section at all
            continue
        operands = {'count': count}
        vm['count'] = count
        if rng.random() < 0.35:
            sp_y, sp_m = {}, []
            for si in range(rng.randint(1, 2)):
                n_in = count if rng.random() < 0.8 else max(0, count + rng.choice([-1, 1]))
                lst_y, lst_m = {}, []
                for _ in range(n_in):
                    oid = new_id()
                    if rng.random() < 0.15:
                        cy, cm = mk_code(al, rng)
                        lst_y[oid] = {'type': 'empty', 'bytecode': cy}
                        lst_m.append({'id': oid, 't': 'empty', 'code': cm})
                    else:
                        y, m = gen_alt(rng, al, rng.choice(CLEAN), regs, de, gz, oid, consts)
                        lst_y[oid] = y
                        lst_m.append(m)
                sp_y[f'sp{si}'] = {'list': lst_y}
                sp_m.append({'ops': lst_m})
            operands['specific_operands'] = sp_y
            vm['specific'] = sp_m
        if count > 0 and rng.random() < 0.85:
            names, sets_m = [], []
            share = count >= 2 and rng.random() < 0.4
            for pi in range(count):
                if share and pi > 0:
                    names.append(names[0])
                    sets_m.append(sets_m[0])
                    continue
                sname = f's{vi}_{pi}'
                n_alt = rng.randint(1, 5)
                has_deco = rng.random() < 0.25
                pool = CLEAN if has_deco else ALLK
                kinds = [rng.choice(pool) for _ in range(n_alt)] + \
                    ([rng.choice(['deco_register', 'deco_register', 'deco_indirect_register'])] if has_deco else [])
                rng.shuffle(kinds)
                ov, om = {}, []
                for k in kinds:
                    oid = new_id()
                    y, m = gen_alt(rng, al, k, regs, de, gz, oid, consts)
                    ov[oid] = y
                    om.append(m)
                isa['operand_sets'][sname] = {'operand_values': ov}
                names.append(sname)
                sets_m.append(om)
            osy = {'list': names}
            scm = {'sets': sets_m}
            if rng.random() < (0.6 if share else 0.3):
                pair = [rng.choice(s)['id'] for s in sets_m]
                if share and len(pair) >= 2 and len(sets_m[0]) >= 2:
                    pair[1] = rng.choice([m for m in sets_m[0] if m['id'] != pair[0]])['id']    # an asymmetric pair
                osy['disallowed_pairs'] = [pair]
                scm['disallowed'] = [pair]
            if vm.get('specific') and rng.random() < 0.5:
                # the ids of an explicitly listed combination named by the disallowed list as well: the list is about
                # combinations made from the operand sets, the explicit combination keeps its own encoding
                full = [sp for sp in vm['specific'] if len(sp['ops']) == count and all(o['t'] != 'empty' for o in sp['ops'])]
                if full:
                    pair = [o['id'] for o in rng.choice(full)['ops']]
                    osy.setdefault('disallowed_pairs', []).append(pair)
                    scm.setdefault('disallowed', []).append(pair)
            for flag, key in (('revArgs', 'reverse_argument_order'), ('revCodes', 'reverse_bytecode_order')):
                if rng.random() < 0.2:
                    osy[key] = True
                    scm[flag] = True
            operands['operand_sets'] = osy
            vm['sets'] = scm
        vy['operands'] = operands
        variants_y.append(vy)
        variants_m.append(vm)
    instr = dict(variants_y[0])
    if len(variants_y) > 1:
        instr['variants'] = variants_y[1:]
    isa['instructions']['tst'] = instr
    if not isa['operand_sets']:
        isa['operand_sets'] = {'unused': {'operand_values': {'u': {'type': 'register', 'register': regs[0], 'bytecode': {'value': 0, 'size': 1}}}}}
    keys = [k for k in KEYS]
    stmts = []
    for _ in range(rng.choice([1, 1, 2, 3])):
        forms, texts = [], []
        # aim at one variant: pick an alternative per position and write a text it accepts
        targets = [vm for vm in variants_m if vm.get('sets') or vm.get('specific')]
        if targets and rng.random() < 0.85:
            vm = rng.choice(targets)
            if vm.get('sets') and (not vm.get('specific') or rng.random() < 0.6):
                alts = [rng.choice(s_) for s_ in vm['sets']['sets']]
                if vm['sets'].get('disallowed') and rng.random() < 0.4:
                    # aim at a disallowed combination: it must be skipped (by every variant that lists it)
                    ids = vm['sets']['disallowed'][0]
                    if rng.random() < 0.5:
                        ids = list(reversed(ids))       # the mirrored combination is NOT disallowed (the list is ordered)
                    alts = [next((m for m in s_ if m['id'] == i), rng.choice(s_)) for s_, i in zip(vm['sets']['sets'], ids)]
            else:
                alts = [o for o in rng.choice(vm['specific'])['ops']]
            for m in alts:
                if m['t'] == 'empty':
                    continue
                ft = form_for(rng, m, regs, consts) if rng.random() < 0.9 else None
                if ft is None:
                    ft = gen_form(rng, regs, consts, keys)
                forms.append(ft[0])
                texts.append(ft[1])
            if rng.random() < 0.08 and forms:
                forms.pop(); texts.pop()
        else:
            nform = rng.choice([nops, nops, nops, max(0, nops - 1), nops + 1])
            for _ in range(nform):
                f, t = gen_form(rng, regs, consts, keys)
                forms.append(f)
                texts.append(t)
        stmts.append((forms, gen.rcase(rng, 'tst') + (' ' + ', '.join(texts) if texts else '')))
    asm = ''.join(f'{k} = {v}\n' if v >= 0 else f'{k} = 0 - {-v}\n' for k, v in consts.items()) + ''.join(t + '\n' for _, t in stmts)
    base = {'op': 'stmt', 'regs': regs, 'gs': gz[0], 'ge': gz[1], 'env': [[k, v] for k, v in consts.items()],
            'variants': variants_m}
    return {'isa': isa, 'asm': asm, 'base': base, 'stmts': [f for f, _ in stmts], 'texts': [t for _, t in stmts], 'nvar': nvar,
            'shared': any(v.get('shared') for v in variants_m)}


def gen_case_shadow(rng, tier):
    """variant order against operand text that an EARLIER numeric-style variant must refuse because it names a register
    (in any letter case, bare or under a unary operator), so that a LATER register variant gets it: `tst -a` with
    variants [numeric] , [pre-decrement register a] , [register a]"""
    regs = rng.sample(REGS, rng.randint(2, 4))
    de = rng.choice(['big', 'little'])
    gz = (0, 65535)
    consts = {'kfoo': rng.randint(0, 250)}
    al = Alloc()
    isa = {'description': 'c13s', 'general': {'address_size': 16, 'endian': de, 'registers': regs}, 'operand_sets': {},
           'instructions': {}}
    r = rng.choice(regs)
    plan = [rng.choice(['numeric', 'numeric', 'address', 'relative_address', 'numeric_bytecode'])]
    later = rng.sample(['deco-', 'deco--', 'register', 'deco-post'], rng.randint(1, 3))
    plan += later
    variants_y, variants_m = [], []
    for vi, k in enumerate(plan):
        oid = f'o{vi}'
        if k.startswith('deco'):
            cy, cm = mk_code(al, rng)
            dk, pre = {'deco-': ('minus', True), 'deco--': ('minus_minus', True), 'deco-post': ('plus_plus', False)}[k]
            y = {'type': 'register', 'register': r, 'bytecode': cy, 'decorator': {'type': dk, 'is_prefix': pre}}
            m = {'id': oid, 't': 'register', 'r': r, 'code': cm, 'decoPre': DECOS[dk] if pre else '', 'decoPost': '' if pre else DECOS[dk]}
        else:
            while True:
                y, m = gen_alt(rng, al, k, regs if k != 'register' else [r], de, gz, oid, consts)
                if not (k == 'relative_address' and m.get('curly')):
                    break
        sname = f's{vi}'
        isa['operand_sets'][sname] = {'operand_values': {oid: y}}
        opc = 0x10 + vi
        vy = {'bytecode': {'value': opc, 'size': 8}, 'operands': {'count': 1, 'operand_sets': {'list': [sname]}}}
        vm = {'opcode': {'v': opc, 'n': 8, 'little': de == 'little'}, 'count': 1, 'sets': {'sets': [[m]]}}
        variants_y.append(vy)
        variants_m.append(vm)
    instr = dict(variants_y[0])
    instr['variants'] = variants_y[1:]
    isa['instructions']['tst'] = instr
    rc = lambda x: gen.rcase(rng, x)  # noqa
    stmts = []
    for _ in range(rng.randint(1, 3)):
        q = rc(r)
        f, t = rng.choice([
            ({'f': 'deco', 'pre': '-', 'r': q, 'post': ''}, '-' + q),
            ({'f': 'deco', 'pre': '--', 'r': q, 'post': ''}, '--' + q),
            ({'f': 'deco', 'pre': '', 'r': q, 'post': '++'}, q + '++'),
            ({'f': 'plain', 'e': ('label', q)}, q),
            ({'f': 'plain', 'e': ('label', q.upper())}, q.upper()),
            ({'f': 'plain', 'e': ('byte', 0, ('label', q))}, f'LSB({q})'),
            ({'f': 'plain', 'e': ('bin', '+', ('num', 5), ('neg', ('label', q)))}, f'5 + -{q}'),
            ({'f': 'plain', 'e': ('num', 5)}, '5'),
            ({'f': 'plain', 'e': ('neg', ('label', 'kfoo'))}, '-kfoo'),
        ])
        stmts.append(([f], gen.rcase(rng, 'tst') + ' ' + t))
    asm = ''.join(f'{k} = {v}\n' for k, v in consts.items()) + ''.join(t + '\n' for _, t in stmts)
    base = {'op': 'stmt', 'regs': regs, 'gs': gz[0], 'ge': gz[1], 'env': [[k, v] for k, v in consts.items()],
            'variants': variants_m}
    return {'isa': isa, 'asm': asm, 'base': base, 'stmts': [f for f, _ in stmts], 'texts': [t for _, t in stmts], 'nvar': len(plan), 'shadow': True}


def gen_case_history(rng, tier):
    """definition order against invocation history: variant 0 is a special case of variant 1 (its operand sets are subsets:
    one register instead of all, a register instead of register-or-number), so some statements are accepted by variant 1
    only and others by both - and those must get variant 0 wherever they stand in the program"""
    regs = rng.sample(REGS, rng.randint(2, 4))
    de = rng.choice(['big', 'little'])
    gz = (0, 65535)
    consts = {'kfoo': rng.randint(0, 250)}
    al = Alloc()
    isa = {'description': 'c13h', 'general': {'address_size': 16, 'endian': de, 'registers': regs}, 'operand_sets': {},
           'instructions': {}}
    nops = rng.choice([1, 1, 2])
    general, special = [], []
    for pi in range(nops):
        alts = []
        for j, r in enumerate(regs):
            cy, cm = mk_code(al, rng)
            alts.append(({'type': 'register', 'register': r, 'bytecode': cy}, {'id': f'g{pi}r{j}', 't': 'register', 'r': r, 'code': cm}))
        if rng.random() < 0.6:
            alts.append(gen_alt(rng, al, 'numeric', regs, de, gz, f'g{pi}n', consts))
        general.append(alts)
        y0, m0 = rng.choice(alts[:len(regs)])
        special.append([(y0, dict(m0, id=f's{pi}'))])
    variants_y, variants_m = [], []
    for vi, sets in enumerate([special, general]):
        names, sets_m = [], []
        for pi, alts in enumerate(sets):
            sname = f'h{vi}_{pi}'
            isa['operand_sets'][sname] = {'operand_values': {m['id']: y for y, m in alts}}
            names.append(sname)
            sets_m.append([m for _, m in alts])
        opc = 0x20 + vi
        variants_y.append({'bytecode': {'value': opc, 'size': 8}, 'operands': {'count': nops, 'operand_sets': {'list': names}}})
        variants_m.append({'opcode': {'v': opc, 'n': 8, 'little': de == 'little'}, 'count': nops, 'sets': {'sets': sets_m}})
    instr = dict(variants_y[0])
    instr['variants'] = variants_y[1:]
    isa['instructions']['tst'] = instr

    def stmt(which):
        forms, texts = [], []
        for pi in range(nops):
            pool = special[pi] if which == 'both' else [a for a in general[pi] if a[1].get('r') != special[pi][0][1]['r']] or general[pi]
            y, m = rng.choice(pool)
            f, t = form_for(rng, m, regs, consts)
            forms.append(f)
            texts.append(t)
        return forms, gen.rcase(rng, 'tst') + ' ' + ', '.join(texts)
    order = rng.choice([['general', 'both'], ['general', 'both', 'general', 'both'], ['both', 'general', 'both'], ['general', 'general', 'both']])
    stmts = [stmt(w) for w in order]
    asm = ''.join(f'{k} = {v}\n' for k, v in consts.items()) + ''.join(t + '\n' for _, t in stmts)
    base = {'op': 'stmt', 'regs': regs, 'gs': gz[0], 'ge': gz[1], 'env': [[k, v] for k, v in consts.items()],
            'variants': variants_m}
    return {'isa': isa, 'asm': asm, 'base': base, 'stmts': [f for f, _ in stmts], 'texts': [t for _, t in stmts], 'nvar': 2, 'history': True}


def gen_case_set_history(rng, tier):
    """priority inside ONE operand set against statement history: the set holds a higher-priority alternative (enumeration,
    numeric_enumeration, numeric_bytecode, address) and a plain numeric one; some operand texts are accepted by the numeric
    alternative only, others by both - and those must get the higher-priority alternative wherever they stand in the
    program (two mnemonics share the set, so "what matched last" may also come from the other instruction)"""
    regs = rng.sample(REGS, 2)
    de = rng.choice(['big', 'little'])
    gz = (0, 65535)
    consts = {k: rng.randint(0, 250) for k in KEYS}
    consts['kfoo'] = 201
    # constants that differ from an enumeration key in letter case only: keys and labels are case sensitive, so they are
    # plain numbers for the numeric alternative and no keys
    for k in KEYS:
        consts[rng.choice([k.upper(), k.capitalize()])] = rng.randint(0, 250)
    al = Alloc()
    hi_kind = rng.choice(['enumeration', 'enumeration', 'numeric_enumeration', 'numeric_bytecode', 'address'])
    hy, hm = gen_alt(rng, al, hi_kind, regs, de, gz, 'hi', consts)
    ly, lm = gen_alt(rng, al, 'numeric', regs, de, gz, 'lo', consts)
    if hi_kind == 'address':
        ly['argument']['size'] = 16
        lm['arg']['n'] = 16
    entries = [('hi', hy), ('lo', ly)]
    if rng.random() < 0.5:
        entries.reverse()                     # the order of the entries of the set carries no meaning
    isa = {'description': 'c13s', 'general': {'address_size': 16, 'endian': de, 'registers': regs},
           'operand_sets': {'ov': {'operand_values': dict(entries)}}, 'instructions': {}}
    sets_m = [[hm, lm] if entries[0][0] == 'hi' else [lm, hm]]
    for opc, mn in ((0x31, 'tst'),):
        isa['instructions'][mn] = {'bytecode': {'value': opc, 'size': 8}, 'operands': {'count': 1, 'operand_sets': {'list': ['ov']}}}
    variants_m = [{'opcode': {'v': 0x31, 'n': 8, 'little': de == 'little'}, 'count': 1, 'sets': {'sets': sets_m}}]

    def only_low():
        if hi_kind == 'enumeration' and rng.random() < 0.6:
            k = rng.choice([c for c in consts if c.lower() in KEYS and c not in KEYS])
            return {'f': 'plain', 'e': ('label', k)}, k
        return rng.choice([({'f': 'plain', 'e': ('num', 200)}, '200'), ({'f': 'plain', 'e': ('label', 'kfoo')}, 'kfoo'),
                           ({'f': 'plain', 'e': ('bin', '+', ('num', 199), ('num', 1))}, '199 + 1')])

    def both():
        if hi_kind == 'enumeration':
            k = rng.choice([x for x, _ in hm['arg']['dict']])
            return {'f': 'plain', 'e': ('label', k)}, k
        if hi_kind == 'numeric_enumeration':
            v = rng.choice([k for k, _ in hm['code']['dict']])
        elif hi_kind == 'numeric_bytecode':
            v = rng.choice([hm['min'], hm['max']])
        else:
            v = rng.choice([0, 5, 77])
        return {'f': 'plain', 'e': ('num', v)}, str(v)
    order = rng.choice([['low', 'both'], ['low', 'both', 'low', 'both'], ['both', 'low', 'both'], ['low', 'low', 'both', 'both']])
    stmts = []
    for w in order:
        f, t = only_low() if (w == 'low' and hi_kind != 'address') else both()
        stmts.append(([f], gen.rcase(rng, 'tst') + ' ' + t))
    asm = ''.join(f'{k} = {v}\n' for k, v in consts.items()) + ''.join(t + '\n' for _, t in stmts)
    base = {'op': 'stmt', 'regs': regs, 'gs': gz[0], 'ge': gz[1], 'env': [[k, v] for k, v in consts.items()],
            'variants': variants_m}
    return {'isa': isa, 'asm': asm, 'base': base, 'stmts': [f for f, _ in stmts], 'texts': [t for _, t in stmts], 'nvar': 1, 'history': True, 'set_history': True}


def generate(rng, tier):
    n = 600 if tier == 'quick' else 15000
    return [gen_case(rng, tier) for _ in range(n)] + [gen_case_shadow(rng, tier) for _ in range(n // 6)] + \
        [gen_case_history(rng, tier) for _ in range(n // 6)] + [gen_case_set_history(rng, tier) for _ in range(n // 8)]


def to_impl(case):
    return impl.compile_case(case['isa'], {'main.asm': case['asm']})


def to_model(case):
    # every statement is offered to the model on its own (the property: the choice depends on the ISA order only);
    # its address is the sum of the sizes of the statements before it, which the judge recomputes from the replies
    # ... and as the source text the real assembler reads (parsed by the Lean front end: `Parse.parseLine`)
    texts = case.get('texts') or [None] * len(case['stmts'])
    return [dict(case['base'], forms=f, addr=0, **({'text': t, 'mn': 'tst'} if t is not None else {})) for f, t in zip(case['stmts'], texts)]


def judge(case, ir, mrs):
    tags = ['nvar=%d' % case['nvar'], 'stmts=%d' % len(case['stmts'])] + (['register-text-vs-earlier-numeric-variant'] if case.get('shadow') else []) + (['variants-share-one-operands-mapping'] if case.get('shared') else []) + \
        (['special-then-general-variant-vs-statement-order'] if case.get('history') else [])
    det = f'asm={case["asm"]!r} model={[{k: m[k] for k in m if k != "sel"} for m in mrs]}'[:900]
    if ir['status'] == 'timeout':
        return {'verdict': Verdict.VIOLATION, 'detail': 'no termination; ' + det, 'tags': tags}
    actual = impl.fbytes(ir, 'out.bin') if ir['status'] == 'ok' else None
    # model-side tie: the parsed source text must select and encode like the structured operand forms
    for m, t in zip(mrs, case.get('texts') or []):
        mt = m.get('text')
        if mt is not None and (('err' in mt) != ('err' in m) or mt.get('bytes') != m.get('bytes') or mt.get('variant') != m.get('variant')):
            return {'verdict': Verdict.CORR, 'tags': tags,
                    'detail': f'model front end: text {t!r} -> {mt}, structured forms -> {dict((k, m[k]) for k in m if k not in ("sel", "text"))}; {det}'[:1500]}
    if mrs and all('text' in m for m in mrs):
        tags.append('text-route=structured-route')
    # statement addresses: sizes are known from the selection alone, so re-ask the model at the real addresses
    sizes = [m.get('sel', {}).get('size') for m in mrs]
    addrs, a = [], 0
    for sz in sizes:
        addrs.append(a)
        if sz is None:
            break
        a += sz
    if len(addrs) == len(mrs) and any(addrs):
        import leanio
        mrs = leanio.run_driver([dict(case['base'], forms=f, addr=x) for f, x in zip(case['stmts'], addrs)], procs=1)
    if any('err' in m for m in mrs):
        tags.append('rejected')
        if actual is not None:
            return {'verdict': Verdict.VIOLATION, 'tags': tags, 'detail': f'spec rejects but assembled {actual.hex()}; {det}; isa={case["isa"]["instructions"]}'[:1800]}
        return {'verdict': Verdict.OK, 'nontrivial': True, 'tags': tags, 'detail': det[:300]}
    exp = []
    for m in mrs:
        exp += m['bytes']
        tags.append('variant=%d' % m['variant'])
    if actual is None:
        return {'verdict': Verdict.VIOLATION, 'tags': tags,
                'detail': f'spec selects {[m["variant"] for m in mrs]} bytes {exp} but the real code rejects: {str(ir.get("msg"))[:160]}; {det}; isa={case["isa"]}'[:2500]}
    if list(actual) != exp:
        return {'verdict': Verdict.VIOLATION, 'tags': tags,
                'detail': f'actual={actual.hex()} spec={bytes(exp).hex()}; {det}; isa={case["isa"]}'[:2500]}
    return {'verdict': Verdict.OK, 'nontrivial': True, 'tags': tags, 'detail': det[:300]}
