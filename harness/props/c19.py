"""C19 — malformed ISA definitions and unmet version requirements are rejected."""
import copy
import random
import re

import impl
from core import Verdict
from props import c10 as C10

RULE = ('generated well-formed definitions (operand sets of most operand types, instructions with variants and specific '
        'operands, macros, predefined zones incl. redefined GLOBAL, min_version / identifier.version) — all must be accepted — '
        'and every single-fault corruption from a fixed catalogue (missing section, keyword register / mnemonic / macro name, '
        'macro = instruction name in any letter case, undeclared operand set / register, count != list length, inverted '
        'numeric_bytecode / relative_address range, zone inverted / negative / beyond the width / outside GLOBAL / origin below '
        'GLOBAL, missing bytecode / count / argument, unknown operand type, enumeration key = register, non-semver ISA '
        'version) — all must be rejected; min_version values where numeric and lexical order differ and pre-releases; #require '
        'lines with all five operators, name mismatch and malformed syntax; the abstraction sent to the model is extracted '
        'from the FINAL definition, not from the injected fault; non-trivial = a fault case or a version boundary case')
EXPLANATION = ('Theorems in Props/C19.lean: validate accepts iff WellFormed; version comparison is a total order that compares '
               'release numbers numerically and puts pre-releases before the release; gate and #require decision logic. '
               'Correspondence: exit status of the real CLI vs the model verdict.')
ASSUMPTIONS = ['PyYAML loading and packaging.version parsing are modelled (release numbers + a/b/rc pre-releases)',
               'the validator model covers the checks named in the property; other configuration errors are outside the catalogue']
KEYWORDS = ['org', 'memzone', 'align', 'fill', 'zero', 'zerountil', 'byte', '2byte', '4byte', '8byte', 'cstr', 'asciiz', 'include',
            'require', 'create_memzone', 'define', 'if', 'elif', 'else', 'endif', 'ifdef', 'ifndef', 'mute', 'unmute', 'emit', 'LSB',
            'BYTE0', 'BYTE3', 'BYTE9']


def versions():
    txt = open(impl.SRC + '/bespokeasm/__init__.py').read()
    run = re.search(r"BESPOKEASM_VERSION_STR\s*=\s*'([^']+)'", txt).group(1)
    mn = re.search(r"BESPOKEASM_MIN_REQUIRED_STR\s*=\s*'([^']+)'", txt).group(1)
    return run, mn


def base_isa(rng):
    de = rng.choice(['big', 'little'])
    osets, msets, instrs_y, instrs_m = C10.isa_base(rng, de)
    osets = copy.deepcopy(osets)
    osets['misc'] = {'operand_values': {
        'nb': {'type': 'numeric_bytecode', 'bytecode': {'size': 4, 'min': 0, 'max': 9}},
        'en': {'type': 'enumeration', 'bytecode': {'size': 4, 'value_dict': {'zflag': 1, 'carry': 2}},
               'argument': {'size': 8, 'byte_align': True, 'value_dict': {'zflag': 1, 'carry': 2}}},
        'ir': {'type': 'indirect_register', 'register': 'sp', 'bytecode': {'value': 3, 'size': 4},
               'offset': {'size': 8, 'byte_align': True}},
        'ad': {'type': 'address', 'argument': {'size': 16, 'byte_align': True}},
        'ra': {'type': 'relative_address', 'argument': {'size': 8, 'byte_align': True, 'min': -20, 'max': 20}},
    }}
    instrs_y = copy.deepcopy(instrs_y)
    instrs_y['tst'] = {'bytecode': {'value': 0x60, 'size': 8}, 'operands': {'count': 1, 'operand_sets': {'list': ['misc']}},
                       'variants': [{'bytecode': {'value': 0x61, 'size': 8},
                                     'operands': {'count': 1, 'specific_operands': {'s0': {'list': {
                                         'xr': {'type': 'register', 'register': 'a', 'bytecode': {'value': 1, 'size': 4}}}}}}}]}
    isa = {'description': 'c19', 'general': {'address_size': 16, 'endian': de, 'registers': list(C10.REGS),
                                             'identifier': {'name': 'tisa', 'version': '1.2.3'}},
           'operand_sets': osets, 'instructions': instrs_y,
           'macros': {'mac': [{'operands': {'count': 1, 'operand_sets': {'list': ['imm16']}}, 'instructions': ['ldw @ARG(0)', 'nop']}]}}
    if rng.random() < 0.5:
        isa['predefined'] = {'memory_zones': [{'name': 'ZA', 'start': 0x100, 'end': 0x1FF}]}
        if rng.random() < 0.5:
            isa['predefined']['memory_zones'].insert(0, {'name': 'GLOBAL', 'start': 0x10, 'end': 0x7FFF})
            isa['general']['origin'] = 0x10
    return isa


def abstract(isa):
    """the validator-relevant abstraction of a definition (computed from the final dict)"""
    def op(oid, o):
        d = {'id': oid, 'kind': o.get('type', '?')}
        if 'register' in o:
            d['register'] = o['register']
        if o.get('type') == 'numeric_bytecode':
            b = o.get('bytecode', {})
            for k in ('min', 'max'):
                if k in b:
                    d[k] = b[k]
        if o.get('type') == 'relative_address':
            a = o.get('argument', {})
            for k in ('min', 'max'):
                if k in a:
                    d[k] = a[k]
        d['hasArgument'] = 'argument' in o
        if o.get('type') == 'enumeration':
            keys = set()
            for sect in ('bytecode', 'argument'):
                vd = (o.get(sect) or {}).get('value_dict')
                if vd:
                    keys |= set(map(str, vd))
            d['enumKeys'] = sorted(keys)
        return d

    def variant(v, macro=False):
        d = {'hasBytecode': 'bytecode' in v, 'hasOperands': 'operands' in v and v['operands'] is not None}
        ops = v.get('operands') or {}
        if 'count' in ops:
            d['count'] = ops['count']
        if 'operand_sets' in ops:
            d['setRefs'] = list(ops['operand_sets'].get('list', []))
        if 'specific_operands' in ops:
            d['specific'] = [[op(k, o) for k, o in (cfg.get('list') or {}).items()] for cfg in ops['specific_operands'].values()]
        return d

    gen = isa.get('general') or {}
    out = {'hasGeneral': 'general' in isa, 'hasInstructions': 'instructions' in isa, 'hasOperandSets': 'operand_sets' in isa,
           'bits': gen.get('address_size', 16), 'origin': gen.get('origin', 0), 'registers': list(gen.get('registers') or []),
           'operandSets': [{'name': n, 'ops': [op(k, o) for k, o in s['operand_values'].items()]}
                           for n, s in (isa.get('operand_sets') or {}).items()],
           'instructions': [], 'macros': [],
           'zones': [[z['name'], z['start'], z['end']] for z in ((isa.get('predefined') or {}).get('memory_zones') or [])]}
    if 'min_version' in gen:
        out['minVersion'] = str(gen['min_version'])
    if 'identifier' in gen and 'version' in gen['identifier']:
        out['isaVersion'] = str(gen['identifier']['version'])
    for mn, ins in (isa.get('instructions') or {}).items():
        vs = ([variant(ins)] if 'bytecode' in ins else []) + [variant(v) for v in ins.get('variants', [])]
        out['instructions'].append({'name': mn, 'variants': vs})
    for mn, vs in (isa.get('macros') or {}).items():
        out['macros'].append({'name': mn, 'variants': [variant(v, True) for v in vs]})
    return out


FAULTS = ['none', 'none', 'drop-general', 'drop-instructions', 'drop-operand_sets', 'keyword-register', 'keyword-mnemonic',
          'keyword-macro', 'macro-is-instruction', 'undeclared-set', 'undeclared-register', 'count-mismatch', 'inverted-nb',
          'inverted-rel', 'zone-inverted', 'zone-negative', 'zone-too-big', 'zone-outside-global', 'origin-below-global',
          'missing-bytecode', 'missing-count', 'missing-argument', 'unknown-type', 'enum-key-register', 'bad-isa-version',
          'min-version', 'min-version', 'min-version', 'require', 'require', 'specific-undeclared-register', 'empty-in-set']


def gen_case(rng, tier):
    isa = base_isa(rng)
    run, mn = versions()
    f = rng.choice(FAULTS)
    asm = 'nop\n'
    req = None
    if f == 'drop-general':
        del isa['general']
    elif f == 'drop-instructions':
        del isa['instructions']
    elif f == 'drop-operand_sets':
        del isa['operand_sets']
    elif f == 'keyword-register':
        isa['general']['registers'].append(rng.choice(KEYWORDS))
    elif f == 'keyword-mnemonic':
        k = rng.choice(KEYWORDS)
        isa['instructions'][rng.choice([k, k.upper(), k.capitalize()])] = {'bytecode': {'value': 1, 'size': 8}}
    elif f == 'keyword-macro':
        k = rng.choice(KEYWORDS)
        isa['macros'][rng.choice([k, k.upper()])] = [{'instructions': ['nop']}]
    elif f == 'macro-is-instruction':
        name = rng.choice(['ldw', 'LDW', 'Nop', 'inc'])
        if rng.random() < 0.4:
            isa['instructions']['SWP'] = {'bytecode': {'value': 2, 'size': 8}}
            name = rng.choice(['swp', 'SWP', 'Swp'])
        isa['macros'][name] = [{'instructions': ['nop']}]
    elif f == 'undeclared-set':
        isa['instructions']['ldw']['operands']['operand_sets']['list'] = ['nosuchset']
    elif f == 'undeclared-register':
        isa['operand_sets']['regs']['operand_values']['r_zz'] = {'type': 'register', 'register': 'zz', 'bytecode': {'value': 0, 'size': 2}}
    elif f == 'specific-undeclared-register':
        isa['instructions']['tst']['variants'][0]['operands']['specific_operands']['s0']['list']['xr']['register'] = 'qq'
    elif f == 'count-mismatch':
        k = rng.random()
        if k < 0.5:
            isa['instructions']['ldi']['operands']['count'] = rng.choice([1, 3])
        elif k < 0.75:
            # the list of operand sets is present but EMPTY while operands are prescribed
            isa['instructions']['ldi']['operands']['operand_sets']['list'] = []
        else:
            # ... also next to a specific_operands block, and in a macro variant
            if rng.random() < 0.5:
                isa['instructions']['tst']['variants'][0]['operands']['operand_sets'] = {'list': []}
            else:
                isa['macros']['mac'][0]['operands']['operand_sets']['list'] = []
    elif f == 'inverted-nb':
        lo_, hi_ = rng.choice([(9, 0), (9, 8), (0, -1), (1, 0), (3, 2)])
        isa['operand_sets']['misc']['operand_values']['nb']['bytecode'].update(min=lo_, max=hi_)
    elif f == 'inverted-rel':
        lo_, hi_ = rng.choice([(5, 2), (5, 4), (127, 0), (0, -128), (1, 0), (0, -1), (-3, -4)])     # also with a bound that is 0
        isa['operand_sets']['misc']['operand_values']['ra']['argument'].update(min=lo_, max=hi_)
    elif f.startswith('zone-') or f == 'origin-below-global':
        pz = isa.setdefault('predefined', {}).setdefault('memory_zones', [])
        if f == 'zone-inverted':
            pz.append({'name': 'ZB', 'start': 0x300, 'end': 0x2FF})
        elif f == 'zone-negative':
            pz.append({'name': 'ZB', 'start': -5, 'end': 0x20})
        elif f == 'zone-too-big':
            pz.append({'name': 'ZB', 'start': 0xFF00, 'end': 0x10000})
        elif f == 'zone-outside-global':
            if not any(z['name'] == 'GLOBAL' for z in pz):
                pz.insert(0, {'name': 'GLOBAL', 'start': 0x10, 'end': 0x7FFF})
                isa['general']['origin'] = 0x10
            # listed in front of the GLOBAL entry, between the entries or behind them: the order of the list is no excuse
            pz.insert(rng.randint(0, len(pz)), {'name': 'ZB', 'start': rng.choice([0x7F00, 0x8, 0x8000]), 'end': rng.choice([0x8000, 0x8100])})
        else:
            if not any(z['name'] == 'GLOBAL' for z in pz):
                pz.insert(0, {'name': 'GLOBAL', 'start': 0x10, 'end': 0x7FFF})
            isa['general']['origin'] = rng.choice([0, 0xF])
    elif f == 'missing-bytecode':
        del isa['instructions']['ldw']['bytecode']
    elif f == 'missing-count':
        del isa['instructions']['ldw']['operands']['count']
    elif f == 'missing-argument':
        del isa['operand_sets']['imm16']['operand_values']['i16']['argument']
    elif f == 'unknown-type':
        isa['operand_sets']['imm8']['operand_values']['i8']['type'] = 'numerik'
    elif f == 'enum-key-register':
        isa['operand_sets']['misc']['operand_values']['en']['argument']['value_dict']['sp'] = 3
    elif f == 'empty-in-set':
        isa['operand_sets']['misc']['operand_values']['em'] = {'type': 'empty', 'bytecode': {'value': 1, 'size': 2}}
    elif f == 'bad-isa-version':
        isa['general']['identifier']['version'] = rng.choice(['1.x', 'one', '1..2', 'v-1'])
    elif f == 'min-version':
        isa['general']['min_version'] = rng.choice([run, mn, '0.4.10', '0.10.0', '0.4.3', '0.4.3b1', '0.4.3rc1', '0.4.3a9', '0.4.3b2',
                                                    '0.3.0', '0.2.9', '0.3', '0.4', '0.5.0', '1.0.0', '0.4.2', '0.3.10', '0.04.3b1',
                                                    '0.4.4', '0.3.0b1',
                                                    # written as bare numbers in the definition file (0 and 0.0 are falsy values)
                                                    0, 0.0, 0, 0.2, 0.3, 0.4, 1, '0', '0.0'])
    elif f == 'require':
        name = rng.choice(['tisa', 'tisa', 'tisa', 'other', 'Tisa'])
        r = rng.random()
        if r < 0.2:
            req = {'name': name}
            asm = f'#require "{name}"\nnop\n'
        elif r < 0.9:
            opr = rng.choice(['==', '>=', '<=', '>', '<'])
            ver = rng.choice(['1.2.3', '1.2.2', '1.2.4', '1.10.0', '1.2', '1.2.3b1', '0.9.9', '1.2.10', '2.0.0', '1.2.3rc1'])
            if rng.random() < 0.4:
                # the ISA itself is a pre-release: it precedes its own release and follows the previous one
                iv = rng.choice(['1.2.3rc1', '1.2.3b2', '1.2.3a1', '2.0.0rc1', '1.2.4b1'])
                isa['general']['identifier']['version'] = iv
                ver = rng.choice([ver, '1.2.3', '2.0.0', '1.2.4', iv, '1.2.3rc2', '1.2.3b1'])
            req = {'name': name, 'cmp': opr, 'version': ver}
            asm = f'#require "{name} {opr} {ver}"\nnop\n'
        else:
            req = {'malformed': True}
            asm = rng.choice(['#require tisa\nnop\n', '#require "tisa >= "\nnop\n', "#require 'tisa'\nnop\n"])
    return {'isa': isa, 'fault': f, 'asm': asm, 'req': req, 'running': run, 'minSupported': mn}


REQ_VERSIONS = ['1.2.3', '1.2.3rc1', '1.2.3b2', '1.2.3a1', '1.2.4', '1.2.2', '1.10.0', '1.2', '2.0.0', '2.0.0rc1']


def require_matrix(rng, tier):
    """#require decisions over the whole grid ISA version x operator x required version (releases, pre-releases of the same
    and of other releases, numerically vs lexically ordered parts): the decision is the semantic-version comparison"""
    run, mn = versions()
    out = []
    for iv in REQ_VERSIONS:
        for opr in ['==', '>=', '<=', '>', '<']:
            for ver in REQ_VERSIONS:
                isa = base_isa(rng)
                isa['general']['identifier']['version'] = iv
                out.append({'isa': isa, 'fault': 'require-matrix', 'asm': f'#require "tisa {opr} {ver}"\nnop\n',
                            'req': {'name': 'tisa', 'cmp': opr, 'version': ver}, 'running': run, 'minSupported': mn})
    if tier == 'quick':
        out = rng.sample(out, 250)
    return out


def generate(rng, tier):
    return [gen_case(rng, tier) for _ in range(500 if tier == 'quick' else 8000)] + require_matrix(rng, tier)


def to_impl(case):
    return impl.compile_case(case['isa'], {'main.asm': case['asm']}, isa_name='tisa.yaml')


def to_model(case):
    reqs = [{'op': 'validate', 'isa': abstract(case['isa']), 'running': case['running'], 'minSupported': case['minSupported']}]
    if case['req'] and not case['req'].get('malformed'):
        r = dict(case['req'], op='require', isaName='tisa', isaVersion=str(case['isa']['general']['identifier']['version']))
        reqs.append(r)
    return reqs


def judge(case, ir, mrs):
    tags = ['fault=' + case['fault']]
    det = f'fault={case["fault"]} min_version={(case["isa"].get("general") or {}).get("min_version")} asm={case["asm"]!r}'
    if ir['status'] == 'timeout':
        return {'verdict': Verdict.VIOLATION, 'detail': 'no termination; ' + det, 'tags': tags}
    accepted = ir['status'] == 'ok'
    expect = mrs[0]['ok']
    if case['req']:
        expect = expect and (False if case['req'].get('malformed') else mrs[1]['ok'])
    tags.append('accepted' if accepted else 'rejected')
    if accepted != expect:
        return {'verdict': Verdict.VIOLATION, 'tags': tags,
                'detail': f'spec says {"accept" if expect else "reject"}, real code {"accepted" if accepted else "rejected: " + str(ir.get("msg"))[:200]}; {det}'}
    return {'verdict': Verdict.OK, 'nontrivial': case['fault'] != 'none', 'tags': tags, 'detail': det}
