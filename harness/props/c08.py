"""C08 — conditional assembly selects exactly the lines of the taken branches."""
import random

import exprgen as X
import impl
import proggen as P
from core import Verdict
from props import layout_base as LB

RULE = ('directive histories generated as block trees (depth <= 4 quick / 7 thorough): #if/#ifdef/#ifndef chains with 0..3 '
        '#elif and optional #else, a marker .byte k between all directives, #define inside and outside the chains that test '
        'the symbol, all six comparison operators, bare conditions, numeric / word / empty symbol values, symbols predefined in '
        'the ISA and on the command line; plus stray #else/#elif/#endif streams and effect probes (label, constant, zone, '
        'mute, include in unselected branches); image = concatenation of the selected markers; non-trivial = nesting depth >= 2 '
        'or a #define inside a chain that tests it; distinct by hash')
EXPLANATION = ('Theorems in Props/C08.lean: the condition-stack machine on the flattened directive stream selects exactly what '
               'the block-tree semantics selects; unmatched directives rejected; unselected branches have no effect. '
               'Correspondence: image of the real CLI vs tree semantics (spec) and stack machine (impl).')
ASSUMPTIONS = ['string-mode comparisons are generated only with single-token sides (the model does not reproduce text spacing)',
               'symbol names have >= 2 characters (SYMBOL_PATTERN)']
# lower-case names too: their first letters are letters of the directive words themselves (`#if flag`, `#elif level`,
# `#if fifi`), and `flag` / `FLAG` are two different symbols
SYMS = ['SYM_A', 'SYM_B', 'FLAG', 'MODE', 'ZZ', 'OPT_X', 'LEVEL', 'BASE_LEVEL', 'flag', 'idx', 'level', 'enable_x', 'fifi', 'elf_len']
WORDS = ['foo', 'bar', 'release']
OPS = ['==', '!=', '>', '>=', '<', '<=']


def gen_val(rng):
    r = rng.random()
    if r < 0.55:
        return rng.choice([0, 1, 2, 3, 5, 10])
    if r < 0.75:
        return rng.choice(WORDS)
    if r < 0.85:
        return rng.choice(SYMS)          # chain / possible cycle
    return None


def gen_cond(rng, numeric_syms):
    r = rng.random()
    if r < 0.2:
        # bare expression
        lhs = rng.choice([('num', rng.choice([0, 1, 2])), ('label', rng.choice(SYMS))] +
                         ([('bin', '-', ('label', rng.choice(numeric_syms)), ('num', rng.choice([0, 1, 5])))] if numeric_syms else []))
        return {'lhs': lhs, 'op': '!=', 'rhs': ('num', 0), 'bare': True}
    op = rng.choice(OPS)
    if r < 0.45 and numeric_syms:
        s = rng.choice(numeric_syms)
        lhs = rng.choice([('bin', '+', ('label', s), ('num', rng.randint(0, 3))), ('bin', '*', ('label', s), ('num', 2)),
                          ('label', s)])
        return {'lhs': lhs, 'op': op, 'rhs': ('num', rng.randint(0, 12))}
    lhs = ('label', rng.choice(SYMS)) if rng.random() < 0.8 else ('num', rng.randint(0, 5))
    rr = rng.random()
    if rr < 0.6:
        rhs = ('num', rng.choice([0, 1, 2, 3, 5, 10]))
    elif rr < 0.85:
        rhs = ('label', rng.choice(WORDS))
    else:
        rhs = ('label', rng.choice(SYMS))
    c = {'lhs': lhs, 'op': op, 'rhs': rhs}
    if rhs[0] == 'label' and rng.random() < 0.5:
        c['quote'] = rng.choice(['"', "'"])
    return c


class Gen:
    def __init__(self, rng, maxdepth):
        self.rng = rng
        self.next_id = 1
        self.maxdepth = maxdepth
        self.depth_seen = 0
        self.define_in_tested = False
        self.mutes = 0

    def line(self):
        i = self.next_id
        self.next_id += 1
        return {'b': 'line', 'id': i}

    def blocks(self, depth, numeric_syms, tested=()):
        rng = self.rng
        out = []
        for _ in range(rng.randint(1, 3)):
            r = rng.random()
            if r < 0.09:
                # a mute change: counts only when selected, and is not a chain opener for the skipping logic
                out.append({'b': 'mute', 'd': rng.choice(['mute', 'mute', 'unmute', 'emit'])})
                self.mutes += 1
            elif r < 0.45 or self.next_id > 200:
                out.append(self.line())
            elif r < 0.65:
                name = rng.choice(SYMS)
                v = gen_val(rng)
                if name in tested:
                    self.define_in_tested = True
                b = {'b': 'define', 'name': name}
                if v is not None:
                    b['v'] = v
                out.append(b)
            elif depth < self.maxdepth:
                out.append(self.chain(depth + 1, numeric_syms, tested))
            else:
                out.append(self.line())
        return out

    def chain(self, depth, numeric_syms, tested):
        rng = self.rng
        self.depth_seen = max(self.depth_seen, depth)
        r = rng.random()
        if r < 0.55:
            c = gen_cond(rng, numeric_syms)
            opener = {'d': 'if', 'c': c}
            t = {x[1] for x in (c['lhs'], c['rhs']) if x[0] == 'label'}
        else:
            s = rng.choice(SYMS)
            opener = {'d': rng.choice(['ifdef', 'ifndef']), 's': s}
            t = {s}
        tested2 = tuple(set(tested) | t)
        body = self.blocks(depth, numeric_syms, tested2)
        elifs = []
        for _ in range(rng.choice([0, 0, 1, 1, 2, 3])):
            c = gen_cond(rng, numeric_syms)
            elifs.append({'c': c, 'body': self.blocks(depth, numeric_syms, tested2)})
        els = self.blocks(depth, numeric_syms, tested2) if rng.random() < 0.55 else None
        return {'b': 'chain', 'open': opener, 'body': body, 'elifs': elifs, 'else': els}


def flatten(blocks):
    out = []
    for b in blocks:
        if b['b'] == 'line':
            out.append({'k': 'data', 'w': 1, 'vals': [('num', b['id'] % 256)]})
        elif b['b'] == 'mute':
            out.append({'k': 'mute'} if b['d'] == 'mute' else {'k': 'unmute', 'emit': b['d'] == 'emit'})
        elif b['b'] == 'define':
            st = {'k': 'define', 'name': b['name']}
            if 'v' in b:
                st['v'] = b['v']
            out.append(st)
        else:
            o = b['open']
            out.append({'k': 'cond', **o})
            out += flatten(b['body'])
            for e in b['elifs']:
                out.append({'k': 'cond', 'd': 'elif', 'c': e['c']})
                out += flatten(e['body'])
            if b['else'] is not None:
                out.append({'k': 'cond', 'd': 'else'})
                out += flatten(b['else'])
            out.append({'k': 'cond', 'd': 'endif'})
    return out


def side_text(e):
    return X.join(random.Random(0), X.render(random.Random(0), e, extra_parens=0)) if e[0] != 'num' else str(e[1])


def dec_render(e):
    """decimal-only rendering with single blanks (string-mode comparisons compare the text)"""
    k = e[0]
    if k == 'num':
        return str(e[1])
    if k == 'label':
        return e[1]
    if k == 'neg':
        return '-' + dec_render(e[1])
    return dec_render(e[2]) + ' ' + e[1] + ' ' + dec_render(e[3])


def render_stmt(st):
    if st['k'] == 'raw':
        return st['text']
    if st['k'] == 'unmute' and st.get('emit'):
        return '#emit'
    if st['k'] == 'define':
        return '#define ' + st['name'] + ('' if 'v' not in st else ' ' + str(st['v']))
    if st['k'] == 'cond':
        d = st['d']
        if d in ('else', 'endif'):
            return '#' + d
        if d in ('ifdef', 'ifndef'):
            return f'#{d} {st["s"]}'
        c = st['c']
        if c.get('bare'):
            return f'#{d} {dec_render(c["lhs"])}'
        rhs = dec_render(c['rhs'])
        if c.get('quote'):
            rhs = c['quote'] + rhs + c['quote']
        return f'#{d} {dec_render(c["lhs"])} {c["op"]} {rhs}'
    return None


def render_file(stmts):
    rng = random.Random(1)
    lines = []
    for st in stmts:
        t = render_stmt(st)
        lines.append(t if t is not None else P.render_stmt(rng, st))
    return '\n'.join(lines) + '\n'


def model_stmt(st):
    st = dict(st)
    if st['k'] == 'raw':
        return {'k': 'comment'}     # only ever generated inside an unselected branch
    if st['k'] == 'cond' and 'c' in st:
        c = st['c']
        st['c'] = {'lhs': c['lhs'], 'op': c['op'], 'rhs': c['rhs']}
    return P.model_stmt(st)


MUTE_ID, UNMUTE_ID = 1000000, 1000001


def model_block(b):
    if b['b'] == 'mute':
        # for the block-tree semantics a mute change is a line like any other: what matters is whether it is selected
        return {'b': 'line', 'id': MUTE_ID if b['d'] == 'mute' else UNMUTE_ID}
    if b['b'] != 'chain':
        return b
    o = dict(b['open'])
    if 'c' in o:
        o['c'] = {k: o['c'][k] for k in ('lhs', 'op', 'rhs')}
    return {'b': 'chain', 'open': o, 'body': [model_block(x) for x in b['body']],
            'elifs': [{'c': {k: e['c'][k] for k in ('lhs', 'op', 'rhs')}, 'body': [model_block(x) for x in e['body']]} for e in b['elifs']],
            'else': None if b['else'] is None else [model_block(x) for x in b['else']]}


CFG = {'bits': 16, 'little': False, 'regs': ['ra', 'rb'], 'preZones': [('HIGH', 0x100, 0x1FF)], 'preConsts': [], 'preData': []}


def gen_case(rng, tier):
    maxd = 4 if tier == 'quick' else 7
    r = rng.random()
    presyms = []
    for s in rng.sample(SYMS, rng.choice([0, 1, 1, 2])):
        v = rng.choice([0, 1, 2, 5, 10])
        presyms.append({'name': s, 'v': v, 'via': rng.choice(['isa', 'cli'])})
    numeric = [p['name'] for p in presyms]
    if r < 0.78:
        g = Gen(rng, maxd)
        blocks = g.blocks(0, numeric)
        if rng.random() < 0.15:
            # history probe: a symbol defined through another one that is defined only later
            outer, inner = rng.sample([s for s in SYMS if s not in numeric], 2)
            val = rng.choice([1, 2, 5])
            probe = [{'b': 'define', 'name': outer, 'v': inner},
                     {'b': 'chain', 'open': {'d': 'if', 'c': {'lhs': ('label', outer), 'op': rng.choice(['==', '!=']), 'rhs': ('label', rng.choice(WORDS + [inner]))}},
                      'body': [g.line()], 'elifs': [], 'else': [g.line()]},
                     {'b': 'define', 'name': inner, 'v': val},
                     {'b': 'chain', 'open': {'d': 'if', 'c': {'lhs': ('label', outer), 'op': '==', 'rhs': ('num', rng.choice([val, val + 1]))}},
                      'body': [g.line()], 'elifs': [], 'else': [g.line()]}]
            blocks = probe + blocks
            g.define_in_tested = True
        if rng.random() < 0.2:
            # repetition probe: the very same condition text evaluated before and after a #define of the symbol it tests
            # (an outcome remembered per condition text would be stale the second time); also as #elif the second time
            sym = rng.choice([s for s in SYMS if s not in numeric])
            val = rng.choice([0, 1, 2, 5, 'alpha'])
            c = rng.choice([{'lhs': ('label', sym), 'op': rng.choice(OPS), 'rhs': ('num', val) if isinstance(val, int) else ('label', val)},
                            {'lhs': ('label', sym), 'op': '!=', 'rhs': ('num', 0), 'bare': True}])
            first = {'b': 'chain', 'open': {'d': 'if', 'c': dict(c)}, 'body': [g.line()], 'elifs': [], 'else': [g.line()]}
            if rng.random() < 0.5:
                second = {'b': 'chain', 'open': {'d': 'if', 'c': dict(c)}, 'body': [g.line()], 'elifs': [], 'else': [g.line()]}
            else:
                second = {'b': 'chain', 'open': {'d': 'if', 'c': {'lhs': ('num', 1), 'op': '==', 'rhs': ('num', 2)}}, 'body': [g.line()],
                          'elifs': [{'c': dict(c), 'body': [g.line()]}], 'else': [g.line()]}
            dfn = {'b': 'define', 'name': sym, 'v': val}
            if rng.random() < 0.3:
                # indirectly: the tested symbol's value is another symbol, which is the one that gets (re)defined
                via = rng.choice([s for s in SYMS if s not in numeric and s != sym])
                blocks = [{'b': 'define', 'name': sym, 'v': via}, first, {'b': 'define', 'name': via, 'v': val}, second] + blocks
            else:
                blocks = [first, dfn, second] + blocks
            g.define_in_tested = True
        if not any(b['b'] == 'chain' for b in blocks):
            blocks.append(g.chain(1, numeric, ()))
        blocks.append(g.line())
        return {'kind': 'tree', 'blocks': blocks, 'presyms': presyms, 'depth': g.depth_seen,
                'define_in_tested': g.define_in_tested, 'mutes': g.mutes}
    if r < 0.86:
        # stray / mismatched directives
        g = Gen(rng, 2)
        stmts = flatten(g.blocks(0, numeric) + [g.line()])
        bad = rng.choice([{'k': 'cond', 'd': 'endif'}, {'k': 'cond', 'd': 'else'},
                          {'k': 'cond', 'd': 'elif', 'c': {'lhs': ('num', 1), 'op': '==', 'rhs': ('num', 1)}}])
        how = rng.choice(['stray', 'else-after-else', 'elif-after-else'])
        if how == 'stray':
            pos = rng.randint(0, len(stmts))
            depth = 0
            for st in stmts[:pos]:
                if st['k'] == 'cond':
                    depth += 1 if st['d'] in ('if', 'ifdef', 'ifndef') else (-1 if st['d'] == 'endif' else 0)
            if depth > 0:
                pos = 0
            if rng.random() < 0.35:
                pos = len(stmts)          # the very last line of the file: nothing follows that could notice it later
            stmts.insert(pos, bad)
        else:
            tail = [{'k': 'cond', 'd': 'if', 'c': {'lhs': ('num', 1), 'op': '==', 'rhs': ('num', rng.choice([0, 1]))}},
                    {'k': 'data', 'w': 1, 'vals': [('num', 201)]}, {'k': 'cond', 'd': 'else'},
                    {'k': 'data', 'w': 1, 'vals': [('num', 202)]},
                    {'k': 'cond', 'd': 'else'} if how == 'else-after-else' else
                    {'k': 'cond', 'd': 'elif', 'c': {'lhs': ('num', 1), 'op': '==', 'rhs': ('num', 1)}},
                    {'k': 'data', 'w': 1, 'vals': [('num', 203)]}, {'k': 'cond', 'd': 'endif'}]
            stmts += tail
        return {'kind': 'mismatch', 'how': how, 'stmts': stmts, 'presyms': presyms}
    # effects in unselected branches
    sel = rng.random() < 0.4
    cond = {'k': 'cond', 'd': 'if', 'c': {'lhs': ('num', 1 if sel else 0), 'op': '!=', 'rhs': ('num', 0), 'bare': True}}
    eff = rng.choice(['label', 'const', 'zone', 'mute', 'define', 'org', 'include', 'include', 'include', 'memzone', 'memzone', 'orgzone'])
    inner = {'label': [{'k': 'label', 'name': 'lab_x'}], 'const': [{'k': 'const', 'name': 'kk_x', 'e': ('num', 7)}],
             'zone': [{'k': 'createZone', 'name': 'ZX', 's': 64, 'e': 95}], 'mute': [{'k': 'mute'}],
             'define': [{'k': 'define', 'name': 'SYM_A', 'v': 9}], 'org': [{'k': 'org', 'e': ('num', 32)}],
             'include': [{'k': 'include', 'f': 1, 'name': 'inc1.asm'}],
             'memzone': [{'k': 'memzone', 'z': 'HIGH'}], 'orgzone': [{'k': 'org', 'e': ('num', 4), 'zone': 'HIGH'}]}[eff]
    after = {'label': [{'k': 'data', 'w': 2, 'vals': [('label', 'lab_x')]}],
             'const': [{'k': 'data', 'w': 1, 'vals': [('label', 'kk_x')]}],
             'zone': [{'k': 'memzone', 'z': 'ZX'}, {'k': 'data', 'w': 1, 'vals': [('num', 5)]}],
             'mute': [{'k': 'data', 'w': 1, 'vals': [('num', 6)]}],
             'define': [{'k': 'cond', 'd': 'ifdef', 's': 'SYM_A'}, {'k': 'data', 'w': 1, 'vals': [('num', 8)]}, {'k': 'cond', 'd': 'endif'}],
             'org': [{'k': 'data', 'w': 1, 'vals': [('num', 9)]}],
             'include': [{'k': 'data', 'w': 1, 'vals': [('num', 10)]}],
             'memzone': [{'k': 'data', 'w': 1, 'vals': [('num', 11)]}, {'k': 'label', 'name': 'tail_l'}, {'k': 'data', 'w': 2, 'vals': [('label', 'tail_l')]}],
             'orgzone': [{'k': 'data', 'w': 1, 'vals': [('num', 12)]}, {'k': 'label', 'name': 'tail_l'}, {'k': 'data', 'w': 2, 'vals': [('label', 'tail_l')]}]}[eff]
    if rng.random() < 0.35:
        # lines that are only meaningful (or only erroneous) inside the branch: an unselected branch must be inert
        eff = rng.choice(['constchain', 'unknown-mnemonic', 'garbage', 'unfit-operand', 'zonechain', 'require', 'undefined-label',
                          'duplicate-label', 'bad-directive'])
        raw = lambda t: [{'k': 'raw', 'text': t}]  # noqa
        inner = {'constchain': [{'k': 'const', 'name': 'kk_a', 'e': ('num', 5)},
                                {'k': 'const', 'name': 'kk_b', 'e': ('bin', '+', ('label', 'kk_a'), ('num', 1))},
                                {'k': 'data', 'w': 1, 'vals': [('label', 'kk_b')]}],
                 'unknown-mnemonic': raw('bogus ra, 5'), 'garbage': raw('!! ?? !!'),
                 'unfit-operand': [{'k': 'instr', 'mn': 'op1', 'args': [[('num', 70000), 1]]}],
                 'zonechain': [{'k': 'createZone', 'name': 'ZX', 's': 64, 'e': 95}, {'k': 'memzone', 'z': 'ZX'},
                               {'k': 'data', 'w': 1, 'vals': [('num', 4)]}, {'k': 'memzone', 'z': 'GLOBAL'}],
                 'require': raw('#require "otherlang >= 9.9.9"'),
                 'undefined-label': [{'k': 'data', 'w': 2, 'vals': [('label', 'nowhere_defined')]}],
                 'duplicate-label': [{'k': 'label', 'name': 'first_l'}],
                 'bad-directive': raw('.org 99999999')}[eff]
        after = [{'k': 'data', 'w': 1, 'vals': [('num', 13)]}]
        if eff in ('unknown-mnemonic', 'garbage', 'require', 'bad-directive'):
            sel = False      # the model has no representation of these lines other than "not selected"
            cond['c']['lhs'] = ('num', 0)
        if eff == 'duplicate-label':
            inner = inner + []
            after = [{'k': 'data', 'w': 2, 'vals': [('label', 'first_l')]}]
    first = [{'k': 'label', 'name': 'first_l'}] if eff == 'duplicate-label' else []
    stmts = first + [{'k': 'data', 'w': 1, 'vals': [('num', 1)]}, cond] + inner + [{'k': 'data', 'w': 1, 'vals': [('num', 2)]},
                                                                         {'k': 'cond', 'd': 'endif'}] + after
    files = [stmts]
    if eff == 'include':
        inc = [{'k': 'data', 'w': 1, 'vals': [('num', 77)]}]
        r2 = rng.random()
        if r2 < 0.45:
            # every file has its own chains: a branch directive without an opener IN THE INCLUDED FILE is unmatched even when
            # the #include line itself stands inside a block of the including file
            inc += [rng.choice([{'k': 'cond', 'd': 'else'}, {'k': 'cond', 'd': 'endif'},
                                {'k': 'cond', 'd': 'elif', 'c': {'lhs': ('num', 1), 'op': '==', 'rhs': ('num', 1)}}]),
                    {'k': 'data', 'w': 1, 'vals': [('num', 0xEE)]}]
            if rng.random() < 0.4:
                inc += [{'k': 'cond', 'd': 'if', 'c': {'lhs': ('num', 0), 'op': '!=', 'rhs': ('num', 0), 'bare': True}},
                        {'k': 'data', 'w': 1, 'vals': [('num', 0xDD)]}]
            eff = 'include-with-unmatched-directive'
            if rng.random() < 0.7:
                sel = True
                cond['c']['lhs'] = ('num', 1)
        elif r2 < 0.7:
            # a balanced chain of its own, and a mute change: the included file's mute state is its own as well
            inc += [{'k': 'cond', 'd': 'if', 'c': {'lhs': ('num', rng.choice([0, 1])), 'op': '!=', 'rhs': ('num', 0), 'bare': True}},
                    {'k': 'data', 'w': 1, 'vals': [('num', 0x55)]}, {'k': 'cond', 'd': 'else'},
                    {'k': 'data', 'w': 1, 'vals': [('num', 0x66)]}, {'k': 'cond', 'd': 'endif'}]
            eff = 'include-with-own-chain'
        files.append(inc)
    presyms = [p for p in presyms if p['name'] != 'SYM_A']
    return {'kind': 'effect', 'effect': eff, 'selected': sel, 'files': files, 'presyms': presyms}


def generate(rng, tier):
    return [gen_case(rng, tier) for _ in range(500 if tier == 'quick' else 12000)]


def case_files(case):
    if case['kind'] == 'tree':
        return [flatten(case['blocks'])]
    if case['kind'] == 'mismatch':
        return [case['stmts']]
    return case['files']


def to_impl(case):
    files = case_files(case)
    texts = {('main.asm' if i == 0 else f'inc{i}.asm'): render_file(f) for i, f in enumerate(files)}
    cfg = dict(CFG)
    isa = P.make_isa(cfg)
    isasyms = [p for p in case['presyms'] if p['via'] == 'isa']
    if isasyms:
        isa.setdefault('predefined', {})['symbols'] = [{'name': p['name'], 'value': str(p['v'])} for p in isasyms]
    defines = [f'{p["name"]}={p["v"]}' for p in case['presyms'] if p['via'] == 'cli']
    return impl.compile_case(isa, texts, defines=defines)


def to_model(case):
    files = case_files(case)
    cfg = P.model_cfg(CFG)
    cfg['preSyms'] = [{'name': p['name'], 'v': p['v']} for p in case['presyms']]
    reqs = [{'op': 'asm', 'cfg': cfg, 'files': [[model_stmt(s) for s in f] for f in files], 'start': 0, 'fill': 0}]
    if case['kind'] == 'tree':
        reqs.append({'op': 'condtree', 'blocks': [model_block(b) for b in case['blocks']],
                     'syms': [{'name': p['name'], 'v': p['v']} for p in case['presyms']]})
    if text_route(case):
        # the very source text, parsed by the Lean front end (directives, conditions, quoted words, #define values)
        tr = P.to_text_request(CFG, [(('main.asm' if i == 0 else f'inc{i}.asm'), render_file(f)) for i, f in enumerate(files)])
        tr['cfg']['preSyms'] = cfg['preSyms']
        reqs.append(tr)
    return reqs


def text_route(case):
    # lines the model has no statement for (garbage inside an unselected branch) are left to the structured route
    return not any(s['k'] == 'raw' for f in case_files(case) for s in f)


def judge(case, ir, mrs):
    tags = ['kind=' + case['kind']]
    asm = mrs[0]
    texts = render_file(case_files(case)[0])
    det = f'presyms={case["presyms"]} asm={texts!r}'[:1400]
    if text_route(case):
        mt, mrs = mrs[-1], mrs[:-1]
        if asm.get('err') != 'other' and (('err' in mt) != ('err' in asm) or mt.get('image') != asm.get('image')):
            return {'verdict': Verdict.CORR, 'tags': tags,
                    'detail': f'model front end: text route {mt.get("err") or mt.get("image")} != structured route '
                              f'{asm.get("err") or asm.get("image")}; ' + det}
        tags.append('text-route=structured-route')
    actual = impl.fbytes(ir, 'out.bin') if ir['status'] == 'ok' else None
    if ir['status'] == 'timeout':
        return {'verdict': Verdict.VIOLATION, 'detail': 'no termination; ' + det, 'tags': tags}
    if asm.get('err') == 'other':
        return {'verdict': Verdict.SKIP, 'detail': 'string-mode comparison outside the modelled subset', 'tags': tags}
    spec_lines = None
    if case['kind'] == 'tree':
        tree = mrs[1]
        if 'err' in tree['spec'] and tree['spec']['err'] == 'other':
            return {'verdict': Verdict.SKIP, 'detail': 'unsupported', 'tags': tags}
        spec = tree['spec']
        implm = tree['impl']
        if ('err' in spec) != ('err' in implm) or spec.get('lines') != implm.get('lines'):
            return {'verdict': Verdict.CORR, 'tags': tags, 'detail': f'model: stack machine {implm} != tree semantics {spec}; ' + det}
        if 'err' in spec:
            tags.append('spec-rejects:' + spec['err'])
            if actual is not None:
                return {'verdict': Verdict.VIOLATION, 'tags': tags, 'detail': f'spec rejects ({spec["err"]}) but assembled {actual.hex()}; ' + det}
            return {'verdict': Verdict.OK, 'nontrivial': True, 'tags': tags, 'detail': det[:300]}
        # selected mute changes act on the selected lines that follow them (counter, never below zero)
        sel, muted = [], 0
        for x in spec['lines']:
            if x == MUTE_ID:
                muted += 1
            elif x == UNMUTE_ID:
                muted = max(0, muted - 1)
            else:
                sel.append(None if muted else x % 256)      # a muted line keeps its address: the image shows the fill there
        while sel and sel[-1] is None:
            sel.pop()                                        # ... unless nothing is emitted behind it (the image ends earlier)
        spec_lines = bytes(0 if x is None else x for x in sel)
        if case.get('mutes'):
            tags.append('mute-changes-in-tree')
        if actual is None:
            return {'verdict': Verdict.VIOLATION, 'tags': tags,
                    'detail': f'tree semantics selects {list(spec_lines)} but the real code rejects: {str(ir.get("msg"))[:200]}; ' + det}
        if actual != spec_lines:
            return {'verdict': Verdict.VIOLATION, 'tags': tags,
                    'detail': f'selected markers actual={list(actual)} spec={list(spec_lines)}; ' + det}
        if 'image' not in asm or bytes(asm['image']) != actual:
            return {'verdict': Verdict.CORR, 'tags': tags, 'detail': f'asm model {asm.get("image", asm.get("err"))} vs actual {list(actual)}; ' + det}
        tags.append('depth=%d' % case['depth'])
        return {'verdict': Verdict.OK, 'nontrivial': case['depth'] >= 2 or case['define_in_tested'], 'tags': tags, 'detail': det[:300]}
    # mismatch / effect: compare with the asm model (= spec by the theorems)
    if case['kind'] == 'mismatch':
        tags.append('how=' + case['how'])
    else:
        tags.append('effect=' + case['effect'] + ('/selected' if case['selected'] else '/unselected'))
    if 'err' in asm:
        if actual is not None:
            return {'verdict': Verdict.VIOLATION, 'tags': tags, 'detail': f'model rejects ({asm["err"]}) but assembled {actual.hex()}; ' + det}
        return {'verdict': Verdict.OK, 'nontrivial': True, 'tags': tags, 'detail': det[:300]}
    if actual is None:
        return {'verdict': Verdict.VIOLATION, 'tags': tags, 'detail': f'model assembles {asm["image"]}, real code rejects: {str(ir.get("msg"))[:200]}; ' + det}
    if bytes(asm['image']) != actual:
        return {'verdict': Verdict.VIOLATION, 'tags': tags, 'detail': f'actual={list(actual)} model={asm["image"]}; ' + det}
    return {'verdict': Verdict.OK, 'nontrivial': True, 'tags': tags, 'detail': det[:300]}
