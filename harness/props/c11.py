"""C11 — data and fill directives emit exactly the bytes they describe."""
import random

import exprgen as X
import impl
import probes
import proggen as P
from core import Verdict
from props import layout_base as LB

RULE = ('programs of data directives: .byte/.2byte/.4byte/.8byte value lists (negative, oversized, expressions, forward/backward '
        'labels, constants), quoted strings with both quote kinds over printable ASCII incl. ; , : and the other quote, escapes '
        '\\n \\t \\r \\\\ \\" \\\' \\0 \\xHH octal \\a \\b \\f \\v, .cstr/.asciiz and bare embedded strings with terminators 0..255 '
        'and out-of-range (masked), .fill n,v (v negative / > 255, n = 0), .zero n, .zerountil a at cursor-1/cursor/cursor+1/far, '
        'both endiannesses; non-trivial = assembled with a string containing an escape, or an oversized/negative value, or a '
        '.zerountil; distinct by hash')
EXPLANATION = ('Theorems in Props/C11.lean: w bytes of v mod 2^(8w) in the configured order, string = one byte per character '
               'after escape processing (+ terminator), fill/zero/zerountil sizes and contents. Correspondence: image.')
ASSUMPTIONS = ['Python\'s unicode_escape decoder is modelled for the listed escapes only; invalid escapes (\\xZ) are not generated',
               'a string contains no unescaped quote of its own kind (that is malformed and rejected)']


def to_impl(case):
    if case.get('unit'):
        return probes.call('split_commas', case['text'])
    return LB.to_impl(case)


def to_model(case):
    if case.get('unit'):
        return {'op': 'split', 'text': case['text']}
    return LB.to_model(case)


PLAIN = [c for c in (chr(i) for i in range(32, 127)) if c not in '"\'\\']
ESC = ['\\n', '\\t', '\\r', '\\\\', '\\0', '\\x41', '\\x7e', '\\x00', '\\xfF', '\\101', '\\7', '\\a', '\\b', '\\f', '\\v', '\\12',
       '\\u20ac', '\\u0041', '\\u00e9', '\\u0100']


def gen_string(rng, quote):
    parts = []
    has_esc = False
    for _ in range(rng.randint(0, 10)):
        r = rng.random()
        if r < 0.05:
            parts.append('\t')                                 # a raw TAB character typed inside the quotes: one byte, 09
        elif r < 0.7:
            parts.append(rng.choice(PLAIN))
        elif r < 0.8:
            parts.append("'" if quote == '"' else '"')       # the other quote, unescaped
        elif r < 0.88:
            parts.append('\\' + quote)                        # own quote, escaped
            has_esc = True
        else:
            e = rng.choice(ESC)
            # an octal escape must not be followed by an octal digit that would extend it
            parts.append(e)
            has_esc = True
    out = []
    for i, p in enumerate(parts):
        out.append(p)
        if p.startswith('\\') and len(p) > 1 and p[1] in '01234567' and i + 1 < len(parts) and parts[i + 1][0] in '01234567':
            out.append(' ')
    return ''.join(out), has_esc


def gen_case(rng, tier):
    bits = 16
    cfg = {'bits': bits, 'little': rng.random() < 0.5, 'regs': ['ra', 'rb'], 'preZones': [], 'preConsts': [], 'preData': []}
    term_cfg = rng.choice([None, 0, 0, 1, 33, 255, 256 + 44, 1000])
    if term_cfg is not None:
        cfg['cstr_terminator'] = term_cfg
    term = (term_cfg or 0)
    emb = rng.random() < 0.4
    if emb:
        cfg['allow_embedded_strings'] = True
    stmts = []
    cur = 0
    flags = set()
    labels = {}
    n = rng.randint(2, 9)
    if rng.random() < 0.5:
        stmts.append({'k': 'const', 'name': 'kk_1', 'e': ('num', rng.randint(0, 70000))})
        labels['kk_1'] = stmts[-1]['e'][1]
    for i in range(n):
        r = rng.random()
        if r < 0.16:
            if any(k.startswith('lab_') for k in labels) and rng.random() < 0.5:
                # a local label: the same name (hence the same expression text) means something else in every region
                nm = rng.choice(['.loc_0', '.loc_1'])
                if nm in labels:
                    continue
                flags.add('local-label')
            else:
                nm = f'lab_{i}'
                for k in [k for k in labels if k.startswith('.')]:
                    del labels[k]
            stmts.append({'k': 'label', 'name': nm})
            labels[nm] = cur
        elif r < 0.45:
            w = rng.choice([1, 1, 2, 4, 8])
            vals = []
            for _ in range(rng.randint(1, 4)):
                k = rng.random()
                if k < 0.3:
                    v = rng.randint(0, 255)
                elif k < 0.5:
                    v = -rng.randint(1, 1 << (8 * w))
                    flags.add('neg')
                elif k < 0.7:
                    v = rng.randint(1 << (8 * w), 1 << (8 * w + 9))
                    flags.add('oversized')
                else:
                    v = rng.randint(0, (1 << (8 * w)) - 1)
                loc = [k for k in labels if k.startswith('.')]
                if rng.random() < 0.15:
                    # a quoted character as a value (also as the first one of the list, and inside an expression)
                    ch = ('char', rng.choice(PLAIN))
                    vals.append(rng.choice([ch, ch, ('bin', '+', ch, ('num', rng.randint(0, 300))), ('bin', '-', ('num', 300), ch)]))
                    flags.add('char-value')
                elif loc and rng.random() < 0.5:
                    vals.append(('label', rng.choice(loc)))
                elif rng.random() < 0.2:
                    vals.append(('label', rng.choice(list(labels) + ['end_lbl'])))
                else:
                    vals.append(P.simple_expr(rng, v, list(labels), labels))
            stmts.append({'k': 'data', 'w': w, 'vals': vals})
            cur += w * len(vals)
        elif r < 0.75:
            kind = rng.choice(['.byte', '.cstr', '.asciiz'] + (['emb'] if emb else []))
            quote = '"' if kind == 'emb' else rng.choice(['"', "'"])
            text, he = gen_string(rng, quote)
            if kind == 'emb':
                # a bare embedded string rejects characters beyond one byte (ValueError, fail closed); the data directives keep
                # the low byte - only the latter is part of the modelled language
                text = text.replace('\\u20ac', '\\u00e9').replace('\\u0100', '\\u0041')
            if kind != '.byte' and rng.random() < 0.2:
                # the string's own last character equals the terminator
                t8 = term & 0xFF
                text += rng.choice(['\\x%02x' % t8] + (['\\0'] if t8 == 0 else []) +
                                   ([chr(t8)] if 32 <= t8 < 127 and chr(t8) not in '"\'\\' else []))
                he = True
                flags.add('ends-with-terminator')
            if he:
                flags.add('escape')
            st = {'k': 'str', 'raw': text}
            if kind != '.byte':
                st['term'] = term
            st['text'] = (quote + text + quote) if kind == 'emb' else f'{kind} {quote}{text}{quote}'
            stmts.append(st)
            cur += 1   # not exact (only used to aim .zerountil)
            if kind != 'emb' and rng.random() < 0.12:
                # another statement on the same line after the closing quote: it must not be swallowed
                st['join_next'] = True
                stmts.append(rng.choice([{'k': 'instr', 'mn': 'nop', 'args': []}, {'k': 'instr', 'mn': 'op1', 'args': [[('num', 7), 1]]},
                                         {'k': 'data', 'w': 1, 'vals': [('num', 0x5A)]}]))
                flags.add('statement-after-string')
        elif r < 0.87:
            c = rng.choice([0, 0, 1, 2, 5, 17])
            v = rng.choice([0, 255, 256, 511, -1, -256, rng.randint(0, 255)])
            st = {'k': 'fill', 'cnt': P.simple_expr(rng, c, list(labels), labels), 'val': P.simple_expr(rng, v, [], {})}
            if rng.random() < 0.35:
                st['zero'] = True
                st['val'] = ('num', 0)
            stmts.append(st)
            cur += c
        else:
            t = max(0, cur + rng.choice([-1, 0, 1, 2, 9, 40]))
            stmts.append({'k': 'zerountil', 'a': ('num', t)})
            flags.add('zerountil')
            cur = max(cur, t + 1)
    if rng.random() < 0.15:
        # twin regions: the same local name, hence the same value text, denotes a different address in each
        w = rng.choice([1, 2, 4])
        e = rng.choice([('label', '.twin'), ('bin', '+', ('label', '.twin'), ('num', 1))])
        for nm in ('lab_ta', 'lab_tb'):
            stmts += [{'k': 'label', 'name': nm}, {'k': 'fill', 'cnt': ('num', rng.randint(0, 3)), 'val': ('num', 7)},
                      {'k': 'label', 'name': '.twin'}, {'k': 'data', 'w': w, 'vals': [e]}]
        flags.add('twin-regions')
    stmts.append({'k': 'label', 'name': 'end_lbl'})
    return {'cfg': cfg, 'files': [stmts], 'start': 0, 'end': None, 'fill': 0xEE, 'seed': rng.randrange(1 << 30),
            'flags': sorted(flags)}


def gen_split(rng):
    """function-level probe of the value-list splitter (utilities.split_on_commas): either a list of well-tokenised items
    joined by commas (must come back item for item) or an arbitrary string over a small alphabet (model only)"""
    if rng.random() < 0.6:
        items = []
        for _ in range(rng.randint(1, 5)):
            it = ''
            for _j in range(rng.randint(0, 4)):
                it += rng.choice(["','", "'''", "'a'", "' '", 'x', '1', ' ', '+', '(', ')', '$f', '"'])
            items.append(it)
        return {'unit': 'split', 'text': ','.join(items), 'items': items, 'flags': ['unit-split-items']}
    text = ''.join(rng.choice([',', "'", 'a', '1', ' ', ',', "'", '+']) for _ in range(rng.randint(0, 12)))
    return {'unit': 'split', 'text': text, 'items': None, 'flags': ['unit-split-arbitrary']}


def gen_long(rng):
    """size: ONE directive that emits thousands of bytes (a fill / zero / zerountil run of 4..12 KiB, a value list of some
    hundred items, a long string), with data behind it whose place depends on that length"""
    cfg = {'bits': 16, 'little': rng.random() < 0.5, 'regs': ['ra', 'rb'], 'preZones': [], 'preConsts': [], 'preData': []}
    start = rng.choice([0, 0, 3, 0x0FF0, 0x1001])
    stmts = [{'k': 'org', 'e': ('num', start)}] if start else []
    stmts.append({'k': 'data', 'w': 1, 'vals': [('num', 0xA1)]})
    kind = rng.choice(['fill', 'fill', 'zero', 'zerountil', 'list', 'string'])
    n = rng.choice([4097, 4098, 8191, 8192, 8193, 9000, rng.randint(4096, 12000)])
    if kind == 'fill':
        stmts.append({'k': 'fill', 'cnt': ('num', n), 'val': ('num', rng.randint(1, 255))})
    elif kind == 'zero':
        stmts.append({'k': 'fill', 'cnt': ('num', n), 'val': ('num', 0), 'zero': True})
    elif kind == 'zerountil':
        stmts.append({'k': 'zerountil', 'a': ('num', start + n)})
    elif kind == 'list':
        stmts.append({'k': 'data', 'w': rng.choice([1, 2, 4]), 'vals': [('num', (i * 7 + 1) % 256) for i in range(rng.randint(300, 700))]})
    else:
        body = ''.join(rng.choice('abcdefgh XYZ0123') for _ in range(rng.randint(600, 1500)))
        stmts.append({'k': 'str', 'raw': body, 'term': 0, 'text': '.cstr "' + body + '"'})
    stmts.append({'k': 'label', 'name': 'behind'})
    stmts.append({'k': 'data', 'w': 1, 'vals': [('num', 1), ('num', 2), ('num', 3)]})
    stmts.append({'k': 'data', 'w': 2, 'vals': [('label', 'behind')]})
    return {'cfg': cfg, 'files': [stmts], 'start': rng.choice([0, start]), 'end': None, 'fill': rng.choice([0, 0xFF]),
            'seed': rng.randrange(1 << 30), 'flags': ['one-directive-of-several-KiB:' + kind]}


def generate(rng, tier):
    n = 500 if tier == 'quick' else 12000
    return [gen_case(rng, tier) for _ in range(n)] + [gen_split(rng) for _ in range(n // 3)] + [gen_long(rng) for _ in range(n // 40)]


def judge(case, ir, mr):
    tags = ['flag=' + f for f in case['flags']]
    if case.get('unit'):
        got = ir['ret']['items'] if ir['status'] == 'ok' and isinstance(ir.get('ret'), dict) else None
        det = f'text={case["text"]!r} split_on_commas={got} model={mr["impl"]} str.split={mr["spec"]}'
        if got is None:
            return {'verdict': Verdict.VIOLATION, 'tags': tags, 'detail': 'split_on_commas failed: ' + str(ir.get('msg'))[:200] + det}
        if case['items'] is not None and got != case['items']:
            return {'verdict': Verdict.VIOLATION, 'tags': tags, 'detail': f'the values {case["items"]} are not split back: ' + det}
        if "'" not in case['text'] and got != mr['spec']:
            return {'verdict': Verdict.VIOLATION, 'tags': tags, 'detail': 'differs from str.split on a text without quotes: ' + det}
        if ','.join(got) != case['text']:
            return {'verdict': Verdict.VIOLATION, 'tags': tags, 'detail': 'items joined by commas are not the text: ' + det}
        if got != mr['impl']:
            return {'verdict': Verdict.CORR, 'tags': tags, 'detail': 'model and code split differently: ' + det}
        return {'verdict': Verdict.OK, 'nontrivial': "'" in case['text'] and ',' in case['text'], 'tags': tags, 'detail': det[:300]}
    mr, mt = LB.split(mr)
    bad, actual, det = LB.base_judge(case, ir, mr, tags, mt)
    if bad:
        return bad
    return {'verdict': Verdict.OK, 'nontrivial': actual is not None and bool(case['flags']), 'tags': tags, 'detail': det[:300]}
