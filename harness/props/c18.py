"""C18 — output is invariant under meaning-preserving changes of surface syntax."""
import random

import gen
import impl
import leanio
from core import Verdict
from props import c10 as C10

RULE = ('generated programs (global and local labels, instructions with register / number / label / bracketed operands, '
        'relative jumps to local labels, numeric data) rendered in a canonical layout and in 3 random layouts combining, at '
        'random positions: letter case of mnemonics and registers, amount and kind (blank / tab) of whitespace between tokens, '
        'blank lines, comments (own line and trailing), labels on their own line or in front of the statement, consecutive '
        'instructions on one line; checked: all layouts give the same image on the real CLI (the property itself), and the text '
        're-rendered from the MODEL scanner\'s statement list gives that image too (ties the scanner model to the code); '
        'non-trivial = program with >= 3 statements incl. a label and a compound line; distinct by hash')
EXPLANATION = ('Theorems in Props/C18.lean about the model scanner: tokens independent of whitespace amount/kind, comments and '
               'blank lines ignored, statement splitting independent of line breaks, case folding of mnemonics/registers. '
               'The real code uses Python regexes: modelled, not verified; tied by the differential runs.')
ASSUMPTIONS = ['a data directive is always the last statement on its line (the data-line pattern owns the rest of the line)',
               'quoted literals are generated without backslash escapes; preprocessor directives are not part of the rewritten language']
LEVEL = 'proof'
# 'b.ne' / 'b.eq': mnemonics with a period whose pieces ('b', 'ne', 'eq') are no mnemonics themselves
MNEMS = ['nop', 'ldn', 'ldi', 'ldw', 'jr', 'jre', 'st', 'inc', 'mv', 'ldx', 'ldv', 'ldd', 'b.ne', 'b.eq', 'b.ne']


def gen_program(rng):
    """logical statements: ('label', name) | ('ins', [tokens]) | ('data', [tokens])"""
    stmts = []
    # two constants whose names differ in letter case only: names are case sensitive, mnemonics and registers are not
    consts = {'kone': rng.randint(0, 100), 'KONE': rng.randint(101, 200)}
    n = rng.randint(3, 10)
    region = 0
    norg = 0
    have_local = False
    for i in range(n):
        r = rng.random()
        if r < 0.07:
            # an origin / zone directive; the non-local label behind it (same line or next line) opens the next region
            norg += 1
            stmts.append(rng.choice([('org', ['.org', f'${norg * 0x40:x}']), ('zone', ['.memzone', rng.choice(['ZN', 'GLOBAL'])]),
                                     ('org', ['.org', f'{norg * 8}', '"ZN"'])]))
            r = 0.0
        if r < 0.18:
            region += 1
            have_local = False
            stmts.append(('label', f'glob{region}'))
            if rng.random() < 0.35:
                # forward reference to a local label of the region that this label opens
                stmts.append(('ins', [rng.choice(['jr', 'jre']), '.lp']))
                stmts.append(('ins', ['nop']))
                stmts.append(('label', '.lp'))
                have_local = True
        elif r < 0.3 and region > 0:
            stmts.append(('label', '.lp'))
            have_local = True
            if any(s == ('label', '.lp') for s in stmts[-8:-1]) and not any(s[0] == 'label' and not s[1].startswith('.') for s in stmts[-8:-1]):
                stmts.pop()
        elif r < 0.4:
            k = rng.randint(1, 3)
            toks = ['.byte']
            for j in range(k):
                v = str(rng.randint(0, 255))
                if rng.random() < 0.25:
                    # quoted characters that look like syntax: a label in front of the statement, a trailing comment or
                    # another layout must not cut the literal
                    v = rng.choice(["';'", "','", "':'", "' '", "'a'", "'#'"])
                toks += [v] + ([','] if j < k - 1 else [])
            if rng.random() < 0.2:
                toks = [rng.choice(['.cstr', '.asciiz']), rng.choice(['"a;b"', '"x, y; z"', '"lbl: nop"', '"; not a comment"', '"it\'s"'])]
            stmts.append(('data', toks))
        else:
            mn = rng.choice(MNEMS)
            reg = lambda: rng.choice(C10.REGS)  # noqa
            val = lambda: rng.choice([str(rng.randint(0, 200)), 'kone', '$1f', 'KONE', 'kone'])  # noqa
            if mn == 'nop':
                toks = ['nop']
            elif mn == 'ldn':
                toks = ['ldn', val()]
            elif mn == 'ldi':
                toks = ['ldi', reg(), ',', val()]
            elif mn == 'ldw':
                toks = ['ldw', val()] if rng.random() < 0.6 else ['ldw', val(), '+', str(rng.randint(0, 9))]
            elif mn in ('jr', 'jre'):
                tgt = '.lp' if (have_local and rng.random() < 0.6) else (f'glob{region}' if region else 'kone')
                toks = [mn, tgt]
            elif mn == 'st':
                toks = ['st', '[', val(), ']'] if rng.random() < 0.6 else ['st', '[', val(), '+', '1', ']']
            elif mn == 'ldd':
                # a deferred operand: every bracket is a token of its own, blanks between them carry no meaning
                toks = ['ldd', '[', '[', val(), ']', ']'] if rng.random() < 0.7 else ['ldd', '[', '[', val(), '+', '1', ']', ']']
            elif mn == 'inc':
                toks = ['inc', reg()]
            elif mn == 'b.ne':
                toks = ['b.ne', val()]
            elif mn == 'b.eq':
                toks = ['b.eq']
            elif mn == 'ldv':
                # numeric variant first, register variant second: the letter case of the register must not decide
                toks = ['ldv', reg() if rng.random() < 0.7 else val()]
            elif mn == 'ldx':
                toks = ['ldx', '[', reg(), ']'] if rng.random() < 0.4 else ['ldx', '[', reg(), '+', str(rng.randint(0, 9)), ']']
                if rng.random() < 0.35:
                    # an offset of several terms: the blanks between its terms carry no meaning either
                    toks = ['ldx', '[', reg(), rng.choice(['+', '-']), rng.choice([str(rng.randint(0, 9)), 'kone']),
                            rng.choice(['+', '-']), str(rng.randint(0, 5)), ']']
            else:
                toks = ['mv', reg(), ',', reg()]
            stmts.append(('ins', toks))
    # make sure every '.lp' label is unique within its region
    out, seen = [], set()
    for s in stmts:
        if s[0] == 'label' and not s[1].startswith('.'):
            seen = set()
        if s == ('label', '.lp'):
            if '.lp' in seen:
                continue
            seen.add('.lp')
        out.append(s)
    # local jumps need the local label in the same region: drop dangling ones
    fixed = []
    region_has = False
    for idx, s in enumerate(out):
        if s[0] == 'label' and not s[1].startswith('.'):
            region_has = any(t == ('label', '.lp') for t in out[idx + 1: next((k for k in range(idx + 1, len(out)) if out[k][0] == 'label' and not out[k][1].startswith('.')), len(out))])
        if s[0] == 'ins' and s[1][0] in ('jr', 'jre') and s[1][1] == '.lp' and not region_has:
            s = ('ins', [s[1][0], 'kone'])
        fixed.append(s)
    return consts, fixed


def ws(rng, required=False, canonical=False):
    if canonical:
        return ' ' if required else ''
    r = rng.random()
    if required:
        return rng.choice([' ', '  ', '\t', ' \t', '    '])
    return rng.choice(['', '', ' ', '\t', '  '])


def render_stmt(rng, toks, canonical, recase):
    out = []
    for i, t in enumerate(toks):
        tt = t
        if recase and (t.lower() in MNEMS or t.lower() in C10.REGS):
            tt = gen.rcase(rng, t)
        out.append(tt)
        if i + 1 < len(toks):
            nxt = toks[i + 1]
            need = (t[-1].isalnum() or t[-1] in '_.$') and (nxt[0].isalnum() or nxt[0] in '_.$%')
            if i == 0:
                need = True        # the mnemonic / directive name is delimited by whitespace
            if canonical:
                out.append(' ' if (need or True) else '')
            else:
                out.append(ws(rng, required=need))
    return ''.join(out)


def render(rng, consts, stmts, canonical):
    lines = [f'{k} = {v}' for k, v in consts.items()]
    cur = ''
    kinds = set()

    def flush():
        nonlocal cur
        if cur != '':
            lines.append(cur)
            cur = ''
    cur_kind = None
    for kind, x in stmts:
        if kind == 'label':
            text = x + ':'
            if cur and cur_kind in ('org', 'zone') and not canonical and rng.random() < 0.6:
                # a label behind an origin / zone directive on the same line
                cur = cur + ws(rng, required=True) + text
                kinds.add('label-behind-directive')
                cur_kind = 'label'
                continue
            flush()
            cur_kind = 'label'
            if canonical or rng.random() < 0.5:
                lines.append(text)                       # label on its own line
            else:
                cur = text                                # label in front of the next statement
                kinds.add('label-in-front')
        else:
            text = render_stmt(rng, x, canonical, recase=not canonical)
            if cur.endswith(':'):
                # blanks between the colon and the statement carry no meaning - none at all is as good as several
                cur = cur + rng.choice(['', '', ' ', ' ', '\t', '  \t ']) + text
                kinds.add('label-in-front')
            elif cur and kind == 'ins' and not canonical and rng.random() < 0.4 and not cur.lstrip().startswith('.byte') \
                    and cur_kind != 'org':
                cur = cur + ws(rng, required=True) + text
                kinds.add('compound')
            else:
                flush()
                cur = text
            cur_kind = kind
            if kind == 'data':
                flush()
        if not canonical:
            if rng.random() < 0.15:
                flush()
                lines.append(rng.choice(['', '   ', '\t', '; a comment line', '  ; indented comment']))
                kinds.add('blank/comment')
            elif cur and rng.random() < 0.15 and not cur.endswith(':'):
                cur = cur + ws(rng) + '; trailing ' + rng.choice(['comment', 'nop', 'x: y'])
                flush()
                kinds.add('trailing-comment')
    flush()
    if not canonical:
        lines = [(ws(rng) + l) if rng.random() < 0.4 else l for l in lines]
    return '\n'.join(lines) + '\n', kinds


def gen_case(rng, tier):
    de = rng.choice(['big', 'little'])
    osets, msets, instrs_y, instrs_m = C10.isa_base(rng, de)
    osets = dict(osets)
    osets['indr'] = {'operand_values': {f'ir_{r}': {'type': 'indirect_register', 'register': r, 'bytecode': {'value': i + 1, 'size': 2},
                                                    'offset': {'size': 8, 'byte_align': True}} for i, r in enumerate(C10.REGS)}}
    instrs_y = dict(instrs_y)
    instrs_y['ldx'] = {'bytecode': {'value': 0x1C, 'size': 6}, 'operands': {'count': 1, 'operand_sets': {'list': ['indr']}}}
    osets['def16'] = {'operand_values': {'df16': {'type': 'deferred_numeric', 'argument': {'size': 16, 'byte_align': True}}}}
    instrs_y['ldd'] = {'bytecode': {'value': 0x63, 'size': 8}, 'operands': {'count': 1, 'operand_sets': {'list': ['def16']}}}
    instrs_y['ldv'] = {'bytecode': {'value': 0x61, 'size': 8}, 'operands': {'count': 1, 'operand_sets': {'list': ['imm8']}},
                       'variants': [{'bytecode': {'value': 0x62, 'size': 8}, 'operands': {'count': 1, 'operand_sets': {'list': ['regs']}}}]}
    instrs_y['b.ne'] = {'bytecode': {'value': 0x71, 'size': 8}, 'operands': {'count': 1, 'operand_sets': {'list': ['imm8']}}}
    instrs_y['b.eq'] = {'bytecode': {'value': 0x72, 'size': 8}}
    isa = {'description': 'c18', 'general': {'address_size': 16, 'endian': de, 'registers': list(C10.REGS)},
           'predefined': {'memory_zones': [{'name': 'ZN', 'start': 0x300, 'end': 0x3ff}]},
           'operand_sets': osets, 'instructions': instrs_y}
    consts, stmts = gen_program(rng)
    canon, _ = render(rng, consts, stmts, True)
    variants, kinds = [], set()
    for _ in range(3):
        t, k = render(rng, consts, stmts, False)
        variants.append(t)
        kinds |= k
    quoted = any(t[0] in '"\'' for k, x in stmts if k != 'label' for t in x)
    if quoted:
        kinds.add('quoted-syntax-characters')
    return {'isa': isa, 'canon': canon, 'variants': variants, 'kinds': sorted(kinds), 'nstmts': len(stmts), 'quoted': quoted}


def generate(rng, tier):
    return [gen_case(rng, tier) for _ in range(250 if tier == 'quick' else 5000)]


def to_impl(case):
    return [impl.compile_case(case['isa'], {'main.asm': t}) for t in [case['canon']] + case['variants']]


def to_model(case):
    return [{'op': 'scan', 'mnemonics': sorted(set(MNEMS)), 'registers': list(C10.REGS), 'text': t} for t in case['variants']]


def judge(case, irs, mrs):
    tags = ['rewrite=' + k for k in case['kinds']]
    if any(r['status'] == 'timeout' for r in irs):
        return {'verdict': Verdict.VIOLATION, 'detail': 'no termination', 'tags': tags}
    imgs = [impl.fbytes(r, 'out.bin') if r['status'] == 'ok' else None for r in irs]
    base = imgs[0]
    for t, im, r in zip(case['variants'], imgs[1:], irs[1:]):
        if im != base:
            return {'verdict': Verdict.VIOLATION, 'tags': tags,
                    'detail': f'canonical layout {case["canon"]!r} -> {base.hex() if base is not None else str(irs[0].get("msg"))[:120]!r}; '
                              f'rewritten {t!r} -> {im.hex() if im is not None else str(r.get("msg"))[:160]!r}'}
    # tie of the scanner model: re-render each rewritten text from the model's statement list
    texts = [m['canon'] for m in mrs]
    consts_hdr = ''
    for t2, t in zip(texts, case['variants']):
        r2 = impl.run_one(impl.compile_case(case['isa'], {'main.asm': t2}), timeout=10)
        im2 = impl.fbytes(r2, 'out.bin') if r2['status'] == 'ok' else None
        if im2 != base:
            return {'verdict': Verdict.CORR, 'tags': tags,
                    'detail': f'model scanner re-rendering {t2!r} of {t!r} -> {im2.hex() if im2 is not None else str(r2.get("msg"))[:160]!r}, '
                              f'expected {base.hex() if base is not None else None}'}
    tags.append('assembled' if base is not None else 'rejected')
    return {'verdict': Verdict.OK, 'nontrivial': base is not None and case['nstmts'] >= 3 and 'compound' in case['kinds'],
            'tags': tags, 'detail': f'{case["variants"][0]!r}'[:300]}
