"""C16 — all output formats describe the same memory contents as the binary image."""
import random

import impl
import leanio
import probes
import proggen as P
from core import Verdict
from props import layout_base as LB

RULE = ('generated programs (sparse maps via .org / zones, lines longer than a listing row, muted regions, zero-length lines, '
        'included files, address widths 8..20) x {intel_hex, hex, minhex, listing}: the text printed by the real CLI is decoded '
        'by the Lean decoders and compared with the address->byte map recovered from two real .bin runs (fill 00 / FF); the '
        'listing rows are additionally matched against the assembled statements (address + bytes, muted lines blank); '
        'non-trivial = assembled with >= 2 byte lines and a gap or a muted line or a line longer than 6 bytes')
EXPLANATION = ('Theorems in Props/C16.lean: decoders invert the reference encoders (Intel HEX records incl. checksum and 64K '
               'extension, compact hex under EveryGapHasOrg, listing rows), muted lines absent. Correspondence: decoded real '
               'output vs the image map; the listing row helper against `chunkRows` at function level; two address windows (-s inside a statement, -e) of the image against the same map. KNOWN-FINDING minhex-gap-without-org is reported where its class predicate holds.')
ASSUMPTIONS = ['the third-party intelhex writer is not modelled; its output is only decoded',
               'listing instruction/comment columns are ignored (only line/address/bytes columns are decoded)']
FORMATS = ['intel_hex', 'hex', 'minhex', 'listing']


def gen_case(rng, tier):
    bits = rng.choice([8, 12, 16, 16, 20])
    cfg = P.gen_cfg(rng, bits=bits)
    if bits == 20:
        # keep the outputs small: GLOBAL ends just past the 64 K boundary
        cfg['preZones'] = [z for z in cfg['preZones'] if z[2] <= 0x10FFF and z[0] != 'GLOBAL'] + [('GLOBAL', 0, 0x10FFF)]
        cfg['origin'] = min(cfg.get('origin', 0), 0x1000)
    stmts = P.gen_program(rng, cfg, n_stmts=rng.randint(4, 14), allow_bad=0.0,
                          weights={'mute': 1.5, 'org': 1.2, 'data': 5, 'fill': 2, 'instr': 3, 'label': 1.5, 'align': 1,
                                   'memzone': 0.8, 'zerountil': 0.7, 'createZone': 0.3, 'const': 0.5})
    if rng.random() < 0.35:
        pos = rng.randint(0, len(stmts))
        stmts[pos:pos] = [{'k': 'instr', 'mn': 'op1', 'args': [[('num', rng.randint(0, 255)), 1]]} for j in range(3)]
    if rng.random() < 0.5:
        stmts.insert(rng.randint(0, len(stmts)), {'k': 'data', 'w': rng.choice([1, 2, 4]),
                                                  'vals': [('num', rng.randint(0, 255)) for _ in range(rng.randint(7, 20))]})
    if rng.random() < 0.3:
        # a row that holds nothing but blanks (0x20), alone in its 16-byte row
        a = 16 * rng.randint(8, 14)
        stmts.append({'k': 'org', 'e': ('num', a + rng.choice([0, 0, 3]))})
        stmts.append(rng.choice([{'k': 'fill', 'cnt': ('num', rng.choice([1, 4, 13, 16])), 'val': ('num', 0x20)},
                                 {'k': 'str', 'raw': ' ' * rng.randint(1, 6), 'text': '.byte "' + ' ' * 3 + '"'}]))
        if stmts[-1]['k'] == 'str':
            stmts[-1]['raw'] = '   '
    if cfg['bits'] >= 20 and rng.random() < 0.4:
        stmts.append({'k': 'org', 'e': ('num', 0x10000 - rng.randint(0, 3))})
        stmts.append({'k': 'data', 'w': 1, 'vals': [('num', rng.randint(0, 255)) for _ in range(rng.randint(1, 8))]})
    if rng.random() < 0.3:
        # origins next to muted code: an .org that lands exactly behind muted bytes, and an .org inside a muted block that is
        # the last origin before emitted bytes - both still say where the following bytes live
        hi = (1 << cfg['bits']) - 1
        a = rng.randint(0, max(0, min(hi - 48, 400)))
        d = lambda n: {'k': 'data', 'w': 1, 'vals': [('num', rng.randint(0, 255)) for _ in range(n)]}  # noqa
        k = rng.randint(1, 5)
        if rng.random() < 0.5:
            g = [{'k': 'org', 'e': ('num', a)}, d(2), {'k': 'mute'}, d(k), {'k': 'unmute'}, {'k': 'org', 'e': ('num', a + 2 + k)}, d(2)]
        else:
            g = [{'k': 'org', 'e': ('num', a)}, d(1), {'k': 'mute'}, {'k': 'org', 'e': ('num', a + 20)}, d(k),
                 {'k': 'org', 'e': ('num', a + 8)}, {'k': 'unmute'}, d(2)]
        stmts = stmts + g
    # several statements on one source line: each is a statement of its own in every format, also in the listing
    for i in range(len(stmts) - 1):
        if stmts[i]['k'] == 'instr' and stmts[i + 1]['k'] == 'instr' and rng.random() < 0.6:
            stmts[i]['join_next'] = True
    return {'cfg': cfg, 'files': [stmts], 'seed': rng.randrange(1 << 30)}


def add_windows(cases):
    """Two address windows per case.  A window starts preferably strictly inside a statement whose bytes differ from one
    another (found in the model's placement of the program) and ends inside the map or behind it."""
    res = leanio.run_driver([to_model(c) for c in cases])
    for c, mr in zip(cases, res):
        c['windows'] = []
        if not mr.get('lines') or 'err' in mr:
            continue
        rng = random.Random(c['seed'])
        lines = [l for l in mr['lines'] if l['isByte'] and l['bytes'] and not l['muted']]
        if not lines:
            continue
        inner = [l['addr'] + k for l in lines for k in range(1, len(l['bytes'])) if l['bytes'][k - 1] != l['bytes'][k]]
        hi = max(l['addr'] + len(l['bytes']) for l in lines)
        for _ in range(2):
            s = rng.choice(inner) if inner and rng.random() < 0.7 else rng.choice([0, hi, rng.randint(0, hi)])
            e = rng.choice([None, None, rng.randint(s, hi + 3)])
            c['windows'].append([s, e, rng.choice([0, 0x5A, 255])])
    return cases


def gen_chunks(rng):
    """function-level tie of the listing row model (`chunkRows`, `encListingLine`, `mergePRows`) to
    `ListingPrettyPrinter._generate_bytecode_line_string`: bytes of one statement, bytes per row"""
    k = rng.choice([1, 2, 3, 6, 6, 6, 8, 16])
    n = rng.choice([0, 1, k - 1, k, k + 1, 2 * k, 2 * k + 1, 3 * k - 1, rng.randint(0, 40)])
    return {'kind': 'chunks', 'k': k, 'bs': [rng.choice([0, 0x20, 0xFF, rng.randint(0, 255)]) for _ in range(max(0, n))]}


def generate(rng, tier):
    n = 220 if tier == 'quick' else 5000
    return add_windows([gen_case(rng, tier) for _ in range(n)]) + [gen_chunks(rng) for _ in range(n // 4)]


def to_impl(case):
    if case.get('kind') == 'chunks':
        return probes.call('listing_chunks', case['bs'], case['k'])
    isa = P.make_isa(case['cfg'])
    files = LB.render(case)
    out = [impl.compile_case(isa, files, fill=0), impl.compile_case(isa, files, fill=255)]
    for f in FORMATS:
        out.append(impl.compile_case(isa, files, pretty=f))
    # the image of an address window (-s / -e): the same memory contents again, cut to the window
    for s_, e_, fill in case.get('windows', []):
        out.append(impl.compile_case(isa, files, start=s_, end=e_, fill=fill))
    return out


def to_model(case):
    if case.get('kind') == 'chunks':
        return {'op': 'chunks', 'bs': case['bs'], 'k': case['k']}
    return P.to_model_request(case['cfg'], case['files'], 0, None, 0)


def judge_chunks(case, ir, mr):
    tags = ['listing-rows']
    det = f'bytes={case["bs"]} per row={case["k"]}'
    if ir.get('status') != 'ok' or 'rows' not in (ir.get('ret') or {}):
        return {'verdict': Verdict.CORR, 'tags': tags, 'detail': 'the row helper of the listing printer could not be called: '
                + str(ir.get('msg'))[:300] + '; ' + det}
    real = ir['ret']['rows']
    try:
        dec = [[int(w, 16) for w in r.split()] for r in real]
    except ValueError:
        return {'verdict': Verdict.VIOLATION, 'tags': tags, 'detail': f'listing rows {real!r} are not hex bytes; ' + det}
    flat = [b for r in dec for b in r]
    if flat != case['bs'] or any(len(r) == 0 or len(r) > case['k'] for r in dec):
        return {'verdict': Verdict.VIOLATION, 'tags': tags,
                'detail': f'the listing rows {real!r} of one statement do not carry its bytes in order, at most {case["k"]} per row; ' + det}
    if dec != mr['rows'] or mr['merged'] != [case['bs']] or any(len(r) != 3 * case['k'] for r in real):
        return {'verdict': Verdict.CORR, 'tags': tags, 'detail': f'real rows {real!r} model rows {mr["rows"]} merged {mr["merged"]}; ' + det}
    return {'verdict': Verdict.OK, 'nontrivial': len(case['bs']) > case['k'], 'tags': tags, 'detail': det}


def judge(case, irs, mr):
    if case.get('kind') == 'chunks':
        return judge_chunks(case, irs, mr)
    tags = []
    det = f'asm={LB.render(case)["main.asm"]!r}'[:1200]
    b0 = impl.fbytes(irs[0], 'out.bin') if irs[0]['status'] == 'ok' else None
    b1 = impl.fbytes(irs[1], 'out.bin') if irs[1]['status'] == 'ok' else None
    if any(r['status'] == 'timeout' for r in irs):
        return {'verdict': Verdict.VIOLATION, 'detail': 'no termination; ' + det, 'tags': tags}
    if b0 is None or b1 is None:
        tags.append('rejected')
        if 'err' not in mr:
            return {'verdict': Verdict.CORR, 'tags': tags, 'detail': 'model assembles, real code rejects: ' + str(irs[0].get('msg'))[:200] + det}
        # pretty printing must not report success either
        return {'verdict': Verdict.OK, 'tags': tags, 'detail': det[:200]}
    if 'err' in mr:
        return {'verdict': Verdict.CORR, 'tags': tags, 'detail': f'model rejects ({mr["err"]}), real code assembles; ' + det}
    real_map = {a: b0[a] for a in range(len(b0)) if b0[a] == b1[a]}
    texts = []
    for k, f in enumerate(FORMATS):
        r = irs[2 + k]
        if r['status'] != 'ok':
            return {'verdict': Verdict.VIOLATION, 'tags': tags,
                    'detail': f'--pretty-print-format {f} failed although the image was written: {str(r.get("msg"))[:200]}; ' + det}
        t = impl.fbytes(r, 'pretty.txt')
        texts.append((t or b'').decode('latin-1'))
    dec = leanio.run_driver([{'op': 'decode', 'fmt': f, 'text': t} for f, t in zip(FORMATS, texts)], procs=1)
    lines = [l for l in mr['lines'] if l['isByte'] and l['bytes']]
    unmuted = [l for l in lines if not l['muted']]
    gap = len({a for a in real_map}) < (max(real_map) - min(real_map) + 1 if real_map else 0)
    nontrivial = len(unmuted) >= 2 and (gap or any(l['muted'] for l in lines) or any(len(l['bytes']) > 6 for l in unmuted))
    known = None
    for f, d, t in zip(FORMATS, dec, texts):
        if 'err' in d:
            return {'verdict': Verdict.VIOLATION, 'tags': tags, 'detail': f'{f} output is not decodable: {t[:300]!r}; ' + det}
        m = {}
        dup = False
        for a, b in d['map']:
            if a in m and m[a] != b:
                dup = True
            m[a] = b
        if m != real_map or dup:
            if f == 'minhex' and mr.get('everyGapHasOrg') is False:
                mm = {a: b for a, b in (mr.get('minhexModelMap') or [])}
                if mm == m:
                    known = f'minhex decodes to {sorted(m.items())[:6]}.. but the image holds {sorted(real_map.items())[:6]}..'
                    tags.append('finding:minhex-gap-without-org')
                    continue
                return {'verdict': Verdict.VIOLATION, 'tags': tags,
                        'detail': f'minhex describes different memory contents than the image, and not in the way the listed '
                                  f'finding minhex-gap-without-org records: text {t[:300]!r}; ' + det}
            diff = sorted(set(m.items()) ^ set(real_map.items()))[:8]
            return {'verdict': Verdict.VIOLATION, 'tags': tags,
                    'detail': f'{f} describes different memory contents than the image (first differences {diff}); text={t[:400]!r}; ' + det}
    # the image of an address window holds the same bytes at the same addresses
    for r, (s_, e_, fill) in zip(irs[6:], case.get('windows', [])):
        if r['status'] != 'ok':
            return {'verdict': Verdict.VIOLATION, 'tags': tags,
                    'detail': f'-s {s_} -e {e_} failed although the whole image was written: {str(r.get("msg"))[:200]}; ' + det}
        last = e_ if e_ is not None else (max(real_map) if real_map else -1)
        want_img = bytes(real_map.get(a, fill) for a in range(s_, last + 1))
        got_img = impl.fbytes(r, 'out.bin')
        tags.append('window:' + ('inside-statement' if any(l['addr'] < s_ < l['addr'] + len(l['bytes']) for l in unmuted) else 'other'))
        if got_img != want_img:
            return {'verdict': Verdict.VIOLATION, 'tags': tags,
                    'detail': f'the image written with -s {s_} -e {e_} -f {fill} holds {got_img.hex()[:80]} where the whole image '
                              f'and every other format hold {want_img.hex()[:80]}; ' + det}
    # listing rows vs assembled statements
    rows = dec[3].get('rows', [])
    got = sorted((r['addr'], tuple(r['bytes'])) for r in rows if r['bytes'])
    want = sorted((l['addr'], tuple(l['bytes'])) for l in unmuted)
    if got != want:
        return {'verdict': Verdict.VIOLATION, 'tags': tags,
                'detail': f'listing rows {got[:6]} != assembled statements {want[:6]}; text={texts[3][:500]!r}; ' + det}
    if any(l['muted'] for l in lines):
        tags.append('muted')
    if known:
        return {'verdict': Verdict.KNOWN, 'class': 'minhex-gap-without-org', 'nontrivial': nontrivial, 'tags': tags,
                'detail': known + ' ' + det[:200]}
    return {'verdict': Verdict.OK, 'nontrivial': nontrivial, 'tags': tags, 'detail': det[:300]}
