"""C06 — label references resolve only within their lexical scope."""
import random

import proggen as P
from core import Verdict
from props import layout_base as LB

RULE = ('1..3 files (main + included) each with global / file (_x) / local (.x) labels and constants, the SAME file and local '
        'names reused across files and regions, references before and after definitions and across files, scope-resetting '
        '.org/.memzone between definition and use, constants between labels, duplicates, registers and keywords as label '
        'names, locals without an enclosing label; label values are observed through data/operands in the image; '
        'non-trivial = >= 2 regions or files define the same name, or a scope-related rejection; distinct by hash')
EXPLANATION = ('Theorems in Props/C06.lean: lookup returns only definitions visible from the referencing line (same region / '
               'same file / global), never those of another region or file; duplicates, too-low scope, keywords rejected. '
               'Correspondence: accept/reject + image of the real CLI vs the model.')
ASSUMPTIONS = []
to_impl, to_model = LB.to_impl, LB.to_model

W = {'label': 7, 'data': 5, 'instr': 3, 'const': 2.5, 'org': 0.5, 'memzone': 0.3, 'fill': 0.5, 'zerountil': 0.2, 'align': 0.3,
     'mute': 0.2, 'createZone': 0.1, 'comment': 0.5}


def probe_case(rng):
    """small clean multi-file programs aimed at one visibility rule each"""
    cfg = {'bits': 16, 'little': rng.random() < 0.5, 'regs': ['ra', 'rb'], 'preZones': [], 'preConsts': [], 'preData': []}
    v = lambda: ('num', rng.randint(0, 250))  # noqa
    kind = rng.choice(['file-label-leak-down', 'file-label-leak-up', 'file-const-leak-down', 'local-across-region',
                       'local-after-org', 'local-same-name-two-regions', 'file-same-name-two-files', 'local-before-any-label',
                       'const-does-not-open-region', 'const-does-not-open-region', 'nested-leak', 'local-on-directive-line', 'local-on-directive-line',
                       'region-opened-on-directive-line', 'duplicate-on-one-line', 'duplicate-on-one-line',
                       'many-labels-in-included-file'])
    ref = lambda n: {'k': 'data', 'w': 2, 'vals': [('label', n)]}  # noqa
    A, B, C = [], [], []
    if kind == 'file-label-leak-down':       # includer defines _x, included file uses it -> must be rejected
        A = [{'k': 'label', 'name': '_x'}, {'k': 'data', 'w': 1, 'vals': [v()]}, {'k': 'include', 'f': 1, 'name': 'inc1.asm'}]
        B = [{'k': 'label', 'name': 'gb_0'}, ref('_x')]
    elif kind == 'file-label-leak-up':       # included file defines _x, includer uses it -> rejected
        A = [{'k': 'include', 'f': 1, 'name': 'inc1.asm'}, {'k': 'label', 'name': 'ga_0'}, ref('_x')]
        B = [{'k': 'label', 'name': '_x'}, {'k': 'data', 'w': 1, 'vals': [v()]}]
    elif kind == 'file-const-leak-down':
        A = [{'k': 'const', 'name': '_kx', 'e': v()}, {'k': 'include', 'f': 1, 'name': 'inc1.asm'}]
        B = [ref('_kx')]
    elif kind == 'nested-leak':
        A = [{'k': 'label', 'name': '_x'}, {'k': 'data', 'w': 1, 'vals': [v()]}, {'k': 'include', 'f': 1, 'name': 'inc1.asm'}]
        B = [{'k': 'data', 'w': 1, 'vals': [v()]}, {'k': 'include', 'f': 2, 'name': 'inc2.asm'}]
        C = [ref('_x')]
    elif kind == 'local-across-region':      # .l defined under g1, used under g2 -> rejected
        A = [{'k': 'label', 'name': 'g1'}, {'k': 'label', 'name': '.l'}, {'k': 'data', 'w': 1, 'vals': [v()]},
             {'k': 'label', 'name': 'g2'}, ref('.l')]
    elif kind == 'local-after-org':
        A = [{'k': 'label', 'name': 'g1'}, {'k': 'label', 'name': '.l'}, {'k': 'data', 'w': 1, 'vals': [v()]},
             {'k': rng.choice(['org', 'memzone']), 'e': ('num', 100), 'z': 'GLOBAL'}, ref('.l')]
    elif kind == 'local-on-directive-line':
        # the directive closes the region even when the local label stands behind it on the same source line
        A = [{'k': 'label', 'name': 'g1'}, {'k': 'data', 'w': 1, 'vals': [v()]},
             {'k': rng.choice(['org', 'memzone']), 'e': ('num', 100), 'z': 'GLOBAL', 'join_next': True},
             {'k': 'label', 'name': '.l', 'join_next': rng.random() < 0.5}, {'k': 'data', 'w': 1, 'vals': [v()]}] + \
            rng.choice([[], [ref('.l')], [{'k': 'label', 'name': 'g2'}, ref('.l')]])
    elif kind == 'region-opened-on-directive-line':
        # ... and a non-local label behind the directive opens a new one, again on the same line
        A = [{'k': 'label', 'name': 'g1'}, {'k': 'label', 'name': '.l'}, {'k': 'data', 'w': 1, 'vals': [v()]},
             {'k': rng.choice(['org', 'memzone']), 'e': ('num', 100), 'z': 'GLOBAL', 'join_next': True},
             {'k': 'label', 'name': 'g2', 'join_next': True}, {'k': 'label', 'name': '.l', 'join_next': rng.random() < 0.5},
             {'k': 'data', 'w': 1, 'vals': [v()]}, ref('.l')]
    elif kind == 'many-labels-in-included-file':
        # size: a file with some hundred non-local labels (each opens a region of its own) is included in the middle of a local
        # region of the includer; that region is the same region before and behind the #include
        n = rng.choice([127, 128, 129, 200, 260, 300])
        dup = rng.random() < 0.4
        A = [{'k': 'label', 'name': 'g1'}, {'k': 'label', 'name': '.l'}, {'k': 'data', 'w': 1, 'vals': [v()]},
             {'k': 'include', 'f': 1, 'name': 'inc1.asm'}] + \
            ([{'k': 'label', 'name': '.l'}, {'k': 'data', 'w': 1, 'vals': [v()]}] if dup else
             [{'k': 'label', 'name': '.m'}, {'k': 'data', 'w': 1, 'vals': [v()]}]) + [ref('.l'), ref('.m') if not dup else ref('g1')]
        B = []
        for i in range(n):
            B += [{'k': 'label', 'name': f'lib_{i}'}, {'k': 'data', 'w': 1, 'vals': [('num', i % 256)]}]
            if i % 50 == 0:
                B += [{'k': 'label', 'name': '.l'}, ref('.l')]
    elif kind == 'duplicate-on-one-line':
        # two definitions of one name on the same source line are two definitions (global, file and local names alike);
        # the same local name in two regions that share a line stays legal
        nm = rng.choice(['gdup', '_fdup', '.ldup'])
        legal = nm == '.ldup' and rng.random() < 0.3
        A = [{'k': 'label', 'name': 'g1'}, {'k': 'data', 'w': 1, 'vals': [v()]},
             {'k': 'label', 'name': nm, 'join_next': True}] + \
            ([{'k': 'label', 'name': 'g2', 'join_next': True}] if legal else []) + \
            [{'k': 'label', 'name': nm, 'join_next': True}, {'k': 'data', 'w': 1, 'vals': [v()]}, ref(nm)]
    elif kind == 'local-same-name-two-regions':   # fine: each resolves to its own
        A = [{'k': 'label', 'name': 'g1'}, {'k': 'label', 'name': '.l'}, ref('.l'), {'k': 'label', 'name': 'g2'},
             {'k': 'data', 'w': 1, 'vals': [v()]}, {'k': 'label', 'name': '.l'}, ref('.l')]
    elif kind == 'file-same-name-two-files':      # fine
        A = [{'k': 'label', 'name': '_x'}, ref('_x'), {'k': 'include', 'f': 1, 'name': 'inc1.asm'}, ref('_x')]
        B = [{'k': 'data', 'w': 1, 'vals': [v()]}, {'k': 'label', 'name': '_x'}, ref('_x')]
    elif kind == 'local-before-any-label':
        A = [{'k': 'const', 'name': 'kk', 'e': rng.choice([v(), ('num', 0)])}, {'k': 'label', 'name': '.l'},
             {'k': 'data', 'w': 1, 'vals': [v()]}]
    else:  # const-does-not-open-region: local defined, constant in between, local used -> fine; duplicate local -> rejected
        dup = rng.random() < 0.5
        A = [{'k': 'label', 'name': 'g1'}, {'k': 'label', 'name': '.l'}, {'k': 'data', 'w': 1, 'vals': [v()]},
             {'k': 'const', 'name': 'kk', 'e': rng.choice([v(), ('num', 0), ('num', 0), ('bin', '-', ('num', 5), ('num', 5))])}] + \
            ([{'k': 'label', 'name': '.l'}] if dup else []) + [ref('.l')]
    files = [f for f in (A, B, C) if f]
    if rng.random() < 0.3:
        # the reference inside a muted region: a muted statement emits nothing, its names are looked up all the same
        for f in files:
            idx = [i for i, st in enumerate(f) if st['k'] == 'data' and any(isinstance(x, tuple) and x[0] == 'label' for x in st['vals'])]
            if idx:
                i = idx[-1]
                f[i:i + 1] = [{'k': 'mute'}, f[i], {'k': 'unmute'}]
    # optional harmless padding
    for f in files:
        if rng.random() < 0.5:
            f.insert(0, {'k': 'data', 'w': 1, 'vals': [v()]})
    names = {str(i): ('main.asm' if i == 0 else f'inc{i}.asm') for i in range(len(files))}
    return {'cfg': cfg, 'files': files, 'names': names, 'start': 0, 'end': None, 'fill': 0, 'seed': rng.randrange(1 << 30),
            'probe': kind}


def gen_case(rng, tier):
    if rng.random() < 0.2:
        return probe_case(rng)
    cfg = P.gen_cfg(rng, zones=rng.random() < 0.3, bits=16)
    nfiles = rng.choice([1, 2, 2, 3])
    prefixes = ['gl', 'ga', 'gb'][:nfiles] if rng.random() < 0.85 else ['gl'] * nfiles
    files = []
    for i in range(nfiles):
        others = [f'{p}_{k}' for j, p in enumerate(prefixes) if j != i for k in (0, 1)]
        if rng.random() < 0.12:
            others += ['_fl_0', '_fl_1']        # file labels of other files: must NOT resolve unless also defined here
        files.append(P.gen_program(rng, cfg, n_stmts=rng.randint(4, 12), weights=W, allow_bad=0.025, gprefix=prefixes[i],
                                   extra_defined=others if rng.random() < 0.8 else (), end_label=(i == 0)))
    # bad label names now and then
    if rng.random() < 0.06:
        f = rng.choice(files)
        f.insert(rng.randint(0, len(f)), {'k': 'label', 'name': rng.choice(['ra', 'org', '_fill', '.byte', 'BYTE1', 'zero', 'mute'])})
    if rng.random() < 0.04:
        f = rng.choice(files)
        f.insert(rng.randint(0, len(f)), {'k': 'const', 'name': rng.choice(['rb', 'kc_0', 'align']), 'e': ('num', 5)})
    # includes: main includes file 1 somewhere; file 1 (or main) includes file 2
    names = {'0': 'main.asm'}
    for i in range(1, nfiles):
        names[str(i)] = f'inc{i}.asm'
        host = 0 if (i == 1 or rng.random() < 0.5) else 1
        pos = rng.randint(0, len(files[host]))
        files[host].insert(pos, {'k': 'include', 'f': i, 'name': names[str(i)]})
    return {'cfg': cfg, 'files': files, 'names': names, 'start': 0, 'end': None, 'fill': 0, 'seed': rng.randrange(1 << 30)}


def generate(rng, tier):
    return [gen_case(rng, tier) for _ in range(500 if tier == 'quick' else 12000)]


def judge(case, ir, mr):
    tags = ['files=%d' % len(case['files'])] + (['probe=' + case['probe']] if case.get('probe') else [])
    mr, mt = LB.split(mr)
    bad, actual, det = LB.base_judge(case, ir, mr, tags, mt)
    if bad:
        return bad
    defs = {}
    for i, f in enumerate(case['files']):
        region = 0
        for s in f:
            if s['k'] == 'label':
                if not s['name'].startswith('.'):
                    region += 1
                defs.setdefault(s['name'], set()).add((i, region if s['name'].startswith('.') else 0))
            elif s['k'] in ('org', 'memzone'):
                region += 1
    shared = any(len(v) >= 2 for v in defs.values())
    scope_err = mr.get('err') in ('duplicateLabel', 'scopeTooLow', 'keywordLabel', 'unresolvedLabel')
    if shared:
        tags.append('same-name-in-several-scopes')
    return {'verdict': Verdict.OK, 'nontrivial': (actual is not None and shared) or scope_err or bool(case.get('probe')), 'tags': tags, 'detail': det[:300]}
