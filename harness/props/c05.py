"""C05 — memory zones confine and sequence the code assigned to them."""
import random

import proggen as P
from core import Verdict
from props import layout_base as LB

RULE = ('zone layouts (predefined, redefined GLOBAL with non-zero start, source-created via #create_memzone incl. duplicates / '
        'outside GLOBAL / inverted, overlapping and adjacent zones) x programs switching among them with .memzone, zone-relative '
        '.org (incl. explicit "GLOBAL", negative offsets), bare .org, fills ending exactly at / one past a zone end, interleaved '
        'stretches of the same zone; non-trivial = assembled or rejected for a zone reason, with >= 2 zones used; distinct by hash')
EXPLANATION = ('Theorems in Props/C05.lean: zone cursor invariant start <= cur <= end+1, every byte line inside its zone, '
               'zone-relative vs absolute .org, create/mk zone rejection conditions. Correspondence: accept/reject + image.')
ASSUMPTIONS = ['two predefined zones with the same name: the later one wins (mirrored, outside the property statement)']
to_impl, to_model = LB.to_impl, LB.to_model


def gen_case(rng, tier):
    cfg = P.gen_cfg(rng, bits=rng.choice([8, 10, 12, 16]))
    # make zone-rich configurations
    if not any(z[0] != 'GLOBAL' for z in cfg['preZones']):
        gs, ge = 0, (1 << cfg['bits']) - 1
        for z in cfg['preZones']:
            if z[0] == 'GLOBAL':
                gs, ge = z[1], z[2]
        for i in range(rng.randint(1, 2)):
            s = rng.randint(gs, max(gs, ge - 10))
            e = rng.randint(s, min(ge, s + 30))
            cfg['preZones'].append((f'PZ{i}', s, e))
    if rng.random() < 0.1:
        # a predefined zone that does not lie inside GLOBAL (or starts below 0): the definition must be rejected
        gs, ge = 0, (1 << cfg['bits']) - 1
        for z in cfg['preZones']:
            if z[0] == 'GLOBAL':
                gs, ge = z[1], z[2]
        if not any(z[0] == 'GLOBAL' for z in cfg['preZones']) and rng.random() < 0.6 and not cfg.get('origin'):
            ge = ge // 2 + rng.randint(0, 20)                  # GLOBAL narrower than the address width
            cfg['preZones'] = [z for z in cfg['preZones'] if z[2] <= ge] + [('GLOBAL', 0, ge)]
        bad = ('PZBAD',) + rng.choice([(gs - 3, gs + 2), (ge - 1, ge + 2), (ge + 1, ge + 4), (-5, 3), (gs - 2, gs - 1), (ge - 1, ge + 2)])
        # listed in front of, or behind, the GLOBAL entry
        cfg['preZones'].insert(rng.choice([0, len(cfg['preZones'])]), bad)
    front_gadget = False
    if rng.random() < 0.05 and not any(z[0] in ('GLOBAL', 'PZBAD') for z in cfg['preZones']) and not cfg.get('origin'):
        # a zone that hangs over the end of a narrowed GLOBAL (inside the address width), listed IN FRONT OF the GLOBAL entry
        ge = ((1 << cfg['bits']) - 1) // 2 + rng.randint(0, 20)
        cfg['preZones'] = [('PZBAD', ge - rng.randint(0, 3), ge + rng.randint(1, 4))] + \
            [z for z in cfg['preZones'] if z[2] <= ge] + [('GLOBAL', 0, ge)]
        front_gadget = True
    if rng.random() < 0.5 and not front_gadget:
        # the order of the entries of `predefined.memory_zones` carries no meaning (GLOBAL first, last or in between)
        zs = list(cfg['preZones'])
        rng.shuffle(zs)
        cfg['preZones'] = zs
    stmts = P.gen_program(rng, cfg, n_stmts=rng.randint(5, 16), allow_bad=0.03,
                          weights={'memzone': 4, 'org': 4, 'createZone': 2, 'fill': 3, 'data': 3, 'instr': 3, 'label': 1.5,
                                   'zerountil': 1, 'align': 0.7, 'const': 0.7, 'mute': 0.3, 'macro': 1})
    # sometimes a negative zone-relative origin / explicit "GLOBAL"
    if rng.random() < 0.25:
        zn = rng.choice([z[0] for z in cfg['preZones']] + ['GLOBAL'])
        off = rng.choice([-1, -4, 0, 2])
        e = ('bin', '-', ('num', 4), ('num', 4 - off)) if off < 0 else ('num', off)
        stmts.insert(rng.randint(0, len(stmts)), {'k': 'org', 'e': e, 'zone': zn})
    if rng.random() < 0.15:
        # a zone created in the source with a bound exactly at / one past an edge of GLOBAL (whatever GLOBAL is here)
        g = [z for z in cfg['preZones'] if z[0] == 'GLOBAL']
        g0, g1 = (g[0][1], g[0][2]) if g else (0, (1 << cfg['bits']) - 1)
        zs, ze = rng.choice([(g1 - 3, g1 + 1), (g1 + 1, g1 + 1), (g1, g1), (g1 - 3, g1), (g0, g0), (g0 - 1, g0 + 2), (g0, g1),
                             (g1 - 3, g1 + 1), (g1 + 1, g1 + 1)])
        if zs >= 0:
            at = rng.randint(0, len(stmts))
            stmts[at:at] = [{'k': 'createZone', 'name': 'EDGEZ', 's': zs, 'e': ze}] + \
                rng.choice([[], [{'k': 'memzone', 'z': 'EDGEZ'}, {'k': 'data', 'w': 1, 'vals': [('num', 0xE1)]}]])
    if rng.random() < 0.08:
        # a zone whose name differs from GLOBAL in letter case only: zone names are case sensitive, so this is an ordinary zone
        g = [z for z in cfg['preZones'] if z[0] == 'GLOBAL']
        g0, g1 = (g[0][1], g[0][2]) if g else (0, (1 << cfg['bits']) - 1)
        nm = rng.choice(['global', 'Global', 'gLOBAL'])
        zs = g0 + (g1 - g0) // 2 + rng.randint(0, 5)
        ze = min(g1, zs + rng.randint(8, 30))
        if rng.random() < 0.5:
            cfg['preZones'].append((nm, zs, ze))
            decl = []
        else:
            decl = [{'k': 'createZone', 'name': nm, 's': zs, 'e': ze}]
        use = rng.choice([[{'k': 'memzone', 'z': nm}], [{'k': 'org', 'e': ('num', rng.randint(0, 3)), 'zone': nm}]])
        at = rng.randint(0, len(stmts))
        stmts[at:at] = decl + use + [{'k': 'data', 'w': 1, 'vals': [('num', 0x61), ('num', 0x62)]}]
    if rng.random() < 0.25:
        stmts = P.add_dead_blocks(rng, cfg, stmts, n=rng.randint(1, 2))
    gs = min([z[1] for z in cfg['preZones'] if z[0] == 'GLOBAL'] or [0])
    return {'cfg': cfg, 'files': [stmts], 'start': gs, 'end': None, 'fill': 0, 'seed': rng.randrange(1 << 30)}


def generate(rng, tier):
    return [gen_case(rng, tier) for _ in range(500 if tier == 'quick' else 12000)]


def judge(case, ir, mr):
    tags = []
    mr, mt = LB.split(mr)
    bad, actual, det = LB.base_judge(case, ir, mr, tags, mt)
    if bad:
        return bad
    st = case['files'][0]
    zones_used = {s.get('zone') or 'GLOBAL' for s in st if s['k'] == 'org'} | {s['z'] for s in st if s['k'] == 'memzone'}
    if any(s['k'] == 'cond' for s in st):
        tags.append('conditional-blocks')
    zone_reason = mr.get('err') in ('zoneBounds', 'zoneDecl')
    if any(s['k'] == 'createZone' for s in st):
        tags.append('create_memzone')
    if any(s['k'] == 'org' and s.get('zone') for s in st):
        tags.append('zone-relative-org')
    return {'verdict': Verdict.OK, 'nontrivial': (actual is not None or zone_reason) and len(zones_used) >= 2, 'tags': tags,
            'detail': det[:300]}
