"""C09 — preprocessor symbols are substituted as whole words, in definition order."""
import random

import impl
import probes
from core import Verdict

RULE = ('symbol tables with chains, diamonds, cycles of length 1..4, names that are prefixes / suffixes / infixes of other '
        'identifiers on the same line, empty / numeric / multi-token replacements, all three definition sources (ISA '
        'predefined.symbols, -D, #define), uses before the definition (where the same name is an ordinary constant), duplicates; '
        'metamorphic oracle on the real code: program-with-symbols vs the program whose lines were expanded by the Lean model '
        '(impl = resolve, spec = expand) must give identical images / both be rejected; non-trivial = a line contains both a '
        'defined symbol and an identifier that contains its name, or a chain of length >= 2, or a cycle; distinct by hash')
EXPLANATION = ('Theorems in Props/C09.lean: resolve (the code\'s algorithm) = expand (whole-word full expansion), fixpoint, '
               'undefined words and non-word text untouched, cycles rejected iff reachable, duplicates rejected.')
ASSUMPTIONS = ['symbol names have >= 2 characters; replacement inside quoted strings is not generated']

ISA = {'description': 'c09', 'general': {'address_size': 16, 'endian': 'big', 'registers': ['rq']},
       'operand_sets': {'imm': {'operand_values': {'v': {'type': 'numeric', 'argument': {'size': 16, 'byte_align': True}}}}},
       'instructions': {'nop': {'bytecode': {'value': 0, 'size': 8}},
                        'ldw': {'bytecode': {'value': 1, 'size': 8}, 'operands': {'count': 1, 'operand_sets': {'list': ['imm']}}}}}
BASES = ['VAL', 'SIZE', 'AA', 'BB', 'CC', 'LIMIT', 'XY']


def gen_history(rng):
    """definition-order histories: a symbol whose replacement names symbols that are defined only later is used before and
    after those definitions (the expansion of a symbol is not a constant of the symbol: it depends on what is defined at
    the point of use), and later lines mention the late symbol before, after and without the early one"""
    names = rng.sample(BASES, rng.randint(2, 4))
    early, late = names[0], names[1:]
    kinds = {'history'}
    shadow = {n: rng.randint(0, 250) for n in late}          # usable as ordinary constants until they become symbols
    before = [f'{n} = {v}' for n, v in shadow.items()]
    body = []
    t = rng.choice([' + ', ' * ', ' - ']).join(rng.sample(late, rng.randint(1, len(late))) + ([str(rng.randint(1, 9))] if rng.random() < 0.5 else []))
    body.append(('define', early, t))

    def use():
        pool = [early] + late
        toks = [rng.choice(pool) for _ in range(rng.randint(1, 3))]
        if rng.random() < 0.6:
            a, b = rng.choice(late), early
            toks = rng.choice([[a, b], [b, a], [a, b, a], [b]])
        return rng.choice(['.byte ', '.2byte ']) + ', '.join(toks) if rng.random() < 0.7 else 'ldw ' + ' + '.join(toks)
    for n in late:
        for _ in range(rng.randint(0, 2)):
            body.append(('line', use()))
        body.append(('define', n, str(rng.randint(0, 99)) if rng.random() < 0.7 else rng.choice([x for x in late if x != n] or ['5'])))
        if rng.random() < 0.3:
            w = 'W' + n
            body.append(('define', w, f'{n} {rng.choice("+*")} {early}'))        # late symbol before the early one, inside a symbol
            body.append(('line', f'.2byte {w}'))
    for _ in range(rng.randint(1, 4)):
        body.append(('line', use()))
    return {'pre_isa': [], 'pre_cli': [], 'before': before, 'body': body, 'kinds': sorted(kinds)}


def gen_quoted(rng):
    """replacement texts that are quoted literals with backslash escapes: the text reaches the line verbatim (a backslash in
    it is not a regular-expression template escape, not a group reference)"""
    kinds = {'quoted-replacement'}
    texts = ['"C:\\\\tmp"', '"a\\tb"', '"x\\\\y\\\\z"', "'\\\\'", '"\\x41\\x42"', '"q\\\\1"', '"tab\\there"', '"plain"', '"\\\\g<0>"',
             '"nl\\n"',
             # runs of blanks and a raw TAB inside the literal are characters of the text like any other
             '"ID  NAME    QTY"', '"a   b"', '" lead"', '"two  sp"', '"t\tab  x"', "'  '"]
    names = rng.sample(['STR_A', 'STR_B', 'PATHX'], rng.randint(1, 2))
    body = []
    for n in names:
        body.append(('define', n, rng.choice(texts)))
    if len(names) == 2 and rng.random() < 0.4:
        body.append(('define', 'BOTH', f'{names[0]}'))
        names.append('BOTH')
    for _ in range(rng.randint(1, 3)):
        n = rng.choice(names)
        body.append(('line', rng.choice(['.cstr ', '.byte ', '.asciiz ']) + n))
    return {'pre_isa': [], 'pre_cli': [], 'before': [], 'body': body, 'kinds': sorted(kinds)}


def gen_many(rng):
    """size: many distinct symbols (11..24) used on ONE line, some of them several times; the names share prefixes
    (`K1` / `K10` / `K11`) - every occurrence is replaced as a whole word by its own symbol's text"""
    n = rng.randint(11, 24)
    names = [f'K{i}' for i in range(n)]
    order = list(names)
    rng.shuffle(order)
    body = [('define', nm, str(rng.randint(0, 255))) for nm in order]
    used = [rng.choice(names) for _ in range(rng.randint(0, 20))] + rng.sample(names, rng.randint(11, n))
    rng.shuffle(used)
    body.append(('line', '.byte ' + ', '.join(used)))
    body.append(('line', '.2byte ' + ' + '.join(rng.sample(names, rng.randint(11, n)))))
    return {'pre_isa': [], 'pre_cli': [], 'before': [], 'body': body, 'kinds': ['many-symbols-on-one-line']}


def gen_valueless(rng):
    """symbols WITHOUT a value (the optional value left out, written as null, or written as an empty text; `-D NAME`,
    `#define NAME`): every whole-word occurrence is replaced by nothing"""
    names = rng.sample(['PAD', 'NOTHING', 'EMPTYSYM'], rng.randint(1, 2))
    forms, pre_isa, pre_cli, body = {}, [], [], []
    for n in names:
        how = rng.choice(['isa-omit', 'isa-null', 'isa-empty', 'cli-bare', 'define'])
        forms[n] = how
        if how.startswith('isa'):
            pre_isa.append([n, ''])
        elif how == 'cli-bare':
            pre_cli.append([n, ''])
        else:
            body.append(('define', n, ''))
    for _ in range(rng.randint(1, 3)):
        n = rng.choice(names)
        body.append(('line', rng.choice([f'.byte {n} 9', f'.byte 1, {n} 2', f'ldw {n} 7', f'.2byte 5 {n}', f'.byte 3 {n}, 4'])))
    return {'pre_isa': pre_isa, 'pre_cli': pre_cli, 'before': [], 'body': body, 'kinds': ['symbol-without-value'], 'forms': forms}


def gen_numeric_value(rng):
    """ISA symbols whose replacement value is written as a number (YAML `value: 5`, JSON `"value": 5`), not as a text:
    the replacement text is that number's decimal text (D40)"""
    names = rng.sample(['NUMA', 'NUMB', 'NUMC'], rng.randint(1, 2))
    forms, pre_isa, body = {}, [], []
    for n in names:
        forms[n] = 'isa-int'
        pre_isa.append([n, str(rng.choice([0, 1, 5, 77, 255, -3, -1, 4096]))])
    for _ in range(rng.randint(1, 3)):
        n = rng.choice(names)
        body.append(('line', rng.choice([f'.2byte 300 + {n}', f'.2byte 100 {n} + 900' if pre_isa[names.index(n)][1].startswith('-')
                                         else f'.2byte {n}', f'ldw 7 + {n}', f'.2byte 5, {n} + 2'])))
    return {'pre_isa': pre_isa, 'pre_cli': [], 'before': [], 'body': body, 'kinds': ['symbol-with-numeric-value'], 'forms': forms}


def gen_case(rng, tier):
    if rng.random() < 0.05:
        return gen_many(rng)
    if rng.random() < 0.04:
        return gen_numeric_value(rng)
    if rng.random() < 0.06:
        return gen_valueless(rng)
    if rng.random() < 0.12:
        return gen_quoted(rng)
    if rng.random() < 0.3:
        return gen_history(rng)
    names = rng.sample(BASES, rng.randint(1, 5))
    # ordinary constants whose names contain symbol names (must stay untouched)
    consts = {}
    for n in names:
        for form in (f'MY{n}', f'{n}_X', f'P{n}Q', n.lower(), f'{n}2'):
            if rng.random() < 0.5:
                consts[form] = rng.randint(0, 250)
    shadow = {n: rng.randint(0, 250) for n in names if rng.random() < 0.3}   # same name usable as a constant before #define
    items = []
    pre_isa, pre_cli = [], []
    defined = []
    kinds = set()
    order = list(names)
    rng.shuffle(order)
    for n in order:
        r = rng.random()
        others = [x for x in names if x != n]
        if r < 0.35 or not others:
            text = str(rng.randint(0, 99))
        elif r < 0.6:
            text = rng.choice(others)
            kinds.add('chain')
        elif r < 0.75:
            text = f'{rng.choice(others)} + {rng.randint(1, 9)}'
            kinds.add('chain')
        elif r < 0.85:
            text = f'({rng.choice(others)} + {rng.choice(others)})'
            kinds.add('diamond')
        elif r < 0.92:
            text = rng.choice(list(consts) or ['7'])
        else:
            text = n if rng.random() < 0.5 else f'{n} + 1'      # self reference
            kinds.add('cycle')
        src = rng.choice(['define', 'define', 'define', 'isa', 'cli'])
        if n in shadow:
            src = 'define'
        if src == 'isa':
            pre_isa.append([n, text])
        elif src == 'cli' and ' ' not in text and '=' not in text:
            pre_cli.append([n, text])
        else:
            src = 'define'
        defined.append((n, text, src))
    lines_before = []
    for n, v in shadow.items():
        lines_before.append(f'{n} = {v}')
        lines_before.append(f'.byte {n}')
    body = []
    for k, v in consts.items():
        body.append(('line', f'{k} = {v}'))
    pending = [(n, t) for n, t, s in defined if s == 'define']
    for n, t in pending:
        if rng.random() < 0.5:
            body.append(('line', gen_use(rng, names, consts, kinds)))
        body.append(('define', n, t))
        if rng.random() < 0.15:
            body.append(('define', n, t if rng.random() < 0.5 else '3'))   # duplicate
            kinds.add('duplicate')
    for _ in range(rng.randint(1, 4)):
        body.append(('line', gen_use(rng, names, consts, kinds)))
    return {'pre_isa': pre_isa, 'pre_cli': pre_cli, 'before': lines_before, 'body': body, 'kinds': sorted(kinds)}


def gen_use(rng, names, consts, kinds):
    toks = []
    for _ in range(rng.randint(1, 3)):
        r = rng.random()
        if r < 0.55:
            toks.append(rng.choice(names))
        elif r < 0.85 and consts:
            toks.append(rng.choice(list(consts)))
            kinds.add('lookalike')
        else:
            toks.append(str(rng.randint(0, 200)))
    if rng.random() < 0.3:
        return 'ldw ' + ' + '.join(toks)
    return rng.choice(['.byte ', '.2byte ']) + rng.choice([', ', ',', ' , ']).join(toks)


def generate(rng, tier):
    return [gen_case(rng, tier) for _ in range(400 if tier == 'quick' else 8000)]


def asm_with_symbols(case):
    out = list(case['before'])
    for it in case['body']:
        out.append(it[1] if it[0] == 'line' else f'#define {it[1]} {it[2]}'.rstrip())
    return '\n'.join(out) + '\n'


def to_model(case):
    pre = case['pre_isa'] + case['pre_cli']
    items = [{'d': 'line', 'text': t} for t in case['before']]
    # the lines before any #define still see the ISA / CLI symbols
    for it in case['body']:
        items.append({'d': 'line', 'text': it[1]} if it[0] == 'line' else {'d': 'define', 'name': it[1], 'text': it[2]})
    return {'op': 'substprog', 'pre': pre, 'items': items}


def to_impl(case):
    isa = dict(ISA)
    forms = case.get('forms', {})
    if case['pre_isa']:
        def entry(n, t):
            how = forms.get(n)
            if how == 'isa-omit':
                return {'name': n}
            if how == 'isa-null':
                return {'name': n, 'value': None}
            if how == 'isa-int':
                return {'name': n, 'value': int(t)}
            return {'name': n, 'value': t}
        isa = dict(ISA, predefined={'symbols': [entry(n, t) for n, t in case['pre_isa']]})
    a = impl.compile_case(isa, {'main.asm': asm_with_symbols(case)},
                          defines=[n if forms.get(n) == 'cli-bare' else f'{n}={t}' for n, t in case['pre_cli']])
    # function-level probe: the real Preprocessor on the same definition / line sequence (text in, text out)
    m = to_model(case)
    b = probes.call('subst_program', m['pre'], m['items'])
    return [a, b]       # the expanded program is run in a second phase (needs the model's answer)


def judge(case, irs, mr):
    tags = ['kind=' + k for k in case['kinds']]
    ir = irs[0]
    det = f'pre_isa={case["pre_isa"]} pre_cli={case["pre_cli"]} asm={asm_with_symbols(case)!r}'[:1500]
    if ir['status'] == 'timeout':
        return {'verdict': Verdict.VIOLATION, 'detail': 'no termination; ' + det, 'tags': tags}
    if mr['impl'] != mr['spec']:
        return {'verdict': Verdict.CORR, 'tags': tags, 'detail': f'model: resolve {mr["impl"]} != expand {mr["spec"]}; ' + det}
    spec = mr['spec']
    # direct comparison of the substituted text, line by line
    pr = irs[1]
    if pr['status'] == 'ok' and isinstance(pr.get('ret'), dict) and 'lines' in pr['ret']:
        if 'err' in spec:
            return {'verdict': Verdict.VIOLATION, 'tags': tags,
                    'detail': f'spec rejects ({spec["err"]}) but Preprocessor.resolve_symbols returned {pr["ret"]["lines"]}; ' + det}
        if [x.strip() for x in pr['ret']['lines']] != [x.strip() for x in spec['lines']]:
            return {'verdict': Verdict.VIOLATION, 'tags': tags,
                    'detail': f'Preprocessor.resolve_symbols gives {pr["ret"]["lines"]}, whole-word full expansion is {spec["lines"]}; ' + det}
        tags.append('text-equal')
    elif 'err' not in spec:
        return {'verdict': Verdict.VIOLATION, 'tags': tags,
                'detail': f'Preprocessor rejects ({str(pr.get("ret") or pr.get("msg"))[:150]}) what the spec expands to {spec["lines"]}; ' + det}
    actual = impl.fbytes(ir, 'out.bin') if ir['status'] == 'ok' else None
    if 'err' in spec:
        tags.append('spec-rejects:' + spec['err'])
        if actual is not None:
            return {'verdict': Verdict.VIOLATION, 'tags': tags,
                    'detail': f'spec rejects ({spec["err"]}) but the real code assembled {actual.hex()}; ' + det}
        return {'verdict': Verdict.OK, 'nontrivial': True, 'tags': tags, 'detail': det[:300]}
    # second phase: assemble the expanded text (no symbols at all) with the real code
    expanded = '\n'.join(spec['lines']) + '\n'
    ir2 = impl.run_one(impl.compile_case(ISA, {'main.asm': expanded}), timeout=10)
    exp = impl.fbytes(ir2, 'out.bin') if ir2['status'] == 'ok' else None
    if (actual is None) != (exp is None) or actual != exp:
        return {'verdict': Verdict.VIOLATION, 'tags': tags,
                'detail': f'with symbols: {actual.hex() if actual is not None else ir.get("msg")!r}; expanded text {expanded!r}: '
                          f'{exp.hex() if exp is not None else ir2.get("msg")!r}; ' + det}
    tags.append('assembled' if actual is not None else 'both-rejected')
    return {'verdict': Verdict.OK, 'nontrivial': bool(case['kinds']) and actual is not None, 'tags': tags, 'detail': det[:300]}
