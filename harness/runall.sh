#!/bin/bash
# development helper: run every check (tier $1, default quick) 4 at a time; prints the summary line of each
tier=${1:-quick}
cd "$(dirname "$0")/.."
printf '%s\n' C01 C02 C03 C04 C05 C06 C07 C08 C09 C10 C11 C12 C13 C14 C15 C16 C17 C18 C19 C20 | \
  xargs -P 4 -I{} sh -c "/venv/bin/python harness/check.py {} --tier $tier 2>&1 | grep -E '^(VIOLATION|KNOWN-FINDING|INFRA|C[0-9][0-9] tier)' | cut -c1-260"
