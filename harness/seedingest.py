#!/usr/bin/env python
"""Development tool (not a registered check): take a sub-agent's delivery, validate it, run all quick checks on it.

  seedingest.py <delivery_dir> <name>      e.g. /tmp/seedC_C08/_delivery C08-C

Copies patch.diff / demo.py / meta.json to seeded/<name>/, validates (tests pass with the patch, demo fails with it and
passes without it, all in a scratch worktree of /repo HEAD), then runs the 20 quick checks against a scratch worktree
carrying the patch (VERIF_REPO=<worktree>; identical to `git -C /repo apply` + run + `git -C /repo checkout -- .`, but
leaves /repo alone so that several sweeps can run side by side) and records the outcome in meta.json and MATRIX.json.
"""
import concurrent.futures as cf
import json
import os
import shutil
import subprocess
import sys
import time

REPO = '/repo'
VERIF = os.path.dirname(os.path.dirname(os.path.abspath(__file__)))
PROPS = ['C%02d' % i for i in range(1, 21)]


def sh(cmd, **kw):
    return subprocess.run(cmd, shell=True, capture_output=True, text=True, **kw)


def validate(seed, wt):
    env = dict(os.environ, PYTHONPATH=wt + '/src')
    t = sh(f'cd {wt} && /venv/bin/python -m pytest -q -p no:cacheprovider 2>&1 | tail -1', env=env)
    tests_ok = ' passed' in t.stdout and 'failed' not in t.stdout and 'error' not in t.stdout
    demo = f'/venv/bin/python {seed}/demo.py {wt}'
    d1 = sh(demo, env=env, timeout=600, cwd='/tmp')
    sh(f'git -C {wt} apply -R {seed}/patch.diff')      # never `git stash`: the stash is shared between worktrees
    d0 = sh(demo, env=env, timeout=600, cwd='/tmp')
    sh(f'git -C {wt} apply {seed}/patch.diff')
    return {'ok': tests_ok and d1.returncode != 0 and d0.returncode == 0, 'tests': t.stdout.strip(),
            'demo_with_patch_exit': d1.returncode, 'demo_without_patch_exit': d0.returncode}


def one(p, wt, evdir, seedno):
    env = dict(os.environ, VERIF_EVIDENCE_DIR=evdir, VERIF_REPO=wt, VERIF_SEED=str(seedno))
    t0 = time.time()
    c = sh(f'cd {VERIF} && /venv/bin/python harness/check.py {p} --tier quick', timeout=3600, env=env)
    vio = [l for l in c.stdout.splitlines() if l.startswith('VIOLATION')]
    kind = rp = None
    if vio:
        rp = vio[0].split('replay=')[1].split()[0]
        try:
            kind = json.load(open(os.path.join(VERIF, rp)))['kind']
        except Exception:
            kind = '?'
    return p, {'exit': c.returncode, 'violation': vio[0] if vio else None, 'kind': kind, 'replay': rp,
               'wall_s': round(time.time() - t0, 1)}


def main():
    args = [a for a in sys.argv[1:] if not a.startswith('--')]
    src, name = args[0], args[1]
    only = [a[7:].split(',') for a in sys.argv[1:] if a.startswith('--only=')]
    props = only[0] if only else PROPS
    seedno = int(([a[7:] for a in sys.argv[1:] if a.startswith('--seed=')] or ['0'])[0])
    seed = os.path.join(VERIF, 'seeded', name)
    if os.path.abspath(src) != os.path.abspath(seed):
        os.makedirs(seed, exist_ok=True)
        for f in ('patch.diff', 'demo.py', 'meta.json'):
            shutil.copy(os.path.join(src, f), os.path.join(seed, f))
    wt = '/tmp/ingestwt_%d' % os.getpid()
    evdir = '/tmp/ingest_ev_%d' % os.getpid()
    os.makedirs(evdir, exist_ok=True)
    sh(f'git -C {REPO} worktree add -q --detach {wt} HEAD')
    try:
        r = sh(f'git -C {wt} apply {seed}/patch.diff')
        if r.returncode:
            print(json.dumps({'ok': False, 'why': 'patch does not apply: ' + r.stderr[:300]}))
            return 1
        val = validate(seed, wt)
        print(name, 'validate', json.dumps(val), flush=True)
        res = {}
        with cf.ThreadPoolExecutor(5) as ex:
            for p, o in ex.map(lambda p: one(p, wt, evdir, seedno), props):
                res[p] = o
        head = sh(f'git -C {REPO} rev-parse --short HEAD').stdout.strip()
        det = [p for p, o in res.items() if o['exit'] == 1]
        mp = os.path.join(seed, 'meta.json')
        meta = json.load(open(mp))
        meta.setdefault('mutation', name.split('-')[1])
        meta['tests_pass'] = 'passed' in val['tests']
        meta['demo_fails_with_patch'] = val['demo_with_patch_exit'] != 0
        meta['demo_passes_without_patch'] = val['demo_without_patch_exit'] == 0
        if not only:
            meta['verif_run'] = {
                'how': f'scratch worktree of /repo HEAD with seeded/{name}/patch.diff applied; VERIF_REPO=<worktree> '
                       f'VERIF_SEED={seedno} /venv/bin/python harness/check.py <Cnn> --tier quick for all 20 checks; worktree removed',
                'repo_head': head, 'detected_by': det, 'replay_kinds': {p: res[p]['kind'] for p in det},
                'own_property_check_detects': meta.get('property') in det}
            mpath = os.path.join(VERIF, 'seeded', 'MATRIX.json')
            import fcntl
            with open(mpath + '.lock', 'w') as lk:          # several ingests run side by side
                fcntl.flock(lk, fcntl.LOCK_EX)
                matrix = json.load(open(mpath)) if os.path.exists(mpath) else {}
                matrix[name] = {'repo_head': head, 'detected_by': det, 'kinds': {p: res[p]['kind'] for p in det},
                                'infra_errors': [p for p, o in res.items() if o['exit'] not in (0, 1)]}
                with open(mpath + '.tmp', 'w') as f:
                    json.dump(matrix, f, indent=1, sort_keys=True)
                os.replace(mpath + '.tmp', mpath)
        json.dump(meta, open(mp, 'w'), indent=1)
        print(name, 'detected_by', det, 'kinds', {p: res[p]['kind'] for p in det},
              'infra', [p for p, o in res.items() if o['exit'] not in (0, 1)], flush=True)
        for p in det:
            print('   ', res[p]['violation'])
    finally:
        sh(f'git -C {REPO} worktree remove --force {wt}')
        sh(f'rm -rf {evdir}')
    return 0


if __name__ == '__main__':
    sys.exit(main())
