"""Function-level probes of the real code (run in the forked child through impl's 'call' request).

The CLI-level correspondence sees the code only through whole assemblies; these probes call the pure(ish) functions the
Lean model mirrors one-to-one, on inputs the CLI channel cannot isolate (arbitrary field lists, arbitrary text).  Each
returns plain JSON.  An exception / sys.exit ends up in the result's status as for any other case.
"""


def packed_bits(fields):
    """fields: [[value, size, align, little], ...] -> bytes of PackedBits after appending them in order"""
    from bespokeasm.assembler.bytecode.packed_bits import PackedBits
    pb = PackedBits()
    for v, n, al, little in fields:
        pb.append_bits(v, n, bool(al), 'little' if little else 'big')
    return {'bytes': list(pb.get_bytes())}


def eval_expr(text, env):
    """text -> value of parse_expression(text) in a global scope holding env (list of [name, value])"""
    from bespokeasm.assembler.label_scope import GlobalLabelScope, LabelScope, LabelScopeType
    from bespokeasm.assembler.line_identifier import LineIdentifier
    from bespokeasm.expression import parse_expression
    lid = LineIdentifier(1, 'probe')
    scope = LabelScope(LabelScopeType.LOCAL, LabelScope(LabelScopeType.FILE, GlobalLabelScope(set(['rq'])), 'probe'), 'region')
    for k, v in env:
        scope.set_label_value(k, v, lid)
    node = parse_expression(lid, text)
    return {'value': node.get_value(scope, lid)}


def subst_program(pre, items):
    """pre: [[name, text]] predefined symbols; items: {'d': 'define', name, text} | {'d': 'line', text}
    -> the lines after Preprocessor.resolve_symbols, each with the symbol table as of that line"""
    from bespokeasm.assembler.line_identifier import LineIdentifier
    from bespokeasm.assembler.preprocessor import Preprocessor
    p = Preprocessor([{'name': n, 'value': t} for n, t in pre])
    out = []
    for i, it in enumerate(items):
        lid = LineIdentifier(i + 1, 'probe')
        if it['d'] == 'define':
            try:
                p.create_symbol(it['name'], it['text'], lid)
            except ValueError:
                return {'err': 'redefine', 'at': i}
        else:
            out.append(p.resolve_symbols(lid, it['text']))
    return {'lines': out}


def split_commas(text):
    from bespokeasm.utilities import split_on_commas
    return {'items': split_on_commas(text)}


def listing_chunks(bs, k):
    """the strings the listing printer spreads the bytes of one statement over"""
    from bespokeasm.assembler.pretty_printer.listing import ListingPrettyPrinter
    return {'rows': ListingPrettyPrinter._generate_bytecode_line_string(bytearray(bs), k)}


def version_cmp(a, b):
    """the comparison the ISA min_version gate relies on"""
    from packaging import version
    x, y = version.parse(a), version.parse(b)
    return {'cmp': -1 if x < y else (1 if x > y else 0)}


def call(func, *args):
    """request for impl.run_one / run_many"""
    return {'files': {}, 'argv': [], 'collect': [], 'call': {'module': 'probes', 'func': func, 'args': list(args)}}
