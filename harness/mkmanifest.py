#!/usr/bin/env python
"""Regenerates MANIFEST.json from the table below (keeps it valid at all times)."""
import json
import os

VERIF = os.path.dirname(os.path.dirname(os.path.abspath(__file__)))
PY = '/venv/bin/python'

# property id -> (category, technique, text, note)
CLAIMED = {}

PENDING_REASON = 'check not built yet in this round (model/theorems/correspondence still under construction); will be claimed once its theorems are proved and its correspondence passes'


def claim(pid, technique, text, note, category='proof', design='7'):
    CLAIMED[pid] = dict(category=category, technique=technique, text=text, note=note, design=design)


exec(open(os.path.join(VERIF, 'harness', 'claims.py')).read())


def main():
    props = [json.loads(l)['id'] for l in open(os.path.join(VERIF, 'properties.jsonl'))]
    checks = []
    for pid in props:
        if pid not in CLAIMED:
            continue
        c = CLAIMED[pid]
        checks.append({
            'property_id': pid,
            'quick_cmd': f'{PY} harness/check.py {pid} --tier quick',
            'thorough_cmd': f'{PY} harness/check.py {pid} --tier thorough',
            'evidence_file': f'evidence/{pid}.json',
            'replay_cmd_template': f'{PY} harness/check.py --replay {{path}}',
            'engine': 'lean4-model+correspondence',
            'level_claimed': {'category': c['category'], 'text': c['text'], 'design_ref': f'DESIGN.md section {c["design"]} ({pid})'},
            'level_note': c['note'],
            'technique': c['technique'],
        })
    m = {
        'version': 1,
        'setup_cmd': 'cd lean && lake build BespokeVerif bvdriver',
        'hooks': {
            'guard': 'MICHAELKAMPRATH_BESPOKEASM_VERIF',
            'enable': 'no hooks are needed: the checks drive the public CLI (bespokeasm.__main__.main) of /repo/src in-process; the guard variable is set by the harness but nothing in /repo reads it',
            'baseline_off_cmd': 'cd /repo && /venv/bin/python -m pytest -ra -q -p no:cacheprovider --timeout=900 --continue-on-collection-errors',
            'source_commits': [],
            'add_only': True,
        },
        'engines': [{
            'name': 'lean4-model+correspondence', 'path': 'lean/ + harness/',
            'serves_properties': sorted(CLAIMED),
            'kind_free_text': 'hand-written Lean 4 model with kernel-checked theorems (lean/BespokeVerif/Props), tied to /repo on every run by a differential correspondence harness that runs the real CLI and the compiled model driver (bvdriver) on the same generated cases',
        }],
        'checks': checks,
        'not_applicable': [{'property_id': p, 'reason': PENDING_REASON} for p in props if p not in CLAIMED],
        'notes': 'See DESIGN.md. known_findings.txt lists genuine defects (fixed: entries name the fix: commit in /repo). Exit 0 = held, 1 = VIOLATION line, 2 = infrastructure.',
    }
    with open(os.path.join(VERIF, 'MANIFEST.json'), 'w') as f:
        json.dump(m, f, indent=1)
    print('claimed:', sorted(CLAIMED))


if __name__ == '__main__':
    main()
