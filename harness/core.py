"""Common machinery of all property checks: build + audit of the Lean side, corpus, generation,
running the real code and the model, verdicts, shrinking, replay files, evidence."""
import hashlib
import importlib
import json
import os
import random
import sys
import time
import traceback

HERE = os.path.dirname(os.path.abspath(__file__))
VERIF = os.path.dirname(HERE)
sys.path.insert(0, HERE)

import impl  # noqa: E402
import leanio  # noqa: E402

TRUSTED_BASE = [
    'Lean 4.33.0 kernel (lake build of BespokeVerif.Props.*); axioms allowed: propext, Classical.choice, Quot.sound (audited by #print axioms on every run)',
    'Lean compiler/runtime executing the model definitions inside bvdriver',
    'the hand-written model (lean/BespokeVerif/Model) is tied to /repo only by this differential correspondence run',
    'harness: generators, struct->text renderers, JSON encoding of cases, stderr->error-kind table',
    'modelled not verified: Python re/int.to_bytes/str methods, PyYAML, click option parsing, packaging.version, intelhex, OS file system',
]


def known_findings():
    """returns (findings: dict prop -> list of dict(class, text), fixed: list)"""
    path = os.path.join(VERIF, 'known_findings.txt')
    findings, fixed = {}, []
    if not os.path.exists(path):
        return findings, fixed
    with open(path) as f:
        for line in f:
            line = line.strip()
            if not line or line.startswith('#'):
                continue
            if line.startswith('finding:'):
                rest = line[len('finding:'):].strip()
                kv = {}
                toks = rest.split(None, 2)
                for t in toks[:2]:
                    if '=' in t:
                        k, v = t.split('=', 1)
                        kv[k] = v
                kv['text'] = toks[2] if len(toks) > 2 else ''
                findings.setdefault(kv.get('property'), []).append(kv)
            elif line.startswith('fixed:'):
                fixed.append(line)
    return findings, fixed


def case_key(case):
    return hashlib.sha1(json.dumps(case, sort_keys=True, default=str).encode()).hexdigest()


class Verdict:
    OK = 'ok'                # actual == model impl == spec
    KNOWN = 'known'          # actual == model impl != spec, class listed
    VIOLATION = 'violation'  # actual contradicts the spec: this input is the failing input
    CORR = 'corr'            # actual != model impl, spec not (shown to be) contradicted
    SKIP = 'skip'            # case unusable (harness could not run it)


def load_prop(pid):
    return importlib.import_module('props.' + pid.lower())


def evaluate(mod, cases, tier, timeout=None):
    """run impl + model on all cases, return list of judge dicts"""
    timeout = timeout or (5.0 if tier == 'quick' else 20.0)
    impl_cases, impl_idx = [], []
    model_reqs, model_idx = [], []
    for i, c in enumerate(cases):
        ic = mod.to_impl(c)
        ics = ic if isinstance(ic, list) else [ic]
        impl_idx.append((len(impl_cases), len(ics), isinstance(ic, list)))
        impl_cases.extend(ics)
        mr = mod.to_model(c)
        mrs = mr if isinstance(mr, list) else [mr]
        model_idx.append((len(model_reqs), len(mrs), isinstance(mr, list)))
        model_reqs.extend(mrs)
    impl_res = impl.run_many(impl_cases, timeout=timeout)
    model_res = leanio.run_driver(model_reqs)
    out = []
    for i, c in enumerate(cases):
        a, n, islist = impl_idx[i]
        ir = impl_res[a:a + n] if islist else impl_res[a]
        a, n, islist = model_idx[i]
        mr = model_res[a:a + n] if islist else model_res[a]
        bad = [r for r in (ir if isinstance(ir, list) else [ir]) if r.get('status') == 'harness-error']
        fatal = [r for r in (mr if isinstance(mr, list) else [mr]) if 'fatal' in r]
        if bad or fatal:
            out.append({'verdict': Verdict.SKIP, 'detail': 'harness: ' + str((bad or fatal)[0])[:300]})
            continue
        try:
            j = mod.judge(c, ir, mr)
        except Exception:
            j = {'verdict': Verdict.SKIP, 'detail': 'judge exception: ' + traceback.format_exc()[-600:]}
        out.append(j)
    return out


def shrink(mod, case, is_bad, tier, budget_s=60):
    """greedy structural shrinking using mod.shrink_candidates(case) if present"""
    if not hasattr(mod, 'shrink_candidates'):
        return case
    t0 = time.time()
    cur = case
    improved = True
    while improved and time.time() - t0 < budget_s:
        improved = False
        cands = list(mod.shrink_candidates(cur))[:200]
        if not cands:
            break
        js = evaluate(mod, cands, tier)
        for c, j in zip(cands, js):
            if is_bad(j):
                cur = c
                improved = True
                break
    return cur


def write_replay(pid, case, judge, kind, extra=None):
    d = os.path.join(VERIF, 'replays')
    os.makedirs(d, exist_ok=True)
    path = os.path.join(d, f'{pid}_{case_key(case)[:12]}.json')
    with open(path, 'w') as f:
        json.dump({'property': pid, 'kind': kind, 'case': case, 'judge': judge, 'extra': extra or {}}, f, indent=1,
                  default=str)
    return os.path.relpath(path, VERIF)


def lean_gate(pid, props_module=None, extra_modules=(), tier='quick'):
    """build Props/<pid> and the driver, audit axioms, scan sources.
    returns dict(ok, obligations, discharged, broken: [names], log)"""
    module = props_module or f'BespokeVerif.Props.{pid}'
    t0 = time.time()
    res = {'ok': True, 'broken': [], 'notes': []}
    ok, log = leanio.lake_build([module, 'bvdriver'] + list(extra_modules))
    if not ok:
        res['ok'] = False
        import re
        errs = re.findall(r'error: ([^\n]*)', log)
        res['broken'].append('lake build failed: ' + '; '.join(errs[:5])[:500])
    prop_file = os.path.join(leanio.LEAN_DIR, *module.split('.')) + '.lean'
    names = leanio.theorem_names(prop_file) if os.path.exists(prop_file) else []
    res['obligations'] = len(names)
    res['theorems'] = names
    discharged = 0
    if ok and names:
        audit, out = leanio.axiom_audit(module, names)
        for n in names:
            ax = audit.get(n)
            if ax is None:
                res['ok'] = False
                res['broken'].append(f'theorem {n} not found in compiled environment')
            elif not set(ax) <= leanio.ALLOWED_AXIOMS:
                res['ok'] = False
                res['broken'].append(f'theorem {n} depends on non-allowed axioms {sorted(set(ax) - leanio.ALLOWED_AXIOMS)}')
            else:
                discharged += 1
        res['axioms'] = {n: audit.get(n) for n in names}
    res['discharged'] = discharged
    hits = leanio.source_scan(leanio.lean_sources([module] + list(extra_modules)))
    if hits:
        res['ok'] = False
        res['broken'].append('forbidden construct in Lean sources: ' + str(hits[:3]))
    if not names:
        res['ok'] = False
        res['broken'].append('no property theorems found for ' + module)
    if tier == 'thorough' and ok:
        mods = leanio.import_closure(module)
        cok, clog = leanio.leanchecker(mods)
        res['leanchecker'] = {'modules': mods, 'ok': cok}
        if cok is False:
            res['ok'] = False
            res['broken'].append('leanchecker rejects the compiled modules: ' + clog[-400:])
        elif cok is None:
            res['notes'].append('leanchecker timed out (not counted)')
    res['wall'] = time.time() - t0
    return res


def run_check(pid, tier, seed, replay=None):
    t0 = time.time()
    mod = load_prop(pid)
    findings, _ = known_findings()
    listed = {f['class'] for f in findings.get(pid, []) if 'class' in f}
    gate = lean_gate(pid, getattr(mod, 'PROPS_MODULE', None), getattr(mod, 'EXTRA_MODULES', ()), tier)
    if not os.path.exists(leanio.DRIVER):
        print(f'INFRASTRUCTURE: model driver could not be built: {gate["broken"]}')
        return 2

    rng = random.Random(seed * 1000003 + int(pid[1:]))
    corpus = []
    cdir = os.path.join(VERIF, 'corpus', pid)
    if os.path.isdir(cdir):
        for n in sorted(os.listdir(cdir)):
            if n.endswith('.json'):
                with open(os.path.join(cdir, n)) as f:
                    corpus.append(json.load(f)['case'])
    if replay:
        with open(replay) as f:
            rp = json.load(f)
        cases = [rp['case']]
        corpus = []
    else:
        cases = corpus + mod.generate(rng, tier)

    os.environ['VERIF_TIER_EFFECTIVE'] = tier
    judges = evaluate(mod, cases, tier)
    counts = {}
    tags = {}
    nontrivial = set()
    known_seen = {}
    violations, corrs, skips = [], [], []
    for c, j in zip(cases, judges):
        v = j['verdict']
        counts[v] = counts.get(v, 0) + 1
        for t in j.get('tags', []):
            tags[t] = tags.get(t, 0) + 1
        if j.get('nontrivial') and v in (Verdict.OK, Verdict.KNOWN):
            nontrivial.add(case_key(c))
        if v == Verdict.KNOWN:
            cls = j.get('class', '?')
            if cls in listed:
                known_seen.setdefault(cls, j.get('detail', ''))
            else:
                violations.append((c, j))
        elif v == Verdict.VIOLATION:
            violations.append((c, j))
        elif v == Verdict.CORR:
            corrs.append((c, j))
        elif v == Verdict.SKIP:
            skips.append((c, j))

    extra_info = {}
    if hasattr(mod, 'static_checks') and not replay:
        # property-specific non-differential checks (e.g. static scans); returns list of (case, judge)
        for c, j in mod.static_checks(tier):
            if j['verdict'] == Verdict.VIOLATION:
                violations.append((c, j))
            elif j['verdict'] == Verdict.CORR:
                corrs.append((c, j))
            extra_info.setdefault('static', []).append(j.get('detail', ''))

    lines = []
    exit_code = 0
    for cls, det in known_seen.items():
        lines.append(f'KNOWN-FINDING: property={pid} class={cls} {det}'[:400])
    n_viol = 0
    if violations:
        c, j = violations[0]
        small = shrink(mod, c, lambda jj: jj['verdict'] in (Verdict.VIOLATION,) or
                       (jj['verdict'] == Verdict.KNOWN and jj.get('class') not in listed), tier)
        js = evaluate(mod, [small], tier)[0]
        path = write_replay(pid, small, js, 'failing-input', {'original': c, 'n_violations': len(violations)})
        lines.append(f'VIOLATION property={pid} replay={path}')
        n_viol = len(violations)
        exit_code = 1
    elif corrs:
        c, j = corrs[0]
        small = shrink(mod, c, lambda jj: jj['verdict'] == Verdict.CORR, tier)
        js = evaluate(mod, [small], tier)[0]
        path = write_replay(pid, small, js, 'correspondence-broken',
                            {'note': 'model and implementation disagree on this input; no input contradicting the '
                                     'property statement itself was found', 'n': len(corrs)})
        lines.append(f'VIOLATION property={pid} replay={path} no-failing-input-found')
        n_viol = len(corrs)
        exit_code = 1
    elif not gate['ok']:
        path = write_replay(pid, {'proof_obligation': gate['broken']}, {'verdict': 'proof-broken'}, 'proof-broken',
                            {'theorems': gate.get('theorems')})
        lines.append(f'VIOLATION property={pid} replay={path} no-failing-input-found')
        n_viol = 1
        exit_code = 1
    n_eval = len(cases)
    if skips and len(skips) > max(3, n_eval // 10) and exit_code == 0:
        print(f'INFRASTRUCTURE: {len(skips)} of {n_eval} cases could not be evaluated: {skips[0][1].get("detail")}')
        exit_code = 2

    wall = time.time() - t0
    samples = []
    for c, j in list(zip(cases, judges))[:: max(1, len(cases) // 3)][:3]:
        samples.append({'case': c, 'verdict': j['verdict'], 'detail': j.get('detail', '')[:200]})
    level = getattr(mod, 'LEVEL', 'proof')
    ev = {
        'property_id': pid, 'tier': tier, 'seed': seed, 'level': level,
        'coverage': {
            'obligations': gate.get('obligations', 0), 'discharged': gate.get('discharged', 0),
            'checker_cmd': f'cd lean && lake build {getattr(mod, "PROPS_MODULE", None) or "BespokeVerif.Props." + pid} && lake env lean <#print axioms of every theorem in the Props file>',
            'trusted_base': TRUSTED_BASE + list(getattr(mod, 'TRUSTED_EXTRA', [])),
            'theorems': gate.get('theorems', []),
            'axioms': gate.get('axioms', {}),
            'proof_gate_ok': gate['ok'], 'proof_gate_broken': gate['broken'], 'leanchecker': gate.get('leanchecker'),
            'programs': n_eval, 'evaluations': n_eval,
            'disagreements_checked': len(corrs) + len(violations),
            'distinct_nontrivial': len(nontrivial),
            'rule': getattr(mod, 'RULE', ''),
            'corpus_cases': len(corpus),
            'verdict_counts': counts, 'input_distribution': tags,
            'known_finding_classes_seen': sorted(known_seen),
            'skipped': len(skips),
            'samples': samples,
            'explanation': getattr(mod, 'EXPLANATION', ''),
            **extra_info,
        },
        'assumptions': list(getattr(mod, 'ASSUMPTIONS', [])),
        'wall_s': round(wall, 2),
        'violations': n_viol,
    }
    if not replay:
        evdir = os.environ.get('VERIF_EVIDENCE_DIR') or os.path.join(VERIF, 'evidence')   # dev sweeps redirect it
        os.makedirs(evdir, exist_ok=True)
        with open(os.path.join(evdir, f'{pid}.json'), 'w') as f:
            json.dump(ev, f, indent=1, default=str)
    for ln in lines:
        print(ln)
    print(f'{pid} tier={tier} seed={seed} cases={n_eval} verdicts={counts} nontrivial={len(nontrivial)} '
          f'theorems={gate.get("discharged")}/{gate.get("obligations")} wall={wall:.1f}s exit={exit_code}')
    if gate['broken']:
        print('proof gate:', gate['broken'])
    return exit_code
