"""Structured generators shared by several properties: ISA definitions, operands, values, literals."""
import random

REG_POOL = ['a', 'b', 'x', 'y', 'sp', 'hl', 'ix', 'r0', 'r1', 'acc']
ENUM_KEYS = ['zero', 'one', 'carry', 'neg', 'never', 'always', 'odd', 'even']


def fits_range(n):
    return (-(1 << (n - 1)), (1 << n) - 1)


def boundary_value(rng: random.Random, n, allow_neg=True, lo=None, hi=None):
    """a value that fits n bits (signed-or-unsigned), biased to boundaries"""
    mn, mx = fits_range(n)
    if not allow_neg:
        mn = 0
    if lo is not None:
        mn = max(mn, lo)
    if hi is not None:
        mx = min(mx, hi)
    if mn > mx:
        return mn
    cands = [mn, mx, 0, 1, -1, mx - 1, mn + 1, (1 << (n - 1)) - 1, (1 << (n - 1))]
    cands = [c for c in cands if mn <= c <= mx]
    if rng.random() < 0.5 and cands:
        return rng.choice(cands)
    return rng.randint(mn, mx)


def lit(rng: random.Random, v: int, simple=False) -> str:
    """render an integer literal in one of the supported notations"""
    a = abs(v)
    k = 0 if simple else rng.randrange(5)
    if k == 0 or k == 4:
        s = str(a)
    elif k == 1:
        s = '$%x' % a
    elif k == 2:
        s = '0x%X' % a
    else:
        s = '%' + bin(a)[2:]
    return ('-' + s) if v < 0 else s


def rcase(rng, s):
    r = rng.random()
    if r < 0.6:
        return s
    if r < 0.8:
        return s.upper()
    return ''.join(c.upper() if rng.random() < 0.5 else c for c in s)


def gen_size(rng):
    r = rng.random()
    if r < 0.35:
        return rng.choice([8, 16, 24, 32])
    if r < 0.8:
        return rng.randint(1, 16)
    if r < 0.95:
        return rng.randint(17, 40)
    return rng.randint(41, 64)


def gen_code_cfg(rng, size=None, with_pos=True):
    n = size or rng.choice([1, 2, 3, 4, 5, 8, 8, 7, 12])
    cfg = {'value': rng.randint(0, (1 << n) - 1), 'size': n}
    if with_pos and rng.random() < 0.5:
        cfg['position'] = rng.choice(['prefix', 'suffix'])
    return cfg


def gen_arg_cfg(rng, default_endian, size=None):
    n = size or gen_size(rng)
    cfg = {'size': n, 'byte_align': rng.random() < 0.5}
    if rng.random() < 0.5:
        cfg['endian'] = rng.choice(['big', 'little'])
    return cfg


def arg_little(cfg, default_endian):
    return cfg.get('endian', default_endian) == 'little'


def code_src(cfg, v=None):
    d = {'v': cfg['value'] if v is None else v, 'n': cfg['size'], 'pos': cfg.get('position', 'suffix')}
    return d


class Ctx:
    """what an operand instance needs to know about the surroundings"""
    def __init__(self, addr_bits, default_endian, regs, gstart=0, gend=None):
        self.addr_bits = addr_bits
        self.default_endian = default_endian
        self.regs = regs
        self.gstart = gstart
        self.gend = (1 << addr_bits) - 1 if gend is None else gend


OPERAND_KINDS = ['numeric', 'register', 'numeric_bytecode', 'address', 'relative_address', 'indirect_numeric',
                 'deferred_numeric', 'enumeration', 'numeric_enumeration', 'indirect_register', 'indexed_register',
                 'indirect_indexed_register']


def gen_operand(rng: random.Random, ctx: Ctx, kind=None, opid='op'):
    """returns (config dict for the ISA, instance fn).  instance(rng, **kw) returns
       dict(text=..., code=<model field or None>, arg=<model field or None>)"""
    kind = kind or rng.choice(OPERAND_KINDS)
    de = ctx.default_endian
    cfg = {'type': kind}
    if kind in ('numeric', 'indirect_numeric', 'deferred_numeric'):
        if rng.random() < 0.6:
            cfg['bytecode'] = gen_code_cfg(rng)
        cfg['argument'] = gen_arg_cfg(rng, de)
        va = rng.random() < 0.2 and kind == 'numeric'
        if va:
            cfg['argument']['valid_address'] = True

        def inst(rng, value=None):
            n = cfg['argument']['size']
            if va:
                v = boundary_value(rng, n, allow_neg=False, lo=ctx.gstart, hi=ctx.gend) if value is None else value
                src = {'k': 'zone', 'v': v, 'zs': ctx.gstart, 'ze': ctx.gend}
            else:
                v = boundary_value(rng, n) if value is None else value
                src = {'k': 'plain', 'v': v}
            t = lit(rng, v)
            if kind == 'indirect_numeric':
                t = '[' + rng.choice(['', ' ']) + t + rng.choice(['', ' ']) + ']'
            elif kind == 'deferred_numeric':
                t = '[[' + t + ']]'
            arg = {'src': src, 'n': n, 'align': cfg['argument']['byte_align'],
                   'little': arg_little(cfg['argument'], de)}
            code = code_src(cfg['bytecode']) if 'bytecode' in cfg else None
            return {'text': t, 'code': code, 'arg': arg, 'value': v}
        return cfg, inst
    if kind == 'register':
        cfg['register'] = rng.choice(ctx.regs)
        if rng.random() < 0.85:
            cfg['bytecode'] = gen_code_cfg(rng)

        def inst(rng, value=None):
            code = code_src(cfg['bytecode']) if 'bytecode' in cfg else None
            return {'text': rcase(rng, cfg['register']), 'code': code, 'arg': None, 'value': None}
        return cfg, inst
    if kind == 'indirect_register':
        cfg['register'] = rng.choice(ctx.regs)
        if rng.random() < 0.7:
            cfg['bytecode'] = gen_code_cfg(rng)
        has_off = rng.random() < 0.6
        if has_off:
            cfg['offset'] = gen_arg_cfg(rng, de)

        def inst(rng, value=None):
            code = code_src(cfg['bytecode']) if 'bytecode' in cfg else None
            r = rcase(rng, cfg['register'])
            if not has_off:
                return {'text': '[' + r + ']', 'code': code, 'arg': None, 'value': None}
            n = cfg['offset']['size']
            if rng.random() < 0.25 and value is None:
                v = 0
                t = '[ ' + r + ' ]'
            else:
                v = boundary_value(rng, n) if value is None else value
                t = '[' + r + (' + ' if v >= 0 else ' - ') + lit(rng, abs(v)) + ']'
                if rng.random() < 0.35:
                    # an offset of several terms: everything behind the register is ONE expression, `[sp - 6 + 2]` is sp-4
                    b = rng.randint(1, 9)
                    forms = [(' - ', ' + ', b - v), (' - ', ' - ', -v - b), (' + ', ' - ', v + b), (' + ', ' + ', v - b)]
                    ok = [f for f in forms if f[2] >= 0]
                    s1, s2, a = rng.choice(ok)
                    t = '[' + r + s1 + lit(rng, a) + s2 + lit(rng, b) + ']'
            arg = {'src': {'k': 'plain', 'v': v}, 'n': n, 'align': cfg['offset']['byte_align'],
                   'little': arg_little(cfg['offset'], de)}
            return {'text': t, 'code': code, 'arg': arg, 'value': v}
        return cfg, inst
    if kind in ('indexed_register', 'indirect_indexed_register'):
        # register code followed by the index operand's code (composite code, big-endian, unaligned); one index alternative
        cfg['register'] = rng.choice(ctx.regs)
        cfg['bytecode'] = gen_code_cfg(rng)
        n2 = rng.choice([1, 2, 3, 4, 5, 8])
        ik = rng.choice(['numeric_bytecode', 'numeric_bytecode', 'register', 'numeric'])
        if ik == 'numeric_bytecode':
            lo = rng.randint(-(1 << (n2 - 1)), (1 << n2) - 1)
            hi = rng.randint(lo, (1 << n2) - 1)
            icfg = {'type': 'numeric_bytecode', 'bytecode': {'size': n2, 'min': lo, 'max': hi}}
        elif ik == 'register':
            others = [r for r in ctx.regs if r != cfg['register']] or ctx.regs
            icfg = {'type': 'register', 'register': rng.choice(others), 'bytecode': gen_code_cfg(rng, size=n2, with_pos=False)}
        else:
            icfg = {'type': 'numeric', 'bytecode': gen_code_cfg(rng, size=n2, with_pos=False), 'argument': gen_arg_cfg(rng, de)}
        cfg['index_operands'] = {opid + '_ix': icfg}

        def inst(rng, value=None):
            n1 = cfg['bytecode']['size']
            arg = None
            if ik == 'numeric_bytecode':
                v = rng.choice([lo, hi, rng.randint(lo, hi)])
                # the index text admits no operators: a negative index is written through a constant
                iv, it = v % (1 << n2), lit(rng, v) if v >= 0 else f'kix_{opid}'
                pre = None if v >= 0 else f'kix_{opid} = 0 - {-v}'
            elif ik == 'register':
                iv, it, pre = icfg['bytecode']['value'], icfg['register'], None
            else:
                pre = None
                n = icfg['argument']['size']
                v = boundary_value(rng, n, allow_neg=False)
                iv, it = icfg['bytecode']['value'], lit(rng, v)
                arg = {'src': {'k': 'plain', 'v': v}, 'n': n, 'align': icfg['argument']['byte_align'],
                       'little': arg_little(icfg['argument'], de)}
            code = {'v': (cfg['bytecode']['value'] << n2) | iv, 'n': n1 + n2, 'pos': cfg['bytecode'].get('position', 'suffix')}
            t = cfg['register'] + rng.choice([' + ', '+', ' +']) + it
            if kind == 'indirect_indexed_register':
                t = '[' + t + ']'
            return {'text': t, 'code': code, 'arg': arg, 'value': None, 'pre': pre}
        return cfg, inst
    if kind == 'numeric_bytecode':
        n = rng.choice([1, 2, 3, 4, 5, 8])
        lo = rng.randint(0, (1 << n) - 1)
        hi = rng.randint(lo, (1 << n) - 1)
        cfg['bytecode'] = {'size': n, 'min': lo, 'max': hi}
        if rng.random() < 0.5:
            cfg['bytecode']['position'] = rng.choice(['prefix', 'suffix'])

        def inst(rng, value=None):
            v = rng.choice([lo, hi, rng.randint(lo, hi)]) if value is None else value
            code = {'src': {'k': 'ranged', 'v': v, 'min': lo, 'max': hi}, 'n': n,
                    'pos': cfg['bytecode'].get('position', 'suffix')}
            return {'text': lit(rng, v), 'code': code, 'arg': None, 'value': v}
        return cfg, inst
    if kind == 'address':
        if rng.random() < 0.5:
            cfg['bytecode'] = gen_code_cfg(rng)
        n = rng.randint(max(1, ctx.addr_bits - 2), ctx.addr_bits + 8) if rng.random() < 0.7 else gen_size(rng)
        cfg['argument'] = gen_arg_cfg(rng, de, size=n)

        def inst(rng, value=None):
            v = boundary_value(rng, n, allow_neg=False, lo=ctx.gstart, hi=ctx.gend) if value is None else value
            arg = {'src': {'k': 'zone', 'v': v, 'zs': ctx.gstart, 'ze': ctx.gend}, 'n': n,
                   'align': cfg['argument']['byte_align'], 'little': arg_little(cfg['argument'], de)}
            code = code_src(cfg['bytecode']) if 'bytecode' in cfg else None
            return {'text': lit(rng, v), 'code': code, 'arg': arg, 'value': v}
        return cfg, inst
    if kind == 'relative_address':
        if rng.random() < 0.5:
            cfg['bytecode'] = gen_code_cfg(rng)
        n = rng.choice([4, 6, 8, 8, 12, 16, 20])
        cfg['argument'] = gen_arg_cfg(rng, de, size=n)
        mn, mx = fits_range(n)
        if rng.random() < 0.5:
            cfg['argument']['min'] = rng.randint(mn, 0)
        if rng.random() < 0.5:
            cfg['argument']['max'] = rng.randint(0, mx)
        if rng.random() < 0.5:
            cfg['offset_from_instruction_end'] = True
        curly = rng.random() < 0.3
        if curly:
            cfg['use_curly_braces'] = True

        def inst(rng, value=None, addr=0):
            lo = max(ctx.gstart, addr + cfg['argument'].get('min', mn))
            hi = min(ctx.gend, addr + cfg['argument'].get('max', mx))
            if value is None:
                if lo <= hi:
                    t = rng.choice([lo, hi, rng.randint(lo, hi), min(max(addr, lo), hi)])
                else:
                    t = min(max(addr, ctx.gstart), ctx.gend)
            else:
                t = value
            src = {'k': 'rel', 't': t, 'fromEnd': cfg.get('offset_from_instruction_end', False),
                   'zs': ctx.gstart, 'ze': ctx.gend}
            if 'min' in cfg['argument']:
                src['min'] = cfg['argument']['min']
            if 'max' in cfg['argument']:
                src['max'] = cfg['argument']['max']
            arg = {'src': src, 'n': n, 'align': cfg['argument']['byte_align'],
                   'little': arg_little(cfg['argument'], de)}
            code = code_src(cfg['bytecode']) if 'bytecode' in cfg else None
            txt = lit(rng, t)
            if curly:
                txt = '{' + rng.choice(['', ' ']) + txt + '}'
            return {'text': txt, 'code': code, 'arg': arg, 'value': t}
        return cfg, inst
    if kind == 'enumeration':
        keys = rng.sample(ENUM_KEYS, rng.randint(1, 4))
        an = gen_size(rng)
        cfg['argument'] = gen_arg_cfg(rng, de, size=an)
        cfg['argument']['value_dict'] = {k: boundary_value(rng, an) for k in keys}
        has_code = rng.random() < 0.6
        if has_code:
            cn = rng.choice([2, 3, 4, 8])
            cfg['bytecode'] = {'size': cn, 'value_dict': {k: rng.randint(0, (1 << cn) - 1) for k in keys}}
            if rng.random() < 0.5:
                cfg['bytecode']['position'] = rng.choice(['prefix', 'suffix'])

        def inst(rng, value=None):
            k = rng.choice(keys) if value is None else value
            arg = {'src': {'k': 'plain', 'v': cfg['argument']['value_dict'][k]}, 'n': an,
                   'align': cfg['argument']['byte_align'], 'little': arg_little(cfg['argument'], de)}
            code = None
            if has_code:
                code = {'v': cfg['bytecode']['value_dict'][k], 'n': cfg['bytecode']['size'],
                        'pos': cfg['bytecode'].get('position', 'suffix')}
            return {'text': k, 'code': code, 'arg': arg, 'value': k}
        return cfg, inst
    if kind == 'numeric_enumeration':
        keys = rng.sample(range(0, 40), rng.randint(1, 5))
        mode = rng.choice(['code', 'arg', 'both'])
        if mode in ('arg', 'both'):
            an = gen_size(rng)
            cfg['argument'] = gen_arg_cfg(rng, de, size=an)
            cfg['argument']['value_dict'] = {k: boundary_value(rng, an) for k in keys}
        if mode in ('code', 'both'):
            cn = rng.choice([2, 3, 4, 8])
            cfg['bytecode'] = {'size': cn, 'value_dict': {k: rng.randint(0, (1 << cn) - 1) for k in keys}}
            if rng.random() < 0.5:
                cfg['bytecode']['position'] = rng.choice(['prefix', 'suffix'])

        def inst(rng, value=None):
            k = rng.choice(keys) if value is None else value
            arg = code = None
            if 'argument' in cfg:
                d = [[a, b] for a, b in cfg['argument']['value_dict'].items()]
                arg = {'src': {'k': 'enum', 'v': k, 'dict': d}, 'n': cfg['argument']['size'],
                       'align': cfg['argument']['byte_align'], 'little': arg_little(cfg['argument'], de)}
            if 'bytecode' in cfg:
                d = [[a, b] for a, b in cfg['bytecode']['value_dict'].items()]
                code = {'src': {'k': 'enum', 'v': k, 'dict': d}, 'n': cfg['bytecode']['size'],
                        'pos': cfg['bytecode'].get('position', 'suffix')}
            return {'text': lit(rng, k), 'code': code, 'arg': arg, 'value': k}
        return cfg, inst
    raise ValueError(kind)


def base_isa(rng, addr_bits=None, endian=None, regs=None):
    addr_bits = addr_bits or rng.choice([8, 12, 16, 16, 16, 20, 24, 32])
    endian = endian or rng.choice(['big', 'little'])
    regs = regs if regs is not None else rng.sample(REG_POOL, rng.randint(2, 5))
    general = {'address_size': addr_bits, 'endian': endian, 'registers': list(regs)}
    if rng.random() < 0.3:
        general['min_version'] = '0.3.0'
    isa = {'description': 'generated', 'general': general, 'operand_sets': {}, 'instructions': {}}
    return isa, Ctx(addr_bits, endian, list(regs))
