#!/usr/bin/env python
"""Development tool (not a registered check): validate a seeded change and run checks against it.

  seedtest.py validate <seed_dir>            tests pass + demo fails with patch + demo passes without (scratch worktree)
  seedtest.py run <seed_dir> C01 C12 ...     apply to /repo, run the quick checks, undo; prints per-check outcome
"""
import json
import os
import subprocess
import sys

REPO = '/repo'
VERIF = os.path.dirname(os.path.dirname(os.path.abspath(__file__)))


def sh(cmd, **kw):
    return subprocess.run(cmd, shell=True, capture_output=True, text=True, **kw)


def demo_cmd(seed, checkout):
    for n in ('demo.py', 'demo.sh'):
        p = os.path.join(seed, n)
        if os.path.exists(p):
            return (f'/venv/bin/python {p} {checkout}' if n.endswith('.py') else f'bash {p} {checkout}')
    raise SystemExit('no demo in ' + seed)


def validate(seed):
    wt = '/tmp/seedwt_%d' % os.getpid()
    sh(f'git -C {REPO} worktree add -q --detach {wt} HEAD')
    try:
        patch = os.path.abspath(os.path.join(seed, 'patch.diff'))
        r = sh(f'git -C {wt} apply {patch}')
        if r.returncode:
            return {'ok': False, 'why': 'patch does not apply: ' + r.stderr[:300]}
        env = dict(os.environ, PYTHONPATH=wt + '/src')
        t = sh(f'cd {wt} && /venv/bin/python -m pytest -q -p no:cacheprovider 2>&1 | tail -1', env=env)
        tests_ok = ' passed' in t.stdout and 'failed' not in t.stdout
        d1 = sh(demo_cmd(seed, wt), env=env, timeout=300)
        sh(f'git -C {wt} checkout -- .')
        d0 = sh(demo_cmd(seed, wt), env=env, timeout=300)
        return {'ok': tests_ok and d1.returncode != 0 and d0.returncode == 0, 'tests': t.stdout.strip(),
                'demo_with_patch_exit': d1.returncode, 'demo_without_patch_exit': d0.returncode}
    finally:
        sh(f'git -C {REPO} worktree remove --force {wt}')


def run(seed, props, tier='quick'):
    patch = os.path.abspath(os.path.join(seed, 'patch.diff'))
    st = sh(f'git -C {REPO} status --porcelain')
    if st.stdout.strip():
        raise SystemExit('/repo is not clean')
    r = sh(f'git -C {REPO} apply {patch}')
    if r.returncode:
        raise SystemExit('patch does not apply to /repo: ' + r.stderr)
    out = {}
    try:
        for p in props:
            c = sh(f'cd {VERIF} && /venv/bin/python harness/check.py {p} --tier {tier}', timeout=3600)
            vio = [l for l in c.stdout.splitlines() if l.startswith('VIOLATION')]
            kind = None
            if vio:
                rp = vio[0].split('replay=')[1].split()[0]
                try:
                    kind = json.load(open(os.path.join(VERIF, rp)))['kind']
                except Exception:
                    kind = '?'
            out[p] = {'exit': c.returncode, 'violation': vio[:1], 'kind': kind,
                      'detected': bool(vio) and kind in ('failing-input', 'correspondence-broken'),
                      'tail': c.stdout.strip().splitlines()[-2:]}
    finally:
        sh(f'git -C {REPO} checkout -- .')
        sh(f'git -C {REPO} clean -fdq src')
    return out


if __name__ == '__main__':
    cmd, seed = sys.argv[1], sys.argv[2]
    if cmd == 'validate':
        print(json.dumps(validate(seed), indent=1))
    else:
        tier = os.environ.get('VERIF_TIER', 'quick')
        print(json.dumps(run(seed, sys.argv[3:], tier), indent=1))
