"""Expression trees: generation from the grammar, rendering to text, exact evaluation (used only to
keep generated values in a sane range and to know which labels a case needs)."""
import random
from fractions import Fraction

LEVEL = {'&': 0, '|': 0, '^': 0, '<<': 1, '>>': 1, '+': 2, '-': 2, '*': 3, '/': 3, '%': 3}
OPS = list(LEVEL)
SAFE_LABELS = ['foo', 'bar_1', 'Zed', 'k9', 'val', '_fs1', 'total', 'w2x']


class EvalError(Exception):
    pass


def gen_tree(rng: random.Random, depth, labels, ops=None):
    ops = ops or OPS
    if depth <= 0 or rng.random() < 0.25:
        r = rng.random()
        if r < 0.2 and labels:
            return ('label', rng.choice(labels))
        if r < 0.3:
            return ('char', rng.choice('azAZ09 +*#@~,()!?'))
        k = rng.random()
        if k < 0.5:
            return ('num', rng.randint(0, 20))
        if k < 0.8:
            return ('num', rng.randint(0, 70000))
        return ('num', rng.randint(0, 1 << rng.choice([20, 33, 53, 60, 64, 70])))
    r = rng.random()
    if r < 0.12:
        return ('neg', gen_tree(rng, depth - 1, labels, ops))
    if r < 0.2:
        return ('byte', rng.choice([0, 0, 1, 2, 3, 7, 9]), gen_tree(rng, depth - 1, labels, ops), rng.random() < 0.3)
    op = rng.choice(ops)
    return ('bin', op, gen_tree(rng, depth - 1, labels, ops), gen_tree(rng, depth - 1, labels, ops))


def trunc(q):
    return int(q)


def evaluate(t, env):
    k = t[0]
    if k == 'num':
        return Fraction(t[1])
    if k == 'char':
        return Fraction(ord(t[1]))
    if k == 'label':
        if t[1] not in env:
            raise EvalError('label')
        return Fraction(env[t[1]])
    if k == 'neg':
        return -evaluate(t[1], env)
    if k == 'byte':
        v = trunc(evaluate(t[2], env))
        return Fraction((v >> (8 * t[1])) & 0xFF)
    op, l, r = t[1], evaluate(t[2], env), evaluate(t[3], env)
    if op == '+':
        return l + r
    if op == '-':
        return l - r
    if op == '*':
        return l * r
    if op == '/':
        if r == 0:
            raise EvalError('div0')
        return l / r
    if op == '%':
        if r == 0:
            raise EvalError('div0')
        return l - r * (l / r).__floor__()
    a, b = trunc(l), trunc(r)
    if op in ('<<', '>>'):
        if b < 0:
            raise EvalError('negshift')
        if b > 300:
            raise EvalError('hugeshift')
        return Fraction(a << b if op == '<<' else a >> b)
    if op == '&':
        return Fraction(a & b)
    if op == '|':
        return Fraction(a | b)
    return Fraction(a ^ b)


def too_big(t, env):
    """True when some intermediate value is unreasonably large (keeps the real code fast)"""
    try:
        def walk(t):
            v = evaluate(t, env)
            if abs(v.numerator) > (1 << 480) or v.denominator > (1 << 480):
                raise EvalError('big')
            for c in t[1:]:
                if isinstance(c, tuple):
                    walk(c)
        walk(t)
        return False
    except EvalError as e:
        return str(e) in ('big', 'hugeshift')


def level(t):
    return LEVEL[t[1]] if t[0] == 'bin' else 4


def lit_text(rng, n):
    k = rng.randrange(6)
    if k == 0:
        return '$%x' % n
    if k == 1:
        return '0x%X' % n
    if k == 2:
        return '%' + bin(n)[2:]
    if k == 3:
        return 'b' + bin(n)[2:]
    if k == 4:
        return '%XH' % n if '%X' % n else str(n)
    return str(n)


def render(rng: random.Random, t, lvl=0, extra_parens=0.15):
    """token list with minimal parentheses (+ random redundant ones)"""
    k = t[0]
    if k == 'num':
        toks = [lit_text(rng, t[1])]
    elif k == 'char':
        toks = ["'" + t[1] + "'"]
    elif k == 'label':
        toks = [t[1]]
    elif k == 'neg':
        toks = ['-'] + render(rng, t[1], 4, extra_parens)
    elif k == 'byte':
        name = 'LSB(' if (t[1] == 0 and t[3]) else 'BYTE%d(' % t[1]
        toks = [name] + render(rng, t[2], 0, extra_parens) + [')']
    else:
        op = t[1]
        body = render(rng, t[2], LEVEL[op], extra_parens) + [op] + render(rng, t[3], LEVEL[op] + 1, extra_parens)
        toks = ['('] + body + [')'] if LEVEL[op] < lvl else body
    if rng.random() < extra_parens:
        toks = ['('] + toks + [')']
    return toks


def join(rng: random.Random, toks):
    out = []
    for i, t in enumerate(toks):
        out.append(t)
        if i + 1 < len(toks):
            nxt = toks[i + 1]
            need = t == '%' or (t[-1].isalnum() or t[-1] in "_'") and (nxt[0].isalnum() or nxt[0] in "_.$%'")
            # '%' operator must be followed by a blank, or "%10" would lex as a binary literal
            if t in ('-', '+', '*', '/', '&', '|', '^', '(', '<<', '>>') and nxt.startswith('%'):
                need = need  # "%101" after an operator is a literal: fine
            sp = rng.choice(['', ' ', ' ', '  ', '\t'])
            if need and sp == '':
                sp = ' '
            out.append(sp)
    s = ''.join(out)
    return s


def to_model_json(t):
    """same tree as nested lists (for the evidence samples)"""
    return list(t)


def mutate_tokens(rng: random.Random, toks):
    """single-fault corruption of a well-formed token list"""
    toks = list(toks)
    k = rng.randrange(10)
    i = rng.randrange(len(toks))
    if k == 9:
        # unrecognised text BEHIND the last token (in front of it / between tokens: 'stray-char')
        toks.append(rng.choice(['!', '@', '?', '~', '`', '\\', '.', '@@', '! ?', '~1']))
        return toks, 'trailing-garbage'
    if k == 0 and len(toks) > 1:
        del toks[i]
        return toks, 'drop-token'
    if k == 1:
        toks.insert(i, rng.choice(['+', '*', '/', '&', '<<', ')', '(']))
        return toks, 'insert-operator'
    if k == 2:
        toks.insert(i, rng.choice(['!', '@', '#', '?', '~', '`', '\\', '$', '.', "'"]))
        return toks, 'stray-char'
    if k == 3:
        toks.append(rng.choice(['+', '-', '*', '%', '(', '&']))
        return toks, 'dangling'
    if k == 4:
        toks.insert(i, rng.choice(['7', 'foo', '$1f']))
        return toks, 'juxtapose'
    if k == 5:
        toks.insert(rng.randrange(len(toks) + 1), rng.choice(['(', ')']))
        return toks, 'unbalanced'
    if k == 6:
        toks.insert(i, '( )')
        return toks, 'empty-parens'
    if k == 7:
        toks.insert(i, rng.choice(['<', '>', '> >', '**']))
        return toks, 'bad-operator'
    toks[i] = rng.choice(['ffh', 'B101', '0X1F', '1ah', '__x', '..y', 'BYTES', 'BYTE', '12ab', '$zz', 'x.y', 'LSB', '9zH',
                          'BYTE10(7)', 'BYTE%d(70000)' % rng.randint(10, 99), 'LSB2(7)', 'byte0(7)'])
    return toks, 'bad-literal'
