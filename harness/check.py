#!/usr/bin/env python
"""Entry point of every MANIFEST command:  check.py <Cnn> [--tier quick|thorough] | --replay <file>"""
import argparse
import json
import os
import sys

HERE = os.path.dirname(os.path.abspath(__file__))
sys.path.insert(0, HERE)


def main():
    ap = argparse.ArgumentParser()
    ap.add_argument('prop', nargs='?')
    ap.add_argument('--tier', default=os.environ.get('VERIF_TIER', 'quick'))
    ap.add_argument('--replay')
    a = ap.parse_args()
    seed = int(os.environ.get('VERIF_SEED', '0') or 0)
    import core
    pid = a.prop
    if a.replay:
        rp = a.replay if os.path.isabs(a.replay) else os.path.join(core.VERIF, a.replay)
        with open(rp) as f:
            pid = json.load(f)['property']
        a.replay = rp
    if not pid:
        ap.error('property id required')
    try:
        rc = core.run_check(pid.upper(), a.tier if a.tier in ('quick', 'thorough') else 'quick', seed, a.replay)
    except core.leanio.LeanError as e:
        print('INFRASTRUCTURE:', e)
        rc = 2
    sys.exit(rc)


if __name__ == '__main__':
    main()
