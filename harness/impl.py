"""Runs the REAL bespokeasm (from /repo/src) on generated cases.

Process model: N worker processes are forked from the warm parent (bespokeasm already imported);
each worker forks one child per case, so every case sees pristine module state, and a per-child
SIGALRM watchdog turns non-termination into an observed outcome.
"""
import base64
import io
import json
import os
import shutil
import signal
import sys
import tempfile
import time
import traceback

REPO = os.environ.get('VERIF_REPO', '/repo')
SRC = os.path.join(REPO, 'src')
if SRC not in sys.path:
    sys.path.insert(0, SRC)

GUARD = 'MICHAELKAMPRATH_BESPOKEASM_VERIF'
os.environ.setdefault(GUARD, '1')
os.environ.pop('PYTHONHASHSEED', None) if False else None

_warm = False


def warm():
    global _warm
    if _warm:
        return
    import bespokeasm.__main__  # noqa
    import bespokeasm.assembler.engine  # noqa
    import bespokeasm.configgen.vscode  # noqa
    import bespokeasm.configgen.sublime  # noqa
    import intelhex  # noqa
    _warm = True


def _b64(b: bytes) -> str:
    return base64.b64encode(b).decode('ascii')


def _child_run(case: dict, workdir: str) -> dict:
    """case: {'files': {relpath: text|{'b64':..}}, 'argv': [...], 'collect': [relpaths], 'cwd': rel?}
    '{W}' in argv entries is replaced by workdir."""
    for rel, content in case.get('files', {}).items():
        p = os.path.join(workdir, rel)
        os.makedirs(os.path.dirname(p), exist_ok=True)
        if isinstance(content, dict):
            with open(p, 'wb') as f:
                f.write(base64.b64decode(content['b64']))
        else:
            with open(p, 'w', newline='') as f:
                f.write(content)
    for rel, target in case.get('symlinks', {}).items():
        os.symlink(os.path.join(workdir, target), os.path.join(workdir, rel))
    argv = [a.replace('{W}', workdir) for a in case['argv']]
    os.chdir(os.path.join(workdir, case.get('cwd', '.')))
    out = io.StringIO()
    err = io.StringIO()
    res = {'status': 'ok', 'exit': 0, 'exc': None}
    old = (sys.stdout, sys.stderr)
    sys.stdout, sys.stderr = out, err
    try:
        if 'call' in case:
            # auxiliary in-process probe of an internal (never part of a verdict)
            import importlib
            mod = importlib.import_module(case['call']['module'])
            fn = getattr(mod, case['call']['func'])
            res['ret'] = fn(*case['call'].get('args', []))
        else:
            from bespokeasm.__main__ import main
            main(args=argv, prog_name='bespokeasm', standalone_mode=False)
    except SystemExit as e:
        code = e.code
        if code is None or code == 0:
            res['exit'] = 0
        else:
            res['status'] = 'error'
            res['exit'] = code if isinstance(code, int) else 1
            res['msg'] = str(code)[:400]
            res['exc'] = 'SystemExit'
    except BaseException as e:  # noqa
        res['status'] = 'error'
        res['exit'] = 1
        res['exc'] = type(e).__name__
        res['msg'] = (str(e) or traceback.format_exc(limit=2))[:400]
    finally:
        sys.stdout, sys.stderr = old
    res['stdout'] = out.getvalue()[-200000:]
    res['stderr'] = err.getvalue()[-2000:]
    files = {}
    for rel in case.get('collect', []):
        p = os.path.join(workdir, rel)
        if os.path.isfile(p):
            with open(p, 'rb') as f:
                files[rel] = _b64(f.read())
    res['files'] = files
    if case.get('collect_tree'):
        tree = {}
        root = os.path.join(workdir, case['collect_tree'])
        for dp, dn, fn in os.walk(root):
            for n in fn:
                fp = os.path.join(dp, n)
                with open(fp, 'rb') as f:
                    tree[os.path.relpath(fp, root)] = _b64(f.read())
        res['tree'] = tree
    return res


def run_one(case: dict, timeout: float = 5.0, retry: bool = True) -> dict:
    """fork a child, run the case, return the result dict."""
    warm()
    workdir = tempfile.mkdtemp(prefix='bvc_')
    r, w = os.pipe()
    t0 = time.time()
    pid = os.fork()
    if pid == 0:
        try:
            os.close(r)
            signal.signal(signal.SIGALRM, signal.SIG_DFL)
            signal.setitimer(signal.ITIMER_REAL, timeout)
            try:
                res = _child_run(case, workdir)
            except BaseException as e:  # noqa
                res = {'status': 'harness-error', 'msg': traceback.format_exc()[-1500:]}
            data = json.dumps(res).encode()
            with os.fdopen(w, 'wb') as f:
                f.write(data)
        finally:
            os._exit(0)
    os.close(w)
    chunks = []
    with os.fdopen(r, 'rb') as f:
        while True:
            c = f.read(1 << 16)
            if not c:
                break
            chunks.append(c)
    _, st = os.waitpid(pid, 0)
    shutil.rmtree(workdir, ignore_errors=True)
    data = b''.join(chunks)
    if os.WIFSIGNALED(st):
        sig = os.WTERMSIG(st)
        if sig == signal.SIGALRM:
            if retry:
                # slow is not the same as non-terminating: one more attempt with a much larger budget
                return run_one(case, timeout=max(60.0, timeout * 12), retry=False)
            return {'status': 'timeout', 'exit': None, 'files': {}, 'stdout': '', 'wall': time.time() - t0}
        return {'status': 'crash', 'exit': -sig, 'files': {}, 'stdout': ''}
    if not data:
        return {'status': 'harness-error', 'msg': 'no data from child', 'files': {}, 'stdout': ''}
    res = json.loads(data)
    return res


def fbytes(res: dict, rel: str):
    """bytes of a collected file or None"""
    v = res.get('files', {}).get(rel)
    return None if v is None else base64.b64decode(v)


def run_many(cases: list, timeout: float = 5.0, workers: int = None) -> list:
    """run all cases; static partition over forked worker processes."""
    warm()
    n = len(cases)
    if n == 0:
        return []
    workers = workers or min(int(os.environ.get('VERIF_WORKERS', os.cpu_count() or 4)), 16)
    workers = max(1, min(workers, n))
    if workers == 1:
        return [run_one(c, timeout) for c in cases]
    tmpd = tempfile.mkdtemp(prefix='bvw_')
    pids = []
    try:
        for wi in range(workers):
            pid = os.fork()
            if pid == 0:
                code = 0
                try:
                    with open(os.path.join(tmpd, f'r{wi}.jsonl'), 'w') as f:
                        for i in range(wi, n, workers):
                            try:
                                res = run_one(cases[i], timeout)
                            except BaseException as e:  # noqa
                                res = {'status': 'harness-error', 'msg': repr(e), 'files': {}, 'stdout': ''}
                            f.write(json.dumps([i, res]) + '\n')
                except BaseException:
                    code = 3
                finally:
                    os._exit(code)
            pids.append(pid)
        for pid in pids:
            os.waitpid(pid, 0)
        results = [None] * n
        for wi in range(workers):
            p = os.path.join(tmpd, f'r{wi}.jsonl')
            if os.path.exists(p):
                with open(p) as f:
                    for line in f:
                        i, res = json.loads(line)
                        results[i] = res
        for i in range(n):
            if results[i] is None:
                results[i] = {'status': 'harness-error', 'msg': 'worker lost', 'files': {}, 'stdout': ''}
        return results
    finally:
        shutil.rmtree(tmpd, ignore_errors=True)


def compile_case(isa, files: dict, main='main.asm', start=None, end=None, fill=None, pretty=None,
                 defines=(), include_dirs=(), isa_name='isa.yaml', extra_files=None, output='out.bin',
                 presentinel=False, extra_argv=(), bare_main=False) -> dict:
    """Build a CLI case. `isa` is a dict (dumped as YAML or JSON by extension) or a str."""
    import yaml
    fs = dict(files)
    if isinstance(isa, str):
        fs[isa_name] = isa
    elif isa_name.endswith('.json'):
        fs[isa_name] = json.dumps(isa)
    else:
        fs[isa_name] = yaml.safe_dump(isa, sort_keys=False)
    if extra_files:
        fs.update(extra_files)
    # bare_main: the source file is named without any directory part, its directory being the working directory
    argv = ['compile', '-c', '{W}/' + isa_name, main if bare_main else '{W}/' + main, '-o', '{W}/' + output]
    if start is not None:
        argv += ['-s', str(start)]
    if end is not None:
        argv += ['-e', str(end)]
    if fill is not None:
        argv += ['-f', str(fill)]
    if pretty:
        argv += ['-p', '-t', pretty, '--pretty-print-output', '{W}/pretty.txt']
    for d in defines:
        argv += ['-D', d]
    for d in include_dirs:
        argv += ['-I', '{W}/' + d]
    argv += list(extra_argv)
    if presentinel:
        fs[output] = 'SENTINEL'
    out = {'files': fs, 'argv': argv, 'collect': [output, 'pretty.txt']}
    if bare_main:
        out['cwd'] = '.'
    return out
