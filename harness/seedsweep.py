#!/usr/bin/env python
"""Development tool (not a registered check): run every quick check against every seeded change.

  seedsweep.py [seed_dir ...]     default: all of /verif/seeded/*

For each seeded change: git -C /repo apply <patch>; run all 20 quick checks (4 at a time); git -C /repo checkout -- .
Writes seeded/MATRIX.json (seed -> check -> outcome) and adds a "verif_run" entry to each seeded/<id>/meta.json.
A check "detects" a change when it exits 1 with a VIOLATION line; the replay kind says whether a failing input was
found against the property (failing-input) or only the correspondence / proof broke (no-failing-input-found).
"""
import concurrent.futures as cf
import glob
import json
import os
import subprocess
import sys
import time

REPO = '/repo'
VERIF = os.path.dirname(os.path.dirname(os.path.abspath(__file__)))
PROPS = ['C%02d' % i for i in range(1, 21)]


def sh(cmd, **kw):
    return subprocess.run(cmd, shell=True, capture_output=True, text=True, **kw)


def one(p, evdir):
    env = dict(os.environ, VERIF_EVIDENCE_DIR=evdir)
    t0 = time.time()
    c = sh(f'cd {VERIF} && /venv/bin/python harness/check.py {p} --tier quick', timeout=3600, env=env)
    vio = [l for l in c.stdout.splitlines() if l.startswith('VIOLATION')]
    kind = None
    rp = None
    if vio:
        rp = vio[0].split('replay=')[1].split()[0]
        try:
            kind = json.load(open(os.path.join(VERIF, rp)))['kind']
        except Exception:
            kind = '?'
    return p, {'exit': c.returncode, 'violation': vio[0] if vio else None, 'kind': kind, 'wall_s': round(time.time() - t0, 1)}


def sweep(seed, evdir):
    patch = os.path.abspath(os.path.join(seed, 'patch.diff'))
    if sh(f'git -C {REPO} status --porcelain').stdout.strip():
        raise SystemExit('/repo is not clean')
    r = sh(f'git -C {REPO} apply {patch}')
    if r.returncode:
        raise SystemExit('patch does not apply: ' + r.stderr)
    res = {}
    try:
        with cf.ThreadPoolExecutor(4) as ex:
            for p, o in ex.map(lambda p: one(p, evdir), PROPS):
                res[p] = o
    finally:
        sh(f'git -C {REPO} checkout -- .')
        sh(f'git -C {REPO} clean -fdq src')
    return res


if __name__ == '__main__':
    seeds = sys.argv[1:] or sorted(glob.glob(os.path.join(VERIF, 'seeded', 'C*-*')))
    evdir = '/tmp/seedsweep_ev_%d' % os.getpid()
    os.makedirs(evdir, exist_ok=True)
    mpath = os.path.join(VERIF, 'seeded', 'MATRIX.json')
    matrix = json.load(open(mpath)) if os.path.exists(mpath) else {}
    head = sh(f'git -C {REPO} rev-parse --short HEAD').stdout.strip()
    for s in seeds:
        name = os.path.basename(s.rstrip('/'))
        res = sweep(s, evdir)
        det = [p for p, o in res.items() if o['exit'] == 1]
        matrix[name] = {'repo_head': head, 'detected_by': det,
                        'kinds': {p: res[p]['kind'] for p in det},
                        'infra_errors': [p for p, o in res.items() if o['exit'] not in (0, 1)]}
        mp = os.path.join(s, 'meta.json')
        meta = json.load(open(mp))
        meta['verif_run'] = {
            'how': f'git -C /repo apply seeded/{name}/patch.diff; /venv/bin/python harness/check.py <Cnn> --tier quick for all 20 checks; git -C /repo checkout -- .',
            'repo_head': head, 'detected_by': det, 'replay_kinds': {p: res[p]['kind'] for p in det},
            'own_property_check_detects': meta.get('property') in det}
        json.dump(meta, open(mp, 'w'), indent=1)
        json.dump(matrix, open(mpath, 'w'), indent=1, sort_keys=True)
        print(name, 'detected_by', det, 'infra', matrix[name]['infra_errors'], flush=True)
    sh(f'rm -rf {evdir}')
