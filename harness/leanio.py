"""Builds the Lean library / driver and runs the model through its JSON line protocol."""
import fcntl
import json
import os
import re
import subprocess
import sys
import tempfile
import time

VERIF = os.path.dirname(os.path.dirname(os.path.abspath(__file__)))
LEAN_DIR = os.path.join(VERIF, 'lean')
DRIVER = os.path.join(LEAN_DIR, '.lake', 'build', 'bin', 'bvdriver')

ALLOWED_AXIOMS = {'propext', 'Classical.choice', 'Quot.sound'}
FORBIDDEN = re.compile(r'\b(sorry|admit|native_decide|bv_decide|implemented_by)\b|^\s*axiom\s|\bunsafe\s|maxHeartbeats\s+0\b')


class LeanError(Exception):
    pass


def _lock():
    os.makedirs(os.path.join(LEAN_DIR, '.lake'), exist_ok=True)
    f = open(os.path.join(LEAN_DIR, '.lake', 'verif.lock'), 'w')
    fcntl.flock(f, fcntl.LOCK_EX)
    return f


def lake_build(targets, timeout=1500):
    """returns (ok, log)"""
    lk = _lock()
    try:
        p = subprocess.run(['lake', 'build'] + list(targets), cwd=LEAN_DIR, capture_output=True, text=True,
                           timeout=timeout)
        return p.returncode == 0, (p.stdout + p.stderr)
    finally:
        lk.close()


def strip_comments(src: str) -> str:
    # remove /- ... -/ (nested) and -- comments
    out = []
    i, depth, n = 0, 0, len(src)
    while i < n:
        if src.startswith('/-', i):
            depth += 1
            i += 2
        elif depth > 0 and src.startswith('-/', i):
            depth -= 1
            i += 2
        elif depth > 0:
            i += 1
        elif src.startswith('--', i):
            while i < n and src[i] != '\n':
                i += 1
        else:
            out.append(src[i])
            i += 1
    return ''.join(out)


def source_scan(files):
    """grep for forbidden constructs outside comments; returns list of (file, line, text)"""
    hits = []
    for fp in files:
        with open(fp) as f:
            src = strip_comments(f.read())
        for ln, line in enumerate(src.split('\n'), 1):
            if FORBIDDEN.search(line):
                hits.append((os.path.relpath(fp, VERIF), ln, line.strip()[:120]))
    return hits


def lean_sources(prop_modules=None):
    """Model/, Lemmas/, the driver, and the Props files of the given modules (all Props when None)"""
    res = []
    for dp, dn, fn in os.walk(os.path.join(LEAN_DIR, 'BespokeVerif')):
        for n in fn:
            if n.endswith('.lean'):
                fp = os.path.join(dp, n)
                if os.path.basename(dp) == 'Props' and prop_modules is not None:
                    mod = 'BespokeVerif.Props.' + n[:-5]
                    if mod not in prop_modules:
                        continue
                res.append(fp)
    res.append(os.path.join(LEAN_DIR, 'Driver.lean'))
    return sorted(res)


def import_closure(module):
    """modules of this project (BespokeVerif.*) transitively imported by `module`, itself included"""
    import re
    seen, todo = [], [module]
    while todo:
        m = todo.pop()
        if m in seen or not m.startswith('BespokeVerif'):
            continue
        fp = os.path.join(LEAN_DIR, *m.split('.')) + '.lean'
        if not os.path.exists(fp):
            continue
        seen.append(m)
        with open(fp) as f:
            for mm in re.finditer(r'^import\s+(\S+)', strip_comments(f.read()), re.M):
                todo.append(mm.group(1))
    return sorted(seen)


def leanchecker(modules, timeout=1500):
    """independent re-check of the compiled .olean files of the given modules (thorough tier)"""
    with _lock():
        try:
            p = subprocess.run(['lake', 'env', 'leanchecker'] + list(modules), cwd=LEAN_DIR, capture_output=True,
                               text=True, timeout=timeout)
        except subprocess.TimeoutExpired:
            return None, 'leanchecker timed out'
    return p.returncode == 0, (p.stdout + p.stderr)[-2000:]


def theorem_names(prop_file):
    """fully qualified names of the theorems declared in a Props file"""
    with open(prop_file) as f:
        src = strip_comments(f.read())
    ns = []
    names = []
    for line in src.split('\n'):
        m = re.match(r'\s*namespace\s+(\S+)', line)
        if m:
            ns.append(m.group(1))
            continue
        m = re.match(r'\s*end\s+(\S+)', line)
        if m and ns and ns[-1] == m.group(1):
            ns.pop()
            continue
        m = re.match(r'\s*(?:private\s+|protected\s+)?theorem\s+(\S+)', line)
        if m:
            names.append('.'.join(ns + [m.group(1)]))
    return names


def axiom_audit(module, names, timeout=600):
    """returns dict name -> list of axioms (or None when the theorem is unknown)"""
    src = f'import {module}\n' + ''.join(f'#print axioms {n}\n' for n in names)
    with tempfile.NamedTemporaryFile('w', suffix='.lean', delete=False) as f:
        f.write(src)
        path = f.name
    try:
        lk = _lock()
        try:
            p = subprocess.run(['lake', 'env', 'lean', path], cwd=LEAN_DIR, capture_output=True, text=True,
                               timeout=timeout)
        finally:
            lk.close()
        out = p.stdout + p.stderr
    finally:
        os.unlink(path)
    res = {n: None for n in names}
    # outputs: "'X' depends on axioms: [a, b]" or "'X' does not depend on any axioms"
    for m in re.finditer(r"'([^']+)' depends on axioms: \[([^\]]*)\]", out, flags=re.S):
        res[m.group(1)] = [a.strip() for a in m.group(2).replace('\n', ' ').split(',') if a.strip()]
    for m in re.finditer(r"'([^']+)' does not depend on any axioms", out):
        res[m.group(1)] = []
    return res, out


def run_driver(requests, procs=None, timeout=900):
    """send JSON requests to bvdriver; returns list of decoded replies (same order)"""
    if not requests:
        return []
    if not os.path.exists(DRIVER):
        raise LeanError('driver not built: ' + DRIVER)
    procs = procs or min(8, max(1, len(requests) // 200))
    chunks = [requests[i::procs] for i in range(procs)]
    ps = []
    for ch in chunks:
        data = ''.join(json.dumps(r, separators=(',', ':')) + '\n' for r in ch)
        p = subprocess.Popen([DRIVER], stdin=subprocess.PIPE, stdout=subprocess.PIPE, stderr=subprocess.PIPE)
        ps.append((p, data))
    outs = []
    import threading
    results = [None] * procs

    def comm(i, p, data):
        try:
            o, e = p.communicate(data.encode(), timeout=timeout)
            results[i] = (p.returncode, o.decode(), e.decode())
        except subprocess.TimeoutExpired:
            p.kill()
            results[i] = (-9, '', 'timeout')
    ths = [threading.Thread(target=comm, args=(i, p, d)) for i, (p, d) in enumerate(ps)]
    for t in ths:
        t.start()
    for t in ths:
        t.join()
    replies = [None] * len(requests)
    for i, (rc, o, e) in enumerate(results):
        lines = o.split('\n')
        if lines and lines[-1] == '':
            lines.pop()
        if rc != 0 or len(lines) != len(chunks[i]):
            raise LeanError(f'driver failed rc={rc} lines={len(lines)}/{len(chunks[i])} stderr={e[-500:]}')
        for k, line in enumerate(lines):
            replies[i + k * procs] = json.loads(line)
    return replies
