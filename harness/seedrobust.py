#!/usr/bin/env python
"""Development tool (not a registered check): how reliably does each seeded change's OWN property check detect it?

  seedrobust.py [seed numbers, default 1 2 3] [--names=C01-A,C02-B]

For every seeded/<name>/patch.diff: scratch worktree of /repo HEAD + patch, then the quick check of the change's own
property under each VERIF_SEED (VERIF_REPO=<worktree>, evidence redirected). Writes seeded/ROBUST.json:
name -> {seed: detected?}.  A change that is caught under some seeds only points at a generator that reaches the
triggering input too rarely.
"""
import concurrent.futures as cf
import glob
import json
import os
import subprocess
import sys

REPO = '/repo'
VERIF = os.path.dirname(os.path.dirname(os.path.abspath(__file__)))


def sh(cmd, **kw):
    return subprocess.run(cmd, shell=True, capture_output=True, text=True, **kw)


def one(name, seeds):
    seed = os.path.join(VERIF, 'seeded', name)
    prop = json.load(open(os.path.join(seed, 'meta.json')))['property']
    wt = f'/tmp/robustwt_{name}_{os.getpid()}'
    sh(f'git -C {REPO} worktree add -q --detach {wt} HEAD')
    out = {}
    try:
        r = sh(f'git -C {wt} apply {seed}/patch.diff')
        if r.returncode:
            return name, {'error': 'patch does not apply'}
        for s in seeds:
            env = dict(os.environ, VERIF_EVIDENCE_DIR=f'/tmp/robust_ev_{os.getpid()}', VERIF_REPO=wt, VERIF_SEED=str(s))
            c = sh(f'cd {VERIF} && /venv/bin/python harness/check.py {prop} --tier quick', timeout=3600, env=env)
            out[str(s)] = c.returncode == 1
            if c.returncode not in (0, 1):
                out[str(s)] = 'infra:' + c.stdout[-200:]
    finally:
        sh(f'git -C {REPO} worktree remove --force {wt}')
    return name, out


def main():
    seeds = [int(a) for a in sys.argv[1:] if a.isdigit()] or [1, 2, 3]
    names = [a[8:].split(',') for a in sys.argv[1:] if a.startswith('--names=')]
    names = names[0] if names else sorted(os.path.basename(p) for p in glob.glob(os.path.join(VERIF, 'seeded', 'C*-*')))
    outp = os.path.join(VERIF, 'seeded', 'ROBUST.json')
    res = json.load(open(outp)) if os.path.exists(outp) else {}
    with cf.ThreadPoolExecutor(4) as ex:
        for name, o in ex.map(lambda n: one(n, seeds), names):
            res.setdefault(name, {}).update(o)
            print(name, o, flush=True)
            json.dump(res, open(outp, 'w'), indent=1, sort_keys=True)
    weak = {n: o for n, o in res.items() if not all(v is True for v in o.values())}
    print('not detected under every seed:', json.dumps(weak, indent=1))


if __name__ == '__main__':
    main()
