structure PB where
  done : List Nat
  cur  : Nat
  bit  : Int
deriving Repr

def byteBits (x : Nat) : List Bool := [7,6,5,4,3,2,1,0].map (fun i => x.testBit i)

def topBits (x : Nat) : Nat → List Bool
  | 0 => []
  | k+1 => topBits x k ++ [x.testBit (7 - k)]

def PB.abs (s : PB) : List Bool :=
  s.done.flatMap byteBits ++ topBits s.cur (7 - s.bit).toNat

def PB.Inv (s : PB) : Prop :=
  -1 ≤ s.bit ∧ s.bit ≤ 7 ∧ (∀ j : Nat, (j : Int) ≤ s.bit → s.cur.testBit j = false)

def PB.pushBit (s : PB) (b : Bool) : PB :=
  let s' := if s.bit < 0 then { done := s.done ++ [s.cur], cur := 0, bit := 7 } else s
  { s' with cur := s'.cur ||| (b.toNat <<< s'.bit.toNat), bit := s'.bit - 1 }

theorem topBits_eight (x : Nat) : topBits x 8 = byteBits x := by
  simp [topBits, byteBits]

theorem topBits_congr (x y : Nat) (k : Nat) (hk : k ≤ 8)
    (h : ∀ j, 8 ≤ j + k → j ≤ 7 → x.testBit j = y.testBit j) :
    topBits x k = topBits y k := by
  induction k with
  | zero => rfl
  | succ k ih =>
    simp only [topBits]
    rw [ih (by omega) (fun j h1 h2 => h j (by omega) h2)]
    rw [h (7 - k) (by omega) (by omega)]

theorem setBit_testBit (x k j : Nat) (b : Bool) :
    (x ||| (b.toNat <<< k)).testBit j = (x.testBit j || (b && decide (j = k))) := by
  rw [Nat.testBit_or, Nat.testBit_shiftLeft]
  cases b with
  | false => simp
  | true =>
    simp only [Bool.toNat_true, Bool.true_and]
    by_cases h : j = k
    · subst h; simp
    · by_cases h2 : k ≤ j
      · have : j - k ≠ 0 := by omega
        simp [h, h2, Nat.testBit_one_eq_true_iff_self_eq_zero, this]
      · simp [h, h2]

/-- core step when the cursor is inside a byte -/
theorem push_inside (d : List Nat) (c : Nat) (k : Nat) (hk : k ≤ 7) (b : Bool)
    (hz : ∀ j : Nat, j ≤ k → c.testBit j = false) :
    topBits (c ||| (b.toNat <<< k)) (7 - k + 1) = topBits c (7 - k) ++ [b] := by
  simp only [topBits]
  congr 1
  · apply topBits_congr _ _ _ (by omega)
    intro j h1 h2
    rw [setBit_testBit]
    have : j ≠ k := by omega
    simp [this]
  · have : 7 - (7 - k) = k := by omega
    rw [this, setBit_testBit, hz k (Nat.le_refl _)]
    simp

theorem pushBit_abs (s : PB) (b : Bool) (h : s.Inv) :
    (s.pushBit b).abs = s.abs ++ [b] ∧ (s.pushBit b).Inv := by
  obtain ⟨h1, h2, h3⟩ := h
  unfold PB.pushBit PB.abs PB.Inv
  by_cases hneg : s.bit < 0
  · have hb : s.bit = -1 := by omega
    simp only [hneg, if_true]
    refine ⟨?_, by omega, by omega, ?_⟩
    · simp only [hb]
      have e1 : (7 - (7 - 1 : Int)).toNat = 0 + 1 := by decide
      have e2 : (7 - (-1 : Int)).toNat = 8 := by decide
      have e3 : (7:Int).toNat = 7 := by decide
      rw [e1, e2, e3, topBits_eight]
      simp only [List.flatMap_append, List.flatMap_cons, List.flatMap_nil, List.append_nil, topBits,
        List.nil_append, List.append_assoc]
      congr 2
      rw [setBit_testBit]; simp
    · intro j hj
      have : (7:Int).toNat = 7 := by decide
      rw [this, setBit_testBit]
      have : j ≠ 7 := by omega
      simp [this]
  · simp only [hneg, if_false]
    have hk : ∃ k : Nat, s.bit = k ∧ k ≤ 7 := ⟨s.bit.toNat, by omega, by omega⟩
    obtain ⟨k, hk1, hk2⟩ := hk
    refine ⟨?_, by omega, by omega, ?_⟩
    · rw [hk1]
      have e1 : (7 - ((k:Int) - 1)).toNat = 7 - k + 1 := by omega
      have e2 : (7 - (k:Int)).toNat = 7 - k := by omega
      have e3 : (k:Int).toNat = k := by omega
      rw [e1, e2, e3, push_inside s.done s.cur k hk2 b (fun j hj => h3 j (by omega))]
      simp
    · intro j hj
      rw [hk1] at hj
      have e3 : s.bit.toNat = k := by omega
      rw [e3, setBit_testBit, h3 j (by omega)]
      have : j ≠ k := by omega
      simp [this]

#print axioms pushBit_abs
