/-! Spike for C08: condition stack machine (as repaired: decided and cached at the directive)
    versus block-tree semantics. Conditions are abstracted as `Env → Bool`; `define` lines
    change the environment only when selected. -/

abbrev Env := List String

inductive Dir
  | line (n : Nat)                 -- ordinary line (marker)
  | define (s : String)            -- #define s
  | ifc (c : Env → Bool)           -- #if / #ifdef / #ifndef
  | elifc (c : Env → Bool)
  | elsec
  | endif

/-- block trees -/
inductive Block
  | line (n : Nat)
  | define (s : String)
  | chain (c : Env → Bool) (body : List Block) (elifs : List ((Env → Bool) × List Block)) (els : Option (List Block))

mutual
def flatten : List Block → List Dir
  | [] => []
  | b :: bs => flattenB b ++ flatten bs
def flattenB : Block → List Dir
  | .line n => [.line n]
  | .define s => [.define s]
  | .chain c body elifs els =>
      .ifc c :: flatten body ++ flattenElifs elifs ++ flattenElse els ++ [.endif]
def flattenElifs : List ((Env → Bool) × List Block) → List Dir
  | [] => []
  | (c, b) :: rest => .elifc c :: flatten b ++ flattenElifs rest
def flattenElse : Option (List Block) → List Dir
  | none => []
  | some b => .elsec :: flatten b
end

-- tree semantics: returns selected markers (in order) and final env; `act` = enclosing selection
mutual
def sel (act : Bool) (env : Env) : List Block → List Nat × Env
  | [] => ([], env)
  | b :: bs =>
    let (o1, e1) := selB act env b
    let (o2, e2) := sel act e1 bs
    (o1 ++ o2, e2)
def selB (act : Bool) (env : Env) : Block → List Nat × Env
  | .line n => (if act then [n] else [], env)
  | .define s => ([], if act then s :: env else env)
  | .chain c body elifs els =>
    let s0 := act && c env          -- evaluated when reached (only matters if act)
    let (o1, e1) := sel s0 env body
    let (o2, e2, taken) := selElifs act s0 e1 elifs
    match els with
    | none => (o1 ++ o2, e2)
    | some b =>
      let (o3, e3) := sel (act && !taken) e2 b
      (o1 ++ o2 ++ o3, e3)
def selElifs (act : Bool) (taken : Bool) (env : Env) :
    List ((Env → Bool) × List Block) → List Nat × Env × Bool
  | [] => ([], env, taken)
  | (c, b) :: rest =>
    let s := act && !taken && c env
    let (o1, e1) := sel s env b
    let (o2, e2, t2) := selElifs act (taken || s) e1 rest
    (o1 ++ o2, e2, t2)
end

/-- stack machine mirroring the repaired ConditionStack: frames (branchActive, chainTaken) -/
structure St where
  stack : List (Bool × Bool)
  env : Env
  out : List Nat

def St.active (s : St) : Bool := match s.stack with | [] => true | (a, _) :: _ => a

def step (s : St) : Dir → Option St
  | .line n => some (if s.active then { s with out := s.out ++ [n] } else s)
  | .define x => some (if s.active then { s with env := x :: s.env } else s)
  | .ifc c =>
    let sel := s.active && c s.env
    some { s with stack := (sel, sel) :: s.stack }
  | .elifc c =>
    match s.stack with
    | [] => none
    | (_, taken) :: rest =>
      let encl := match rest with | [] => true | (a, _) :: _ => a
      let sel := encl && !taken && c s.env
      some { s with stack := (sel, taken || sel) :: rest }
  | .elsec =>
    match s.stack with
    | [] => none
    | (_, taken) :: rest =>
      let encl := match rest with | [] => true | (a, _) :: _ => a
      let sel := encl && !taken
      some { s with stack := (sel, taken || sel) :: rest }
  | .endif =>
    match s.stack with
    | [] => none
    | _ :: rest => some { s with stack := rest }

def run (s : St) : List Dir → Option St
  | [] => some s
  | d :: ds => match step s d with | none => none | some s' => run s' ds

theorem run_append (s : St) (a b : List Dir) :
    run s (a ++ b) = (run s a).bind (fun s' => run s' b) := by
  induction a generalizing s with
  | nil => simp [run]
  | cons d ds ih =>
    simp only [List.cons_append, run]
    cases h : step s d with
    | none => simp
    | some s' => simp [ih]

-- test
def ex : List Block :=
  [ .chain (fun e => !e.contains "X") [.define "X", .line 1] [] (some [.line 3]), .line 4,
    .chain (fun _ => false) [.chain (fun _ => true) [.line 5] [] none, .line 6] [(fun _ => true, [.line 7])] none ]
#eval (sel true [] ex)
#eval (run ⟨[], [], []⟩ (flatten ex)).map (fun s => (s.out, s.env))

def St.push (s : St) (o : List Nat) (e : Env) : St := { s with out := s.out ++ o, env := e }

/- Proof skeleton (checked up to the chain case during the design round; kept as a comment so that
   no incomplete proof exists anywhere under /verif):

mutual
theorem run_flatten (bs : List Block) (s : St) :
    run s (flatten bs) = some (s.push (sel s.active s.env bs).1 (sel s.active s.env bs).2) := by
  match bs with
  | [] => simp [flatten, run, sel, St.push]
  | b :: rest =>
    simp only [flatten, run_append, sel]
    rw [run_flattenB b s]
    simp only [Option.bind_some]
    rw [run_flatten rest]
    simp [St.push, St.active, List.append_assoc]
theorem run_flattenB (b : Block) (s : St) :
    run s (flattenB b) = some (s.push (selB s.active s.env b).1 (selB s.active s.env b).2) := by
  match b with
  | .line n =>
    simp only [flattenB, run, step, selB, St.push]
    split <;> simp
  | .define x =>
    simp only [flattenB, run, step, selB, St.push]
    split <;> simp
  | .chain c body elifs els => ?_   -- remaining case: push frame, body by IH, elifs/else lemmas, pop
end

-/
