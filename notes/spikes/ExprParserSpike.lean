/-! Spike: level-indexed recursive-descent parser (mirrors _parse_e .. _parse_e4 after the
    unary-minus repair) and the printer/parser round trip. -/

inductive Op | band | bor | bxor | shl | shr | add | sub | mul | div | mod
deriving DecidableEq, Repr

def Op.level : Op → Nat
  | .band | .bor | .bxor => 0
  | .shl | .shr => 1
  | .add | .sub => 2
  | .mul | .div | .mod => 3

inductive Tok | num (n : Nat) | lab (s : String) | op (o : Op) | lpar | rpar | fn (k : Nat)
deriving DecidableEq, Repr

inductive E | num (n : Nat) | lab (s : String) | neg (e : E) | fn (k : Nat) (e : E) | bin (o : Op) (l r : E)
deriving DecidableEq, Repr

inductive Err | syntax | fuel
deriving DecidableEq, Repr

mutual
/-- parse at binary level `lvl` (0..3); level 4 = atoms/unary -/
def parseLevel : (fuel : Nat) → (lvl : Nat) → List Tok → Except Err (E × List Tok)
  | 0, _, _ => .error .fuel
  | fuel+1, lvl, ts =>
    if lvl ≥ 4 then
      match ts with
      | .num n :: rest => .ok (.num n, rest)
      | .lab s :: rest => .ok (.lab s, rest)
      | .fn k :: rest =>
        match parseLevel fuel 0 rest with
        | .ok (e, .rpar :: rest') => .ok (.fn k e, rest')
        | .ok _ => .error .syntax
        | .error x => .error x
      | .op .sub :: rest =>
        match parseLevel fuel 4 rest with
        | .ok (e, rest') => .ok (.neg e, rest')
        | .error x => .error x
      | .lpar :: rest =>
        match parseLevel fuel 0 rest with
        | .ok (e, .rpar :: rest') => .ok (e, rest')
        | .ok _ => .error .syntax
        | .error x => .error x
      | _ => .error .syntax
    else
      match parseLevel fuel (lvl+1) ts with
      | .ok (l, rest) => parseLoop fuel lvl l rest
      | .error x => .error x
def parseLoop : (fuel : Nat) → (lvl : Nat) → E → List Tok → Except Err (E × List Tok)
  | 0, _, _, _ => .error .fuel
  | fuel+1, lvl, left, ts =>
    match ts with
    | .op o :: rest =>
      if o.level = lvl then
        match parseLevel fuel (lvl+1) rest with
        | .ok (r, rest') => parseLoop fuel lvl (.bin o left r) rest'
        | .error x => .error x
      else .ok (left, ts)
    | _ => .ok (left, ts)
end

def parseExpr (ts : List Tok) : Except Err E :=
  match parseLevel (2 * ts.length + 10) 0 ts with
  | .ok (e, []) => .ok e
  | .ok _ => .error .syntax
  | .error x => .error x

/-- syntactic level of an expression tree -/
def E.level : E → Nat
  | .bin o _ _ => o.level
  | _ => 4

/-- minimal-parenthesis printer: print `e` in a context requiring level ≥ `ctx` -/
def pp (ctx : Nat) : E → List Tok
  | .num n => [.num n]
  | .lab s => [.lab s]
  | .neg e => .op .sub :: pp 4 e
  | .fn k e => .fn k :: pp 0 e ++ [.rpar]
  | .bin o l r =>
    let body := pp o.level l ++ [.op o] ++ pp (o.level + 1) r
    if o.level < ctx then .lpar :: body ++ [.rpar] else body

#eval pp 0 (.bin .add (.neg (.num 1)) (.num 2))
#eval parseExpr (pp 0 (.bin .add (.neg (.num 1)) (.num 2)))
#eval parseExpr (pp 0 (.bin .mul (.bin .add (.num 1) (.num 2)) (.bin .sub (.num 3) (.bin .sub (.num 4) (.num 5)))))
#eval pp 0 (.bin .mul (.bin .add (.num 1) (.num 2)) (.bin .sub (.num 3) (.bin .sub (.num 4) (.num 5))))
