/-
  C11: escape processing of quoted strings — models `bytes(s, 'utf-8').decode('unicode_escape')`
  followed by `ord()` for printable ASCII text and the escapes  \n \t \r \\ \" \' \a \b \f \v,
  \xHH (two hex digits), \uHHHH (four) and octal \o, \oo, \ooo.  Anything else after a backslash is kept verbatim
  (backslash included), as Python does for unknown escapes.
-/
import BespokeVerif.Model.Expr
namespace BV

def isOctDigit (c : Char) : Bool := '0' ≤ c && c ≤ '7'

/-- one value per resulting character -/
def unescape : List Char → List Nat
  | [] => []
  | '\\' :: c :: rest =>
    match c with
    | 'n' => 10 :: unescape rest
    | 't' => 9 :: unescape rest
    | 'r' => 13 :: unescape rest
    | 'a' => 7 :: unescape rest
    | 'b' => 8 :: unescape rest
    | 'f' => 12 :: unescape rest
    | 'v' => 11 :: unescape rest
    | '\\' => 92 :: unescape rest
    | '"' => 34 :: unescape rest
    | '\'' => 39 :: unescape rest
    | 'x' =>
      match rest with
      | h1 :: h2 :: rest' =>
        if isHexDigit h1 && isHexDigit h2 then (hexVal h1 * 16 + hexVal h2) :: unescape rest'
        else 92 :: 120 :: unescape (h1 :: h2 :: rest')  -- (the real decoder raises; generators avoid this)
      | [h1] => 92 :: 120 :: unescape [h1]
      | [] => [92, 120]
    | 'u' =>
      -- \uHHHH: one character with that code point (one value; a data directive keeps its low bits)
      match rest with
      | h1 :: h2 :: h3 :: h4 :: rest' =>
        if isHexDigit h1 && isHexDigit h2 && isHexDigit h3 && isHexDigit h4 then
          (((hexVal h1 * 16 + hexVal h2) * 16 + hexVal h3) * 16 + hexVal h4) :: unescape rest'
        else 92 :: 117 :: unescape (h1 :: h2 :: h3 :: h4 :: rest')
      | r => 92 :: 117 :: unescape r
    | _ =>
      if isOctDigit c then
        match rest with
        | d2 :: d3 :: rest' =>
          if isOctDigit d2 && isOctDigit d3 then
            (hexVal c * 64 + hexVal d2 * 8 + hexVal d3) :: unescape rest'
          else if isOctDigit d2 then (hexVal c * 8 + hexVal d2) :: unescape (d3 :: rest')
          else hexVal c :: unescape (d2 :: d3 :: rest')
        | [d2] => if isOctDigit d2 then [hexVal c * 8 + hexVal d2] else hexVal c :: unescape [d2]
        | [] => [hexVal c]
      else 92 :: c.toNat :: unescape rest
  | c :: rest => c.toNat :: unescape rest
termination_by l => l.length

end BV
