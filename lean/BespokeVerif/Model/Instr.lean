/-
  C01 / C12: one instruction statement = opcode (+ suffix) + matched operands, each contributing an
  optional operand code (prefix or suffix position) and an optional argument, every value possibly
  constrained.  `encodeInstr` mirrors `InstructionBytecodeGenerator.generate_variant_bytecode_parts`
  + `AssembledInstruction.get_bytes`; `specEncodeInstr` reads like the properties.
-/
import BespokeVerif.Model.Constraint
namespace BV

structure SrcOp where
  code : Option (SrcField × CodePos)
  arg  : Option SrcField
deriving Repr

def SrcOp.shape (o : SrcOp) : OpParts :=
  { code := o.code.map fun (f, p) => (f.shape, p), arg := o.arg.map SrcField.shape }

def SrcField.resolveField (f : SrcField) (addr size : Int) : Except Err Field := do
  let v ← f.src.resolve addr size f.size
  .ok { value := v, size := f.size, align := f.align, little := f.little }

def SrcField.emittedField (f : SrcField) (addr size : Int) : Field :=
  { value := f.src.emitted addr size f.size, size := f.size, align := f.align, little := f.little }

def SrcField.Good (f : SrcField) (addr size : Int) : Prop :=
  f.src.Satisfies addr size f.size ∧ Fits (f.src.emitted addr size f.size) f.size
instance (f : SrcField) (addr size : Int) : Decidable (f.Good addr size) := by
  unfold SrcField.Good; infer_instance

def SrcOp.resolve (o : SrcOp) (addr size : Int) : Except Err OpParts := do
  let code ← match o.code with
    | none => pure none
    | some (f, p) => do let r ← f.resolveField addr size; pure (some (r, p))
  let arg ← match o.arg with
    | none => pure none
    | some f => do let r ← f.resolveField addr size; pure (some r)
  .ok { code := code, arg := arg }

def SrcOp.emittedParts (o : SrcOp) (addr size : Int) : OpParts :=
  { code := o.code.map fun (f, p) => (f.emittedField addr size, p),
    arg := o.arg.map fun f => f.emittedField addr size }

def SrcOp.Good (o : SrcOp) (addr size : Int) : Prop :=
  (match o.code with | none => True | some (f, _) => f.Good addr size) ∧
  (match o.arg with | none => True | some f => f.Good addr size)
instance (o : SrcOp) (addr size : Int) : Decidable (o.Good addr size) := by
  unfold SrcOp.Good; cases o.code <;> cases o.arg <;> infer_instance

def resolveOps (addr size : Int) : List SrcOp → Except Err (List OpParts)
  | [] => .ok []
  | o :: os => do let r ← o.resolve addr size; let rs ← resolveOps addr size os; .ok (r :: rs)

/-- the reserved size: the size loop run on the field order, before any value is known -/
def instrSize (ops : List SrcOp) (opcode : Field) (sfx : Option Field) (ra rc : Bool) : Nat :=
  byteSizeOf (fieldOrder (ops.map SrcOp.shape) opcode sfx ra rc)

/-- impl -/
def encodeInstr (addr : Int) (ops : List SrcOp) (opcode : Field) (sfx : Option Field)
    (ra rc : Bool) : Except Err (Option (List Nat)) := do
  let size := instrSize ops opcode sfx ra rc
  let parts ← resolveOps addr size ops
  getBytes (fieldOrder parts opcode sfx ra rc)

/-- spec -/
def specEncodeInstr (addr : Int) (ops : List SrcOp) (opcode : Field) (sfx : Option Field)
    (ra rc : Bool) : Option (List Nat) :=
  let size : Int := instrSize ops opcode sfx ra rc
  if (∀ o ∈ ops, o.Good addr size) ∧ Fits opcode.value opcode.size
      ∧ (∀ s ∈ sfx.toList, Fits s.value s.size) then
    some (specBytes (specOrder (ops.map fun o => o.emittedParts addr size) opcode sfx ra rc))
  else none

end BV
