/-
  C09: preprocessor symbol substitution on text.
  A line is a list of segments: maximal runs of word characters (`\w`) and everything else.
  impl level: `resolveImpl` mirrors `Preprocessor.resolve_symbols` (candidate scan, per-candidate
              recursive resolution with the `resolved_symbols` set, whole-word replacement, re-scan);
  spec level: `expand` replaces every defined whole word by its full expansion.
-/
import BespokeVerif.Model.Expr
namespace BV

inductive Seg where
  | word (s : String)     -- maximal run of word characters
  | other (s : String)    -- maximal run of non-word characters
deriving Repr, DecidableEq, Inhabited

/-- split text into maximal runs -/
def segmentAux : List Char → Option (Bool × List Char) → List Seg → List Seg
  | [], none, acc => acc.reverse
  | [], some (w, cur), acc => ((if w then Seg.word (String.ofList cur.reverse) else Seg.other (String.ofList cur.reverse)) :: acc).reverse
  | c :: rest, none, acc => segmentAux rest (some (isWordChar c, [c])) acc
  | c :: rest, some (w, cur), acc =>
    if isWordChar c == w then segmentAux rest (some (w, c :: cur)) acc
    else segmentAux rest (some (isWordChar c, [c]))
      ((if w then Seg.word (String.ofList cur.reverse) else Seg.other (String.ofList cur.reverse)) :: acc)

def segment (cs : List Char) : List Seg := segmentAux cs none []

def Seg.text : Seg → String
  | .word s => s
  | .other s => s

def unsegment (l : List Seg) : String := String.join (l.map Seg.text)

/-- symbol table: name ↦ replacement text (already segmented) -/
abbrev STab := List (String × List Seg)

def STab.get? (t : STab) (s : String) : Option (List Seg) := (t.find? (·.1 == s)).map (·.2)

/-- a symbol candidate: a word of at least two characters (`[\w_][\w\d_]+`) -/
def isCandidate (s : String) : Bool := s.length ≥ 2

/-! ## spec -/

mutual
/-- full expansion of one word; `path` = symbols being expanded -/
def expandWord (t : STab) : Nat → List String → String → Except Err (List Seg)
  | 0, _, _ => .error .outOfFuel
  | fuel + 1, path, s =>
    if !isCandidate s then .ok [.word s] else
    match t.get? s with
    | none => .ok [.word s]
    | some repl =>
      if path.contains s then .error .symbolCycle
      else expandSegs t fuel (s :: path) repl
def expandSegs (t : STab) : Nat → List String → List Seg → Except Err (List Seg)
  | 0, _, _ => .error .outOfFuel
  | _ + 1, _, [] => .ok []
  | fuel + 1, path, .other o :: rest => do
    let r ← expandSegs t (fuel + 1) path rest
    .ok (.other o :: r)
  | fuel + 1, path, .word w :: rest => do
    let e ← expandWord t fuel path w
    let r ← expandSegs t (fuel + 1) path rest
    .ok (e ++ r)
end

/-- every defined symbol has its own entry on the path at most once, so depth ≤ #symbols + 1 -/
def expand (t : STab) (l : List Seg) : Except Err (List Seg) := expandSegs t (2 * t.length + 4) [] l

/-! ## impl -/

/-- `re.sub(r'\bS\b', replacement, line)` on segments -/
def replaceWord (s : String) (repl : List Seg) : List Seg → List Seg
  | [] => []
  | .word w :: rest => (if w == s then repl else [.word w]) ++ replaceWord s repl rest
  | .other o :: rest => .other o :: replaceWord s repl rest

def candidates (l : List Seg) : List String :=
  l.filterMap fun | .word w => if isCandidate w then some w else none | .other _ => none

mutual
/-- `resolve_symbols(line, resolved_symbols)` -/
def resolveImpl (t : STab) : Nat → List String → List Seg → Except Err (List Seg)
  | 0, _, _ => .error .outOfFuel
  | fuel + 1, resolved, line => do
    let (line', replaced) ← resolveLoop t fuel resolved (candidates line) line []
    if replaced.isEmpty then .ok line'
    else resolveImpl t fuel (resolved ++ replaced) line'
/-- the `for s in found_symbols` loop -/
def resolveLoop (t : STab) : Nat → List String → List String → List Seg → List String →
    Except Err (List Seg × List String)
  | 0, _, _, _, _ => .error .outOfFuel
  | _ + 1, _, [], line, replaced => .ok (line, replaced)
  | fuel + 1, resolved, s :: rest, line, replaced =>
    match t.get? s with
    | none => resolveLoop t (fuel + 1) resolved rest line replaced
    | some v =>
      if resolved.contains s then .error .symbolCycle
      else do
        let repl ← resolveImpl t fuel (resolved ++ [s]) v
        resolveLoop t (fuel + 1) resolved rest (replaceWord s repl line)
          (if replaced.contains s then replaced else replaced ++ [s])
end

def resolve (t : STab) (l : List Seg) : Except Err (List Seg) := resolveImpl t (3 * t.length + 6) [] l

/-! ## programs: definitions and uses in order -/

inductive SItem where
  | define (name : String) (text : List Seg)
  | line (text : List Seg)
deriving Repr, Inhabited

def addS (t : STab) (n : String) (v : List Seg) : Except Err STab :=
  if (t.get? n).isSome then .error .symbolRedefined else .ok (t ++ [(n, v)])

/-- expand every line with the table as of that line -/
def substProg (f : STab → List Seg → Except Err (List Seg)) : STab → List SItem → Except Err (List (List Seg))
  | _, [] => .ok []
  | t, .define n v :: rest => do let t' ← addS t n v; substProg f t' rest
  | t, .line l :: rest => do
    let e ← f t l
    let r ← substProg f t rest
    .ok (e :: r)

end BV
