/-
  C17 / C15: locating an included file in the search directories
  (`AssemblyFile._locate_filename`, `Assembler` include-directory de-duplication).
  The file system is a parameter: `present d` = "the name exists in directory `d`",
  `real d` = `os.path.realpath d`.
-/
import BespokeVerif.Model.Basic
namespace BV

/-- `_locate_filename`: iterate over the directories; the first hit is remembered, a second hit is
    the "found multiple times" error, no hit is the "could not find" error. -/
def locateLoop (present : String → Bool) : List String → Option String → Except Err (Option String)
  | [], found => .ok found
  | d :: rest, found =>
    if present d then
      match found with
      | none => locateLoop present rest (some d)
      | some _ => .error .includeError
    else locateLoop present rest found

def locate (present : String → Bool) (dirs : List String) : Except Err String :=
  match locateLoop present dirs none with
  | .ok (some d) => .ok d
  | .ok none => .error .includeError
  | .error e => .error e

/-- de-duplication by real path, keeping the LAST instance of each directory (as the code does);
    the result lists real paths -/
def dedupDirs (real : String → String) : List String → List String
  | [] => []
  | d :: rest => if rest.any (fun e => real e == real d) then dedupDirs real rest else real d :: dedupDirs real rest

end BV
