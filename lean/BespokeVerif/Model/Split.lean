/-
  Comma splitting of value lists and operand lists (`bespokeasm.utilities.split_on_commas`):
  like `str.split(',')`, except that a quoted character — three characters `'c'`, whatever `c` is,
  a comma included — is kept intact.
-/
namespace BV

/-- `cur` is the current item, reversed -/
def splitCommasAux : List Char → List Char → List (List Char)
  | cur, [] => [cur.reverse]
  | cur, '\'' :: c :: '\'' :: rest => splitCommasAux ('\'' :: c :: '\'' :: cur) rest
  | cur, ',' :: rest => cur.reverse :: splitCommasAux [] rest
  | cur, c :: rest => splitCommasAux (c :: cur) rest

def splitCommas (s : List Char) : List (List Char) := splitCommasAux [] s

/-- the reference: split at every comma -/
def splitPlain : List Char → List (List Char)
  | [] => [[]]
  | ',' :: rest => [] :: splitPlain rest
  | c :: rest =>
    match splitPlain rest with
    | [] => [[c]]
    | it :: its => (c :: it) :: its

/-- a well-tokenised item: quoted characters and other characters that are neither comma nor quote -/
inductive QSeg where
  | quoted (c : Char)
  | plain (c : Char)
deriving Repr, DecidableEq

def QSeg.ok : QSeg → Bool
  | .quoted _ => true
  | .plain c => c != ',' && c != '\''

def QSeg.render : QSeg → List Char
  | .quoted c => ['\'', c, '\'']
  | .plain c => [c]

def renderItem (it : List QSeg) : List Char := (it.map QSeg.render).flatten

def joinCommas : List (List Char) → List Char
  | [] => []
  | [x] => x
  | x :: y :: rest => x ++ ',' :: joinCommas (y :: rest)

end BV
