/-
  C01 / C12: bit packing.
  impl level : `PB` mirrors `bespokeasm.assembler.bytecode.packed_bits.PackedBits` (byte array + bit cursor),
               `getBytes` mirrors `AssembledInstruction.__init__/get_bytes`,
               `fieldOrder` mirrors `MatchedOperandSet.generate_bytecode`.
  spec level : `fieldBits`, `layout`, `specBytes`, `specOrder` read like property C01.
-/
import BespokeVerif.Model.Basic
namespace BV

/-- One bytecode part: value, bit size, byte-align flag, little-endian flag. -/
structure Field where
  value  : Int
  size   : Nat
  align  : Bool
  little : Bool
deriving Repr, DecidableEq, Inhabited

/-! ## impl level -/

/-- `PackedBits` state: `_bytes = done ++ [cur]`, `_cur_byte_idx = done.length`, `bit = _cur_bit_idx ∈ [-1,7]`. -/
structure PB where
  done : List Nat
  cur  : Nat
  bit  : Int
deriving Repr, DecidableEq

def PB.init : PB := { done := [], cur := 0, bit := 7 }

def PB.bytes (s : PB) : List Nat := s.done ++ [s.cur]

/-- inner loop body of `append_bits` for one bit -/
def PB.pushBit (s : PB) (b : Bool) : PB :=
  let s' := if s.bit < 0 then { done := s.done ++ [s.cur], cur := 0, bit := 7 } else s
  { s' with cur := s'.cur ||| (b.toNat <<< s'.bit.toNat), bit := s'.bit - 1 }

/-- `if byte_aligned and self._cur_bit_idx < 7:` start a fresh byte -/
def PB.alignIf (s : PB) (a : Bool) : PB :=
  if a && decide (s.bit < 7) then { done := s.done ++ [s.cur], cur := 0, bit := 7 } else s

/-- bits `k, k-1, …, 0` of byte `x` (`for bit_idx in range(bit_start, -1, -1)`), `cnt = k+1` of them -/
def PB.pushByteBits (s : PB) (x : Nat) : Nat → PB
  | 0 => s
  | cnt + 1 => (s.pushBit (x.testBit cnt)).pushByteBits x cnt

/-- `value.to_bytes(len, endian, signed = value < 0)` for a value in range: the `len` bytes in
    transmission order. -/
def valueBytes (v : Int) (len : Nat) (little : Bool) : List Nat :=
  if little then (List.range len).map (byteAt v) else (List.range len).reverse.map (byteAt v)

/-- the loop over `value_bytes`; `idx` counts bytes already consumed -/
def PB.pushBytes (s : PB) (size : Nat) (firstIdx : Nat) : List Nat → Nat → PB
  | [], _ => s
  | x :: xs, idx =>
    let cnt := if idx = firstIdx then (size + 7) % 8 + 1 else 8
    (s.pushByteBits x cnt).pushBytes size firstIdx xs (idx + 1)

/-- `PackedBits.append_bits` (after the range check that rejects values outside `Fits`). -/
def PB.appendBits (s : PB) (f : Field) : Except Err PB :=
  if ¬ Fits f.value f.size then .error .fieldOverflow
  else
    let len := ceil8 f.size
    let vb := valueBytes f.value len f.little
    let s1 := s.alignIf f.align
    let firstIdx := if f.little then len - 1 else 0
    .ok (s1.pushBytes f.size firstIdx vb 0)

def PB.appendAll (s : PB) : List Field → Except Err PB
  | [] => .ok s
  | f :: fs => do let s' ← s.appendBits f; s'.appendAll fs

/-- size loop of `AssembledInstruction.__init__` : total bits with alignment padding -/
def totalBits : List Field → Nat → Nat
  | [], acc => acc
  | f :: fs, acc =>
    let acc1 := if f.align && decide (acc % 8 ≠ 0) then acc + (8 - acc % 8) else acc
    totalBits fs (acc1 + f.size)

def byteSizeOf (fs : List Field) : Nat := ceil8 (totalBits fs 0)

/-- `AssembledInstruction.get_bytes`: `none` models the `return None` on a length mismatch. -/
def getBytes (fs : List Field) : Except Err (Option (List Nat)) := do
  let s ← PB.init.appendAll fs
  let bs := s.bytes
  if bs.length ≠ byteSizeOf fs then .ok none else .ok (some bs)

/-! ## spec level -/

/-- the `n` bits of `v` in the order they are transmitted -/
def fieldBits (v : Int) (n : Nat) (little : Bool) : List Bool :=
  if little then
    let len := ceil8 n
    ((List.range (len - 1)).flatMap fun j => (List.range 8).reverse.map fun b => bitAt v (8 * j + b))
      ++ (List.range (n - 8 * (len - 1))).reverse.map fun b => bitAt v (8 * (len - 1) + b)
  else (List.range n).reverse.map (bitAt v)

/-- zero padding up to the next multiple of 8 -/
def padTo8 (bits : List Bool) : List Bool :=
  bits ++ List.replicate ((8 - bits.length % 8) % 8) false

/-- the bit string of a field list: concatenation, aligned fields start on a byte boundary -/
def layout : List Field → List Bool → List Bool
  | [], acc => acc
  | f :: fs, acc =>
    layout fs ((if f.align then padTo8 acc else acc) ++ fieldBits f.value f.size f.little)

def bitsToNat : List Bool → Nat
  | [] => 0
  | b :: bs => b.toNat * 2 ^ bs.length + bitsToNat bs

/-- chop a bit string (length a multiple of 8) into bytes, MSB first; fuel = length -/
def pack8 : Nat → List Bool → List Nat
  | 0, _ => []
  | _, [] => []
  | fuel + 1, bits => bitsToNat (bits.take 8) :: pack8 fuel (bits.drop 8)

def specBytes (fs : List Field) : List Nat :=
  let bits := padTo8 (layout fs [])
  pack8 bits.length bits

/-! ## field order (`MatchedOperandSet.generate_bytecode`) -/

inductive CodePos where | prefix | suffix
deriving Repr, DecidableEq, Inhabited

/-- what one matched operand contributes -/
structure OpParts where
  code : Option (Field × CodePos)
  arg  : Option Field
deriving Repr

/-- impl: literal transcription (`insert(0, …)` for prefixes, reversals, suffix, arguments) -/
def fieldOrder (ops : List OpParts) (opcode : Field) (opSuffix : Option Field)
    (revArgs revCodes : Bool) : List Field :=
  let suffixCodes := ops.filterMap fun o => match o.code with
    | some (f, .suffix) => some f | _ => none
  let prefixCodes := ops.foldl (fun acc o => match o.code with
    | some (f, .prefix) => f :: acc | _ => acc) []
  let suffixCodes := if revCodes then suffixCodes.reverse else suffixCodes
  let prefixCodes := if revCodes then prefixCodes.reverse else prefixCodes
  let args := ops.filterMap (·.arg)
  let args := if revArgs then args.reverse else args
  prefixCodes ++ [opcode] ++ suffixCodes ++ opSuffix.toList ++ args

/-- spec: the documented order, group by group -/
def prefixGroup (ops : List OpParts) : List Field :=
  (ops.filterMap fun o => match o.code with | some (f, .prefix) => some f | _ => none).reverse
def suffixGroup (ops : List OpParts) : List Field :=
  ops.filterMap fun o => match o.code with | some (f, .suffix) => some f | _ => none
def argGroup (ops : List OpParts) : List Field := ops.filterMap (·.arg)

def specOrder (ops : List OpParts) (opcode : Field) (opSuffix : Option Field)
    (revArgs revCodes : Bool) : List Field :=
  let r (b : Bool) (l : List Field) := if b then l.reverse else l
  r revCodes (prefixGroup ops) ++ [opcode] ++ r revCodes (suffixGroup ops) ++ opSuffix.toList
    ++ r revArgs (argGroup ops)

/-- `CompositeByteCodePart.get_value`: pack the parts, read the bytes back in the part's byte order,
    drop the padding bits. -/
def fromBytes (bs : List Nat) (little : Bool) : Nat :=
  let l := if little then bs.reverse else bs
  l.foldl (fun acc b => acc * 256 + b) 0

def compositeValue (parts : List (Int × Nat)) (little : Bool) : Except Err Int := do
  let s ← PB.init.appendAll (parts.map fun (v, n) => { value := v, size := n, align := false, little := little })
  let total := parts.foldl (fun a p => a + p.2) 0
  let v := fromBytes s.bytes little
  .ok (Int.ofNat (if total % 8 ≠ 0 then v >>> (8 - total % 8) else v))

end BV
