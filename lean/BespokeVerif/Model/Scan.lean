/-
  C18: surface syntax.  A hand-written scanner for the generated statement language (labels,
  instructions with register / number / identifier / bracketed operands, numeric data directives):
  `tokenize` (whitespace, comments), `splitStmts` (statement boundaries on a line: a label ends at
  its colon, an instruction ends where the next mnemonic starts), `canonLine` (case folding of
  mnemonics and registers).  The real code uses Python regular expressions for all this; the
  scanner is a model of them, tied to the code only by the differential runs.
-/
import BespokeVerif.Model.Expr
namespace BV

/-- single-character punctuation tokens -/
def isPunct (c : Char) : Bool := c == ',' || c == '[' || c == ']' || c == '+' || c == '-' || c == ':' || c == '(' || c == ')' || c == '*'

/-- characters of word tokens: identifiers, numbers, directive names (leading '.', '$', '%', '#', '_') -/
def isTokChar (c : Char) : Bool := isWordChar c || c == '.' || c == '$' || c == '%' || c == '#'

/-- quote characters: a quoted literal ('c' or "text") is one token; `;`, `,`, `:` and blanks inside
    it are ordinary characters (`LineOjectFactory.PATTERN_INSTRUCTION_CONTENT` since fix 87bced4) -/
def isQuote (c : Char) : Bool := c == '"' || c == '\''

/-- scanner mode: `none` = between / inside plain tokens; `some (q, esc)` = inside a literal opened by
    `q`, `esc` = the previous character was a backslash -/
abbrev QMode := Option (Char × Bool)

/-- tokens of one source line: the text up to the first `;` outside a quoted literal, split at
    blanks, punctuation separate, quoted literals whole (an unterminated literal runs to the end) -/
def tokenizeAux : QMode → List Char → List Char → List String → List String
  | _, [], cur, acc => (if cur.isEmpty then acc else String.ofList cur.reverse :: acc).reverse
  | none, c :: rest, cur, acc =>
    let flush := if cur.isEmpty then acc else String.ofList cur.reverse :: acc
    if c == ';' then flush.reverse
    else if isQuote c then tokenizeAux (some (c, false)) rest [c] flush
    else if isSpaceChar c then tokenizeAux none rest [] flush
    else if isPunct c then tokenizeAux none rest [] (String.ofList [c] :: flush)
    else tokenizeAux none rest (c :: cur) acc
  | some (q, esc), c :: rest, cur, acc =>
    if esc then tokenizeAux (some (q, false)) rest (c :: cur) acc
    else if c == '\\' then tokenizeAux (some (q, true)) rest (c :: cur) acc
    else if c == q then tokenizeAux none rest [] (String.ofList (c :: cur).reverse :: acc)
    else tokenizeAux (some (q, false)) rest (c :: cur) acc

def tokenize (line : List Char) : List String := tokenizeAux none line [] []

/-- vocabulary: mnemonics and registers, lower case -/
structure Vocab where
  mnemonics : List String
  registers : List String
deriving Repr, Inhabited

def Vocab.isMnemonic (v : Vocab) (t : String) : Bool := v.mnemonics.contains t.toLower
def Vocab.isRegister (v : Vocab) (t : String) : Bool := v.registers.contains t.toLower

/-- letter case of mnemonics and register names carries no meaning -/
def directiveWords : List String :=
  [".byte", ".2byte", ".4byte", ".8byte", ".org", ".fill", ".zero", ".zerountil", ".align", ".memzone", ".cstr", ".asciiz"]

def canonTok (v : Vocab) (t : String) : String := if v.isMnemonic t || v.isRegister t then t.toLower else t

/-- statements of one line: `name :` is a label statement; an instruction or directive statement
    runs until the next mnemonic / directive word or the end of the line -/
def splitStmts (v : Vocab) : List String → List String → List (List String) → List (List String)
  | [], cur, acc => (if cur.isEmpty then acc else cur.reverse :: acc).reverse
  | t :: ":" :: rest', cur, acc =>
    -- a label ends the statement before it and is a statement of its own
    if cur.isEmpty then splitStmts v rest' [] ([t, ":"] :: acc)
    else splitStmts v rest' [] ([t, ":"] :: cur.reverse :: acc)
  | t :: rest, cur, acc =>
    if (v.isMnemonic t || directiveWords.contains t.toLower) && !cur.isEmpty && !(cur.head? == some "[") && !(cur.head? == some "+")
        && !(cur.head? == some ",")
    then splitStmts v rest [canonTok v t] (cur.reverse :: acc)
    else splitStmts v rest (canonTok v t :: cur) acc

/-- the statements of a whole program: blank and comment-only lines contribute nothing -/
def scanProgram (v : Vocab) (lines : List (List Char)) : List (List String) :=
  lines.flatMap fun l => splitStmts v (tokenize l) [] []

/-- rendering of a token list with given gaps: `gaps[i]` is put after token `i` -/
def joinToks : List String → List (List Char) → List Char
  | [], _ => []
  | t :: ts, g :: gs => t.toList ++ g ++ joinToks ts gs
  | t :: ts, [] => t.toList ++ ' ' :: joinToks ts []

/-- canonical text of a statement: single blanks between tokens -/
def stmtText (toks : List String) : String :=
  match toks with
  | [name, ":"] => name ++ ":"          -- the colon belongs to the label
  | _ => String.intercalate " " toks

end BV
