/-
  C07: numeric expressions.
  `lexExpr`   mirrors `_lexical_analysis` (the alternation order of EXPRESSION_PARTS_PATTERN and the
              classification of each part), over ASCII text;
  `parseExpr` mirrors the recursive-descent levels `_parse_e … _parse_e4` (fuel-indexed; the entry
              point supplies enough fuel, see `Props/C07.lean`);
  `evalE`     mirrors `ExpressionNode._compute` with exact rational `/` and `%`;
  spec level: `Gram` (stratified grammar), `pp` (minimal-parenthesis printer), `byteAt`.
-/
import BespokeVerif.Model.Basic
namespace BV

inductive BinOp where
  | add | sub | mul | div | mod | shl | shr | band | bor | bxor
deriving Repr, DecidableEq, Inhabited

/-- precedence level of a binary operator: 0 = `& | ^`, 1 = `<< >>`, 2 = `+ -`, 3 = `* / %` -/
def BinOp.level : BinOp → Nat
  | .band | .bor | .bxor => 0
  | .shl | .shr => 1
  | .add | .sub => 2
  | .mul | .div | .mod => 3

inductive E where
  | num (n : Int)
  | label (s : String)
  | neg (e : E)
  | byteN (k : Nat) (e : E)
  | bin (op : BinOp) (l r : E)
deriving Repr, DecidableEq, Inhabited

inductive Tok where
  | num (n : Int)
  | label (s : String)
  | op (o : BinOp)          -- `.sub` doubles as unary minus
  | lpar | rpar
  | byteFn (k : Nat)        -- `LSB(` = `BYTE0(`; the token includes the parenthesis
deriving Repr, DecidableEq, Inhabited

/-! ## lexer (impl level; modelled, validated by the correspondence) -/

def isHexDigit (c : Char) : Bool := c.isDigit || ('a' ≤ c && c ≤ 'f') || ('A' ≤ c && c ≤ 'F')
def isWordChar (c : Char) : Bool := c.isAlphanum || c == '_'
def isBinDigit (c : Char) : Bool := c == '0' || c == '1'
def isSpaceChar (c : Char) : Bool := c == ' ' || c == '\t'

def hexVal (c : Char) : Nat :=
  if c.isDigit then c.toNat - '0'.toNat
  else if 'a' ≤ c && c ≤ 'f' then c.toNat - 'a'.toNat + 10
  else c.toNat - 'A'.toNat + 10

def digitsVal (base : Nat) (cs : List Char) : Nat := cs.foldl (fun acc c => acc * base + hexVal c) 0

/-- classification of a part matched by the identifier alternative `(?:\.|_)?\w+` -/
def classifyIdent (p : List Char) : Except Err Tok :=
  let lower := p.map Char.toLower
  if p.take 4 == ['B', 'Y', 'T', 'E'] then
    -- `part.startswith('BYTE')` → T_BYTE, index = int(value[4])
    match p.drop 4 with
    | d :: _ => if d.isDigit then .ok (.byteFn (d.toNat - '0'.toNat)) else .error .badExpression
    | [] => .error .badExpression
  else
    -- is_string_numeric (IGNORECASE) says numeric, parse_numeric_string (case sensitive) then fails
    let hexH := lower.length ≥ 2 && lower.getLast? == some 'h' && lower.dropLast.all isHexDigit
    let binB := lower.length ≥ 2 && lower.head? == some 'b' && (lower.drop 1).all isBinDigit
    if hexH || binB then .error .badExpression
    else
      -- is_valid_label: ^(?!__|\.\.)(?:(?:\.|_|[a-zA-Z])[a-zA-Z0-9_]*)$
      match p with
      | [] => .error .badExpression
      | c :: rest =>
        let startOk := c == '.' || c == '_' || c.isAlpha
        let restOk := rest.all fun d => d.isAlphanum || d == '_'
        let dbl := (p.take 2 == ['_', '_']) || (p.take 2 == ['.', '.'])
        if startOk && restOk && !dbl then .ok (.label (String.ofList p)) else .error .badExpression

def opOfChar (c : Char) : Option Tok :=
  match c with
  | '+' => some (.op .add) | '-' => some (.op .sub) | '*' => some (.op .mul) | '/' => some (.op .div)
  | '&' => some (.op .band) | '|' => some (.op .bor) | '^' => some (.op .bxor)
  | '(' => some .lpar | ')' => some .rpar
  | _ => none

/-- one step of `re.findall` at the head of `cs`: the token and the remaining text, `none` when no
    alternative matches at this position -/
def lexStep (cs : List Char) : Option (Except Err Tok × List Char) :=
  match cs with
  | [] => none
  | c :: rest =>
    -- 1. (?:\%|b)[01]+
    if (c == '%' || c == 'b') && (rest.head?.map isBinDigit).getD false then
      let ds := rest.takeWhile isBinDigit
      some (.ok (.num (digitsVal 2 ds)), rest.dropWhile isBinDigit)
    -- 2a. (?:\$|0x)[0-9a-fA-F]+
    else if c == '$' && (rest.head?.map isHexDigit).getD false then
      let ds := rest.takeWhile isHexDigit
      some (.ok (.num (digitsVal 16 ds)), rest.dropWhile isHexDigit)
    else if c == '0' && rest.head? == some 'x' && ((rest.drop 1).head?.map isHexDigit).getD false then
      let r2 := rest.drop 1
      let ds := r2.takeWhile isHexDigit
      some (.ok (.num (digitsVal 16 ds)), r2.dropWhile isHexDigit)
    -- 2b. [0-9a-fA-F]+H\b
    else if isHexDigit c
        && (cs.dropWhile isHexDigit).head? == some 'H'
        && !(((cs.dropWhile isHexDigit).drop 1).head?.map isWordChar).getD false then
      let ds := cs.takeWhile isHexDigit
      some (.ok (.num (digitsVal 16 ds)), (cs.dropWhile isHexDigit).drop 1)
    -- 3. \d+
    else if c.isDigit then
      let ds := cs.takeWhile Char.isDigit
      some (.ok (.num (digitsVal 10 ds)), cs.dropWhile Char.isDigit)
    -- 4. single-character operators and parentheses
    else if let some t := opOfChar c then some (.ok t, rest)
    -- 5. >> << %
    else if c == '>' && rest.head? == some '>' then some (.ok (.op .shr), rest.drop 1)
    else if c == '<' && rest.head? == some '<' then some (.ok (.op .shl), rest.drop 1)
    else if c == '%' then some (.ok (.op .mod), rest)
    -- 6. LSB(  BYTE\d(
    else if cs.take 4 == ['L', 'S', 'B', '('] then some (.ok (.byteFn 0), cs.drop 4)
    else if cs.take 4 == ['B', 'Y', 'T', 'E'] && ((cs.drop 4).head?.map Char.isDigit).getD false
        && (cs.drop 5).head? == some '(' then
      some (.ok (.byteFn (((cs.drop 4).head?.getD '0').toNat - '0'.toNat)), cs.drop 6)
    -- 7. (?:\.|_)?\w+
    else if c == '.' && (rest.head?.map isWordChar).getD false then
      let w := rest.takeWhile isWordChar
      some (classifyIdent (c :: w), rest.dropWhile isWordChar)
    else if isWordChar c then
      let w := cs.takeWhile isWordChar
      some (classifyIdent w, cs.dropWhile isWordChar)
    -- 8. '.'
    else if c == '\'' && (rest.drop 1).head? == some '\'' && rest.head?.isSome then
      some (.ok (.num ((rest.head?.getD ' ').toNat)), rest.drop 2)
    -- 9. [><]  (never classified: "invalid token")
    else if c == '>' || c == '<' then some (.error .badExpression, rest)
    else none

/-- the whole lexer: `fuel` ≥ length of the text -/
def lexLoop : Nat → List Char → Except Err (List Tok)
  | 0, [] => .ok []
  | 0, _ => .error .outOfFuel
  | fuel + 1, cs =>
    match cs with
    | [] => .ok []
    | c :: rest =>
      match lexStep cs with
      | some (.ok t, rest') => do let ts ← lexLoop fuel rest'; .ok (t :: ts)
      | some (.error e, _) => .error e
      | none => if isSpaceChar c then lexLoop fuel rest else .error .badExpression

def lexExpr (s : List Char) : Except Err (List Tok) := lexLoop (s.length + 1) s

/-! ## parser (impl level) -/

/-- is the head token a binary operator of level `lvl`? -/
def headOp (lvl : Nat) : List Tok → Option BinOp
  | .op o :: _ => if o.level = lvl then some o else none
  | _ => none

mutual
/-- `_parse_e` (lvl 0) … `_parse_e3` (lvl 3), `_parse_e4` (lvl ≥ 4) -/
def parseLevel : Nat → Nat → List Tok → Except Err (E × List Tok)
  | 0, _, _ => .error .outOfFuel
  | fuel + 1, lvl, ts =>
    if lvl < 4 then do
      let (l, rest) ← parseLevel fuel (lvl + 1) ts
      parseLoop fuel lvl l rest
    else
      match ts with
      | .num n :: rest => .ok (.num n, rest)
      | .label s :: rest => .ok (.label s, rest)
      | .byteFn k :: rest => do
        let (e, rest') ← parseLevel fuel 0 rest
        match rest' with
        | .rpar :: rest'' => .ok (.byteN k e, rest'')
        | _ => .error .badExpression
      | .op .sub :: rest => do
        let (e, rest') ← parseLevel fuel 4 rest
        .ok (.neg e, rest')
      | .lpar :: rest => do
        let (e, rest') ← parseLevel fuel 0 rest
        match rest' with
        | .rpar :: rest'' => .ok (e, rest'')
        | _ => .error .badExpression
      | _ => .error .badExpression
/-- the `while tokens[0] in <operators of this level>` loop -/
def parseLoop : Nat → Nat → E → List Tok → Except Err (E × List Tok)
  | 0, _, _, _ => .error .outOfFuel
  | fuel + 1, lvl, left, ts =>
    match headOp lvl ts with
    | some o => do
      let (r, rest) ← parseLevel fuel (lvl + 1) (ts.drop 1)
      parseLoop fuel lvl (.bin o left r) rest
    | none => .ok (left, ts)
end

def parseFuel (ts : List Tok) : Nat := 6 * ts.length + 10

/-- `parse_expression`: parse at the lowest level, then demand the end of input -/
def parseExpr (ts : List Tok) : Except Err E :=
  match parseLevel (parseFuel ts) 0 ts with
  | .ok (e, []) => .ok e
  | .ok (_, _ :: _) => .error .badExpression
  | .error e => .error e

/-! ## evaluation -/

/-- truncation toward zero (`int(Fraction)`) -/
def truncQ (q : Rat) : Int := Int.tdiv q.num q.den

def natLand (a b : Nat) : Nat := a &&& b
/-- bitwise operations on integers in infinite two's complement (Python semantics) -/
def intAnd (a b : Int) : Int :=
  match a, b with
  | .ofNat m, .ofNat n => Int.ofNat (m &&& n)
  | .ofNat m, .negSucc n => Int.ofNat (m - (m &&& n))
  | .negSucc m, .ofNat n => Int.ofNat (n - (n &&& m))
  | .negSucc m, .negSucc n => .negSucc (m ||| n)
def intOr (a b : Int) : Int :=
  match a, b with
  | .ofNat m, .ofNat n => Int.ofNat (m ||| n)
  | .ofNat m, .negSucc n => .negSucc (n - (n &&& m))
  | .negSucc m, .ofNat n => .negSucc (m - (m &&& n))
  | .negSucc m, .negSucc n => .negSucc (m &&& n)
def intXor (a b : Int) : Int :=
  match a, b with
  | .ofNat m, .ofNat n => Int.ofNat (m ^^^ n)
  | .ofNat m, .negSucc n => .negSucc (m ^^^ n)
  | .negSucc m, .ofNat n => .negSucc (m ^^^ n)
  | .negSucc m, .negSucc n => Int.ofNat (m ^^^ n)

def applyBin (op : BinOp) (l r : Rat) : Except Err Rat :=
  match op with
  | .add => .ok (l + r)
  | .sub => .ok (l - r)
  | .mul => .ok (l * r)
  | .div => if r = 0 then .error .divZero else .ok (l / r)
  | .mod => if r = 0 then .error .divZero else .ok (l - r * ((l / r).floor : Int))
  | .shl => let a := truncQ l; let n := truncQ r
            if n < 0 then .error .badExpression else .ok ((a * (2 : Int) ^ n.toNat : Int) : Rat)
  | .shr => let a := truncQ l; let n := truncQ r
            if n < 0 then .error .badExpression else .ok ((a / (2 : Int) ^ n.toNat : Int) : Rat)
  | .band => .ok ((intAnd (truncQ l) (truncQ r) : Int) : Rat)
  | .bor => .ok ((intOr (truncQ l) (truncQ r) : Int) : Rat)
  | .bxor => .ok ((intXor (truncQ l) (truncQ r) : Int) : Rat)

def evalE (env : String → Option Int) : E → Except Err Rat
  | .num n => .ok (n : Rat)
  | .label s => match env s with | some v => .ok (v : Rat) | none => .error .unresolvedLabel
  | .neg e => do let v ← evalE env e; .ok (-v)
  | .byteN k e => do let v ← evalE env e; .ok ((byteAt (truncQ v) k : Nat) : Rat)
  | .bin op l r => do
    let a ← evalE env l
    let b ← evalE env r
    applyBin op a b

/-- `ExpressionNode.get_value` -/
def valueE (env : String → Option Int) (e : E) : Except Err Int := do
  let q ← evalE env e
  .ok (truncQ q)

/-- impl of `BYTEn`: `byte_count = max(⌈bitlen|x|/8⌉, n+1)`, mask, little-endian byte `n` -/
def byteNImpl (x : Int) (n : Nat) : Nat :=
  let bitlen := if x.natAbs = 0 then 0 else Nat.log2 x.natAbs + 1
  let bc := max ((bitlen + 7) / 8) (n + 1)
  let masked := (x % (2 : Int) ^ (8 * bc)).toNat
  (masked / 256 ^ n) % 256

/-- text → value -/
def evalText (env : String → Option Int) (s : List Char) : Except Err Int := do
  let ts ← lexExpr s
  let e ← parseExpr ts
  valueE env e

/-! ## spec level: the stratified grammar and the printer -/

/-- `Gram lvl ts e`: token list `ts` derives tree `e` at precedence level `lvl`
    (0 = `& | ^` … 3 = `* / %`, 4 = unary / atoms). Each level is left-associative. -/
inductive Gram : Nat → List Tok → E → Prop where
  | up {lvl ts e} : lvl < 4 → Gram (lvl + 1) ts e → Gram lvl ts e
  | bin {lvl o ts₁ ts₂ l r} : lvl < 4 → o.level = lvl → Gram lvl ts₁ l → Gram (lvl + 1) ts₂ r →
      Gram lvl (ts₁ ++ [.op o] ++ ts₂) (.bin o l r)
  | num {n} : Gram 4 [.num n] (.num n)
  | label {s} : Gram 4 [.label s] (.label s)
  | neg {ts e} : Gram 4 ts e → Gram 4 (.op .sub :: ts) (.neg e)
  | byteN {k ts e} : Gram 0 ts e → Gram 4 (.byteFn k :: ts ++ [.rpar]) (.byteN k e)
  | paren {ts e} : Gram 0 ts e → Gram 4 (.lpar :: ts ++ [.rpar]) e

/-- level at which a tree can be printed without parentheses -/
def E.level : E → Nat
  | .bin o _ _ => o.level
  | _ => 4

/-- minimal-parenthesis printer: print `e` so that it parses at level `lvl` -/
def ppAt : E → Nat → List Tok
  | .num n, _ => [.num n]
  | .label s, _ => [.label s]
  | .neg e, _ => .op .sub :: ppAt e 4
  | .byteN k e, _ => .byteFn k :: ppAt e 0 ++ [.rpar]
  | .bin o l r, lvl =>
    let body := ppAt l o.level ++ [.op o] ++ ppAt r (o.level + 1)
    if o.level < lvl then .lpar :: body ++ [.rpar] else body

def pp (e : E) : List Tok := ppAt e 0

end BV
