/-
  C14: the outermost layer — a compile run maps a file system to a file system and writes the
  image only when assembly succeeded (`Assembler.assemble_bytecode`: every error is raised before
  `open(output, 'wb')`).
-/
import BespokeVerif.Model.Layout
namespace BV

structure FS where
  files : List (String × List Nat)
deriving Repr, Inhabited

def FS.read (fs : FS) (name : String) : Option (List Nat) := (fs.files.find? (·.1 == name)).map (·.2)
def FS.write (fs : FS) (name : String) (data : List Nat) : FS :=
  { files := (name, data) :: fs.files.filter (fun f => !(f.1 == name)) }

/-- exit status (true = success) and the resulting file system -/
def runCompile (cfg : Cfg) (files : List (List Stmt)) (start : Int) (stop : Option Int) (fill : Nat)
    (out : String) (fs : FS) : Bool × FS :=
  match assemble cfg files start stop fill with
  | .ok o => (true, fs.write out o.image)
  | .error _ => (false, fs)

end BV
