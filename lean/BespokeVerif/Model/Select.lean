/-
  C13 (and the operand→field mapping used by C01/C10/C12): which operand alternative and which
  instruction variant a statement selects.
  `accepts`       mirrors each `operand/types/*.py::parse_operand` on syntactic operand forms;
  `matchSet`      mirrors `OperandSet.parse_operand` (alternatives stably sorted by type rank);
  `matchVariant`  mirrors `OperandParser.find_matching_operands` (specific operands, then sets with
                  disallowed pairs); `selectVariant` mirrors the variant loop.
-/
import BespokeVerif.Model.Instr
import BespokeVerif.Model.Expr
namespace BV

/-- syntactic shape of one comma-separated operand text -/
inductive Form where
  | plain (e : E)          -- no brackets or braces
  | ind (e : E)            -- [ e ]
  | ind2 (e : E)           -- [[ e ]]
  | curly (e : E)          -- { e }
  | deco (pre : String) (r : String) (post : String)   -- decorated register: +r  r++  @r …  (exactly one side non-empty)
  | indDeco (pre : String) (e : E) (post : String)      -- decorated bracket form
deriving Repr, Inhabited

/-- constraint kind attached to a value (see `ValSrc`) -/
inductive CKind where
  | plain
  | ranged (min max : Option Int)
  | zone (zs ze : Int)
  | enum (dict : List (Int × Int))
  | rel (fromEnd : Bool) (min max : Option Int) (zs ze : Int)
  | sliced (zs ze : Int)
deriving Repr, Inhabited

def CKind.toSrc (k : CKind) (v : Int) : ValSrc :=
  match k with
  | .plain => .plain v
  | .ranged mn mx => .ranged v mn mx
  | .zone zs ze => .inZone v zs ze
  | .enum d => .enum v d
  | .rel fe mn mx zs ze => .rel v fe mn mx zs ze
  | .sliced zs ze => .sliced v zs ze

/-- a field whose value is an expression still to be evaluated -/
structure FieldSpec where
  e : E
  kind : CKind
  size : Nat
  align : Bool
  little : Bool
  pre : Option (Int × Nat) := none   -- composite code: constant high part (value, bits) packed in front
deriving Repr, Inhabited

structure ParsedOp where
  id : String
  code : Option (FieldSpec × CodePos)
  arg : Option FieldSpec
deriving Repr, Inhabited

structure CodeCfg where
  value : Int
  size : Nat
  pos : CodePos
deriving Repr, Inhabited

structure ArgCfg where
  size : Nat
  align : Bool
  little : Bool
deriving Repr, Inhabited

/-- index operands of (indirect) indexed register operands -/
inductive IdxCfg where
  | numeric (code : Option CodeCfg) (arg : ArgCfg)
  | register (r : String) (code : Option CodeCfg)
  | numBytecode (size : Nat) (min max : Int)
deriving Repr, Inhabited

inductive OperandCfg where
  | numeric (code : Option CodeCfg) (arg : ArgCfg) (validAddr : Bool)
  | address (code : Option CodeCfg) (arg : ArgCfg) (zs ze : Int) (sliced : Bool)
  | relAddr (code : Option CodeCfg) (arg : ArgCfg) (min max : Option Int) (fromEnd : Bool) (curly : Bool)
  | numBytecode (size : Nat) (pos : CodePos) (min max : Int)
  | numEnum (code : Option (Nat × CodePos × List (Int × Int))) (arg : Option (ArgCfg × List (Int × Int)))
  | enumeration (code : Option (Nat × CodePos × List (String × Int))) (arg : ArgCfg) (argDict : List (String × Int))
  | register (r : String) (code : Option CodeCfg) (decoPre decoPost : String)
  | indReg (r : String) (code : Option CodeCfg) (offset : Option ArgCfg) (decoPre decoPost : String)
  | indNum (code : Option CodeCfg) (arg : ArgCfg)
  | defNum (code : Option CodeCfg) (arg : ArgCfg)
  | idxReg (r : String) (code : Option CodeCfg) (idx : List (String × IdxCfg))
  | indIdxReg (r : String) (code : Option CodeCfg) (idx : List (String × IdxCfg))
  | empty (code : Option CodeCfg)
deriving Repr, Inhabited

/-- the leftmost atom of an expression reached through left operands of binary operators only (the
    text in front of the first operator), with the operator that joins it to the rest -/
def leftAtom : E → Option (String × BinOp)
  | .bin o (.label s) _ => some (s, o)
  | .bin _ l _ => leftAtom l
  | _ => none

/-- the same expression with that atom replaced by 0: `[sp - 6 + 2]` has the offset `0 - 6 + 2`
    (`IndirectRegisterOperand.parse_operand` prepends `0` to the text behind the register) -/
def zeroLeft : E → E
  | .bin o (.label _) r => .bin o (.num 0) r
  | .bin o l r => .bin o (zeroLeft l) r
  | e => e

/-- `OperandType` values: the sort key inside an operand set -/
def OperandCfg.rank : OperandCfg → Nat
  | .empty _ => 1
  | .indReg .. => 2
  | .indIdxReg .. => 3
  | .indNum .. => 4
  | .defNum .. => 5
  | .idxReg .. => 6
  | .enumeration .. => 7
  | .numEnum .. => 7
  | .register .. => 8
  | .numeric .. => 9
  | .address .. => 10
  | .relAddr .. => 11
  | .numBytecode .. => 12

def IdxCfg.rank : IdxCfg → Nat
  | .register .. => 8
  | .numeric .. => 9
  | .numBytecode .. => 12

/-- result of offering a text to one operand type -/
inductive Acc (α : Type) where
  | ok (a : α)
  | decline            -- `return None`: the next alternative is tried
  | hard               -- `sys.exit` / uncaught exception: the whole assembly fails
deriving Repr, Inhabited

def labelsOf : E → List String
  | .num _ => []
  | .label s => [s]
  | .neg e => labelsOf e
  | .byteN _ e => labelsOf e
  | .bin _ l r => labelsOf l ++ labelsOf r

def hasReg (regs : List String) (e : E) : Bool := (labelsOf e).any (isRegName regs)

/-- characters allowed inside `[ … ]` of the numeric bracket forms: only + - ( ) and atoms -/
def bracketOk : E → Bool
  | .num _ => true
  | .label _ => true
  | .neg e => bracketOk e
  | .byteN _ e => bracketOk e
  | .bin o l r => (o == .add || o == .sub) && bracketOk l && bracketOk r

def eqIgnoreCase (a b : String) : Bool := a.toLower == b.toLower

def codeField (c : CodeCfg) : FieldSpec × CodePos :=
  ({ e := .num c.value, kind := .plain, size := c.size, align := false, little := false }, c.pos)

def argField (a : ArgCfg) (e : E) (k : CKind) : FieldSpec :=
  { e := e, kind := k, size := a.size, align := a.align, little := a.little }

/-- numeric-like acceptance of an expression: decline on brackets (by form) and on register names -/
def acceptNumericE (regs : List String) (e : E) : Bool := !hasReg regs e

/-- index operand alternatives of an indexed register operand, on the text after `R +` -/
def acceptIdx (regs : List String) (_gz : Int × Int) (_id : String) (c : IdxCfg) (e : E) :
    Acc (Option (FieldSpec) × Option FieldSpec) :=
  match c with
  | .numeric code arg =>
    if hasReg regs e then .decline
    else .ok (code.map (fun c => (codeField c).1), some (argField arg e .plain))
  | .register r code =>
    match e with
    | .label s => if eqIgnoreCase s r then .ok (code.map (fun c => (codeField c).1), none) else .decline
    | _ => .decline
  | .numBytecode size mn mx =>
    if hasReg regs e then .decline
    else .ok (some { e := e, kind := .ranged (some mn) (some mx), size := size, align := false, little := false }, none)

/-- insertion sort by rank: stable -/
def insertByRank {α : Type} (rank : α → Nat) (x : α) : List α → List α
  | [] => [x]
  | y :: ys => if rank x < rank y then x :: y :: ys else y :: insertByRank rank x ys

def sortByRank {α : Type} (rank : α → Nat) (l : List α) : List α := l.foldr (fun x acc => insertByRank' rank x acc) []
where insertByRank' (rank : α → Nat) (x : α) : List α → List α
  | [] => [x]
  | y :: ys => if rank x ≤ rank y then x :: y :: ys else y :: insertByRank' rank x ys

def firstIdx (regs : List String) (gz : Int × Int) (e : E) :
    List (String × IdxCfg) → Acc (Option FieldSpec × Option FieldSpec)
  | [] => .decline
  | (id, c) :: rest =>
    match acceptIdx regs gz id c e with
    | .ok r => .ok r
    | .hard => .hard
    | .decline => firstIdx regs gz e rest

/-- composite operand code of an indexed register: register code bits followed by the index code
    bits, as one big-endian field (`CompositeByteCodePart`) -/
def compositeCode (rc : Option CodeCfg) (ic : Option FieldSpec) (pos : CodePos) : Option (FieldSpec × CodePos) :=
  let (rv, rn) : Int × Nat := match rc with | some c => (c.value, c.size) | none => (0, 0)
  match ic with
  | none => some ({ e := .num rv, kind := .plain, size := rn, align := false, little := false }, pos)
  | some i => some ({ i with pre := some (rv, rn), align := false, little := false }, pos)

/-- `IndirectRegisterOperand.parse_operand` on the text between the brackets: the register alone, or
    the register followed by a sign and an offset expression -/
def acceptIndReg (regs : List String) (id r : String) (code : Option CodeCfg) (off : Option ArgCfg) (e : E) :
    Acc ParsedOp :=
  match e with
  | .label s =>
    if eqIgnoreCase s r then
      .ok { id := id, code := code.map codeField,
            arg := off.map fun a => argField a (.num 0) .plain }
    else .decline
  | .bin o (.label s) rest =>
    if (o == .add || o == .sub) && eqIgnoreCase s r then
      match off with
      | none => .hard       -- "An offset was provided … when none was expected"
      | some a =>
        let oe := if o == .sub then E.bin .sub (.num 0) rest else rest
        if hasReg regs oe then .decline
        else .ok { id := id, code := code.map codeField, arg := some (argField a oe .plain) }
    else .decline
  | .bin o₂ l₂ r₂ =>
    -- further terms behind the first one: `[sp - 6 + 2]` — the offset is all the text behind the
    -- register with `0` in the register's place, evaluated as one expression
    match leftAtom (.bin o₂ l₂ r₂) with
    | some (s, o) =>
      if (o == .add || o == .sub) && eqIgnoreCase s r then
        match off with
        | none => .hard
        | some a =>
          let oe := zeroLeft (.bin o₂ l₂ r₂)
          if hasReg regs oe then .decline
          else .ok { id := id, code := code.map codeField, arg := some (argField a oe .plain) }
      else .decline
    | none => .decline
  | _ => .decline


/-- one operand type offered one operand form -/
def accepts (regs : List String) (gz : Int × Int) (id : String) (c : OperandCfg) (f : Form) : Acc ParsedOp :=
  match c, f with
  | .register r code pre post, .plain (.label s) =>
    if pre == "" && post == "" && eqIgnoreCase s r then .ok { id := id, code := code.map codeField, arg := none } else .decline
  | .register r code pre post, .deco p s q =>
    if p == pre && q == post && eqIgnoreCase s r && !(pre == "" && post == "") then
      .ok { id := id, code := code.map codeField, arg := none } else .decline
  | .register .., _ => .decline
  | .indReg r code off pre post, .ind e =>
    -- an operand configured with a decorator matches the decorated spelling only, and vice versa
    if pre == "" && post == "" then acceptIndReg regs id r code off e else .decline
  | .indReg r code off pre post, .indDeco p e q =>
    if !(pre == "" && post == "") && p == pre && q == post then acceptIndReg regs id r code off e else .decline
  | .indReg .., _ => .decline
  | .indIdxReg r code idx, .ind (.bin .add (.label s) i) =>
    if s == r then
      match firstIdx regs gz i (sortByRank (fun x => x.2.rank) idx) with
      | .ok (ic, ia) => .ok { id := id, code := compositeCode code ic (match code with | some c => c.pos | none => .suffix), arg := ia }
      | .hard => .hard
      | .decline => .decline
    else .decline
  | .indIdxReg .., _ => .decline
  | .idxReg r code idx, .plain (.bin .add (.label s) i) =>
    if s == r then
      match firstIdx regs gz i (sortByRank (fun x => x.2.rank) idx) with
      | .ok (ic, ia) => .ok { id := id, code := compositeCode code ic (match code with | some c => c.pos | none => .suffix), arg := ia }
      | .hard => .hard
      | .decline => .decline
    else .decline
  | .idxReg r _ idx, .deco pre s post =>
    -- "R++" is read as R + "+": the index text "+" is declined by register / numeric index operands
    -- but reaches an unguarded expression parse in a numeric_bytecode index operand
    if pre == "" && post == "++" && s == r && idx.any (fun x => match x.2 with | .numBytecode .. => true | _ => false)
    then .hard else .decline
  | .idxReg .., _ => .decline
  | .indNum code arg, .ind e =>
    if !bracketOk e then .decline
    else if hasReg regs e then .decline
    else .ok { id := id, code := code.map codeField, arg := some (argField arg e .plain) }
  | .indNum .., _ => .decline
  | .defNum code arg, .ind2 e =>
    if !bracketOk e then .decline
    else if hasReg regs e then .decline
    else .ok { id := id, code := code.map codeField, arg := some (argField arg e .plain) }
  | .defNum .., _ => .decline
  | .enumeration code arg argDict, .plain (.label s) =>
    match argDict.find? (·.1 == s) with
    | none => .decline
    | some (_, av) =>
      let cf : Option (FieldSpec × CodePos) := match code with
        | none => none
        | some (n, pos, d) => (d.find? (·.1 == s)).map fun (_, cv) =>
            ({ e := .num cv, kind := .plain, size := n, align := false, little := false }, pos)
      .ok { id := id, code := cf, arg := some (argField arg (.num av) .plain) }
  | .enumeration .., _ => .decline
  | .numEnum code arg, .plain e =>
    let cf : Option (FieldSpec × CodePos) := code.map fun (n, pos, d) =>
      ({ e := e, kind := .enum d, size := n, align := false, little := false }, pos)
    let af : Option FieldSpec := arg.map fun (a, d) => argField a e (.enum d)
    if cf.isNone && af.isNone then .decline else .ok { id := id, code := cf, arg := af }
  | .numEnum code arg, .deco pre r post =>
    -- prefix-matched by the numeric pattern, then the WHOLE text is parsed without a guard
    if pre == "!" || pre == "@" then .decline
    else if post == "" && (pre == "-" || pre == "--") then
      let e : E := if pre == "-" then .neg (.label r) else .neg (.neg (.label r))
      let cf : Option (FieldSpec × CodePos) := code.map fun (n, pos, d) =>
        ({ e := e, kind := .enum d, size := n, align := false, little := false }, pos)
      let af : Option FieldSpec := arg.map fun (a, d) => argField a e (.enum d)
      if cf.isNone && af.isNone then .decline else .ok { id := id, code := cf, arg := af }
    else .hard
  | .numEnum .., _ => .decline
  | .numeric code arg va, .plain e =>
    if hasReg regs e then .decline
    else .ok { id := id, code := code.map codeField,
               arg := some (argField arg e (if va then .zone gz.1 gz.2 else .plain)) }
  | .numeric code arg va, .deco pre r post =>
    if post == "" && (pre == "-" || pre == "--") then
      let e : E := if pre == "-" then .neg (.label r) else .neg (.neg (.label r))
      if hasReg regs e then .decline
      else .ok { id := id, code := code.map codeField,
                 arg := some (argField arg e (if va then .zone gz.1 gz.2 else .plain)) }
    else .decline
  | .numeric .., _ => .decline
  | .address code arg zs ze sliced, .plain e =>
    if hasReg regs e then .decline
    else .ok { id := id, code := code.map codeField,
               arg := some (argField arg e (if sliced then .sliced zs ze else .zone zs ze)) }
  | .address code arg zs ze sliced, .deco pre r post =>
    if post == "" && (pre == "-" || pre == "--") then
      let e : E := if pre == "-" then .neg (.label r) else .neg (.neg (.label r))
      if hasReg regs e then .decline
      else .ok { id := id, code := code.map codeField,
                 arg := some (argField arg e (if sliced then .sliced zs ze else .zone zs ze)) }
    else .decline
  | .address .., _ => .decline
  | .relAddr code arg mn mx fe curly, .plain e =>
    if curly then .decline
    else if hasReg regs e then .decline
    else .ok { id := id, code := code.map codeField, arg := some (argField arg e (.rel fe mn mx gz.1 gz.2)) }
  | .relAddr code arg mn mx fe curly, .curly e =>
    if !curly then .decline
    else if hasReg regs e then .decline
    else .ok { id := id, code := code.map codeField, arg := some (argField arg e (.rel fe mn mx gz.1 gz.2)) }
  | .relAddr code arg mn mx fe curly, .deco pre r post =>
    if curly then .decline
    else if pre == "!" || pre == "@" then .decline             -- no token matches at the start
    else if post == "" && (pre == "-" || pre == "--") then       -- parses as a negation
      let e : E := if pre == "-" then .neg (.label r) else .neg (.neg (.label r))
      if hasReg regs e then .decline
      else .ok { id := id, code := code.map codeField, arg := some (argField arg e (.rel fe mn mx gz.1 gz.2)) }
    else if pre == "" && (post == "!" || post == "@") then .decline   -- prefix match stops before the decorator
    else .hard                                                   -- dangling operator: uncaught SyntaxError
  | .relAddr .., _ => .decline
  | .numBytecode size pos mn mx, .plain e =>
    if hasReg regs e then .decline
    else .ok { id := id, code := some ({ e := e, kind := .ranged (some mn) (some mx), size := size, align := false,
                                         little := false }, pos), arg := none }
  | .numBytecode .., .curly _ => .hard       -- `{` is not a token: the lexer error is not caught here
  | .numBytecode size pos mn mx, .deco pre r post =>
    if post == "" && (pre == "-" || pre == "--") then
      let e : E := if pre == "-" then .neg (.label r) else .neg (.neg (.label r))
      if hasReg regs e then .decline
      else .ok { id := id, code := some ({ e := e, kind := .ranged (some mn) (some mx), size := size, align := false,
                                           little := false }, pos), arg := none }
    else .hard
  | .numBytecode .., _ => .decline
  | .empty _, _ => .decline                  -- null operands consume no text (specific operands only)

/-- `OperandSet.parse_operand`: alternatives in rank order (stable), first acceptance wins -/
def firstAccept (regs : List String) (gz : Int × Int) (f : Form) : List (String × OperandCfg) → Acc ParsedOp
  | [] => .decline
  | (id, c) :: rest =>
    match accepts regs gz id c f with
    | .ok p => .ok p
    | .hard => .hard
    | .decline => firstAccept regs gz f rest

def matchSet (regs : List String) (gz : Int × Int) (set : List (String × OperandCfg)) (f : Form) : Acc ParsedOp :=
  firstAccept regs gz f (sortByRank (fun x => x.2.rank) set)

/-- all operand positions of an operand-set signature -/
def matchSets (regs : List String) (gz : Int × Int) : List (List (String × OperandCfg)) → List Form → Acc (List ParsedOp)
  | [], [] => .ok []
  | s :: ss, f :: fs =>
    match matchSet regs gz s f with
    | .ok p => match matchSets regs gz ss fs with
      | .ok ps => .ok (p :: ps)
      | .hard => .hard
      | .decline => .decline
    | .hard => .hard
    | .decline => .decline
  | _, _ => .decline

structure SetsCfg where
  sets : List (List (String × OperandCfg))
  disallowed : List (List String)
  revArgs : Bool
  revCodes : Bool
deriving Repr, Inhabited

structure SpecificCfg where
  ops : List (String × OperandCfg)
  revArgs : Bool
  revCodes : Bool
deriving Repr, Inhabited

structure VariantCfg where
  opcode : Field
  suffix : Option Field
  count : Option Nat               -- `none`: the variant has no `operands` section
  specific : List SpecificCfg
  sets : Option SetsCfg
deriving Repr, Inhabited

structure Matched where
  ops : List ParsedOp
  revArgs : Bool
  revCodes : Bool
deriving Repr, Inhabited

/-- outcome of trying one specific-operand configuration -/
inductive SpecRes where
  | matched (ps : List ParsedOp)
  | next            -- this configuration does not match: try the next one
  | stop            -- `return None`: the whole specific-operand search ends without a match
  | hard
deriving Repr, Inhabited

/-- one specific-operand configuration. The code indexes the operand texts by the POSITION of the
    configured operand (the index advances for `empty` operands too); a missing text ends the whole
    search. `nulls` counts the `empty` operands seen, `i` is the position. -/
def matchSpecificOps (regs : List String) (gz : Int × Int) (fs : List Form) :
    List (String × OperandCfg) → Nat → Nat → List ParsedOp → SpecRes × Nat
  | [], _, nulls, acc => (.matched acc.reverse, nulls)
  | (id, .empty code) :: rest, i, nulls, acc =>
    matchSpecificOps regs gz fs rest (i + 1) (nulls + 1) ({ id := id, code := code.map codeField, arg := none } :: acc)
  | (id, c) :: rest, i, nulls, acc =>
    match fs[i]? with
    | none => (.stop, nulls)
    | some f =>
      match accepts regs gz id c f with
      | .ok p => matchSpecificOps regs gz fs rest (i + 1) nulls (p :: acc)
      | .hard => (.hard, nulls)
      | .decline => (.next, nulls)

/-- `find_operands_from_specific_operands`: configurations in definition order; the search STOPS
    (returns) at the first configuration whose operand count differs from the variant's count -/
def matchSpecific (regs : List String) (gz : Int × Int) (count : Nat) : List SpecificCfg → List Form → Acc Matched
  | [], _ => .decline
  | s :: rest, fs =>
    if s.ops.length ≠ count then .decline
    else match matchSpecificOps regs gz fs s.ops 0 0 [] with
      | (.matched ps, nulls) =>
        if fs.length + nulls = count ∧ count = ps.length then
          .ok { ops := ps, revArgs := s.revArgs, revCodes := s.revCodes }
        else matchSpecific regs gz count rest fs
      | (.hard, _) => .hard
      | (.stop, _) => .decline
      | (.next, _) => matchSpecific regs gz count rest fs

/-- `OperandParser.find_matching_operands` + the no-operand cases of `generate_variant_bytecode_parts` -/
def matchVariant (regs : List String) (gz : Int × Int) (v : VariantCfg) (fs : List Form) : Acc Matched :=
  match v.count with
  | none => if fs.isEmpty then .ok { ops := [], revArgs := false, revCodes := false } else .decline
  | some count =>
    if count = 0 && fs.isEmpty then .ok { ops := [], revArgs := false, revCodes := false }
    else
      match matchSpecific regs gz count v.specific fs with
      | .ok m => .ok m
      | .hard => .hard
      | .decline =>
        match v.sets with
        | none => .decline
        | some sc =>
          if fs.length ≠ sc.sets.length then .decline
          else match matchSets regs gz sc.sets fs with
            | .ok ps =>
              if sc.disallowed.contains (ps.map (·.id)) then .decline
              else .ok { ops := ps, revArgs := sc.revArgs, revCodes := sc.revCodes }
            | .hard => .hard
            | .decline => .decline

/-- variants in definition order; the first that matches is used -/
def selectVariant (regs : List String) (gz : Int × Int) : List VariantCfg → List Form → Nat → Acc (Nat × VariantCfg × Matched)
  | [], _, _ => .decline
  | v :: rest, fs, i =>
    match matchVariant regs gz v fs with
    | .ok m => .ok (i, v, m)
    | .hard => .hard
    | .decline => selectVariant regs gz rest fs (i + 1)

/-! ## encoding the selected variant -/

def FieldSpec.toSrc (env : String → Option Int) (f : FieldSpec) : Except Err SrcField := do
  let v ← valueE env f.e
  match f.pre with
  | none => .ok { src := f.kind.toSrc v, size := f.size, align := f.align, little := f.little }
  | some (pv, pn) =>
    -- `CompositeByteCodePart.get_value`: each part is resolved and packed with its own width
    let lv ← (f.kind.toSrc v).resolve 0 0 f.size
    if ¬ Fits lv f.size ∨ ¬ Fits pv pn then .error .fieldOverflow
    else .ok { src := .plain ((pv % (2 : Int) ^ pn) * (2 : Int) ^ f.size + lv % (2 : Int) ^ f.size),
               size := pn + f.size, align := false, little := false }

def ParsedOp.toSrcOp (env : String → Option Int) (p : ParsedOp) : Except Err SrcOp := do
  let code ← match p.code with
    | none => pure none
    | some (f, pos) => do pure (some ((← f.toSrc env), pos))
  let arg ← match p.arg with
    | none => pure none
    | some f => do pure (some (← f.toSrc env))
  .ok { code := code, arg := arg }

def FieldSpec.shape (f : FieldSpec) : Field :=
  { value := 0, size := (match f.pre with | some (_, pn) => pn | none => 0) + f.size,
    align := (match f.pre with | some _ => false | none => f.align),
    little := (match f.pre with | some _ => false | none => f.little) }

/-- the size a matched statement reserves (known without evaluating any expression) -/
def stmtSize (v : VariantCfg) (m : Matched) : Nat :=
  let ops : List OpParts := m.ops.map fun p =>
    { code := p.code.map fun (f, pos) => (f.shape, pos), arg := p.arg.map FieldSpec.shape }
  let sfx := if v.count.isNone then none else v.suffix
  byteSizeOf (fieldOrder ops v.opcode sfx m.revArgs m.revCodes)

/-- a whole instruction statement: select, then encode at `addr` -/
def assembleStmt (regs : List String) (gz : Int × Int) (env : String → Option Int) (addr : Int)
    (variants : List VariantCfg) (fs : List Form) : Except Err (Nat × List Nat) :=
  match selectVariant regs gz variants fs 0 with
  | .decline => .error .noVariant
  | .hard => .error .noVariant
  | .ok (i, v, m) => do
    let ops ← m.ops.mapM (ParsedOp.toSrcOp env)
    -- a variant without an `operands` section never gets its opcode suffix appended
    let sfx := if v.count.isNone then none else v.suffix
    match ← encodeInstr addr ops v.opcode sfx m.revArgs m.revCodes with
    | some bs => .ok (i, bs)
    | none => .error .other

end BV
