/-
  C16: the human-readable output formats.  Decoders (`dec*`) turn the text the real assembler
  prints back into an address→byte map; they are what the check applies to the real output.
  Reference encoders (`enc*`) mirror the printers at the level of records / rows so that the
  round-trip theorems in `Props/C16.lean` say what the decoders are correct for.
-/
import BespokeVerif.Model.Expr
namespace BV

abbrev AddrMap := List (Int × Nat)

/-! ## hex helpers -/

def hexDigitChar (n : Nat) : Char := if n < 10 then Char.ofNat (48 + n) else Char.ofNat (87 + n)   -- lower case
def hexByte (b : Nat) : List Char := [hexDigitChar (b / 16 % 16), hexDigitChar (b % 16)]

def parseHexNat (cs : List Char) : Option Nat :=
  if cs.isEmpty || !cs.all isHexDigit then none else some (digitsVal 16 cs)

def parseHexPairs : List Char → Option (List Nat)
  | [] => some []
  | [_] => none
  | a :: b :: rest =>
    if isHexDigit a && isHexDigit b then (parseHexPairs rest).map (fun l => (hexVal a * 16 + hexVal b) :: l) else none

def splitLines (s : String) : List (List Char) := (s.splitOn "\n").map String.toList
def trimL (cs : List Char) : List Char := cs.dropWhile (fun c => c == ' ' || c == '\t' || c == '\r')
def trimC (cs : List Char) : List Char := (trimL (trimL cs).reverse).reverse

def splitOnChar (c : Char) (cs : List Char) : List (List Char) :=
  let (cur, acc) := cs.foldl (fun (st : List Char × List (List Char)) x =>
    if x == c then ([], st.1.reverse :: st.2) else (x :: st.1, st.2)) ([], [])
  (cur.reverse :: acc).reverse

def words (cs : List Char) : List (List Char) := (splitOnChar ' ' cs).filter (fun w => !w.isEmpty)

/-! ## Intel HEX -/

structure IRec where
  addr : Nat          -- 16-bit load offset
  typ : Nat
  data : List Nat
deriving Repr, DecidableEq, Inhabited

def IRec.bytes (r : IRec) : List Nat := [r.data.length % 256, r.addr / 256 % 256, r.addr % 256, r.typ % 256] ++ r.data
def IRec.checksum (r : IRec) : Nat := (256 - (r.bytes.foldl (· + ·) 0) % 256) % 256

/-- `:LLAAAATT<data>CC` with length and checksum verified -/
def parseIRec (line : List Char) : Except Err IRec :=
  match line with
  | ':' :: rest =>
    match parseHexPairs rest with
    | some (len :: ah :: al :: typ :: tail) =>
      if tail.length ≠ len + 1 then .error .other else
      let data := tail.take len
      let r : IRec := { addr := ah * 256 + al, typ := typ, data := data }
      if (tail.getLast?.getD 0) ≠ r.checksum then .error .other else .ok r
    | _ => .error .other
  | _ => .error .other

/-- records → map: type 00 data at `upper + addr`, type 04 sets the upper 16 bits, type 02 a segment
    base, type 01 ends; start-address records are ignored -/
def recsToMap : List IRec → Int → AddrMap → AddrMap
  | [], _, m => m
  | r :: rest, base, m =>
    if r.typ = 0 then
      recsToMap rest base (m ++ (List.range r.data.length).map fun (i : Nat) => (base + (r.addr : Int) + (i : Int), r.data[i]!))
    else if r.typ = 1 then m
    else if r.typ = 4 then recsToMap rest (((r.data[0]!) * 256 + r.data[1]! : Nat) * 65536) m
    else if r.typ = 2 then recsToMap rest (((r.data[0]!) * 256 + r.data[1]! : Nat) * 16) m
    else recsToMap rest base m

def decIHex (text : String) : Except Err AddrMap := do
  let ls := (splitLines text).map trimC |>.filter (fun l => !l.isEmpty)
  let recs ← ls.mapM parseIRec
  .ok (recsToMap recs 0 [])

/-- reference encoder: the bytes of one contiguous run that starts at `a`, at most 16 per record and
    never across a 64 K boundary, with a type-04 record whenever the upper half changes -/
def encRun : Nat → Nat → List Nat → Option Nat → List IRec × Option Nat
  | 0, _, _, up => ([], up)
  | _, _, [], up => ([], up)
  | fuel + 1, a, bs, up =>
    let hi := a / 65536
    let lo := a % 65536
    let n := min (min 16 bs.length) (65536 - lo)
    let pre : List IRec := if up = some hi then [] else [{ addr := 0, typ := 4, data := [hi / 256 % 256, hi % 256] }]
    let (rest, up') := encRun fuel (a + n) (bs.drop n) (some hi)
    (pre ++ [{ addr := lo, typ := 0, data := bs.take n }] ++ rest, up')

/-! ## hex dump (`IntelHex.dump`) -/

/-- one row: `AAAA  XX XX -- …  |ascii|` → 16 optional bytes at the row address -/
def decDumpRow (line : List Char) : Except Err AddrMap :=
  match words line with
  | [] => .ok []
  | a :: rest =>
    match parseHexNat a with
    | none => .error .other
    | some addr =>
      let cells := rest.take 16
      if cells.length ≠ 16 then .error .other else
      (List.range 16).foldlM (fun (m : AddrMap) i =>
        let c := cells[i]!
        if c == ['-', '-'] then .ok m
        else match parseHexPairs c with
          | some [b] => .ok (m ++ [(((addr + i : Nat) : Int), b)])
          | _ => .error .other) []

def decHexDump (text : String) : Except Err AddrMap := do
  let ls := (splitLines text).map trimC |>.filter (fun l => !l.isEmpty)
  let ms ← ls.mapM decDumpRow
  .ok ms.flatten

/-! ## compact hex (minhex) -/

/-- rows: an address line sets the running address, a `:` row lists bytes at the running address -/
def decMinHexLines : List (List Char) → Int → AddrMap → Except Err AddrMap
  | [], _, m => .ok m
  | l :: rest, a, m =>
    match l with
    | ':' :: bs =>
      match (words bs).mapM (fun w => match parseHexPairs w with | some [b] => some b | _ => none) with
      | none => .error .other
      | some bytes =>
        decMinHexLines rest (a + (bytes.length : Int)) (m ++ (List.range bytes.length).map fun (i : Nat) => (a + (i : Int), bytes[i]!))
    | _ =>
      match parseHexNat l with
      | some n => decMinHexLines rest n m
      | none => .error .other

def decMinHex (text : String) : Except Err AddrMap :=
  decMinHexLines ((splitLines text).map trimC |>.filter (fun l => !l.isEmpty)) 0 []

/-- structured minhex stream -/
inductive MHRow where
  | addr (a : Nat)
  | bytes (bs : List Nat)
deriving Repr, DecidableEq, Inhabited

def mhRowsToMap : List MHRow → Int → AddrMap → AddrMap
  | [], _, m => m
  | .addr a :: rest, _, m => mhRowsToMap rest a m
  | .bytes bs :: rest, a, m =>
    mhRowsToMap rest (a + (bs.length : Int)) (m ++ (List.range bs.length).map fun (i : Nat) => (a + (i : Int), bs[i]!))

/-- what the printer sees: byte lines (unmuted only are printed) and `.org` lines, in address order -/
inductive OutLine where
  | bytes (addr : Int) (bs : List Nat) (muted : Bool)
  | org (addr : Int)
  | other (addr : Int)
deriving Repr, DecidableEq, Inhabited

/-- `MinHexPrettyPrinter.pretty_print` as a row stream (rows of at most 16 bytes; an address row at
    every `.org`) — `cur` = bytes of the unfinished row -/
def encMinHex : List OutLine → List Nat → List MHRow
  | [], cur => if cur.isEmpty then [] else [.bytes cur]
  | .bytes _ bs false :: rest, cur =>
    let all := cur ++ bs
    let full := all.length / 16
    let rows := (List.range full).map fun i => MHRow.bytes ((all.drop (16 * i)).take 16)
    rows ++ encMinHex rest (all.drop (16 * full))
  | .bytes _ _ true :: rest, cur => encMinHex rest cur
  | .org a :: rest, cur => (if cur.isEmpty then [] else [.bytes cur]) ++ [.addr a.toNat] ++ encMinHex rest []
  | .other _ :: rest, cur => encMinHex rest cur

/-- the memory contents the lines describe -/
def outLinesMap : List OutLine → AddrMap
  | [] => []
  | .bytes a bs false :: rest => ((List.range bs.length).map fun (i : Nat) => (a + (i : Int), bs[i]!)) ++ outLinesMap rest
  | _ :: rest => outLinesMap rest

/-- "every gap has an origin": the first unmuted byte sits at address 0 or right after an `.org`,
    and every later unmuted byte line starts at the running address or right after an `.org` -/
def everyGapHasOrg : List OutLine → Int → Bool
  | [], _ => true
  | .bytes a bs false :: rest, run => (a == run) && everyGapHasOrg rest (run + (bs.length : Int))
  | .bytes _ _ true :: rest, run => everyGapHasOrg rest run
  | .org a :: rest, _ => everyGapHasOrg rest a
  | .other _ :: rest, run => everyGapHasOrg rest run

/-! ## listing -/

structure LRow where
  lineNo : Nat
  addr : Nat
  bytes : List Nat
deriving Repr, DecidableEq, Inhabited

/-- a listing line split at `|`: `(line number field, address field, bytes field)` -/
def listingFields (line : List Char) : Option (List Char × List Char × List Char) :=
  match splitOnChar '|' line with
  | a :: b :: c :: _ :: _ => some (trimC a, trimC b, trimC c)
  | _ => none

def parseByteCells (cs : List Char) : Option (List Nat) :=
  (words cs).mapM fun w => match parseHexPairs w with | some [b] => some b | _ => none

/-- primary rows carry line number and address; continuation rows (both blank) extend the bytes of
    the previous primary row; header / separator / file lines are skipped -/
def decListingLines : List (List Char) → List LRow → Except Err (List LRow)
  | [], acc => .ok acc.reverse
  | l :: rest, acc =>
    match listingFields l with
    | none => decListingLines rest acc
    | some (ln, ad, by_) =>
      if ln.isEmpty && ad.isEmpty then
        match parseByteCells by_, acc with
        | some bs, r :: acc' => decListingLines rest ({ r with bytes := r.bytes ++ bs } :: acc')
        | some [], [] => decListingLines rest acc
        | _, _ => .error .other
      else if ln.all Char.isDigit && !ln.isEmpty then
        match parseHexNat ad, parseByteCells by_ with
        | some a, some bs => decListingLines rest ({ lineNo := digitsVal 10 ln, addr := a, bytes := bs } :: acc)
        | _, _ => .error .other
      else decListingLines rest acc        -- header row ("line | addr | …")

def decListing (text : String) : Except Err (List LRow) := decListingLines (splitLines text) []

def lrowsMap (rows : List LRow) : AddrMap :=
  rows.flatMap fun r => (List.range r.bytes.length).map fun (i : Nat) => (((r.addr + i : Nat) : Int), r.bytes[i]!)

end BV
