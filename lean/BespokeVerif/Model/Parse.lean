/-
  Source text → statements: the front end of the assembler (`AssemblyFile.load_line_objects` reading
  lines, `LineOjectFactory.parse_line`: comment split, label / constant / directive / embedded
  string / instruction recognition, `InstructionLine` operand splitting and the syntactic shape of
  each operand).  The real code does all this with regular expressions; this is a hand-written
  parser for the statement language (everything the generators of the checks write), producing the
  `Stmt`s the layout model and its theorems are about.  `asmText` = parse every file, then
  `assemble`: the theorems of C02 … C17 apply to its result by construction.

  What it deliberately does not model: preprocessor symbol substitution is done on parsed
  expressions by the layout model (textual whole-word substitution is `Model/Subst`), `#require`.
-/
import BespokeVerif.Model.Layout
import BespokeVerif.Model.Scan
import BespokeVerif.Model.Split
namespace BV

def ptrimL (l : List Char) : List Char := l.dropWhile isSpaceChar
def ptrimR (l : List Char) : List Char := (ptrimL l.reverse).reverse
def ptrim (l : List Char) : List Char := ptrimR (ptrimL l)

/-- the text before the first `;` that stands outside a quoted literal -/
def stripComment : QMode → List Char → List Char
  | _, [] => []
  | none, c :: rest =>
    if c == ';' then []
    else if isQuote c then c :: stripComment (some (c, false)) rest
    else c :: stripComment none rest
  | some (q, esc), c :: rest =>
    if esc then c :: stripComment (some (q, false)) rest
    else if c == '\\' then c :: stripComment (some (q, true)) rest
    else if c == q then c :: stripComment none rest
    else c :: stripComment (some (q, false)) rest

def isNameChar (c : Char) : Bool := isWordChar c || c == '.'

/-- leading run of name characters and the rest -/
def takeName (l : List Char) : List Char × List Char := (l.takeWhile isNameChar, l.dropWhile isNameChar)

def lowerS (l : List Char) : String := (String.ofList l).toLower

def parseExprText (t : List Char) : Except Err E := do
  let toks ← lexExpr t
  parseExpr toks

/-- body of a quoted literal opened by `q` (escapes kept as written) and the text behind the closing
    quote; `none` when the literal is not closed -/
def takeQuotedBody (q : Char) : Bool → List Char → Option (List Char × List Char)
  | _, [] => none
  | esc, c :: rest =>
    if esc then (takeQuotedBody q false rest).map fun (b, r) => (c :: b, r)
    else if c == '\\' then (takeQuotedBody q true rest).map fun (b, r) => (c :: b, r)
    else if c == q then some ([], rest)
    else (takeQuotedBody q false rest).map fun (b, r) => (c :: b, r)

/-! ## operands -/

def decorators : List (List Char) := ["++".toList, "--".toList, "+".toList, "-".toList, "!".toList, "@".toList]

def stripPrefix? (p l : List Char) : Option (List Char) := if p.isPrefixOf l then some (l.drop p.length) else none
def stripSuffix? (p l : List Char) : Option (List Char) :=
  if p.isSuffixOf l then some (l.take (l.length - p.length)) else none

/-- `[ inner ]` → inner -/
def unbracket (o c : Char) (l : List Char) : Option (List Char) :=
  match l with
  | h :: t => if h == o && t.getLast? == some c then some (ptrim t.dropLast) else none
  | [] => none

def isRegText (regs : List String) (l : List Char) : Bool :=
  !l.isEmpty && l.all isWordChar && isRegName regs (String.ofList l)

/-- bracket forms and plain expressions -/
def formCore (l : List Char) : Except Err Form :=
  match unbracket '[' ']' l with
  | some inner =>
    match unbracket '[' ']' inner with
    | some inner2 => do .ok (.ind2 (← parseExprText inner2))
    | none => do .ok (.ind (← parseExprText inner))
  | none =>
    match unbracket '{' '}' l with
    | some inner => do .ok (.curly (← parseExprText inner))
    | none => do .ok (.plain (← parseExprText l))

/-- the syntactic shape of one operand text -/
def parseForm (regs : List String) (o : List Char) : Except Err Form :=
  let o := ptrim o
  -- decorated register / decorated bracket form: the decorator on exactly one side
  let pre := decorators.findSome? fun d => (stripPrefix? d o).bind fun r =>
    let r := ptrim r
    if isRegText regs r then some (Except.ok (Form.deco (String.ofList d) (String.ofList r) ""))
    else match unbracket '[' ']' r with
      | some inner => some (do let e ← parseExprText inner; .ok (Form.indDeco (String.ofList d) e ""))
      | none => none
  match pre with
  | some r => r
  | none =>
    let post := decorators.findSome? fun d => (stripSuffix? d o).bind fun r =>
      let r := ptrim r
      if isRegText regs r then some (Except.ok (Form.deco "" (String.ofList r) (String.ofList d)))
      else match unbracket '[' ']' r with
        | some inner => some (do let e ← parseExprText inner; .ok (Form.indDeco "" e (String.ofList d)))
        | none => none
    match post with
    | some r => r
    | none => formCore o

def parseOperands (regs : List String) (t : List Char) : Except Err (List Form) :=
  let t := ptrim t
  if t.isEmpty then .ok [] else (splitCommas t).mapM (parseForm regs)

/-! ## one line -/

structure PCfg where
  regs : List String
  mnemonics : List String          -- instructions and macros, lower case
  cstrTerm : Nat := 0
  embedded : Bool := false
  fileNames : List String := []    -- `#include "name"` → index in this list
deriving Repr, Inhabited

/-- where the operand text of an instruction ends: at the next mnemonic that starts a word (outside
    quoted literals), else at the end of the text -/
def cutAtMnemonic (cfg : PCfg) : QMode → Bool → List Char → List Char × List Char
  | _, _, [] => ([], [])
  | some (q, esc), _, c :: rest =>
    let m : QMode := if esc then some (q, false) else if c == '\\' then some (q, true) else if c == q then none else some (q, false)
    let (a, b) := cutAtMnemonic cfg m false rest
    (c :: a, b)
  | none, atStart, c :: rest =>
    if isQuote c then
      let (a, b) := cutAtMnemonic cfg (some (c, false)) false rest
      (c :: a, b)
    else if atStart && isNameChar c && cfg.mnemonics.contains (lowerS (takeName (c :: rest)).1) then ([], c :: rest)
    else
      let (a, b) := cutAtMnemonic cfg none (!isNameChar c) rest
      (c :: a, b)

def cmpOps : List (List Char × CmpOp) :=
  [("==".toList, .eq), ("!=".toList, .ne), (">=".toList, .ge), ("<=".toList, .le), (">".toList, .gt), ("<".toList, .lt)]

/-- `lhs op rhs` (first comparison operator outside quotes) or a bare expression (`!= 0`) -/
def splitCmp : List Char → List Char → Option (List Char × CmpOp × List Char)
  | _, [] => none
  | acc, c :: rest =>
    match cmpOps.findSome? fun (p, o) => (stripPrefix? p (c :: rest)).map fun r => (o, r) with
    | some (o, r) => some (acc.reverse, o, r)
    | none => splitCmp (c :: acc) rest

def condSide (t : List Char) : Except Err E :=
  let t := ptrim t
  match t with
  | q :: _ => if isQuote q then
      match takeQuotedBody q false t.tail with
      | some (b, _) => .ok (.label (String.ofList b))      -- quoted word: compared as text
      | none => .error .badExpression
    else parseExprText t
  | [] => .error .badExpression

def parseCond (t : List Char) : Except Err CondExp :=
  match splitCmp [] t with
  | some (l, o, r) => do .ok { lhs := ← condSide l, op := o, rhs := ← condSide r }
  | none => do .ok { lhs := ← condSide t, op := .ne, rhs := .num 0 }

def parseIntText (t : List Char) : Except Err Int := do
  let e ← parseExprText (ptrim t)
  valueE (fun _ => none) e

/-- blank-separated words -/
def splitBlanksAux : List Char → List Char → List (List Char)
  | cur, [] => if cur.isEmpty then [] else [cur.reverse]
  | cur, c :: rest =>
    if isSpaceChar c then (if cur.isEmpty then splitBlanksAux [] rest else cur.reverse :: splitBlanksAux [] rest)
    else splitBlanksAux (c :: cur) rest
def splitBlanks (t : List Char) : List (List Char) := splitBlanksAux [] t

/-- a preprocessor line (`#…`), already trimmed -/
def parsePreproc (cfg : PCfg) (t : List Char) : Except Err (List Stmt) :=
  let (kw, rest) := takeName t.tail
  let rest := ptrim rest
  match lowerS kw with
  | "mute" => .ok [.mute]
  | "unmute" => .ok [.unmute]
  | "emit" => .ok [.unmute]
  | "else" => .ok [.cond .elsec]
  | "endif" => .ok [.cond .endif]
  | "ifdef" => .ok [.cond (.ifdef (String.ofList rest))]
  | "ifndef" => .ok [.cond (.ifndef (String.ofList rest))]
  | "if" => do .ok [.cond (.ifc (← parseCond rest))]
  | "elif" => do .ok [.cond (.elifc (← parseCond rest))]
  | "define" =>
    let (name, v) := takeName rest
    let v := ptrim v
    if name.isEmpty then .error .badDirective
    else if v.isEmpty then .ok [.define (String.ofList name) .empty]
    else match parseExprText v with
      | .ok (.num n) => .ok [.define (String.ofList name) (.num n)]
      | _ => .ok [.define (String.ofList name) (.word (String.ofList v))]
  | "include" =>
    match rest with
    | q :: body =>
      if isQuote q then
        match takeQuotedBody q false body with
        | some (b, _) =>
          -- an unknown name is an error only when the line is reached (an unselected branch never opens it)
          match cfg.fileNames.findIdx? (· == String.ofList b) with
          | some i => .ok [.includeFile i]
          | none => .ok [.includeFile cfg.fileNames.length]
        | none => .error .includeError
      else .error .includeError
    | [] => .error .includeError
  | "create_memzone" =>
    match splitBlanks rest with
    | [n, s, e] => do .ok [.createZone (String.ofList n) (← parseIntText s) (← parseIntText e)]
    | _ => .error .zoneDecl
  | _ => .error .badDirective

/-- the value list of a data directive / the string behind it -/
def parseData (_cfg : PCfg) (w : Nat) (term : Option Nat) (rest : List Char) : Except Err (Stmt × List Char) :=
  let rest := ptrimL rest
  match rest with
  | q :: body =>
    if isQuote q then
      -- a quoted text is a string unless an operator or a comma follows it (then it is the first value of a list)
      let asList : Except Err (Stmt × List Char) :=
        if term.isSome then .error .badDirective
        else do
          let vals ← ((splitCommas (ptrim rest)).filter fun v => !(ptrim v).isEmpty).mapM fun v => parseExprText (ptrim v)
          .ok (.data w vals, [])
      -- a string under a wider directive is one value of that width per character
      let asStr (b : List Char) : Stmt :=
        if w == 1 then .str (String.ofList b) term
        else .data w (((unescape b) ++ term.toList).map fun (n : Nat) => E.num n)
      match takeQuotedBody q false body with
      | some (b, after) =>
        match (ptrimL after).head? with
        | some c => if ",+-*/&|^<>%)".toList.contains c then asList else .ok (asStr b, after)
        | none => .ok (asStr b, after)
      | none => asList
    else if term.isSome then .error .badDirective
    else do
      let vals ← ((splitCommas (ptrim rest)).filter fun v => !(ptrim v).isEmpty).mapM fun v => parseExprText (ptrim v)
      .ok (.data w vals, [])
  | [] => .error .badDirective

/-- does the text begin with a label definition `.?\w+:` -/
def startsLabelDef (cs : List Char) : Bool :=
  let cs := if cs.head? == some '.' then cs.tail else cs
  let w := cs.takeWhile isWordChar
  !w.isEmpty && (cs.drop w.length).head? == some ':'

/-- the text of an address / fill directive ends where, after white space, a label definition begins
    (`.org $20 next: nop`); the rest of the line is read as further statements -/
def cutAtLabelDef : List Char → List Char → List Char × List Char
  | acc, [] => (acc.reverse, [])
  | acc, c :: cs =>
    if isSpaceChar c && startsLabelDef (ptrimL cs) then (acc.reverse, cs) else cutAtLabelDef (c :: acc) cs

/-- statements of one source line (comment already stripped, trimmed); fuel = text length + 1 -/
def parseStmts (cfg : PCfg) : Nat → List Char → Except Err (List Stmt)
  | 0, _ => .error .outOfFuel
  | fuel + 1, t =>
    let t := ptrim t
    match t with
    | [] => .ok []
    | c0 :: _ =>
    let (w, rest) := takeName t
    -- label: `name:`
    if !w.isEmpty && rest.head? == some ':' then do
      let more ← parseStmts cfg fuel rest.tail
      .ok (.label (String.ofList w) :: more)
    else
    let r1 := ptrimL rest
    -- constant: `name = expr` / `name EQU expr`
    let isEqu := (lowerS (takeName r1).1 == "equ") && !w.isEmpty && !(w.head? == some '.')
    if !w.isEmpty && !(w.head? == some '.') && r1.head? == some '=' && !(r1.tail.head? == some '=') then do
      .ok [.const (String.ofList w) (← parseExprText (ptrim r1.tail))]
    else if isEqu then do
      .ok [.const (String.ofList w) (← parseExprText (ptrim (takeName r1).2))]
    else if c0 == '.' then
      match lowerS w with
      | ".org" =>
        let (own, after) := cutAtLabelDef [] rest
        let body := ptrim own
        -- an optional quoted zone name at the end
        let st : Except Err Stmt := match body.getLast? with
          | some '"' =>
            let inner := body.dropLast
            let zone := (inner.reverse.takeWhile (· != '"')).reverse
            let ex := inner.take (inner.length - zone.length - 1)
            do .ok (.org (← parseExprText (ptrim ex)) (some (String.ofList zone)))
          | _ => do .ok (.org (← parseExprText body) none)
        do .ok ((← st) :: (← parseStmts cfg fuel after))
      | ".memzone" =>
        -- the zone name is one word; whatever follows on the line is read as further statements
        let body := ptrimL rest
        let name := body.takeWhile isWordChar
        do .ok (.memzone (String.ofList name) :: (← parseStmts cfg fuel (body.drop name.length)))
      | ".fill" =>
        let (own, after) := cutAtLabelDef [] rest
        match splitCommas (ptrim own) with
        | [a, b] => do .ok (.fill (← parseExprText (ptrim a)) (← parseExprText (ptrim b)) :: (← parseStmts cfg fuel after))
        | _ => .error .badDirective
      | ".zero" =>
        let (own, after) := cutAtLabelDef [] rest
        do .ok (.fill (← parseExprText (ptrim own)) (.num 0) :: (← parseStmts cfg fuel after))
      | ".zerountil" =>
        let (own, after) := cutAtLabelDef [] rest
        do .ok (.zerountil (← parseExprText (ptrim own)) :: (← parseStmts cfg fuel after))
      | ".align" =>
        if (ptrim rest).isEmpty then .ok [.align none]
        else
          let (own, after) := cutAtLabelDef [] rest
          if (ptrim own).isEmpty then do .ok [.align (some (← parseExprText (ptrim rest)))]
          else do .ok (.align (some (← parseExprText (ptrim own))) :: (← parseStmts cfg fuel after))
      | ".byte" => do let (s, after) ← parseData cfg 1 none rest; .ok (s :: (← parseStmts cfg fuel after))
      | ".2byte" => do let (s, after) ← parseData cfg 2 none rest; .ok (s :: (← parseStmts cfg fuel after))
      | ".4byte" => do let (s, after) ← parseData cfg 4 none rest; .ok (s :: (← parseStmts cfg fuel after))
      | ".8byte" => do let (s, after) ← parseData cfg 8 none rest; .ok (s :: (← parseStmts cfg fuel after))
      | ".cstr" => do let (s, after) ← parseData cfg 1 (some cfg.cstrTerm) rest; .ok (s :: (← parseStmts cfg fuel after))
      | ".asciiz" => do let (s, after) ← parseData cfg 1 (some cfg.cstrTerm) rest; .ok (s :: (← parseStmts cfg fuel after))
      | _ => .error .badDirective
    else if c0 == '"' && cfg.embedded then
      match takeQuotedBody '"' false t.tail with
      | some (b, after) => do .ok (.str (String.ofList b) (some cfg.cstrTerm) :: (← parseStmts cfg fuel after))
      | none => .error .badDirective
    else if cfg.mnemonics.contains (lowerS w) then
      let (ops, after) := cutAtMnemonic cfg none false rest
      do
        let fs ← match parseOperands cfg.regs ops with
          | .ok fs => pure fs
          | .error _ => .error .noVariant
        let more ← parseStmts cfg fuel after
        .ok (.isa (lowerS w) fs :: more)
    else .error .unknownInstruction

/-- one raw source line -/
def parseLine (cfg : PCfg) (line : List Char) : Except Err (List Stmt) :=
  let t := ptrim (stripComment none line)
  match t with
  | [] => .ok []
  | '#' :: _ => parsePreproc cfg t
  | _ => parseStmts cfg (t.length + 1) t

/-- a whole file: lines are separated by `\n` -/
def parseFile (cfg : PCfg) (text : String) : Except Err (List Stmt) := do
  let ls ← (text.splitOn "\n").mapM fun l => parseLine cfg (l.toList.filter (· != '\r'))
  .ok ls.flatten

/-- text in, image out: every file is parsed, then the layout model assembles the statements -/
def asmText (cfg : Cfg) (pc : PCfg) (files : List String) (start : Int) (stop : Option Int) (fill : Nat) :
    Except Err Outcome := do
  let stmts ← files.mapM (parseFile pc)
  assemble cfg stmts start stop fill

/-- the same with the line-by-line image (`assemble = assembleFast` is `C03.assemble_eq_fast`) -/
def asmTextFast (cfg : Cfg) (pc : PCfg) (files : List String) (start : Int) (stop : Option Int) (fill : Nat) :
    Except Err Outcome := do
  let stmts ← files.mapM (parseFile pc)
  assembleFast cfg stmts start stop fill

end BV
