/-
  C10: macros.  A macro variant is selected by the same operand matching as an instruction
  variant; its instruction templates are instantiated by substituting the placeholders
  @ARG(n) / @REG(n) / @OP(n); the steps are assembled one after the other, each at its own address
  (`CompositeAssembledInstruction.get_bytes`).
-/
import BespokeVerif.Model.Select
namespace BV

/-- operand shapes that occur in macro templates -/
inductive TForm where
  | fixed (f : Form)
  | arg (n : Nat)                 -- @ARG(n)
  | indArg (n : Nat)              -- [@ARG(n)]
  | argPlus (n : Nat) (k : Int)   -- @ARG(n) + k     (the argument text must be an atom)
  | reg (n : Nat)                 -- @REG(n)
  | indReg (n : Nat)              -- [@REG(n)]
  | indRegArgMul (n : Nat) (k : Int)   -- [@REG(n) + k*@ARG(n)]   (the argument text must be an atom)
  | op (n : Nat)                  -- @OP(n)
deriving Repr, Inhabited

structure Step where
  mnemonic : String
  ops : List TForm
deriving Repr, Inhabited

structure MacroVariant where
  operands : VariantCfg           -- opcode fields unused
  steps : List Step
deriving Repr, Inhabited

/-- configured register of an operand type (`operand_register_string`), `none` = unsupported -/
def OperandCfg.regName : OperandCfg → Option String
  | .register r .. => some r
  | .indReg r .. => some r
  | .idxReg r .. => some r
  | .indIdxReg r .. => some r
  | _ => none

def findCfg (v : VariantCfg) (id : String) : Option OperandCfg :=
  let all := (v.specific.flatMap (·.ops)) ++ (match v.sets with | some sc => sc.sets.flatten | none => [])
  (all.find? (·.1 == id)).map (·.2)

/-- placeholder substitution for one template operand -/
def instTForm (v : VariantCfg) (m : Matched) (fs : List Form) : TForm → Except Err Form
  | .fixed f => .ok f
  | .arg n => match m.ops[n]? with
    | some p => match p.arg with | some a => .ok (.plain a.e) | none => .error .other
    | none => .error .other          -- "unrecognized @ARG"
  | .indArg n => match m.ops[n]? with
    | some p => match p.arg with | some a => .ok (.ind a.e) | none => .error .other
    | none => .error .other
  | .argPlus n k => match m.ops[n]? with
    | some p => match p.arg with | some a => .ok (.plain (.bin .add a.e (.num k))) | none => .error .other
    | none => .error .other
  | .reg n => match m.ops[n]? with
    | some p => match (findCfg v p.id).bind OperandCfg.regName with
      | some r => .ok (.plain (.label r)) | none => .error .other
    | none => .error .other
  | .indReg n => match m.ops[n]? with
    | some p => match (findCfg v p.id).bind OperandCfg.regName with
      | some r => .ok (.ind (.label r)) | none => .error .other
    | none => .error .other
  | .indRegArgMul n k => match m.ops[n]? with
    | some p => match (findCfg v p.id).bind OperandCfg.regName, p.arg with
      | some r, some a => .ok (.ind (.bin .add (.label r) (.bin .mul (.num k) a.e)))
      | _, _ => .error .other
    | none => .error .other
  | .op n =>
    -- @OP(n) is replaced by the text of the n-th MATCHED operand; with `empty` operands in front the
    -- matched index and the text index differ, so only text operands are supported here
    match m.ops[n]?, fs[n]? with
    | some _, some f => .ok f
    | _, _ => .error .other

abbrev InstrTable := List (String × List VariantCfg)

/-- impl: the loop of `CompositeAssembledInstruction.get_bytes` — running address, own size -/
def assembleSteps (regs : List String) (gz : Int × Int) (env : String → Option Int) (tbl : InstrTable) :
    Int → List (String × List Form) → Except Err (List Nat)
  | _, [] => .ok []
  | addr, (mn, fs) :: rest =>
    match tbl.find? (·.1 == mn) with
    | none => .error .unknownInstruction
    | some (_, variants) => do
      let (_, bs) ← assembleStmt regs gz env addr variants fs
      let tail ← assembleSteps regs gz env tbl (addr + bs.length) rest
      .ok (bs ++ tail)

def selectMacro (regs : List String) (gz : Int × Int) (mvs : List MacroVariant) (fs : List Form) :
    Acc (Nat × MacroVariant × Matched) :=
  let rec go : List MacroVariant → Nat → Acc (Nat × MacroVariant × Matched)
    | [], _ => .decline
    | mv :: rest, i =>
      match matchVariant regs gz mv.operands fs with
      | .ok m => .ok (i, mv, m)
      | .hard => .hard
      | .decline => go rest (i + 1)
  go mvs 0

/-- the expanded statements of an invocation -/
def expandMacro (regs : List String) (gz : Int × Int) (mvs : List MacroVariant) (fs : List Form) :
    Except Err (Nat × List (String × List Form)) :=
  match selectMacro regs gz mvs fs with
  | .decline => .error .noVariant
  | .hard => .error .noVariant
  | .ok (i, mv, m) => do
    let steps ← mv.steps.mapM fun st => do
      let ops ← st.ops.mapM (instTForm mv.operands m fs)
      pure (st.mnemonic.toLower, ops)
    .ok (i, steps)

/-- reserved sizes of the steps: known from selection alone (no expression is evaluated) -/
def stepSizes (regs : List String) (gz : Int × Int) (tbl : InstrTable) : List (String × List Form) → Option (List Nat)
  | [] => some []
  | (mn, fs) :: rest =>
    match tbl.find? (·.1 == mn) with
    | none => none
    | some (_, variants) =>
      match selectVariant regs gz variants fs 0 with
      | .ok (_, v, m) => (stepSizes regs gz tbl rest).map fun l => stmtSize v m :: l
      | _ => none

/-- impl: a macro invocation at `addr` -/
def assembleMacro (regs : List String) (gz : Int × Int) (env : String → Option Int) (tbl : InstrTable)
    (addr : Int) (mvs : List MacroVariant) (fs : List Form) : Except Err (Nat × List Nat) := do
  let (i, steps) ← expandMacro regs gz mvs fs
  let bs ← assembleSteps regs gz env tbl addr steps
  .ok (i, bs)

/-- spec: assemble the instantiated templates in order as ordinary statements, statement `k` at
    `addr + Σ_{j<k} size j`, and concatenate -/
def specSteps (regs : List String) (gz : Int × Int) (env : String → Option Int) (tbl : InstrTable)
    (addr : Int) (steps : List (String × List Form)) : Except Err (List (List Nat)) :=
  let rec go : List (String × List Form) → List (List Nat) → Except Err (List (List Nat))
    | [], acc => .ok acc.reverse
    | (mn, fs) :: rest, acc =>
      match tbl.find? (·.1 == mn) with
      | none => .error .unknownInstruction
      | some (_, variants) => do
        let a := addr + ((acc.map List.length).foldl (· + ·) 0 : Nat)
        let (_, bs) ← assembleStmt regs gz env a variants fs
        go rest (bs :: acc)
  go steps []

end BV
