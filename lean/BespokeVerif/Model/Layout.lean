/-
  C02–C06, C11, C17: reading a program, label scopes, memory zones, the two passes, the overlap
  check and the binary image.  Impl-level definitions mirror `assembly_file.py`, `label_scope`,
  `memory_zone`, `engine.py`, `data_line.py`, `fill_data.py`, `page_align.py`, `address.py`;
  spec-level definitions (`specImage`, `Disjoint`, …) read like the properties.
-/
import BespokeVerif.Model.Expr
import BespokeVerif.Model.Cond
import BespokeVerif.Model.Str
import BespokeVerif.Model.Macro
namespace BV

/-! ## labels and scopes -/

/-- the scope a line is read in: the file scope of file `f`, or the `k`-th local region of file `f` -/
inductive Scope where
  | file (f : Nat)
  | loc (f : Nat) (k : Nat)
deriving Repr, DecidableEq, Inhabited

def Scope.fileId : Scope → Nat
  | .file f => f
  | .loc f _ => f

structure Labels where
  glob : List (String × Int) := []
  file : List (Nat × String × Int) := []
  loc  : List (Nat × Nat × String × Int) := []
deriving Repr, Inhabited

/-- 0 = global, 1 = file (`_`), 2 = local (`.`) -/
def labelKind (name : String) : Nat :=
  match name.toList with
  | '.' :: _ => 2
  | '_' :: _ => 1
  | _ => 0

def labelBase (name : String) : String :=
  if labelKind name = 0 then name else String.ofList (name.toList.drop 1)

def keywords : List String :=
  ["org", "memzone", "align", "fill", "zero", "zerountil", "byte", "2byte", "4byte", "8byte", "cstr", "asciiz",
   "include", "require", "create_memzone", "define", "if", "elif", "else", "endif", "ifdef", "ifndef",
   "mute", "unmute", "emit", "LSB", "BYTE0", "BYTE1", "BYTE2", "BYTE3", "BYTE4", "BYTE5", "BYTE6", "BYTE7",
   "BYTE8", "BYTE9"]

def assocGet {κ : Type} [BEq κ] (l : List (κ × Int)) (k : κ) : Option Int :=
  (l.find? (·.1 == k)).map (·.2)

/-- `LabelScope.get_label_value` from the scope of the referencing line: own table, then the parents -/
def Labels.lookup (L : Labels) (regs : List String) (sc : Scope) (name : String) : Except Err Int :=
  let inLoc : Option Int := match sc with
    | .loc f k => (L.loc.find? fun e => e.1 == f && e.2.1 == k && e.2.2.1 == name).map (·.2.2.2)
    | .file _ => none
  match inLoc with
  | some v => .ok v
  | none =>
    match (L.file.find? fun e => e.1 == sc.fileId && e.2.1 == name).map (·.2.2) with
    | some v => .ok v
    | none =>
      if isRegName regs name then .error .unresolvedLabel
      else match assocGet L.glob name with
        | some v => .ok v
        | none => .error .unresolvedLabel

/-- `LabelScope.set_label_value` from the scope of the defining line -/
def Labels.set (L : Labels) (sc : Scope) (name : String) (v : Int) : Except Err Labels :=
  if keywords.contains (labelBase name) then .error .keywordLabel
  else match labelKind name with
    | 0 => if (assocGet L.glob name).isSome then .error .duplicateLabel
           else .ok { L with glob := L.glob ++ [(name, v)] }
    | 1 => let f := sc.fileId
           if (L.file.any fun e => e.1 == f && e.2.1 == name) then .error .duplicateLabel
           else .ok { L with file := L.file ++ [(f, name, v)] }
    | _ => match sc with
      | .file _ => .error .scopeTooLow
      | .loc f k =>
        if (L.loc.any fun e => e.1 == f && e.2.1 == k && e.2.2.1 == name) then .error .duplicateLabel
        else .ok { L with loc := L.loc ++ [(f, k, name, v)] }

def envOf (L : Labels) (regs : List String) (sc : Scope) : String → Option Int :=
  fun name => match L.lookup regs sc name with | .ok v => some v | .error _ => none

/-! ## memory zones -/

structure Zone where
  name : String
  start : Int
  stop : Int        -- inclusive end
  cur : Int
deriving Repr, DecidableEq, Inhabited

abbrev Zones := List Zone

def Zones.get? (zs : Zones) (n : String) : Option Zone := zs.find? (·.name == n)

/-- `MemoryZone.__init__` validation -/
def mkZone (bits : Nat) (name : String) (s e : Int) : Except Err Zone :=
  if e > (2 : Int) ^ bits - 1 then .error .zoneDecl
  else if s < 0 then .error .zoneDecl
  else if s > e then .error .zoneDecl
  else .ok { name := name, start := s, stop := e, cur := s }

/-- `MemoryZone.current_address` setter -/
def Zone.setCur (z : Zone) (v : Int) : Except Err Zone :=
  if v < z.start then .error .zoneBounds
  else if v > z.stop + 1 then .error .zoneBounds
  else .ok { z with cur := v }

def Zones.setCur (zs : Zones) (n : String) (v : Int) : Except Err Zones :=
  match zs.get? n with
  | none => .error .zoneDecl
  | some z => do
    let z' ← z.setCur v
    .ok (zs.map fun y => if y.name == n then z' else y)

/-- `MemoryZoneManager.__init__`: predefined zones (a later one of the same name wins), GLOBAL
    created when absent, default origin, every zone inside GLOBAL -/
def initZones (bits : Nat) (origin : Int) (pre : List (String × Int × Int)) : Except Err Zones := do
  let zs ← pre.foldlM (fun (acc : Zones) (n, s, e) => do
      let z ← mkZone bits n s e
      if (acc.get? n).isSome then .ok (acc.map fun y => if y.name == n then z else y)
      else .ok (acc ++ [z])) []
  let zs ← if (zs.get? "GLOBAL").isSome then pure zs
           else do let g ← mkZone bits "GLOBAL" 0 ((2 : Int) ^ bits - 1); pure (zs ++ [g])
  let zs ← zs.setCur "GLOBAL" origin
  match zs.get? "GLOBAL" with
  | none => .error .zoneDecl
  | some g =>
    if zs.all fun z => decide (g.start ≤ z.start) && decide (z.stop ≤ g.stop) then .ok zs
    else .error .zoneDecl

/-- `MemoryZoneManager.create_zone` (`#create_memzone`) -/
def createZone (bits : Nat) (zs : Zones) (name : String) (s e : Int) : Except Err Zones :=
  if (zs.get? name).isSome then .error .zoneDecl
  else match zs.get? "GLOBAL" with
    | none => .error .zoneDecl
    | some g =>
      if s < g.start then .error .zoneDecl
      else if e > g.stop then .error .zoneDecl
      else do let z ← mkZone bits name s e; .ok (zs ++ [z])

/-! ## statements and lines -/

inductive Stmt where
  | label (name : String)
  | const (name : String) (e : E)
  | data (w : Nat) (vals : List E)            -- .byte / .2byte / .4byte / .8byte
  | bytes (bs : List Nat)                      -- string data, already escape-processed (+ terminator)
  | fill (cnt val : E)                          -- .fill n, v   (.zero n = .fill n, 0)
  | zerountil (a : E)
  | org (e : E) (zone : Option String)
  | memzone (z : String)
  | align (p : Option E)
  | instr (opcode : Nat) (args : List (E × Nat))  -- one opcode byte + arguments of `w` bytes each
  | isa (mn : String) (fs : List Form)            -- a statement of the configured ISA: instruction or macro invocation
  | mute | unmute
  | createZone (name : String) (s e : Int)
  | comment                                      -- comment-only line: a line object of size 0
  | includeFile (f : Nat)
  | str (raw : String) (term : Option Nat)      -- quoted string (escape sequences unprocessed) + terminator
  | define (name : String) (v : SymVal)          -- #define
  | cond (d : CondDir)                           -- #if / #elif / #else / #endif / #ifdef / #ifndef
deriving Repr, Inhabited

structure Line where
  stmt  : Stmt
  scope : Scope
  zone  : String
  muted : Bool
  file  : Nat
  constVal : Option Int := none     -- value of a constant, computed at read time
deriving Repr, Inhabited

structure Cfg where
  bits : Nat
  origin : Int
  little : Bool
  pageSize : Int
  regs : List String
  preZones : List (String × Int × Int)
  preConsts : List (String × Int)
  preData : List (String × Int × Int × Int)      -- name, address, value, size
  preSyms : SymTab := []                          -- ISA `predefined.symbols` and `-D` symbols
  tbl : InstrTable := []                          -- the configured instructions (mnemonic → variants)
  macros : List (String × List MacroVariant) := []
deriving Repr, Inhabited

/-- the GLOBAL zone as operand matching sees it (`MemoryZoneManager.global_zone`, fixed at load time) -/
def cfgGz (cfg : Cfg) : Int × Int :=
  match (cfg.preZones.filter (·.1 == "GLOBAL")).getLast? with
  | some (_, s, e) => (s, e)
  | none => (0, (2 : Int) ^ cfg.bits - 1)

/-- reserved size of an ISA statement: variant selection only — no expression is evaluated, no
    address is known (`InstructionLine.__init__` → `parse_instruction`; `byte_size`) -/
def isaSize (cfg : Cfg) (mn : String) (fs : List Form) : Except Err Nat :=
  match cfg.tbl.find? (·.1 == mn) with
  | some (_, variants) =>
    match selectVariant cfg.regs (cfgGz cfg) variants fs 0 with
    | .ok (_, v, m) => .ok (stmtSize v m)
    | _ => .error .noVariant
  | none =>
    match cfg.macros.find? (·.1 == mn) with
    | none => .error .unknownInstruction
    | some (_, mvs) =>
      match expandMacro cfg.regs (cfgGz cfg) mvs fs with
      | .error e => .error e
      | .ok (_, steps) =>
        match stepSizes cfg.regs (cfgGz cfg) cfg.tbl steps with
        | some sizes => .ok sizes.sum
        | none => .error .noVariant

/-- bytes of an ISA statement in the second pass: final label values, final address -/
def isaBytes (cfg : Cfg) (env : String → Option Int) (addr : Int) (mn : String) (fs : List Form) :
    Except Err (List Nat) :=
  match cfg.tbl.find? (·.1 == mn) with
  | some (_, variants) => (assembleStmt cfg.regs (cfgGz cfg) env addr variants fs).map (·.2)
  | none =>
    match cfg.macros.find? (·.1 == mn) with
    | none => .error .unknownInstruction
    | some (_, mvs) => (assembleMacro cfg.regs (cfgGz cfg) env cfg.tbl addr mvs fs).map (·.2)

/-- whole-word symbol substitution inside the expressions of an operand form -/
def substForm (t : SymTab) : Form → Except Err Form
  | .plain e => do .ok (.plain (← substE t e))
  | .ind e => do .ok (.ind (← substE t e))
  | .ind2 e => do .ok (.ind2 (← substE t e))
  | .curly e => do .ok (.curly (← substE t e))
  | .indDeco pre e post => do .ok (.indDeco pre (← substE t e) post)
  | f => .ok f

/-! ## reading (`AssemblyFile.load_line_objects`) -/

structure ReadSt where
  labels : Labels
  zones : Zones
  used : List Nat            -- files already opened
  nextLoc : Nat              -- counter naming local regions
  syms : SymTab := []        -- preprocessor symbols defined so far
deriving Repr, Inhabited

/-- whole-word substitution of the symbols defined so far in the expressions of a statement -/
def substStmt (t : SymTab) : Stmt → Except Err Stmt
  | .const n e => do .ok (.const n (← substE t e))
  | .data w vals => do .ok (.data w (← vals.mapM (substE t)))
  | .fill c v => do .ok (.fill (← substE t c) (← substE t v))
  | .zerountil a => do .ok (.zerountil (← substE t a))
  | .org e z => do .ok (.org (← substE t e) z)
  | .align (some p) => do .ok (.align (some (← substE t p)))
  | .instr o args => do .ok (.instr o (← args.mapM fun (e, w) => do pure ((← substE t e), w)))
  | .isa mn fs => do .ok (.isa mn (← fs.mapM (substForm t)))
  | s => .ok s

/-- read the statements of one file in order; `files` maps a file id to its statements; `fuel`
    bounds the include depth (a file cannot be opened twice, so #files + 1 suffices) -/
def readFile (cfg : Cfg) (files : List (List Stmt)) : Nat → Nat → ReadSt → Except Err (List Line × ReadSt)
  | 0, _, _ => .error .outOfFuel
  | fuel + 1, f, st0 =>
    if st0.used.contains f then .error .includeError else
    match files[f]? with
    | none => .error .includeError
    | some stmts =>
      let rec go (stmts : List Stmt) (sc : Scope) (zone : String) (mute : Nat) (cs : CondStack) (st : ReadSt)
          (acc : List Line) : Except Err (List Line × ReadSt) :=
        match stmts with
        | [] => .ok (acc, st)
        | s0 :: rest =>
          match s0 with
          | .cond d => do
            let cs' ← condStep st.syms cs d
            go rest sc zone mute cs' st acc
          | _ =>
          -- a line in an unselected branch has no effect at all
          if !cs.active then go rest sc zone mute cs st acc else
          match substStmt st.syms s0 with
          | .error er => .error er
          | .ok s =>
          let mk (sc : Scope) (zone : String) (muted : Bool) (cv : Option Int := none) : Line :=
            { stmt := s, scope := sc, zone := zone, muted := muted, file := f, constVal := cv }
          match s with
          | .define n v => do
            let syms ← addSym st.syms n v
            go rest sc zone mute cs { st with syms := syms } (acc ++ [mk sc zone (mute > 0)])
          | .includeFile g => do
            let (ls, st') ← readFile cfg files fuel g st
            go rest sc zone mute cs st' (acc ++ ls)
          | .label name =>
            if isRegName cfg.regs name then .error .keywordLabel else
            if labelKind name ≠ 2 then
              let sc' := Scope.loc f st.nextLoc
              go rest sc' zone mute cs { st with nextLoc := st.nextLoc + 1 } (acc ++ [mk sc' zone (mute > 0)])
            else go rest sc zone mute cs st (acc ++ [mk sc zone (mute > 0)])
          | .const name e =>
            if isRegName cfg.regs name then .error .keywordLabel else
            match valueE (envOf st.labels cfg.regs sc) e with
            | .error er => .error er
            | .ok v => do
              let L ← st.labels.set sc name v
              go rest sc zone mute cs { st with labels := L } (acc ++ [mk sc zone (mute > 0) (some v)])
          | .org _ z =>
            let zn := z.getD "GLOBAL"
            if (st.zones.get? zn).isNone then .error .zoneDecl
            else go rest (.file f) zn mute cs st (acc ++ [mk (.file f) zn (mute > 0)])
          | .memzone zn =>
            if (st.zones.get? zn).isNone then .error .zoneDecl
            else go rest (.file f) zn mute cs st (acc ++ [mk (.file f) zn (mute > 0)])
          | .createZone name zs ze => do
            let zones ← createZone cfg.bits st.zones name zs ze
            go rest sc zone mute cs { st with zones := zones } (acc ++ [mk sc zone (mute > 0)])
          | .mute => go rest sc zone (mute + 1) cs st (acc ++ [mk sc zone (mute + 1 > 0)])
          | .unmute => go rest sc zone (mute - 1) cs st (acc ++ [mk sc zone (mute - 1 > 0)])
          | _ => go rest sc zone mute cs st (acc ++ [mk sc zone (mute > 0)])
      go stmts (.file f) "GLOBAL" 0 [] { st0 with used := st0.used ++ [f] } []

/-! ## first pass (addresses, label values) -/

structure Placed where
  line : Line
  addr : Int
  size : Int
deriving Repr, Inhabited

def isByteLine : Stmt → Bool
  | .data .. | .bytes .. | .fill .. | .zerountil .. | .instr .. | .str .. | .isa .. => true
  | _ => false

/-- `PageAlignLine.set_start_address` -/
def alignUp (a p : Int) : Int := if a % p = 0 then a else a + (p - a % p)

def firstPassStep (cfg : Cfg) (st : Zones × Labels) (ln : Line) : Except Err (Placed × Zones × Labels) := do
  let (zs, L) := st
  let z ← match zs.get? ln.zone with | some z => pure z | none => .error .zoneDecl
  let env := envOf L cfg.regs ln.scope
  let cur := z.cur
  let (addr, size) ← match ln.stmt with
    | .data w vals => pure (cur, (w * vals.length : Int))
    | .bytes bs => pure (cur, (bs.length : Int))
    | .str raw term => pure (cur, (((unescape raw.toList).length + term.toList.length : Nat) : Int))
    | .fill cnt _ => do let n ← valueE env cnt; pure (cur, n)
    | .zerountil a => do let t ← valueE env a; pure (cur, if t ≥ cur then t - cur + 1 else 0)
    | .instr _ args => pure (cur, ((1 + args.foldl (fun s a => s + a.2) 0 : Nat) : Int))
    | .isa mn fs => do let n ← isaSize cfg mn fs; pure (cur, (n : Int))
    | .org e zn => do
      let v ← valueE env e
      let value := match zn with | none => v | some _ => z.start + v
      match zs.get? "GLOBAL" with
      | none => .error .zoneDecl
      | some g =>
        if value < g.start then .error .zoneBounds
        else if value > g.stop then .error .zoneBounds
        else pure (value, 0)
    | .align p => do
      let ps ← match p with | some e => valueE env e | none => pure cfg.pageSize
      if ps = 0 then .error .divZero else pure (alignUp cur ps, 0)
    | _ => pure (cur, 0)
  let zs' ← zs.setCur ln.zone (addr + size)
  let L' ← match ln.stmt with
    | .label name => L.set ln.scope name addr
    | _ => pure L
  .ok ({ line := ln, addr := addr, size := size }, zs', L')

def firstPass (cfg : Cfg) : List Line → Zones × Labels → Except Err (List Placed × Zones × Labels)
  | [], st => .ok ([], st.1, st.2)
  | ln :: rest, st => do
    let (p, zs, L) ← firstPassStep cfg st ln
    let (ps, zs', L') ← firstPass cfg rest (zs, L)
    .ok (p :: ps, zs', L')

/-! ## second pass (bytes), overlap check -/

/-- `w` bytes of `v mod 2^(8w)` in the configured byte order -/
def wordBytes (w : Nat) (little : Bool) (v : Int) : List Nat :=
  let l := (List.range w).map (byteAt v)
  if little then l else l.reverse

def lineBytes (cfg : Cfg) (L : Labels) (p : Placed) : Except Err (List Nat) :=
  let env := envOf L cfg.regs p.line.scope
  match p.line.stmt with
  | .data w vals => do
    let vs ← vals.mapM (valueE env)
    .ok (vs.flatMap (wordBytes w cfg.little))
  | .bytes bs => .ok (bs.map (· % 256))
  | .str raw term => .ok ((unescape raw.toList).map (· % 256) ++ term.toList.map (· % 256))
  | .fill _ val => do
    let v ← valueE env val
    .ok (List.replicate p.size.toNat (byteAt v 0))
  | .zerountil _ => .ok (List.replicate p.size.toNat 0)
  | .instr opc args => do
    let bs ← args.mapM fun (e, w) => do
      let v ← valueE env e
      if Fits v (8 * w) then .ok (wordBytes w cfg.little v) else .error .fieldOverflow
    .ok (opc % 256 :: bs.flatten)
  | .isa mn fs => isaBytes cfg env p.addr mn fs
  | _ => .ok []

structure Emitted where
  addr : Int
  size : Int
  bytes : List Nat
  muted : Bool
  isByte : Bool
deriving Repr, Inhabited

/-- insertion into an address-sorted list before the first entry whose address is not smaller;
    used right-to-left this is a stable insertion sort -/
def insertByAddr (p : Placed) : List Placed → List Placed
  | [] => [p]
  | q :: rest => if p.addr ≤ q.addr then p :: q :: rest else q :: insertByAddr p rest

/-- `list.sort(key = address)`: stable -/
def sortByAddr (ps : List Placed) : List Placed := ps.foldr insertByAddr []

/-- the `last_line` loop of the second pass: only byte lines with a positive size take part -/
def overlapCheck : Option Emitted → List Emitted → Except Err Unit
  | _, [] => .ok ()
  | last, e :: rest =>
    if e.isByte && decide (e.size > 0) then
      match last with
      | some l => if l.addr + l.size > e.addr then .error .overlap else overlapCheck (some e) rest
      | none => overlapCheck (some e) rest
    else overlapCheck last rest

/-! ## image -/

/-- impl: dictionary from address to byte, later entries overwrite earlier ones -/
def memMap (es : List Emitted) : List (Int × Nat) :=
  es.foldl (fun m e =>
    if e.isByte && !e.muted then
      (List.range e.bytes.length).foldl (fun m (i : Nat) =>
        let a : Int := e.addr + (i : Int)
        (m.filter (·.1 ≠ a)) ++ [(a, e.bytes[i]!)]) m
    else m) []

def mapGet (m : List (Int × Nat)) (a : Int) : Option Nat := (m.find? (·.1 == a)).map (·.2)

def maxAddr (m : List (Int × Nat)) : Option Int :=
  m.foldl (fun acc e => match acc with | none => some e.1 | some x => some (max x e.1)) none

/-- the image loop: `for addr in range(start, last + 1)` -/
def imageOf (start : Int) (stop : Option Int) (fill : Nat) (m : List (Int × Nat)) : List Nat :=
  let last := match stop with
    | some e => e
    | none => (maxAddr m).getD (start - 1)
  (List.range (last + 1 - start).toNat).map fun (i : Nat) => (mapGet m (start + (i : Int))).getD fill

/-- spec: byte at offset `i` of the window -/
def specImageByte (es : List Emitted) (fill : Nat) (a : Int) : Nat :=
  match es.find? fun e => e.isByte && !e.muted && decide (e.addr ≤ a) && decide (a < e.addr + e.bytes.length) with
  | some e => e.bytes[(a - e.addr).toNat]!
  | none => fill

/-! ## the whole assembly -/

structure Outcome where
  image : List Nat
  emitted : List Emitted
  labels : Labels
deriving Repr, Inhabited

def predefinedLines (cfg : Cfg) : List Placed :=
  cfg.preData.map fun (_, addr, value, size) =>
    { line := { stmt := .fill (.num size) (.num value), scope := .file 0, zone := "GLOBAL", muted := false, file := 0 },
      addr := addr, size := size }

def initLabels (cfg : Cfg) : Except Err Labels := do
  let L ← cfg.preConsts.foldlM (fun (L : Labels) (n, v) =>
    if keywords.contains n then .error .keywordLabel
    else if (assocGet L.glob n).isSome then .error .duplicateLabel
    else .ok { L with glob := L.glob ++ [(n, v)] }) ({} : Labels)
  cfg.preData.foldlM (fun (L : Labels) (n, addr, _, _) =>
    if keywords.contains n then .error .keywordLabel
    else if (assocGet L.glob n).isSome then .error .duplicateLabel
    else .ok { L with glob := L.glob ++ [(n, addr)] }) L

def emitAll (cfg : Cfg) (L : Labels) : List Placed → Except Err (List Emitted)
  | [] => .ok []
  | p :: rest => do
    let bs ← lineBytes cfg L p
    let es ← emitAll cfg L rest
    .ok ({ addr := p.addr, size := p.size, bytes := bs, muted := p.line.muted, isByte := isByteLine p.line.stmt } :: es)

/-- reading + first pass + stable address sort: the placed lines in emission order, final labels -/
def assemblePlaced (cfg : Cfg) (files : List (List Stmt)) : Except Err (List Placed × Labels) := do
  let L0 ← initLabels cfg
  let zs0 ← initZones cfg.bits cfg.origin cfg.preZones
  let (lines, st) ← readFile cfg files (files.length + 1) 0
    { labels := L0, zones := zs0, used := [], nextLoc := 0, syms := cfg.preSyms }
  let (placed, _, L) ← firstPass cfg lines (st.zones, st.labels)
  .ok (sortByAddr (placed ++ predefinedLines cfg), L)

/-- everything up to (not including) the overlap check: the address-sorted emitted lines -/
def assembleLines (cfg : Cfg) (files : List (List Stmt)) : Except Err (List Emitted × Labels) := do
  let (sorted, L) ← assemblePlaced cfg files
  let es ← emitAll cfg L sorted
  .ok (es, L)

def assemble (cfg : Cfg) (files : List (List Stmt)) (start : Int) (stop : Option Int) (fill : Nat) :
    Except Err Outcome := do
  let (es, L) ← assembleLines cfg files
  overlapCheck none es
  .ok { image := imageOf start stop (fill % 256) (memMap es), emitted := es, labels := L }

/-! ## the image computed line by line (proved equal to the dictionary route: `C03.assemble_eq_fast`) -/

def bump (acc : Option Int) (v : Int) : Int :=
  match acc with
  | none => v
  | some y => max y v


def lastStep (acc : Option Int) (e : Emitted) : Option Int :=
  if e.isByte && !e.muted && decide (0 < e.bytes.length) then some (bump acc (e.addr + e.bytes.length - 1)) else acc

/-- `max` over the unmuted byte lines that emit something of the address of their last byte -/
def lastByteAddr (es : List Emitted) : Option Int := es.foldl lastStep none


/-- the image computed line by line: for every address of the window the byte of the line that
    covers it (the fill where none does) -/
def imageFast (start : Int) (stop : Option Int) (fill : Nat) (es : List Emitted) : List Nat :=
  let last := match stop with
    | some e => e
    | none => (lastByteAddr es).getD (start - 1)
  (List.range (last + 1 - start).toNat).map fun (i : Nat) => specImageByte es fill (start + (i : Int))


/-- the unmuted byte lines with their bytes in an array (constant-time indexing) -/
def imageLines (es : List Emitted) : List (Int × Array Nat) :=
  (es.filter fun e => e.isByte && !e.muted).map fun e => (e.addr, e.bytes.toArray)

def lookupLines (ls : List (Int × Array Nat)) (fill : Nat) (a : Int) : Nat :=
  match ls.find? fun l => decide (l.1 ≤ a) && decide (a < l.1 + l.2.size) with
  | some l => l.2[(a - l.1).toNat]!
  | none => fill

/-- `imageFast` with the lines prepared once -/
def imageFastA (start : Int) (stop : Option Int) (fill : Nat) (es : List Emitted) : List Nat :=
  let last := match stop with
    | some e => e
    | none => (lastByteAddr es).getD (start - 1)
  let ls := imageLines es
  (List.range (last + 1 - start).toNat).map fun (i : Nat) => lookupLines ls fill (start + (i : Int))

/-- `assemble` with the line-by-line image -/
def assembleFast (cfg : Cfg) (files : List (List Stmt)) (start : Int) (stop : Option Int) (fill : Nat) :
    Except Err Outcome := do
  let (es, L) ← assembleLines cfg files
  overlapCheck none es
  .ok { image := imageFastA start stop (fill % 256) es, emitted := es, labels := L }


/-- spec-level overlap verdict: some two occupying byte lines share an address -/
def overlapsSpec (es : List Emitted) : Bool :=
  let occ := es.filter fun e => e.isByte && decide (e.size > 0)
  let rec go : List Emitted → Bool
    | [] => false
    | e :: rest => rest.any (fun e' => !(decide (e.addr + e.size ≤ e'.addr) || decide (e'.addr + e'.size ≤ e.addr))) || go rest
  go occ

end BV
