/-
  Shared basic definitions of the executable model (core Lean only, no Mathlib).
-/
namespace BV

/-- Error kinds: Python exceptions / `sys.exit` of the implementation are mapped to these. -/
inductive Err where
  | overlap | unresolvedLabel | duplicateLabel | scopeTooLow | keywordLabel
  | zoneBounds | zoneDecl | fieldOverflow | constraint | noVariant | unknownInstruction
  | badExpression | condMismatch | symbolCycle | symbolRedefined | includeError
  | configError | versionGate | divZero | badDirective | outOfFuel | other
deriving Repr, DecidableEq, Inhabited

def Err.name : Err → String
  | .overlap => "overlap" | .unresolvedLabel => "unresolvedLabel" | .duplicateLabel => "duplicateLabel"
  | .scopeTooLow => "scopeTooLow" | .keywordLabel => "keywordLabel" | .zoneBounds => "zoneBounds"
  | .zoneDecl => "zoneDecl" | .fieldOverflow => "fieldOverflow" | .constraint => "constraint"
  | .noVariant => "noVariant" | .unknownInstruction => "unknownInstruction"
  | .badExpression => "badExpression" | .condMismatch => "condMismatch" | .symbolCycle => "symbolCycle"
  | .symbolRedefined => "symbolRedefined" | .includeError => "includeError" | .configError => "configError"
  | .versionGate => "versionGate" | .divZero => "divZero" | .badDirective => "badDirective"
  | .outOfFuel => "outOfFuel" | .other => "other"

/-- Bit `i` of the (infinite) two's-complement representation of `v`. -/
def bitAt (v : Int) (i : Nat) : Bool := (v / (2 : Int) ^ i) % 2 == 1

/-- Byte `k` (little-endian index) of the two's-complement representation of `v`. -/
def byteAt (v : Int) (k : Nat) : Nat := ((v / (256 : Int) ^ k) % 256).toNat

/-- register names are matched without regard to letter case (`re.IGNORECASE` in every register
    operand pattern; since fix c9198e6 also where register names are kept out of numeric
    expressions and label definitions) -/
def isRegName (regs : List String) (n : String) : Bool := regs.any fun r => r.toLower == n.toLower

/-- `⌈n/8⌉` -/
def ceil8 (n : Nat) : Nat := (n + 7) / 8

/-- The signed-or-unsigned range of an `n`-bit field: `-2^(n-1) ≤ v < 2^n` (for `n = 0`: `v = 0`). -/
def Fits (v : Int) (n : Nat) : Prop :=
  if n = 0 then v = 0 else -((2 : Int) ^ (n - 1)) ≤ v ∧ v < (2 : Int) ^ n

instance (v : Int) (n : Nat) : Decidable (Fits v n) := by unfold Fits; infer_instance

end BV
