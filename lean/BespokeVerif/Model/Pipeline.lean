/-
  Glue between the layout model and the output-format model: the line list the printers are fed.
-/
import BespokeVerif.Model.Layout
import BespokeVerif.Model.Output
namespace BV

def toOutLines (cfg : Cfg) (L : Labels) : List Placed → Except Err (List OutLine)
  | [] => .ok []
  | p :: rest => do
    let r ← toOutLines cfg L rest
    match p.line.stmt with
    | .org _ _ => .ok (.org p.addr :: r)
    | s =>
      if isByteLine s then do
        let bs ← lineBytes cfg L p
        .ok (.bytes p.addr bs p.line.muted :: r)
      else .ok (.other p.addr :: r)

/-- the lines handed to the pretty printers (address order, predefined data included) -/
def assembleOut (cfg : Cfg) (files : List (List Stmt)) : Except Err (List OutLine) := do
  let (sorted, L) ← assemblePlaced cfg files
  toOutLines cfg L sorted

end BV
