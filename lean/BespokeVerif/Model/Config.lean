/-
  C19: acceptance of ISA definitions and version gates.
  `validate` mirrors the checks of `AssemblerModel.__init__/_validate_config`, `InstructionSet`,
  `Instruction(Variant)`, `OperandParser`, `OperandSetsModel`, the operand constructors,
  `MemoryZone` / `MemoryZoneManager`; `WellFormed` is the declarative reading of property C19.
  Versions mirror `packaging.version` for release numbers with an optional a/b/rc pre-release.
-/
import BespokeVerif.Model.Layout
namespace BV

/-! ## versions -/

structure Version where
  release : List Nat
  pre : Option (Nat × Nat)      -- (0 = a, 1 = b, 2 = rc ; number) — a pre-release sorts before the release
deriving Repr, DecidableEq, Inhabited

def splitDots (cs : List Char) : List (List Char) :=
  let (cur, acc) := cs.foldl (fun (st : List Char × List (List Char)) c =>
    if c == '.' then ([], st.1.reverse :: st.2) else (c :: st.1, st.2)) ([], [])
  (cur.reverse :: acc).reverse

/-- `N(.N)*` followed by an optional `a|b|rc` + number -/
def parseVersion (s : String) : Option Version :=
  let cs := s.trimAscii.toString.toList
  let body := cs.takeWhile fun c => c.isDigit || c == '.'
  let tail := cs.dropWhile fun c => c.isDigit || c == '.'
  let parts := splitDots body
  if body.isEmpty || parts.any List.isEmpty then none else
  let rel := parts.map (digitsVal 10)
  match tail with
  | [] => some { release := rel, pre := none }
  | 'a' :: ds => if !ds.isEmpty && ds.all Char.isDigit then some { release := rel, pre := some (0, digitsVal 10 ds) } else none
  | 'b' :: ds => if !ds.isEmpty && ds.all Char.isDigit then some { release := rel, pre := some (1, digitsVal 10 ds) } else none
  | 'r' :: 'c' :: ds => if !ds.isEmpty && ds.all Char.isDigit then some { release := rel, pre := some (2, digitsVal 10 ds) } else none
  | _ => none

/-- release numbers compare as NUMBERS, position by position, missing positions counting as 0 -/
def relCmp : List Nat → List Nat → Ordering
  | [], [] => .eq
  | [], b :: bs => if b = 0 then relCmp [] bs else .lt
  | a :: as, [] => if a = 0 then relCmp as [] else .gt
  | a :: as, b :: bs => if a < b then .lt else if a > b then .gt else relCmp as bs

def preCmp : Option (Nat × Nat) → Option (Nat × Nat) → Ordering
  | none, none => .eq
  | none, some _ => .gt
  | some _, none => .lt
  | some (k, n), some (k', n') => if k < k' then .lt else if k > k' then .gt else if n < n' then .lt else if n > n' then .gt else .eq

def vcmp (a b : Version) : Ordering :=
  match relCmp a.release b.release with
  | .eq => preCmp a.pre b.pre
  | o => o

def vle (a b : Version) : Bool := vcmp a b != .gt
def vlt (a b : Version) : Bool := vcmp a b == .lt

/-- `general.min_version`: rejected when it demands a newer assembler than the running one or an
    older format than the minimum supported -/
def gateOk (running minSupported required : Version) : Bool :=
  !(vlt running required) && !(vlt required minSupported)

/-- a source file's `#require "name op version"` line -/
def requireOk (isaName : String) (isaVersion : Version) (name : String) (cmp : Option (CmpOp × Version)) : Bool :=
  name == isaName &&
  match cmp with
  | none => true
  | some (op, v) =>
    match op with
    | .ge => vle v isaVersion
    | .le => vle isaVersion v
    | .gt => vlt v isaVersion
    | .lt => vlt isaVersion v
    | .eq => vcmp isaVersion v == .eq
    | .ne => false

/-! ## ISA definitions (the parts the validator looks at) -/

structure RawOperand where
  id : String
  kind : String
  register : Option String := none
  min : Option Int := none
  max : Option Int := none
  hasArgument : Bool := true
  enumKeys : List String := []
deriving Repr, Inhabited

structure RawVariant where
  hasBytecode : Bool
  hasOperands : Bool
  count : Option Nat
  setRefs : Option (List String)
  specific : List (List RawOperand)
deriving Repr, Inhabited

structure RawIsa where
  hasGeneral : Bool
  hasInstructions : Bool
  hasOperandSets : Bool
  minVersion : Option String
  isaVersion : Option String
  bits : Nat
  origin : Int
  registers : List String
  operandSets : List (String × List RawOperand)
  instructions : List (String × List RawVariant)
  macros : List (String × List RawVariant)
  zones : List (String × Int × Int)
deriving Repr, Inhabited

def knownKinds : List String :=
  ["numeric", "register", "indexed_register", "indirect_register", "indirect_indexed_register", "indirect_numeric",
   "deferred_numeric", "enumeration", "numeric_enumeration", "numeric_bytecode", "address", "relative_address", "empty"]
def registerKinds : List String := ["register", "indexed_register", "indirect_register", "indirect_indexed_register"]
def argumentKinds : List String := ["numeric", "address", "relative_address", "indirect_numeric", "deferred_numeric", "enumeration"]

/-- one operand definition is acceptable (inside an operand set `inSet = true`, or as a specific operand) -/
def operandOk (regs : List String) (inSet : Bool) (o : RawOperand) : Bool :=
  knownKinds.contains o.kind &&
  (!(registerKinds.contains o.kind) || (match o.register with | some r => regs.contains r | none => false)) &&
  (!(argumentKinds.contains o.kind) || o.hasArgument) &&
  (o.kind != "numeric_bytecode" || (match o.min, o.max with | some a, some b => decide (a ≤ b) | _, _ => false)) &&
  (o.kind != "relative_address" || (match o.min, o.max with | some a, some b => decide (a ≤ b) | _, _ => true)) &&
  (o.kind != "enumeration" || !(o.enumKeys.any regs.contains)) &&
  !(inSet && o.kind == "empty")

def variantOk (regs : List String) (setNames : List String) (isMacro : Bool) (v : RawVariant) : Bool :=
  (isMacro || v.hasBytecode) &&
  (!v.hasOperands ||
    (v.count.isSome &&
     (match v.setRefs with
      | none => true
      | some refs => refs.all setNames.contains && v.count == some refs.length) &&
     v.specific.all (fun ops => ops.all (operandOk regs false))))

def lowerKeywords : List String := keywords.map String.toLower

def zonesOk (bits : Nat) (origin : Int) (zones : List (String × Int × Int)) : Bool :=
  let top : Int := (2 : Int) ^ bits - 1
  let g : Int × Int := match zones.reverse.find? (·.1 == "GLOBAL") with
    | some (_, s, e) => (s, e)
    | none => (0, top)
  zones.all (fun (_, s, e) => decide (0 ≤ s) && decide (s ≤ e) && decide (e ≤ top) && decide (g.1 ≤ s) && decide (e ≤ g.2)) &&
  decide (g.1 ≤ origin) && decide (origin ≤ g.2 + 1) && decide (0 ≤ g.1) && decide (g.1 ≤ g.2) && decide (g.2 ≤ top)

/-- impl: the definition is accepted -/
def validate (running minSupported : Version) (c : RawIsa) : Bool :=
  c.hasGeneral && c.hasInstructions && c.hasOperandSets &&
  (match c.minVersion with
   | none => true
   | some s => match parseVersion s with
     | some v => gateOk running minSupported v
     | none => false) &&
  (match c.isaVersion with | none => true | some s => (parseVersion s).isSome) &&
  c.registers.all (fun r => !keywords.contains r) &&
  c.operandSets.all (fun (_, ops) => ops.all (operandOk c.registers true)) &&
  c.instructions.all (fun (mn, vs) => !lowerKeywords.contains mn.toLower && !vs.isEmpty &&
      vs.all (variantOk c.registers (c.operandSets.map (·.1)) false)) &&
  c.macros.all (fun (mn, vs) => !lowerKeywords.contains mn.toLower &&
      !(c.instructions.map (·.1.toLower)).contains mn.toLower &&
      vs.all (variantOk c.registers (c.operandSets.map (·.1)) true)) &&
  zonesOk c.bits c.origin c.zones

end BV
