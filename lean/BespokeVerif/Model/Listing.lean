/-
  The listing printer at the level of its decoded columns: how the bytes of one statement are spread over rows
  (`ListingPrettyPrinter._generate_bytecode_line_string`, `_print_line_object`) and how the decoder puts them together.
-/
import BespokeVerif.Model.Output
namespace BV

/-- `ListingPrettyPrinter._generate_bytecode_line_string`: the bytes of one statement in rows of at most `k`
    (fuel = number of bytes) -/
def chunkRows (k : Nat) : Nat → List Nat → List (List Nat)
  | 0, _ => []
  | f + 1, bs => if bs.isEmpty then [] else bs.take k :: chunkRows k f (bs.drop k)

/-- a listing row at the level of its three decoded columns -/
inductive PRow where
  | primary (lineNo addr : Nat) (bs : List Nat)
  | cont (bs : List Nat)
deriving Repr, DecidableEq

/-- `_print_line_object`: the primary row carries line number, address and the first chunk; further
    chunks follow on continuation rows whose other columns are blank -/
def encListingLine (k : Nat) (r : LRow) : List PRow :=
  match chunkRows k r.bytes.length r.bytes with
  | [] => [.primary r.lineNo r.addr []]
  | c :: cs => .primary r.lineNo r.addr c :: cs.map .cont

/-- what `decListingLines` does with the decoded columns: a continuation row extends the previous primary row -/
def mergePRows : List PRow → List LRow → List LRow
  | [], acc => acc.reverse
  | .primary ln a bs :: rest, acc => mergePRows rest ({ lineNo := ln, addr := a, bytes := bs } :: acc)
  | .cont bs :: rest, r :: acc => mergePRows rest ({ r with bytes := r.bytes ++ bs } :: acc)
  | .cont _ :: rest, [] => mergePRows rest []

end BV
