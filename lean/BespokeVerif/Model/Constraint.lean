/-
  C12: operand value constraints.  `ValSrc.resolve` mirrors the `get_value` methods of
  `bytecode/parts.py`, `operand/types/relative_address.py` and `operand/types/address.py`;
  `Satisfies` is the declarative reading of property C12.
-/
import BespokeVerif.Model.Bits
namespace BV

/-- where the value of a field comes from, with the constraint the ISA configures for it -/
inductive ValSrc where
  /-- `NumericByteCodePart` / `ExpressionByteCodePart`: no constraint beyond the field width -/
  | plain (v : Int)
  /-- `ExpressionByteCodePartWithValidation` (numeric_bytecode): optional max / min -/
  | ranged (v : Int) (min max : Option Int)
  /-- `ExpressionByteCodePartInMemoryZone` (address operands, `valid_address` numerics) -/
  | inZone (v : Int) (zstart zend : Int)
  /-- `ExpressionEnumerationByteCodePart`: the value must be a key; the mapped value is emitted -/
  | enum (v : Int) (dict : List (Int × Int))
  /-- `RelativeAddressByteCodePart`: target zone-checked, offset from the instruction's address or
      from its last byte, then optional max / min -/
  | rel (target : Int) (fromEnd : Bool) (min max : Option Int) (zstart zend : Int)
  /-- `AddressByteCodePart` with `slice_lsb` and `match_address_msb` -/
  | sliced (v : Int) (zstart zend : Int)
deriving Repr

def lookupInt : List (Int × Int) → Int → Option Int
  | [], _ => none
  | (k, x) :: rest, v => if k = v then some x else lookupInt rest v

def checkMax (max : Option Int) (v : Int) : Bool := match max with | some m => decide (v ≤ m) | none => true
def checkMin (min : Option Int) (v : Int) : Bool := match min with | some m => decide (m ≤ v) | none => true

/-- impl: the value a part hands to the bit packer, or the rejection -/
def ValSrc.resolve (s : ValSrc) (addr size : Int) (width : Nat) : Except Err Int :=
  match s with
  | .plain v => .ok v
  | .ranged v mn mx =>
    if !checkMax mx v then .error .constraint
    else if !checkMin mn v then .error .constraint
    else .ok v
  | .inZone v zs ze =>
    if v > ze then .error .constraint else if v < zs then .error .constraint else .ok v
  | .enum v d =>
    match lookupInt d v with
    | none => .error .constraint
    | some x => .ok x
  | .rel t fromEnd mn mx zs ze =>
    if t > ze then .error .constraint else if t < zs then .error .constraint else
    let r := t - addr
    let r := if fromEnd then r - (size - 1) else r
    if !checkMax mx r then .error .constraint
    else if !checkMin mn r then .error .constraint
    else .ok r
  | .sliced v zs ze =>
    if v > ze then .error .constraint else if v < zs then .error .constraint else
    if addr / (2 : Int) ^ width ≠ v / (2 : Int) ^ width then .error .constraint
    else .ok (v % (2 : Int) ^ width)

/-- `a ≤ m` when a maximum `m` is configured -/
def leOpt (a : Int) : Option Int → Prop
  | none => True
  | some m => a ≤ m
/-- `m ≤ a` when a minimum `m` is configured -/
def geOpt (a : Int) : Option Int → Prop
  | none => True
  | some m => m ≤ a
instance (a : Int) (o : Option Int) : Decidable (leOpt a o) := by cases o <;> unfold leOpt <;> infer_instance
instance (a : Int) (o : Option Int) : Decidable (geOpt a o) := by cases o <;> unfold geOpt <;> infer_instance

/-- the address a relative offset is measured from -/
def relBase (addr size : Int) (fromEnd : Bool) : Int := if fromEnd then addr + size - 1 else addr

/-- spec: when is a value acceptable, as property C12 words it -/
def ValSrc.Satisfies (s : ValSrc) (addr size : Int) (width : Nat) : Prop :=
  match s with
  | .plain _ => True
  | .ranged v mn mx => leOpt v mx ∧ geOpt v mn
  | .inZone v zs ze => zs ≤ v ∧ v ≤ ze
  | .enum v d => v ∈ d.map Prod.fst
  | .rel t fromEnd mn mx zs ze =>
    zs ≤ t ∧ t ≤ ze ∧ leOpt (t - relBase addr size fromEnd) mx ∧ geOpt (t - relBase addr size fromEnd) mn
  | .sliced v zs ze => zs ≤ v ∧ v ≤ ze ∧ addr / (2 : Int) ^ width = v / (2 : Int) ^ width

instance (s : ValSrc) (addr size : Int) (width : Nat) : Decidable (s.Satisfies addr size width) := by
  cases s <;> unfold ValSrc.Satisfies <;> infer_instance

/-- spec: the value that is emitted when acceptable -/
def ValSrc.emitted (s : ValSrc) (addr size : Int) (width : Nat) : Int :=
  match s with
  | .plain v => v
  | .ranged v _ _ => v
  | .inZone v _ _ => v
  | .enum v d => (lookupInt d v).getD 0
  | .rel t fromEnd _ _ _ _ => t - relBase addr size fromEnd
  | .sliced v _ _ => v % (2 : Int) ^ width

/-- a field whose value is still to be resolved -/
structure SrcField where
  src    : ValSrc
  size   : Nat
  align  : Bool
  little : Bool
deriving Repr

def SrcField.shape (f : SrcField) : Field := { value := 0, size := f.size, align := f.align, little := f.little }

def resolveAll (addr size : Int) : List SrcField → Except Err (List Field)
  | [] => .ok []
  | f :: fs => do
    let v ← f.src.resolve addr size f.size
    let rest ← resolveAll addr size fs
    .ok ({ value := v, size := f.size, align := f.align, little := f.little } :: rest)

/-- `AssembledInstruction.get_bytes` with the instruction's address: sizes are known before values -/
def encodeAt (addr : Int) (fs : List SrcField) : Except Err (Option (List Nat)) := do
  let size := byteSizeOf (fs.map SrcField.shape)
  let vals ← resolveAll addr size fs
  getBytes vals

/-- spec-level encoding: every constraint satisfied and every emitted value fits → the bytes of
    the specified bit string; otherwise rejected -/
def specEncodeAt (addr : Int) (fs : List SrcField) : Option (List Nat) :=
  let size : Int := byteSizeOf (fs.map SrcField.shape)
  if fs.all (fun f => decide (f.src.Satisfies addr size f.size)
                      && decide (Fits (f.src.emitted addr size f.size) f.size)) then
    some (specBytes (fs.map fun f =>
      { value := f.src.emitted addr size f.size, size := f.size, align := f.align, little := f.little }))
  else none

end BV
