/-
  C20: the regular-expression fragment the editor-extension generators emit for the ISA vocabulary:
  an alternation of literal words, each wrapped in word boundaries, optionally case-insensitive —
  `\bw1\b|\bw2\b|…` (`_replace_token_with_regex_list`).  `matchAt` is a leftmost-first backtracking
  matcher (the semantics of Python `re` and of Oniguruma for this fragment); `classify` mirrors the
  order in which the generated grammars try their rules.
-/
import BespokeVerif.Model.Expr
namespace BV

inductive Rx where
  | lit (s : List Char)        -- literal text
  | wordB                      -- \b
  | seq (l : List Rx)
  | alt (l : List Rx)
deriving Repr, Inhabited

def charEq (ci : Bool) (a b : Char) : Bool := if ci then a.toLower == b.toLower else a == b

/-- is there a word boundary between `prev` (character before, if any) and `next` (character after) -/
def isBoundary (prev next : Option Char) : Bool :=
  (prev.map isWordChar).getD false != (next.map isWordChar).getD false

def matchLit (ci : Bool) : List Char → List Char → Option (List Char × List Char)
  | [], rest => some ([], rest)
  | _ :: _, [] => none
  | c :: cs, x :: xs => if charEq ci c x then (matchLit ci cs xs).map (fun (m, r) => (x :: m, r)) else none

mutual
/-- all ways `r` can match at the current position, in priority order: each result is the last
    consumed character (or the previous one) and the remaining input -/
def matchAt (ci : Bool) : Rx → Option Char → List Char → List (Option Char × List Char)
  | .lit s, prev, inp =>
    match matchLit ci s inp with
    | some (m, rest) => [((m.getLast?).orElse (fun _ => prev), rest)]
    | none => []
  | .wordB, prev, inp => if isBoundary prev inp.head? then [(prev, inp)] else []
  | .seq l, prev, inp => matchSeq ci l prev inp
  | .alt l, prev, inp => matchAlt ci l prev inp
def matchSeq (ci : Bool) : List Rx → Option Char → List Char → List (Option Char × List Char)
  | [], prev, inp => [(prev, inp)]
  | r :: rs, prev, inp => matchCont ci rs (matchAt ci r prev inp)
def matchCont (ci : Bool) (rs : List Rx) : List (Option Char × List Char) → List (Option Char × List Char)
  | [] => []
  | (p, i) :: more => matchSeq ci rs p i ++ matchCont ci rs more
def matchAlt (ci : Bool) : List Rx → Option Char → List Char → List (Option Char × List Char)
  | [], _, _ => []
  | r :: rs, prev, inp => matchAt ci r prev inp ++ matchAlt ci rs prev inp
end

/-- `\bw1\b|\bw2\b|…` -/
def wordListRx (ws : List String) : Rx := .alt (ws.map fun w => .seq [.wordB, .lit w.toList, .wordB])

/-- the first match (leftmost-first) at the start of `s` — the one a tokenizer takes -/
def firstMatch (ci : Bool) (r : Rx) (s : List Char) : Option (List Char) :=
  ((matchAt ci r none s).head?).map (·.2)

/-- does the pattern, tried at the start of the word `s`, take the whole word? -/
def takesWhole (ci : Bool) (r : Rx) (s : String) : Bool := firstMatch ci r s.toList == some []

inductive VClass where
  | instruction | macro | register | predefined | none
deriving Repr, DecidableEq, Inhabited

/-- the rule order of the generated grammars: instructions, macros, registers, predefined names;
    the alternatives of each rule in the order given -/
def classifyOrdered (instrs macros regs pre : List String) (w : String) : VClass :=
  if (firstMatch true (wordListRx instrs) w.toList).isSome then
    (if takesWhole true (wordListRx instrs) w then .instruction else .none)
  else if (firstMatch true (wordListRx macros) w.toList).isSome then
    (if takesWhole true (wordListRx macros) w then .macro else .none)
  else if (firstMatch true (wordListRx regs) w.toList).isSome then
    (if takesWhole true (wordListRx regs) w then .register else .none)
  else if takesWhole false (wordListRx pre) w then .predefined
  else .none

/-- `sorted(names, key=len, reverse=True)`: longest first, stable -/
def insertByLen (x : String) : List String → List String
  | [] => [x]
  | y :: ys => if y.length ≤ x.length then x :: y :: ys else y :: insertByLen x ys

def sortByLenDesc (ws : List String) : List String := ws.foldr insertByLen []

/-- the generated grammars: each vocabulary listed longest name first (so that a name extending
    another one, `st.b` / `st`, is tried before it) -/
def classify (instrs macros regs pre : List String) (w : String) : VClass :=
  classifyOrdered (sortByLenDesc instrs) (sortByLenDesc macros) (sortByLenDesc regs) (sortByLenDesc pre) w

/-- spec: membership in the configured vocabulary (case-insensitive except predefined names) -/
def classifySpec (instrs macros regs pre : List String) (w : String) : VClass :=
  if (instrs.map String.toLower).contains w.toLower then .instruction
  else if (macros.map String.toLower).contains w.toLower then .macro
  else if (regs.map String.toLower).contains w.toLower then .register
  else if pre.contains w then .predefined
  else .none

end BV
