/-
  C08: conditional assembly.
  impl level : `CondSt` / `condStep` mirror `ConditionStack.process_condition`, `_push`,
               `currently_active` and the parent checks of `condition.py`; `condHolds` mirrors
               `_evaluate_condition`.
  spec level : block trees (`Block`), `flatten`, `selectTree` — the standard semantics with the
               symbol environment threaded through in program order.
-/
import BespokeVerif.Model.Expr
namespace BV

inductive CmpOp where
  | eq | ne | gt | ge | lt | le
deriving Repr, DecidableEq, Inhabited

/-- replacement text of a preprocessor symbol: nothing, a decimal number, or one identifier -/
inductive SymVal where
  | empty
  | num (n : Int)
  | word (s : String)
deriving Repr, DecidableEq, Inhabited

abbrev SymTab := List (String × SymVal)

def SymTab.get? (t : SymTab) (s : String) : Option SymVal := (t.find? (·.1 == s)).map (·.2)
def SymTab.defined (t : SymTab) (s : String) : Bool := (t.get? s).isSome

/-- follow single-identifier definitions (`#define A B`, `#define B 5`); a name on the path again
    is the "indirectly referring to itself" error; fuel = number of symbols + 1 -/
def resolveWord (t : SymTab) : Nat → List String → String → Except Err SymVal
  | 0, _, _ => .error .outOfFuel
  | fuel + 1, path, s =>
    match t.get? s with
    | none => .ok (.word s)
    | some v =>
      if path.contains s then .error .symbolCycle
      else match v with
        | .word w => resolveWord t fuel (s :: path) w
        | other => .ok other

/-- whole-word substitution of defined symbols inside an expression tree -/
def substE (t : SymTab) : E → Except Err E
  | .num n => .ok (.num n)
  | .label s => do
    match ← resolveWord t (t.length + 1) [] s with
    | .empty => .error .badExpression
    | .num n => .ok (.num n)
    | .word w => .ok (.label w)
  | .neg e => do .ok (.neg (← substE t e))
  | .byteN k e => do .ok (.byteN k (← substE t e))
  | .bin o l r => do .ok (.bin o (← substE t l) (← substE t r))

def hasLabel : E → Bool
  | .num _ => false
  | .label _ => true
  | .neg e => hasLabel e
  | .byteN _ e => hasLabel e
  | .bin _ l r => hasLabel l || hasLabel r

structure CondExp where
  lhs : E
  op : CmpOp
  rhs : E
deriving Repr, Inhabited

def cmpInt (op : CmpOp) (a b : Int) : Bool :=
  match op with
  | .eq => a == b | .ne => a != b | .gt => decide (a > b) | .ge => decide (a ≥ b)
  | .lt => decide (a < b) | .le => decide (a ≤ b)

def cmpStr (op : CmpOp) (a b : String) : Bool :=
  match op with
  | .eq => a == b | .ne => a != b | .gt => decide (b < a) | .ge => !decide (a < b)
  | .lt => decide (a < b) | .le => !decide (b < a)

/-- text of a single-token side (the only string-mode sides the generators produce) -/
def sideText : E → Option String
  | .num n => some (toString n)
  | .label s => some s
  | _ => none

/-- `_evaluate_condition`: numeric comparison when no identifier is left after substitution,
    string comparison otherwise -/
def condHolds (t : SymTab) (c : CondExp) : Except Err Bool := do
  let l ← substE t c.lhs
  let r ← substE t c.rhs
  if hasLabel l || hasLabel r then
    match sideText l, sideText r with
    | some a, some b => .ok (cmpStr c.op a b)
    | _, _ => .error .other
  else do
    let a ← valueE (fun _ => none) l
    let b ← valueE (fun _ => none) r
    .ok (cmpInt c.op a b)

inductive CondDir where
  | ifc (c : CondExp)
  | elifc (c : CondExp)
  | elsec
  | endif
  | ifdef (s : String)
  | ifndef (s : String)
deriving Repr, Inhabited

inductive FrameKind where
  | ifk | elifk | elsek | ifdefk
deriving Repr, DecidableEq, Inhabited

/-- one stacked conditional chain: is its current branch selected, has any branch been selected -/
structure Frame where
  active : Bool
  taken : Bool
  kind : FrameKind
deriving Repr, DecidableEq, Inhabited

/-- head = innermost -/
abbrev CondStack := List Frame

def CondStack.active (st : CondStack) : Bool :=
  match st with
  | [] => true
  | f :: _ => f.active

/-- `_push`: decide the branch when its directive is reached, within the enclosing frame -/
def pushFrame (t : SymTab) (st : CondStack) (d : CondDir) (chainTaken : Bool) : Except Err CondStack := do
  let enclosing := st.active
  let (sel, kind) ← match d with
    | .elsec => pure (enclosing && !chainTaken, FrameKind.elsek)
    | .elifc c => do
      let b ← if enclosing && !chainTaken then condHolds t c else pure false
      pure (b, FrameKind.elifk)
    | .ifc c => do
      let b ← if enclosing && !chainTaken then condHolds t c else pure false
      pure (b, FrameKind.ifk)
    | .ifdef s => pure (enclosing && !chainTaken && t.defined s, FrameKind.ifdefk)
    | .ifndef s => pure (enclosing && !chainTaken && !t.defined s, FrameKind.ifdefk)
    | .endif => .error .condMismatch
  .ok ({ active := sel, taken := chainTaken || sel, kind := kind } :: st)

/-- `ConditionStack.process_condition` for the six conditional directives -/
def condStep (t : SymTab) (st : CondStack) (d : CondDir) : Except Err CondStack :=
  match d with
  | .endif =>
    match st with
    | [] => .error .condMismatch
    | _ :: rest => .ok rest
  | .elifc _ =>
    match st with
    | [] => .error .condMismatch
    | f :: rest => if f.kind = .elsek then .error .condMismatch else pushFrame t rest d f.taken
  | .elsec =>
    match st with
    | [] => .error .condMismatch
    | f :: rest => if f.kind = .elsek then .error .condMismatch else pushFrame t rest d f.taken
  | _ => pushFrame t st d false

/-! ## spec level: block trees -/

/-- an item of a source file as far as conditional assembly is concerned -/
inductive Item where
  | line (id : Nat)                         -- an ordinary line (marker)
  | define (name : String) (v : SymVal)     -- `#define`
deriving Repr, Inhabited

inductive Opener where
  | ifc (c : CondExp) | ifdef (s : String) | ifndef (s : String)
deriving Repr, Inhabited

mutual
inductive Block where
  | item (i : Item)
  | chain (opener : Opener) (body : List Block) (elifs : List (CondExp × List Block))
      (els : Option (List Block))
end

/-- directive / item stream of a file -/
inductive Dir where
  | item (i : Item)
  | cond (d : CondDir)
deriving Repr, Inhabited

def Opener.toDir : Opener → CondDir
  | .ifc c => .ifc c | .ifdef s => .ifdef s | .ifndef s => .ifndef s

mutual
def flattenB : Block → List Dir
  | .item i => [.item i]
  | .chain o body elifs els =>
    [.cond o.toDir] ++ flattenL body ++ flattenE elifs
      ++ (match els with | none => [] | some b => [.cond .elsec] ++ flattenL b) ++ [.cond .endif]
def flattenL : List Block → List Dir
  | [] => []
  | b :: bs => flattenB b ++ flattenL bs
def flattenE : List (CondExp × List Block) → List Dir
  | [] => []
  | (c, b) :: rest => [.cond (.elifc c)] ++ flattenL b ++ flattenE rest
end

def openerHolds (t : SymTab) : Opener → Except Err Bool
  | .ifc c => condHolds t c
  | .ifdef s => .ok (t.defined s)
  | .ifndef s => .ok (!t.defined s)

/-- the result of selection: ids of the selected ordinary lines, in order, and the symbol table -/
structure Sel where
  lines : List Nat
  syms : SymTab
deriving Repr, Inhabited

def addSym (t : SymTab) (n : String) (v : SymVal) : Except Err SymTab :=
  if t.defined n then .error .symbolRedefined else .ok (t ++ [(n, v)])

mutual
/-- tree semantics: `on` = every enclosing block selected the branch containing this block -/
def selB (on : Bool) (s : Sel) : Block → Except Err Sel
  | .item (.line id) => .ok (if on then { s with lines := s.lines ++ [id] } else s)
  | .item (.define n v) => if on then do .ok { s with syms := ← addSym s.syms n v } else .ok s
  | .chain o body elifs els => do
    -- the first branch whose condition held at the moment its directive was reached
    let c0 ← if on then openerHolds s.syms o else pure false
    let s1 ← selL (on && c0) s body
    let (s2, taken) ← selE on c0 s1 elifs
    match els with
    | none => .ok s2
    | some b => selL (on && !taken) s2 b
def selL (on : Bool) (s : Sel) : List Block → Except Err Sel
  | [] => .ok s
  | b :: bs => do let s' ← selB on s b; selL on s' bs
def selE (on : Bool) (taken : Bool) (s : Sel) : List (CondExp × List Block) → Except Err (Sel × Bool)
  | [] => .ok (s, taken)
  | (c, b) :: rest => do
    let h ← if on && !taken then condHolds s.syms c else pure false
    let s' ← selL (on && h) s b
    selE on (taken || h) s' rest
end

/-- stack-machine semantics of a directive stream -/
def runDirs : List Dir → CondStack → Sel → Except Err (CondStack × Sel)
  | [], st, s => .ok (st, s)
  | .item (.line id) :: rest, st, s =>
    runDirs rest st (if st.active then { s with lines := s.lines ++ [id] } else s)
  | .item (.define n v) :: rest, st, s =>
    if st.active then do runDirs rest st { s with syms := ← addSym s.syms n v } else runDirs rest st s
  | .cond d :: rest, st, s => do
    let st' ← condStep s.syms st d
    runDirs rest st' s

end BV
