/-
  Property C17 — including a file is equivalent to assembling its text in place (under a fresh
  file scope).  Statements only; helper lemmas live in `BespokeVerif/Lemmas/Include.lean`.
-/
import BespokeVerif.Model.Layout
import BespokeVerif.Model.Include
import BespokeVerif.Lemmas.Include
namespace BV.C17
open BV

/-- a file included more than once is rejected -/
theorem include_twice_rejected (cfg : Cfg) (files : List (List Stmt)) (fuel f : Nat) (st : ReadSt)
    (h : st.used.contains f = true) : readFile cfg files (fuel + 1) f st = .error .includeError := by
  rw [readFile.eq_2, if_pos h]

/-- a missing file is rejected -/
theorem include_missing_rejected (cfg : Cfg) (files : List (List Stmt)) (fuel f : Nat) (st : ReadSt)
    (h : files[f]? = none) : readFile cfg files (fuel + 1) f st = .error .includeError := by
  rw [readFile.eq_2, h]
  split <;> rfl

/-- every line read from a file carries that file's own scope (file scope or one of its local
    regions) — file-scoped and local labels of includer and included file never mix — and no line
    comes from a file that had already been opened -/
theorem included_lines_tagged (cfg : Cfg) (files : List (List Stmt)) (fuel f : Nat) (st st' : ReadSt)
    (lines : List Line) (h : readFile cfg files fuel f st = .ok (lines, st')) :
    ∀ ln ∈ lines, ln.scope.fileId = ln.file ∧ st.used.contains ln.file = false := by
  exact (readFile_inv cfg files fuel f st lines st' h).1

/-- the set of opened files only grows, and the file just read is in it -/
theorem used_grows (cfg : Cfg) (files : List (List Stmt)) (fuel f : Nat) (st st' : ReadSt)
    (lines : List Line) (h : readFile cfg files fuel f st = .ok (lines, st')) :
    st'.used.contains f = true ∧ ∀ g, st.used.contains g = true → st'.used.contains g = true := by
  have := readFile_inv cfg files fuel f st lines st' h
  exact ⟨this.2.2, this.2.1⟩

/-- no file is opened twice anywhere in the include tree - not by the file that includes it, not by a file it
    includes itself, not by a sibling (a "diamond"): the record of opened files is one for the whole tree, and an
    accepted read leaves it without a repetition -/
theorem no_file_opened_twice (cfg : Cfg) (files : List (List Stmt)) (fuel f : Nat) (st st' : ReadSt)
    (lines : List Line) (h : readFile cfg files fuel f st = .ok (lines, st')) (hn : st.used.Nodup) :
    st'.used.Nodup :=
  readFile_used_nodup cfg files fuel f st lines st' h hn

/-- … in particular for a whole program, which starts with nothing opened -/
theorem program_opens_each_file_once (cfg : Cfg) (files : List (List Stmt)) (fuel : Nat) (st st' : ReadSt)
    (lines : List Line) (h0 : st.used = []) (h : readFile cfg files fuel 0 st = .ok (lines, st')) :
    st'.used.Nodup ∧ st'.used.contains 0 = true := by
  refine ⟨readFile_used_nodup cfg files fuel 0 st lines st' h (by rw [h0]; exact List.nodup_nil), ?_⟩
  exact (readFile_inv cfg files fuel 0 st lines st' h).2.2

/-- the includer's current local-label region, selected zone, mute depth and open conditional
    chains continue unchanged after a selected `#include` … -/
theorem includer_state_continues (cfg : Cfg) (files : List (List Stmt)) (fuel f g : Nat) (rest : List Stmt)
    (sc : Scope) (zone : String) (mute : Nat) (cs : CondStack) (st : ReadSt) (acc : List Line)
    (hact : cs.active = true) :
    readFile.go cfg files fuel f (.includeFile g :: rest) sc zone mute cs st acc =
      (readFile cfg files fuel g st).bind fun (ls, st') =>
        readFile.go cfg files fuel f rest sc zone mute cs st' (acc ++ ls) := by
  rw [readFile.go.eq_def]
  simp only [hact, substStmt]
  rfl

/-- … and an `#include` in an unselected conditional branch has no effect at all -/
theorem include_unselected_skipped (cfg : Cfg) (files : List (List Stmt)) (fuel f g : Nat) (rest : List Stmt)
    (sc : Scope) (zone : String) (mute : Nat) (cs : CondStack) (st : ReadSt) (acc : List Line)
    (hact : cs.active = false) :
    readFile.go cfg files fuel f (.includeFile g :: rest) sc zone mute cs st acc =
      readFile.go cfg files fuel f rest sc zone mute cs st acc := by
  rw [readFile.go.eq_def]
  simp only [hact]
  rfl

/-- statements that only produce payload: no labels, constants, scope / zone / mute / conditional /
    symbol / zone-declaration / include directives -/
def Payload : Stmt → Bool
  | .data .. | .bytes .. | .str .. | .fill .. | .zerountil .. | .instr .. | .comment | .align .. => true
  | _ => false

/-- what a line contributes to placement and bytes, apart from its label scope and file tag -/
def untag (ln : Line) : Stmt × String × Bool := (ln.stmt, ln.zone, ln.muted)

/-- Pasting theorem: while the includer is in GLOBAL, unmuted and on a selected branch, including a
    payload-only file yields exactly the lines of the pasted text (same statements after symbol
    substitution, same zone, same mute state, same order), and leaves labels, zones and symbols of
    the reader state as the pasted text does. -/
theorem payload_paste (cfg : Cfg) (files : List (List Stmt)) (fuel f g : Nat) (body : List Stmt)
    (sc : Scope) (cs : CondStack) (st : ReadSt) (acc : List Line)
    (hg : files[g]? = some body) (hp : ∀ s ∈ body, Payload s = true) (hfresh : st.used.contains g = false)
    (hact : cs.active = true) (ls : List Line) (st' : ReadSt)
    (h : readFile.go cfg files (fuel + 1) f [.includeFile g] sc "GLOBAL" 0 cs st acc = .ok (ls, st')) :
    ∃ ls' st'', readFile.go cfg files (fuel + 1) f body sc "GLOBAL" 0 cs st acc = .ok (ls', st'') ∧
      ls'.map untag = ls.map untag ∧ st''.labels = st'.labels ∧ st''.zones = st'.zones ∧ st''.syms = st'.syms := by
  have hp' : ∀ s ∈ body, payloadStmt s = true := by
    intro s hs
    have := hp s hs
    cases s <;> first | rfl | cases this
  -- the include: open `g`, read its body under a fresh scope
  rw [includer_state_continues _ _ _ _ _ _ _ _ _ _ _ _ hact, readFile.eq_2, if_neg (by rw [hfresh]; exact Bool.false_ne_true), hg] at h
  simp only [] at h
  rw [go_payload _ _ _ _ _ _ _ _ _ _ _ hp' rfl] at h
  -- the pasted text
  rw [go_payload _ _ _ _ _ _ _ _ _ _ _ hp' hact]
  simp only [] at h
  cases hs : substAll st.syms body with
  | error e => rw [hs] at h; cases h
  | ok ss =>
    rw [hs] at h
    simp only [Except.bind, readFile.go.eq_1, List.nil_append] at h
    cases h
    refine ⟨_, _, rfl, ?_, rfl, rfl, rfl⟩
    simp [untag, payloadLine, Function.comp_def]

/-- directory search: a name found in no directory or in more than one is rejected, otherwise the
    single hit is returned — independently of the order of the directories -/
theorem locate_ok_iff (present : String → Bool) (dirs : List String) (d : String) (hn : dirs.Nodup) :
    locate present dirs = .ok d ↔ d ∈ dirs ∧ present d = true ∧ ∀ e ∈ dirs, present e = true → e = d := by
  rw [locate_ok_iff_filter]
  constructor
  · intro h
    have hm : ∀ e, e ∈ dirs.filter present ↔ e = d := by intro e; rw [h]; simp
    have hd := (hm d).2 rfl
    rw [List.mem_filter] at hd
    refine ⟨hd.1, hd.2, ?_⟩
    intro e he hpe
    exact (hm e).1 (List.mem_filter.2 ⟨he, hpe⟩)
  · rintro ⟨hd, hpd, hall⟩
    have hnf : (dirs.filter present).Nodup := hn.sublist List.filter_sublist
    have hmem : d ∈ dirs.filter present := List.mem_filter.2 ⟨hd, hpd⟩
    have hall' : ∀ e ∈ dirs.filter present, e = d := by
      intro e he; rw [List.mem_filter] at he; exact hall e he.1 he.2
    generalize dirs.filter present = l at *
    match l, hnf, hmem, hall' with
    | [a], _, hmem, hall' => simp at hmem; simp [hmem]
    | a :: b :: t, hnf, _, hall' =>
      have ha := hall' a (by simp)
      have hb := hall' b (by simp)
      simp [ha, hb] at hnf

theorem locate_perm (present : String → Bool) (dirs dirs' : List String) (hp : dirs.Perm dirs') (hn : dirs.Nodup) :
    locate present dirs' = locate present dirs := by
  have _ := hn
  have hf : (dirs.filter present).Perm (dirs'.filter present) := hp.filter _
  rw [locate_eq_filter, locate_eq_filter]
  rcases h1 : dirs.filter present with _ | ⟨a, _ | ⟨b, t⟩⟩
  · rw [h1] at hf
    rw [List.nil_perm.1 hf]
  · rw [h1] at hf
    rw [List.singleton_perm.1 hf]
  · rw [h1] at hf
    have hl := hf.length_eq
    rcases h2 : dirs'.filter present with _ | ⟨a', _ | ⟨b', t'⟩⟩
    · simp [h2] at hl
    · simp [h2] at hl
    · rfl

/-- de-duplication keeps exactly one entry per real directory -/
theorem dedupDirs_nodup (real : String → String) (dirs : List String) : (dedupDirs real dirs).Nodup := by
  exact dedupDirs_nodup' real dirs
theorem dedupDirs_mem (real : String → String) (dirs : List String) (p : String) :
    p ∈ dedupDirs real dirs ↔ ∃ d ∈ dirs, real d = p := by
  exact dedupDirs_mem' real dirs p

/-- … so the set of search directories does not depend on the order in which they were supplied -/
theorem dedupDirs_perm (real : String → String) (dirs dirs' : List String) (hp : dirs.Perm dirs') :
    (dedupDirs real dirs).Perm (dedupDirs real dirs') := by
  refine (List.perm_ext_iff_of_nodup (dedupDirs_nodup' real dirs) (dedupDirs_nodup' real dirs')).2 ?_
  intro p
  rw [dedupDirs_mem', dedupDirs_mem']
  constructor
  · rintro ⟨d, hd, h⟩; exact ⟨d, hp.mem_iff.1 hd, h⟩
  · rintro ⟨d, hd, h⟩; exact ⟨d, hp.mem_iff.2 hd, h⟩

end BV.C17
