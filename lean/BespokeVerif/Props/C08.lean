/-
  Property C08 — conditional assembly selects exactly the lines of the taken branches.
  Statements only; helper lemmas live in `BespokeVerif/Lemmas/Cond.lean`.
-/
import BespokeVerif.Model.Cond
import BespokeVerif.Lemmas.Cond
namespace BV.C08
open BV

/-- Main refinement: running the condition-stack machine over the directive stream of a list of
    well-nested blocks selects exactly what the block-tree semantics selects (same lines, same
    symbol table, same errors), and leaves the stack as it found it — for every nesting depth,
    every symbol history, and whatever enclosing chains are open (`st`). -/
theorem stack_eq_tree (bs : List Block) (st : CondStack) (s : Sel) :
    runDirs (flattenL bs) st s = (selL st.active s bs).map fun s' => (st, s') := by
  exact runL_all bs st s

/-- top-level corollary: a whole file -/
theorem file_selection (bs : List Block) (s : Sel) :
    runDirs (flattenL bs) [] s = (selL true s bs).map fun s' => ([], s') := by
  exact runL_all bs [] s

/-- no branch of a chain nested inside an unselected branch is selected, and nothing in it is
    evaluated or defined (not even a condition that would be an error) -/
theorem unselected_selects_nothing (b : Block) (s : Sel) : selB false s b = .ok s := by
  exact offB_all b s
theorem unselected_list_selects_nothing (bs : List Block) (s : Sel) : selL false s bs = .ok s := by
  exact offL_all bs s

/-- a line contributes iff it is reached while every enclosing block is on its selected branch -/
theorem line_selected_iff (on : Bool) (s : Sel) (id : Nat) :
    selB on s (.item (.line id)) = .ok (if on then { s with lines := s.lines ++ [id] } else s) := by
  simp only [selB]

/-- a symbol definition takes effect iff selected; a second definition is rejected -/
theorem define_selected (s : Sel) (n : String) (v : SymVal) (h : s.syms.defined n = false) :
    selB true s (.item (.define n v)) = .ok { s with syms := s.syms ++ [(n, v)] } := by
  simp only [selB, if_true, addSym, h, Bool.false_eq_true, if_false, bind, Except.bind]
theorem define_twice_rejected (s : Sel) (n : String) (v : SymVal) (h : s.syms.defined n = true) :
    selB true s (.item (.define n v)) = .error .symbolRedefined := by
  simp only [selB, if_true, addSym, h, bind, Except.bind]

/-- within one chain the selected branch is the first whose condition held when its directive was
    reached, else the #else branch: chain without #elif -/
theorem chain_if_else (s : Sel) (o : Opener) (body els : List Block) (c : Bool)
    (hc : openerHolds s.syms o = .ok c) :
    selB true s (.chain o body [] (some els)) =
      (selL c s body).bind fun s1 => selL (!c) s1 els := by
  rw [selB]
  simp only [if_true, hc, bind, Except.bind, Bool.true_and, selE]

/-- #ifdef / #ifndef test only whether the symbol is defined at that point -/
theorem ifdef_only_definedness (t : SymTab) (n : String) :
    openerHolds t (.ifdef n) = .ok (t.defined n) ∧ openerHolds t (.ifndef n) = .ok (!t.defined n) := by
  exact ⟨rfl, rfl⟩

/-- conditions compare integers when both sides are numeric -/
theorem cond_numeric (t : SymTab) (a b : Int) (op : CmpOp) :
    condHolds t { lhs := .num a, op := op, rhs := .num b } = .ok (cmpInt op a b) := by
  exact condHolds_num t a b op

/-- a bare expression means "not equal to 0" -/
theorem cond_bare (t : SymTab) (a : Int) :
    condHolds t { lhs := .num a, op := .ne, rhs := .num 0 } = .ok (decide (a ≠ 0)) := by
  rw [condHolds_num]
  simp only [cmpInt, bne, decide_not]
  cases h : a == 0 <;> simp_all

/-- an #else, #elif or #endif without a matching opener is rejected -/
theorem stray_rejected (t : SymTab) (c : CondExp) :
    condStep t [] .endif = .error .condMismatch ∧ condStep t [] .elsec = .error .condMismatch ∧
    condStep t [] (.elifc c) = .error .condMismatch := by
  exact ⟨rfl, rfl, rfl⟩

/-- an #else or #elif after the #else of the same chain is rejected -/
theorem after_else_rejected (t : SymTab) (c : CondExp) (f : Frame) (rest : CondStack) (h : f.kind = .elsek) :
    condStep t (f :: rest) .elsec = .error .condMismatch ∧
    condStep t (f :: rest) (.elifc c) = .error .condMismatch := by
  simp only [condStep, h, if_true, and_self]

/-- a stream with a stray closing directive at top level is rejected as a whole -/
theorem stray_stream_rejected (bs : List Block) (rest : List Dir) (s : Sel) (d : CondDir)
    (hd : d = .endif ∨ d = .elsec ∨ ∃ c, d = .elifc c) :
    (∃ e, runDirs (flattenL bs ++ .cond d :: rest) [] s = .error e) := by
  rw [runDirs_append, runL_all bs [] s]
  cases selL (CondStack.active []) s bs with
  | error e => exact ⟨e, rfl⟩
  | ok s' =>
    refine ⟨.condMismatch, ?_⟩
    simp only [Except.map, Except.bind]
    rcases hd with rfl | rfl | ⟨c, rfl⟩ <;> rfl

/-- non-vacuity: the include-guard idiom keeps its body, and a chain nested in an unselected branch
    selects nothing -/
example :
    (selL true { lines := [], syms := [] }
      [.chain (.ifndef "FOO") [.item (.define "FOO" (.num 1)), .item (.line 1)] [] none, .item (.line 2),
       .chain (.ifc { lhs := .num 0, op := .ne, rhs := .num 0 })
         [.chain (.ifc { lhs := .num 1, op := .ne, rhs := .num 0 }) [.item (.line 3)] [] none, .item (.line 4)] [] none,
       .item (.line 5)]).map (·.lines) = .ok [1, 2, 5] := by decide +kernel

end BV.C08
