/-
  Property C15 — assembly is deterministic.  (Partial: the model is a function, so its
  determinism is trivial; what is proved is that every place where the implementation consumes a
  hash-ordered collection — the register set, the include-directory set — is insensitive to the
  order of that collection.  That these are the ONLY such places is established by the static scan
  and the multi-hash-seed runs of the check, not by proof.)
-/
import BespokeVerif.Model.Select
import BespokeVerif.Model.Layout
import BespokeVerif.Model.Include
import BespokeVerif.Lemmas.Determinism
namespace BV.C15
open BV

/-- membership tests on the register collection do not depend on its order -/
theorem contains_perm (regs regs' : List String) (h : regs.Perm regs') (s : String) :
    regs'.contains s = regs.contains s := by
  exact det_contains_perm regs regs' h s

/-- … and so is the case-insensitive register-name test -/
theorem isRegName_perm (regs regs' : List String) (h : regs.Perm regs') (s : String) :
    isRegName regs' s = isRegName regs s := by
  exact det_isRegName_perm regs regs' h s

theorem hasReg_perm (regs regs' : List String) (h : regs.Perm regs') (e : E) : hasReg regs' e = hasReg regs e := by
  exact det_hasReg_perm regs regs' h e

/-- operand acceptance does not depend on the order of the register set -/
theorem accepts_perm_regs (regs regs' : List String) (h : regs.Perm regs') (gz : Int × Int) (id : String)
    (c : OperandCfg) (f : Form) : accepts regs' gz id c f = accepts regs gz id c f := by
  exact det_accepts_perm regs regs' h gz id c f

theorem matchSet_perm_regs (regs regs' : List String) (h : regs.Perm regs') (gz : Int × Int)
    (set : List (String × OperandCfg)) (f : Form) : matchSet regs' gz set f = matchSet regs gz set f := by
  exact det_matchSet_perm regs regs' h gz set f

/-- … and neither does the choice of the variant -/
theorem selectVariant_perm_regs (regs regs' : List String) (h : regs.Perm regs') (gz : Int × Int)
    (vs : List VariantCfg) (fs : List Form) (i : Nat) :
    selectVariant regs' gz vs fs i = selectVariant regs gz vs fs i := by
  exact det_selectVariant_perm regs regs' h gz vs fs i

/-- label lookup (the register check at global scope) does not depend on the order of the register set -/
theorem lookup_perm_regs (L : Labels) (regs regs' : List String) (h : regs.Perm regs') (sc : Scope) (name : String) :
    L.lookup regs' sc name = L.lookup regs sc name := by
  exact det_lookup_perm L regs regs' h sc name

/-- locating an included file does not depend on the order in which the directory set is iterated -/
theorem locate_perm (present : String → Bool) (dirs dirs' : List String) (hp : dirs.Perm dirs') :
    locate present dirs' = locate present dirs := by
  exact det_locate_perm present dirs dirs' hp

/-- the de-duplicated directory collection does not depend (as a collection) on the order in which
    the directories were supplied on the command line -/
theorem dedupDirs_perm (real : String → String) (dirs dirs' : List String) (hp : dirs.Perm dirs') :
    (dedupDirs real dirs).Perm (dedupDirs real dirs') := by
  exact det_dedupDirs_perm real dirs dirs' hp

/-- locating through the de-duplicated directories is independent of the command-line order -/
theorem locate_dedup_perm (present : String → Bool) (real : String → String) (dirs dirs' : List String)
    (hp : dirs.Perm dirs') :
    locate present (dedupDirs real dirs') = locate present (dedupDirs real dirs) := by
  exact det_locate_perm present _ _ (det_dedupDirs_perm real dirs dirs' hp)

end BV.C15
