/-
  Property C03 — the binary image is a faithful window onto the assembled memory map.
  Statements only; helper lemmas live in `BespokeVerif/Lemmas/Image.lean`.
-/
import BespokeVerif.Model.Layout
import BespokeVerif.Lemmas.Image
namespace BV.C03
open BV

/-- an unmuted byte line covers address `a` -/
def Covers (e : Emitted) (a : Int) : Prop :=
  e.isByte = true ∧ e.muted = false ∧ e.addr ≤ a ∧ a < e.addr + e.bytes.length

/-- no two unmuted byte lines cover a common address (guaranteed by the overlap check, C04) -/
def NoCommonAddress (es : List Emitted) : Prop :=
  es.Pairwise fun e e' => ∀ a, ¬ (Covers e a ∧ Covers e' a)

/-- `NoCommonAddress` in terms of the Boolean cover predicate of `specImageByte` -/
theorem noCommon_of {es : List Emitted} (h : NoCommonAddress es) : NoCommon es :=
  List.Pairwise.imp (fun {e e'} hne a hc =>
    hne a ⟨(cov_iff e a).mp hc.1, (cov_iff e' a).mp hc.2⟩) h

/-- an explicit window has length `end - start + 1` (0 when negative) -/
theorem image_length_explicit (start stop : Int) (fill : Nat) (m : List (Int × Nat)) :
    (imageOf start (some stop) fill m).length = (stop + 1 - start).toNat := by
  exact imageOf_length start (some stop) fill m

/-- without an end the window ends at the highest address that received an emitted byte -/
theorem image_length_default (start : Int) (fill : Nat) (m : List (Int × Nat)) :
    (imageOf start none fill m).length = ((maxAddr m).getD (start - 1) + 1 - start).toNat := by
  exact imageOf_length start none fill m

theorem maxAddr_none_iff (m : List (Int × Nat)) : maxAddr m = none ↔ m = [] := by
  exact maxAddr_none_iff' m

theorem maxAddr_is_max (m : List (Int × Nat)) (x : Int) (h : maxAddr m = some x) :
    (∃ b, (x, b) ∈ m) ∧ ∀ k b, (k, b) ∈ m → k ≤ x := by
  exact maxAddr_is_max' m x h

/-- offset `i` of the image is the byte of address `start + i`, or the fill value -/
theorem image_byte (start : Int) (stop : Option Int) (fill : Nat) (m : List (Int × Nat)) (i : Nat)
    (hi : i < (imageOf start stop fill m).length) :
    (imageOf start stop fill m)[i]? = some ((mapGet m (start + (i : Int))).getD fill) := by
  exact imageOf_getElem? start stop fill m i hi

/-- the address→byte map holds exactly the bytes of the unmuted byte lines: an address covered by
    a line maps to that line's byte at the right offset … -/
theorem memMap_covered (es : List Emitted) (hno : NoCommonAddress es) (e : Emitted) (he : e ∈ es)
    (a : Int) (hc : Covers e a) :
    mapGet (memMap es) a = e.bytes[(a - e.addr).toNat]? := by
  have hc' : cov e a = true := (cov_iff e a).mpr hc
  rw [mapGet_memMap_covered es (noCommon_of hno) e he a hc']
  have hlt := cov_index_lt e a hc'
  simp [hlt]

/-- … and an address covered by no unmuted byte line is absent (muted lines contribute nothing) -/
theorem memMap_uncovered (es : List Emitted) (a : Int) (h : ∀ e ∈ es, ¬ Covers e a) :
    mapGet (memMap es) a = none := by
  apply mapGet_memMap_uncovered
  intro e he
  cases hce : cov e a with
  | false => rfl
  | true => exact absurd ((cov_iff e a).mp hce) (h e he)

/-- every key of the map is covered by some unmuted byte line (nothing else is ever written) -/
theorem memMap_keys (es : List Emitted) (a : Int) (b : Nat) (h : (a, b) ∈ memMap es) :
    ∃ e ∈ es, Covers e a := by
  obtain ⟨e, he, hc⟩ := memMap_mem_covered es a b h
  exact ⟨e, he, (cov_iff e a).mp hc⟩

/-- Full statement: the image of an explicit window is, offset by offset, the specified byte:
    the assembled byte where an unmuted line emitted one, the fill value elsewhere — also when a
    line straddles the window's start or end. -/
theorem image_eq_spec (es : List Emitted) (hno : NoCommonAddress es) (start stop : Int) (fill : Nat) :
    imageOf start (some stop) fill (memMap es) =
      (List.range (stop + 1 - start).toNat).map fun (i : Nat) => specImageByte es fill (start + (i : Int)) := by
  exact imageOf_eq_spec es (noCommon_of hno) start (some stop) fill

/-- with no end given: same bytes, and the window stops exactly at the highest emitted address -/
theorem image_eq_spec_default (es : List Emitted) (hno : NoCommonAddress es) (start : Int) (fill : Nat) :
    imageOf start none fill (memMap es) =
      (List.range (((maxAddr (memMap es)).getD (start - 1)) + 1 - start).toNat).map
        fun (i : Nat) => specImageByte es fill (start + (i : Int)) := by
  exact imageOf_eq_spec es (noCommon_of hno) start none fill

theorem default_end_is_highest (es : List Emitted) (x : Int) (h : maxAddr (memMap es) = some x) :
    (∃ e ∈ es, Covers e x) ∧ ∀ a, (∃ e ∈ es, Covers e a) → a ≤ x := by
  obtain ⟨⟨e, he, hc⟩, hmax⟩ := maxAddr_memMap es x h
  refine ⟨⟨e, he, (cov_iff e x).mp hc⟩, ?_⟩
  intro a ⟨e', he', hc'⟩
  exact hmax a ⟨e', he', (cov_iff e' a).mpr hc'⟩

/-- non-vacuity: two 4-byte lines, window 2..5 cuts both -/
example :
    imageOf 2 (some 5) 0 (memMap [⟨0, 4, [1, 2, 3, 4], false, true⟩, ⟨4, 4, [5, 6, 7, 8], false, true⟩])
      = [3, 4, 5, 6] := by decide +kernel

end BV.C03
