/-
  Property C03 — the binary image is a faithful window onto the assembled memory map.
  Statements only; helper lemmas live in `BespokeVerif/Lemmas/Image.lean`.
-/
import BespokeVerif.Model.Layout
import BespokeVerif.Lemmas.Image
import BespokeVerif.Lemmas.ImageFast
namespace BV.C03
open BV

/-- an unmuted byte line covers address `a` -/
def Covers (e : Emitted) (a : Int) : Prop :=
  e.isByte = true ∧ e.muted = false ∧ e.addr ≤ a ∧ a < e.addr + e.bytes.length

/-- no two unmuted byte lines cover a common address (guaranteed by the overlap check, C04) -/
def NoCommonAddress (es : List Emitted) : Prop :=
  es.Pairwise fun e e' => ∀ a, ¬ (Covers e a ∧ Covers e' a)

/-- `NoCommonAddress` in terms of the Boolean cover predicate of `specImageByte` -/
theorem noCommon_of {es : List Emitted} (h : NoCommonAddress es) : NoCommon es :=
  List.Pairwise.imp (fun {e e'} hne a hc =>
    hne a ⟨(cov_iff e a).mp hc.1, (cov_iff e' a).mp hc.2⟩) h

/-- an explicit window has length `end - start + 1` (0 when negative) -/
theorem image_length_explicit (start stop : Int) (fill : Nat) (m : List (Int × Nat)) :
    (imageOf start (some stop) fill m).length = (stop + 1 - start).toNat := by
  exact imageOf_length start (some stop) fill m

/-- without an end the window ends at the highest address that received an emitted byte -/
theorem image_length_default (start : Int) (fill : Nat) (m : List (Int × Nat)) :
    (imageOf start none fill m).length = ((maxAddr m).getD (start - 1) + 1 - start).toNat := by
  exact imageOf_length start none fill m

theorem maxAddr_none_iff (m : List (Int × Nat)) : maxAddr m = none ↔ m = [] := by
  exact maxAddr_none_iff' m

theorem maxAddr_is_max (m : List (Int × Nat)) (x : Int) (h : maxAddr m = some x) :
    (∃ b, (x, b) ∈ m) ∧ ∀ k b, (k, b) ∈ m → k ≤ x := by
  exact maxAddr_is_max' m x h

/-- offset `i` of the image is the byte of address `start + i`, or the fill value -/
theorem image_byte (start : Int) (stop : Option Int) (fill : Nat) (m : List (Int × Nat)) (i : Nat)
    (hi : i < (imageOf start stop fill m).length) :
    (imageOf start stop fill m)[i]? = some ((mapGet m (start + (i : Int))).getD fill) := by
  exact imageOf_getElem? start stop fill m i hi

/-- the address→byte map holds exactly the bytes of the unmuted byte lines: an address covered by
    a line maps to that line's byte at the right offset … -/
theorem memMap_covered (es : List Emitted) (hno : NoCommonAddress es) (e : Emitted) (he : e ∈ es)
    (a : Int) (hc : Covers e a) :
    mapGet (memMap es) a = e.bytes[(a - e.addr).toNat]? := by
  have hc' : cov e a = true := (cov_iff e a).mpr hc
  rw [mapGet_memMap_covered es (noCommon_of hno) e he a hc']
  have hlt := cov_index_lt e a hc'
  simp [hlt]

/-- … and an address covered by no unmuted byte line is absent (muted lines contribute nothing) -/
theorem memMap_uncovered (es : List Emitted) (a : Int) (h : ∀ e ∈ es, ¬ Covers e a) :
    mapGet (memMap es) a = none := by
  apply mapGet_memMap_uncovered
  intro e he
  cases hce : cov e a with
  | false => rfl
  | true => exact absurd ((cov_iff e a).mp hce) (h e he)

/-- every key of the map is covered by some unmuted byte line (nothing else is ever written) -/
theorem memMap_keys (es : List Emitted) (a : Int) (b : Nat) (h : (a, b) ∈ memMap es) :
    ∃ e ∈ es, Covers e a := by
  obtain ⟨e, he, hc⟩ := memMap_mem_covered es a b h
  exact ⟨e, he, (cov_iff e a).mp hc⟩

/-- Full statement: the image of an explicit window is, offset by offset, the specified byte:
    the assembled byte where an unmuted line emitted one, the fill value elsewhere — also when a
    line straddles the window's start or end. -/
theorem image_eq_spec (es : List Emitted) (hno : NoCommonAddress es) (start stop : Int) (fill : Nat) :
    imageOf start (some stop) fill (memMap es) =
      (List.range (stop + 1 - start).toNat).map fun (i : Nat) => specImageByte es fill (start + (i : Int)) := by
  exact imageOf_eq_spec es (noCommon_of hno) start (some stop) fill

/-- with no end given: same bytes, and the window stops exactly at the highest emitted address -/
theorem image_eq_spec_default (es : List Emitted) (hno : NoCommonAddress es) (start : Int) (fill : Nat) :
    imageOf start none fill (memMap es) =
      (List.range (((maxAddr (memMap es)).getD (start - 1)) + 1 - start).toNat).map
        fun (i : Nat) => specImageByte es fill (start + (i : Int)) := by
  exact imageOf_eq_spec es (noCommon_of hno) start none fill

theorem default_end_is_highest (es : List Emitted) (x : Int) (h : maxAddr (memMap es) = some x) :
    (∃ e ∈ es, Covers e x) ∧ ∀ a, (∃ e ∈ es, Covers e a) → a ≤ x := by
  obtain ⟨⟨e, he, hc⟩, hmax⟩ := maxAddr_memMap es x h
  refine ⟨⟨e, he, (cov_iff e x).mp hc⟩, ?_⟩
  intro a ⟨e', he', hc'⟩
  exact hmax a ⟨e', he', (cov_iff e' a).mpr hc'⟩

/-- non-vacuity: two 4-byte lines, window 2..5 cuts both -/
example :
    imageOf 2 (some 5) 0 (memMap [⟨0, 4, [1, 2, 3, 4], false, true⟩, ⟨4, 4, [5, 6, 7, 8], false, true⟩])
      = [3, 4, 5, 6] := by decide +kernel

/-! ## end to end: what the hypotheses above are worth for a program that was accepted

The theorems above assume `NoCommonAddress`.  For the lines of any program the model accepts this holds -
no hypothesis left: every byte line emits exactly the bytes the first pass reserved for it, so the ranges
the overlap check compares are the ranges the bytes occupy. -/

/-- every byte line of an assembled program emits exactly as many bytes as were reserved for it
    (none when the reserved size is negative: a fill with a negative count) -/
theorem emitted_sizes_match (cfg : Cfg) (files : List (List Stmt)) (es : List Emitted) (L : Labels)
    (h : assembleLines cfg files = .ok (es, L)) (e : Emitted) (he : e ∈ es) (hb : e.isByte = true) :
    (e.bytes.length : Int) = if 0 ≤ e.size then e.size else 0 :=
  assembleLines_wf cfg files es L h e he hb

/-- the lines of an accepted program: no two unmuted byte lines cover a common address -/
theorem accepted_no_common_address (cfg : Cfg) (files : List (List Stmt)) (start : Int) (stop : Option Int) (fill : Nat)
    (o : Outcome) (h : assemble cfg files start stop fill = .ok o) : NoCommonAddress o.emitted := by
  unfold assemble at h
  cases hl : assembleLines cfg files with
  | error e => rw [hl] at h; cases h
  | ok r =>
    obtain ⟨es, L⟩ := r
    rw [hl] at h
    simp only [bind, Except.bind] at h
    cases ho : overlapCheck none es with
    | error e => rw [ho] at h; cases h
    | ok u =>
      rw [ho] at h
      cases h
      have hnc := noCommon_of_check es (assembleLines_wf cfg files es L hl) ho
      exact List.Pairwise.imp (fun {e e'} hne a hc =>
        hne a ⟨(cov_iff e a).mpr hc.1, (cov_iff e' a).mpr hc.2⟩) hnc

/-- the default end of the window is the highest last-byte address of the lines -/
theorem default_end_eq_last_byte (es : List Emitted) : maxAddr (memMap es) = lastByteAddr es :=
  maxAddr_memMap_eq_last es

/-- Full statement, no hypothesis: the image of an accepted program is, offset by offset, the byte of
    the line that covers the address, the fill value where none does; without an explicit end it
    stops at the highest address that received a byte.  (`assembleFast` computes exactly that, line by
    line, with the bytes of each line in an array: `imageFastA_eq`; it is what the driver of the
    correspondence runs.) -/
theorem assemble_eq_fast (cfg : Cfg) (files : List (List Stmt)) (start : Int) (stop : Option Int) (fill : Nat) :
    assemble cfg files start stop fill = assembleFast cfg files start stop fill :=
  BV.assemble_eq_fast cfg files start stop fill

theorem accepted_image_is_spec (cfg : Cfg) (files : List (List Stmt)) (start : Int) (stop : Option Int) (fill : Nat)
    (o : Outcome) (h : assemble cfg files start stop fill = .ok o) :
    o.image = imageFast start stop (fill % 256) o.emitted := by
  rw [BV.assemble_eq_fast] at h
  unfold assembleFast at h
  cases hl : assembleLines cfg files with
  | error e => rw [hl] at h; cases h
  | ok r =>
    obtain ⟨es, L⟩ := r
    rw [hl] at h
    simp only [bind, Except.bind] at h
    cases ho : overlapCheck none es with
    | error e => rw [ho] at h; cases h
    | ok u => rw [ho] at h; cases h; exact imageFastA_eq _ _ _ _

/-- non-vacuity: the line-by-line image of two 4-byte lines, window 2..5 -/
example : imageFast 2 (some 5) 0 [⟨0, 4, [1, 2, 3, 4], false, true⟩, ⟨4, 4, [5, 6, 7, 8], false, true⟩] = [3, 4, 5, 6] := by
  decide +kernel
example : lastByteAddr [⟨0, 4, [1, 2, 3, 4], false, true⟩, ⟨9, 2, [5, 6], true, true⟩, ⟨4, 4, [5, 6, 7, 8], false, true⟩] = some 7 := by
  decide +kernel

/-! ## windows of one program -/

/-- what a program emits does not depend on the window or the fill value asked for -/
theorem emitted_window_independent (cfg : Cfg) (files : List (List Stmt)) (s s' : Int) (e e' : Option Int) (fill fill' : Nat)
    (o o' : Outcome) (h : assemble cfg files s e fill = .ok o) (h' : assemble cfg files s' e' fill' = .ok o') :
    o.emitted = o'.emitted := by
  unfold assemble at h h'
  cases hl : assembleLines cfg files with
  | error er => rw [hl] at h; cases h
  | ok r =>
    obtain ⟨es, L⟩ := r
    rw [hl] at h h'
    simp only [bind, Except.bind] at h h'
    cases ho : overlapCheck none es with
    | error er => rw [ho] at h; cases h
    | ok u =>
      rw [ho] at h h'
      cases h; cases h'; rfl

/-- the image of a window that lies inside another window is cut out of that one: same bytes at the same addresses
    (in particular the image of `-s a -e b` is the slice `a..b` of the whole image) -/
theorem accepted_window_is_cut_of_wider (cfg : Cfg) (files : List (List Stmt)) (fill : Nat) (s e s' e' : Int)
    (o o' : Outcome) (h : assemble cfg files s (some e) fill = .ok o) (h' : assemble cfg files s' (some e') fill = .ok o')
    (h1 : s ≤ s') (h2 : s' ≤ e' + 1) (h3 : e' ≤ e) :
    o'.image = ((o.image).drop (s' - s).toNat).take (e' + 1 - s').toNat := by
  rw [accepted_image_is_spec cfg files s (some e) fill o h, accepted_image_is_spec cfg files s' (some e') fill o' h',
    emitted_window_independent cfg files s s' (some e) (some e') fill fill o o' h h']
  exact imageFast_subwindow o'.emitted (fill % 256) s e s' e' h1 h2 h3

end BV.C03
