/-
  Property C10 — a macro assembles to exactly its expanded instruction sequence.
  Statements only; helper lemmas live in `BespokeVerif/Lemmas/Macro.lean`.
-/
import BespokeVerif.Model.Macro
import BespokeVerif.Lemmas.Macro
import BespokeVerif.Lemmas.StmtSize
namespace BV.C10
open BV

/-- Main refinement: the step loop with a running address emits exactly the concatenation of the
    bytes obtained by assembling the instantiated templates, in order, as ordinary statements —
    statement `k` at `addr + Σ_{j<k} size j` (also for steps that are not whole bytes in the ISA and
    for steps with address-relative operands). -/
theorem steps_eq_expansion (regs : List String) (gz : Int × Int) (env : String → Option Int) (tbl : InstrTable)
    (addr : Int) (steps : List (String × List Form)) :
    assembleSteps regs gz env tbl addr steps = (specSteps regs gz env tbl addr steps).map List.flatten := by
  have h := specGo_eq regs gz env tbl addr steps []
  simp only [List.reverse_nil, List.flatten_nil, List.length_nil, Int.natCast_zero, Int.add_zero,
    List.nil_append] at h
  unfold specSteps
  rw [h]
  cases assembleSteps regs gz env tbl addr steps <;> rfl

/-- a macro occupies exactly the sum of the bytes of its steps -/
theorem macro_size (regs : List String) (gz : Int × Int) (env : String → Option Int) (tbl : InstrTable)
    (addr : Int) (steps : List (String × List Form)) (bss : List (List Nat)) (bs : List Nat)
    (hs : specSteps regs gz env tbl addr steps = .ok bss) (hb : assembleSteps regs gz env tbl addr steps = .ok bs) :
    bs.length = (bss.map List.length).foldl (· + ·) 0 ∧ bss.length = steps.length := by
  have h := steps_eq_expansion regs gz env tbl addr steps
  rw [hs, hb] at h
  have hbs : bs = bss.flatten := by
    simpa [Except.map] using h
  refine ⟨?_, ?_⟩
  · rw [hbs, foldl_lengths_eq]
  · have := specGo_length regs gz env tbl addr steps [] bss hs
    simpa using this

/-- … and that many bytes were already reserved when addresses were assigned: the sizes of the steps
    are known from variant selection alone (`stepSizes` evaluates no expression and takes no address),
    so the labels after the invocation are placed accordingly whatever the operands evaluate to -/
theorem macro_reserved_eq_emitted (regs : List String) (gz : Int × Int) (env : String → Option Int) (tbl : InstrTable)
    (addr : Int) (mvs : List MacroVariant) (fs : List Form) (i : Nat) (bs : List Nat)
    (h : assembleMacro regs gz env tbl addr mvs fs = .ok (i, bs)) :
    ∃ steps sizes, expandMacro regs gz mvs fs = .ok (i, steps) ∧ stepSizes regs gz tbl steps = some sizes ∧
      bs.length = sizes.sum := by
  unfold assembleMacro at h
  cases he : expandMacro regs gz mvs fs with
  | error e => simp [he, bind, Except.bind] at h
  | ok r =>
    rcases r with ⟨j, steps⟩
    simp only [he, bind, Except.bind] at h
    cases hs : assembleSteps regs gz env tbl addr steps with
    | error e => simp [hs] at h
    | ok b =>
      simp only [hs, Except.ok.injEq, Prod.mk.injEq] at h
      obtain ⟨rfl, rfl⟩ := h
      obtain ⟨sizes, hsz, hsum⟩ := assembleSteps_length hs
      exact ⟨steps, sizes, rfl, hsz, hsum⟩

/-- the reserved size does not depend on the label environment or the address: two assemblies of
    the same invocation (first pass with unknown forward labels, second pass with the final values;
    or the same macro at another address) emit the same number of bytes -/
theorem macro_size_env_independent (regs : List String) (gz : Int × Int) (env env' : String → Option Int)
    (tbl : InstrTable) (addr addr' : Int) (mvs : List MacroVariant) (fs : List Form) (i i' : Nat) (bs bs' : List Nat)
    (h : assembleMacro regs gz env tbl addr mvs fs = .ok (i, bs))
    (h' : assembleMacro regs gz env' tbl addr' mvs fs = .ok (i', bs')) :
    bs.length = bs'.length ∧ i = i' := by
  obtain ⟨steps, sizes, he, hs, hl⟩ := macro_reserved_eq_emitted regs gz env tbl addr mvs fs i bs h
  obtain ⟨steps', sizes', he', hs', hl'⟩ := macro_reserved_eq_emitted regs gz env' tbl addr' mvs fs i' bs' h'
  rw [he] at he'
  simp only [Except.ok.injEq, Prod.mk.injEq] at he'
  obtain ⟨rfl, rfl⟩ := he'
  rw [hs] at hs'
  cases hs'
  exact ⟨by rw [hl, hl'], rfl⟩

/-- steps are assembled in order: the first step of a macro is assembled at the macro's address,
    and the remaining steps behind it -/
theorem steps_cons (regs : List String) (gz : Int × Int) (env : String → Option Int) (tbl : InstrTable)
    (addr : Int) (mn : String) (fs : List Form) (rest : List (String × List Form)) (variants : List VariantCfg)
    (i : Nat) (bs : List Nat) (ht : tbl.find? (·.1 == mn) = some (mn, variants))
    (h1 : assembleStmt regs gz env addr variants fs = .ok (i, bs)) :
    assembleSteps regs gz env tbl addr ((mn, fs) :: rest) =
      (assembleSteps regs gz env tbl (addr + bs.length) rest).map fun tail => bs ++ tail := by
  exact assembleSteps_cons_ok regs gz env tbl addr mn fs rest mn variants i bs ht h1

/-- the macro variant is chosen by the same operand-matching rules as an instruction variant:
    first variant in definition order whose operand pattern accepts -/
theorem macro_variant_first (regs : List String) (gz : Int × Int) (mvs : List MacroVariant) (fs : List Form)
    (i : Nat) (mv : MacroVariant) (m : Matched)
    (h : ∃ r, selectMacro regs gz mvs fs = r ∧ (match r with | .ok (i', _, _) => i' = i | _ => False))
    (hi : mvs[i]? = some mv) :
    (∀ j, j < i → ∀ u, mvs[j]? = some u → (match matchVariant regs gz u.operands fs with | .decline => True | _ => False)) ∧
    (match matchVariant regs gz mv.operands fs with | .ok _ => True | _ => False) := by
  obtain ⟨r, hr, hm⟩ := h
  cases r with
  | decline => exact hm.elim
  | hard => exact hm.elim
  | ok x =>
    obtain ⟨i', mv', m'⟩ := x
    simp only at hm
    subst hm
    obtain ⟨pre, post, hl, hj, hpre, hv⟩ := selectMacro_ok regs gz mvs fs i' mv' m' hr
    subst hl hj
    have hmv : mv = mv' := by simpa using hi.symm
    subst hmv
    refine ⟨?_, ?_⟩
    · intro j hj u hu
      rw [List.getElem?_append_left hj] at hu
      have hmem : u ∈ pre := List.mem_of_getElem? hu
      rw [hpre u hmem]; trivial
    · rw [hv]; trivial

/-- a placeholder that cannot be filled is rejected: index beyond the operands … -/
theorem placeholder_out_of_range (v : VariantCfg) (m : Matched) (fs : List Form) (n : Nat) (hn : m.ops.length ≤ n) :
    instTForm v m fs (.arg n) = .error .other ∧ instTForm v m fs (.reg n) = .error .other ∧
    instTForm v m fs (.op n) = .error .other := by
  have hnone : m.ops[n]? = none := List.getElem?_eq_none hn
  refine ⟨?_, ?_, ?_⟩ <;> simp only [instTForm, hnone]

/-- … @ARG of an operand without argument (e.g. a register) … -/
theorem arg_without_argument (v : VariantCfg) (m : Matched) (fs : List Form) (n : Nat) (p : ParsedOp)
    (hp : m.ops[n]? = some p) (ha : p.arg = none) : instTForm v m fs (.arg n) = .error .other := by
  simp only [instTForm, hp, ha]

/-- … @REG of an operand that is not register based -/
theorem reg_without_register (v : VariantCfg) (m : Matched) (fs : List Form) (n : Nat) (p : ParsedOp)
    (hp : m.ops[n]? = some p) (hr : (findCfg v p.id).bind OperandCfg.regName = none) :
    instTForm v m fs (.reg n) = .error .other := by
  simp only [instTForm, hp, hr]

/-- placeholders are replaced by the n-th operand's argument expression / register name / text -/
theorem arg_substituted (v : VariantCfg) (m : Matched) (fs : List Form) (n : Nat) (p : ParsedOp) (a : FieldSpec)
    (hp : m.ops[n]? = some p) (ha : p.arg = some a) : instTForm v m fs (.arg n) = .ok (.plain a.e) := by
  simp only [instTForm, hp, ha]

theorem op_substituted (v : VariantCfg) (m : Matched) (fs : List Form) (n : Nat) (p : ParsedOp) (f : Form)
    (hp : m.ops[n]? = some p) (hf : fs[n]? = some f) : instTForm v m fs (.op n) = .ok f := by
  simp only [instTForm, hp, hf]

/-- a failing step makes the whole invocation fail -/
theorem step_error_propagates (regs : List String) (gz : Int × Int) (env : String → Option Int) (tbl : InstrTable)
    (addr : Int) (mn : String) (fs : List Form) (rest : List (String × List Form)) (variants : List VariantCfg) (e : Err)
    (ht : tbl.find? (·.1 == mn) = some (mn, variants)) (h1 : assembleStmt regs gz env addr variants fs = .error e) :
    assembleSteps regs gz env tbl addr ((mn, fs) :: rest) = .error e := by
  exact assembleSteps_cons_error regs gz env tbl addr mn fs rest mn variants e ht h1

/-- a macro variant without instruction templates expands to nothing: its invocation emits no byte (and, by
    `macro_reserved_eq_emitted`, reserves none), so whatever follows keeps its address -/
theorem empty_expansion_emits_nothing (regs : List String) (gz : Int × Int) (env : String → Option Int) (tbl : InstrTable)
    (addr : Int) : assembleSteps regs gz env tbl addr [] = .ok [] := by
  simp [assembleSteps]
/-- … and the selected variant's empty template list is the empty statement list -/
theorem empty_variant_expands_to_nothing (regs : List String) (gz : Int × Int) (mvs : List MacroVariant) (fs : List Form)
    (i : Nat) (mv : MacroVariant) (m : Matched) (hs : selectMacro regs gz mvs fs = .ok (i, mv, m)) (he : mv.steps = []) :
    expandMacro regs gz mvs fs = .ok (i, []) := by
  unfold expandMacro
  rw [hs]
  simp [he]

end BV.C10
