/-
  Property C20 — generated editor extensions are well-formed and mirror the ISA vocabulary.
  (Partial: the vocabulary-classification half is proved on the model of the generated patterns;
  well-formedness of the JSON / YAML / plist / zip files written by Python's libraries and the
  absence of placeholders are tested by the check, not proved.)
  Statements only; helper lemmas live in `BespokeVerif/Lemmas/Regex.lean`.
-/
import BespokeVerif.Model.Regex
import BespokeVerif.Lemmas.Regex
namespace BV.C20
open BV

/-- a plain word: non-empty, word characters only (no regex metacharacters) -/
def PlainWord (w : String) : Prop := w.toList ≠ [] ∧ ∀ c ∈ w.toList, isWordChar c = true

/-- a literal matches exactly its own text (up to case when case-insensitive) -/
theorem matchLit_iff (ci : Bool) (s inp m rest : List Char) :
    matchLit ci s inp = some (m, rest) ↔
      inp = m ++ rest ∧ m.length = s.length ∧ ∀ i (h : i < s.length) (h' : i < m.length), charEq ci s[i] m[i] = true := by
  exact matchLit_spec ci s inp m rest

/-- Main statement: the generated alternation `\bw1\b|\bw2\b|…`, tried leftmost-first at the start
    of a word, takes the whole word iff the word is one of the configured names (case-folded when
    the pattern is case-insensitive) — also when names are prefixes of one another. -/
theorem wordList_takes_iff (ws : List String) (w : String) (hws : ∀ x ∈ ws, PlainWord x) (hw : PlainWord w) :
    takesWhole true (wordListRx ws) w = true ↔ ∃ x ∈ ws, x.toList.map Char.toLower = w.toList.map Char.toLower := by
  rw [takesWhole_wordList true ws w hws hw]
  simp [wordEq]

theorem wordList_takes_iff_cs (ws : List String) (w : String) (hws : ∀ x ∈ ws, PlainWord x) (hw : PlainWord w) :
    takesWhole false (wordListRx ws) w = true ↔ w ∈ ws := by
  rw [takesWhole_wordList false ws w hws hw, ← contains_iff_cs]
  simp

/-- on a word, the pattern either takes the whole word or does not match at all: an identifier
    that merely starts with, ends with or contains a configured name is never classified -/
theorem wordList_all_or_nothing (ci : Bool) (ws : List String) (w : String) (hws : ∀ x ∈ ws, PlainWord x)
    (hw : PlainWord w) :
    firstMatch ci (wordListRx ws) w.toList = none ∨ firstMatch ci (wordListRx ws) w.toList = some [] := by
  rw [firstMatch_wordList ci ws w hws hw]
  cases ws.any (fun x => decide (wordEq ci x.toList w.toList)) <;> simp

/-- the order of the alternatives (hash order of a set in the generator) does not matter -/
theorem wordList_perm (ci : Bool) (ws ws' : List String) (w : String) (hp : ws.Perm ws')
    (hws : ∀ x ∈ ws, PlainWord x) (hw : PlainWord w) :
    takesWhole ci (wordListRx ws') w = takesWhole ci (wordListRx ws) w := by
  have hws' : ∀ x ∈ ws', PlainWord x := fun x hx => hws x (hp.mem_iff.2 hx)
  rw [takesWhole_wordList ci ws w hws hw, takesWhole_wordList ci ws' w hws' hw, Bool.eq_iff_iff]
  simp only [List.any_eq_true, hp.mem_iff]

/-- the generator lists each vocabulary longest name first: that order is a rearrangement of the
    configured names … -/
theorem vocab_order_perm (ws : List String) : (sortByLenDesc ws).Perm ws := sortByLenDesc_perm ws

/-- … in which no name comes after a shorter one (so a name that extends another one, `st.b` / `st`,
    is tried first) -/
theorem vocab_order_longest_first (ws : List String) :
    (sortByLenDesc ws).Pairwise fun a b => b.length ≤ a.length := sortByLenDesc_sorted ws

/-- for plain words any order of the alternatives classifies like the vocabulary does … -/
theorem classifyOrdered_eq_spec (instrs macros regs pre : List String) (w : String)
    (h1 : ∀ x ∈ instrs, PlainWord x) (h2 : ∀ x ∈ macros, PlainWord x) (h3 : ∀ x ∈ regs, PlainWord x)
    (h4 : ∀ x ∈ pre, PlainWord x) (hw : PlainWord w) :
    classifyOrdered instrs macros regs pre w = classifySpec instrs macros regs pre w := by
  exact classifyOrdered_eq_spec_aux instrs macros regs pre w h1 h2 h3 h4 hw

/-- … and so does the order the generator uses: the grammars' rule order classifies every identifier
    like the vocabulary does, provided the vocabularies are plain words.  Disjointness is not needed:
    model and spec test the classes in the same order.  (The former hypothesis
    `hlow : x.toLower.toList = x.toList.map Char.toLower` is provable for all strings —
    `String.toList_map` — and was dropped.) -/
theorem classify_eq_spec (instrs macros regs pre : List String) (w : String)
    (h1 : ∀ x ∈ instrs, PlainWord x) (h2 : ∀ x ∈ macros, PlainWord x) (h3 : ∀ x ∈ regs, PlainWord x)
    (h4 : ∀ x ∈ pre, PlainWord x) (hw : PlainWord w) :
    classify instrs macros regs pre w = classifySpec instrs macros regs pre w := by
  exact classify_eq_spec_aux instrs macros regs pre w h1 h2 h3 h4 hw

/- Names with a dot are outside `PlainWord`; there the order matters: listed in configuration order
   `st` takes the first two characters of `st.b` (classifyOrdered ["st", "st.b"] [] [] [] "st.b" = none),
   listed longest first the whole name is taken (classify … = instruction).  The matcher is defined by
   well-founded recursion and does not reduce in the kernel, so this is not stated as an `example`;
   it is exercised on every run by the correspondence check (dotted names in the generated
   vocabularies, model evaluated by the compiled driver). -/

/-- non-vacuity: `ld`, `ldx` in one vocabulary; `LDX` is an instruction, `ldxx` and `l` are not -/
example : classify ["ld", "ldx"] ["mac"] ["a", "ab"] ["PK_A"] "LDX" = .instruction ∧
          classify ["ld", "ldx"] ["mac"] ["a", "ab"] ["PK_A"] "ldxx" = .none ∧
          classify ["ld", "ldx"] ["mac"] ["a", "ab"] ["PK_A"] "AB" = .register ∧
          classify ["ld", "ldx"] ["mac"] ["a", "ab"] ["PK_A"] "pk_a" = .none := by
  have plain : ∀ l : List String, (l.all fun x => !x.toList.isEmpty && x.toList.all isWordChar) = true →
      ∀ x ∈ l, PlainWord x := by
    intro l h x hx
    have := List.all_eq_true.1 h x hx
    simp only [Bool.and_eq_true, Bool.not_eq_true', List.isEmpty_eq_false_iff, List.all_eq_true] at this
    exact this
  have hi := plain ["ld", "ldx"] (by decide)
  have hm := plain ["mac"] (by decide)
  have hr := plain ["a", "ab"] (by decide)
  have hp := plain ["PK_A"] (by decide)
  have hw := plain ["LDX", "ldxx", "AB", "pk_a"] (by decide)
  rw [classify_eq_spec _ _ _ _ _ hi hm hr hp (hw _ (by simp)),
    classify_eq_spec _ _ _ _ _ hi hm hr hp (hw _ (by simp)),
    classify_eq_spec _ _ _ _ _ hi hm hr hp (hw _ (by simp)),
    classify_eq_spec _ _ _ _ _ hi hm hr hp (hw _ (by simp))]
  simp only [classifySpec, contains_toLower_iff]
  simp only [contains_iff_cs, String.reduceToList]
  decide

end BV.C20
