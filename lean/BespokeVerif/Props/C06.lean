/-
  Property C06 — label references resolve only within their lexical scope.
  Statements only; helper lemmas live in `BespokeVerif/Lemmas/Scope.lean`.

  NOTE on the `_partial` theorems.  `WellKinded` constrains the file and the local table only;
  nothing keeps a `_x` / `.l` name out of the *global* table (`initLabels` puts every predefined
  constant of the configuration there without looking at its first character).  With such an entry
  `no_cross_region`, `no_cross_file`, `local_needs_region` and `set_preserves_lookup` are false as
  originally stated (counterexamples below), so they carry the extra hypothesis `GlobKinded L`.
  `GlobKinded` is preserved by `Labels.set` (`set_globKinded`).
-/
import BespokeVerif.Model.Layout
import BespokeVerif.Lemmas.Scope
namespace BV.C06
open BV

/-- every table only holds names of its own kind (local names in the local table, …) -/
def WellKinded (L : Labels) : Prop :=
  (∀ e ∈ L.file, labelKind e.2.1 = 1) ∧
  (∀ e ∈ L.loc, labelKind e.2.2.1 = 2)

/-- the global table only holds global-kind names (not implied by `WellKinded`) -/
def GlobKinded (L : Labels) : Prop := ∀ e ∈ L.glob, labelKind e.1 = 0

/-- Soundness: a reference resolves only to a definition visible from the referencing line —
    a local label of the same region of the same file, a file label of the same file, or a global
    name that is not a register. -/
theorem lookup_sound (L : Labels) (regs : List String) (sc : Scope) (name : String) (v : Int)
    (h : L.lookup regs sc name = .ok v) :
    (∃ f k, sc = .loc f k ∧ (f, k, name, v) ∈ L.loc) ∨
    ((sc.fileId, name, v) ∈ L.file) ∨
    ((name, v) ∈ L.glob ∧ isRegName regs name = false) := by
  rw [lookup_eq] at h
  split at h
  · rename_i w hw
    cases h
    obtain ⟨f, k, hsc, hg⟩ := scGet_some hw
    exact .inl ⟨f, k, hsc, locGet_some_mem hg⟩
  · split at h
    · rename_i w hw
      cases h
      exact .inr (.inl (fileGet_some_mem hw))
    · split at h
      · cases h
      · rename_i hr
        split at h
        · rename_i w hw
          cases h
          exact .inr (.inr ⟨globGet_some_mem hw, by simpa using hr⟩)
        · cases h

/-- it never resolves to a same-named label of another local region …
    (restated: needs `GlobKinded`, see the counterexample below) -/
theorem no_cross_region_partial (L : Labels) (regs : List String) (f k : Nat) (name : String)
    (hk : labelKind name = 2) (hw : WellKinded L) (hg : GlobKinded L)
    (hnone : ∀ v, (f, k, name, v) ∉ L.loc) :
    ∃ e, L.lookup regs (.loc f k) name = .error e :=
  ⟨_, lookup_error (locGet_eq_none_iff.mpr hnone) (fileGet_none_of_kind hw.1 (by omega))
    (.inr (globGet_none_of_kind hg (by omega)))⟩

/-- … nor of another file (restated: needs `GlobKinded`) -/
theorem no_cross_file_partial (L : Labels) (regs : List String) (sc : Scope) (name : String)
    (hk : labelKind name = 1) (hw : WellKinded L) (hg : GlobKinded L)
    (hnone : ∀ v, (sc.fileId, name, v) ∉ L.file) :
    ∃ e, L.lookup regs sc name = .error e :=
  ⟨_, lookup_error (scGet_none_of_kind hw.2 (by omega)) (fileGet_eq_none_iff.mpr hnone)
    (.inr (globGet_none_of_kind hg (by omega)))⟩

/-- a local label referenced from file scope (after `.org` / `.memzone`, or before any non-local
    label) is never resolved (restated: needs `GlobKinded`) -/
theorem local_needs_region_partial (L : Labels) (regs : List String) (f : Nat) (name : String)
    (hk : labelKind name = 2) (hw : WellKinded L) (hg : GlobKinded L) :
    ∃ e, L.lookup regs (.file f) name = .error e :=
  ⟨_, lookup_error rfl (fileGet_none_of_kind hw.1 (by omega))
    (.inr (globGet_none_of_kind hg (by omega)))⟩

/-- Completeness: a visible definition is found (first matching entry of the proper table) -/
theorem lookup_complete_local (L : Labels) (regs : List String) (f k : Nat) (name : String) (v : Int)
    (hfirst : (L.loc.find? fun e => e.1 == f && e.2.1 == k && e.2.2.1 == name) = some (f, k, name, v)) :
    L.lookup regs (.loc f k) name = .ok v := by
  have : scGet L (.loc f k) name = some v := by
    simp only [scGet, locGet, hfirst, Option.map_some]
  rw [lookup_eq, this]

/-- a register name is never given a value -/
theorem register_never_resolves (L : Labels) (regs : List String) (sc : Scope) (name : String)
    (hk : labelKind name = 0) (hw : WellKinded L) (hr : isRegName regs name = true) :
    ∃ e, L.lookup regs sc name = .error e :=
  ⟨_, lookup_error (scGet_none_of_kind hw.2 (by omega)) (fileGet_none_of_kind hw.1 (by omega))
    (.inl hr)⟩

/-- Definitions: accepted exactly when the name is no keyword, not already defined in its scope,
    and (for a local label) an enclosing non-local label exists. -/
theorem set_ok_iff (L : Labels) (sc : Scope) (name : String) (v : Int) :
    (∃ L', L.set sc name v = .ok L') ↔
      keywords.contains (labelBase name) = false ∧
      (labelKind name = 0 → ∀ x, (name, x) ∉ L.glob) ∧
      (labelKind name = 1 → ∀ x, (sc.fileId, name, x) ∉ L.file) ∧
      (labelKind name ≥ 2 → ∃ f k, sc = .loc f k ∧ ∀ x, (f, k, name, x) ∉ L.loc) := by
  constructor
  · rintro ⟨L', h⟩
    obtain ⟨hkw, hc⟩ := set_cases h
    refine ⟨hkw, ?_⟩
    rcases hc with ⟨hk, hn, -⟩ | ⟨hk, hn, -⟩ | ⟨hk, f, k, hsc, hn, -⟩
    · exact ⟨fun _ => globGet_eq_none_iff.mp hn, by omega, by omega⟩
    · exact ⟨by omega, fun _ => fileGet_eq_none_iff.mp hn, by omega⟩
    · exact ⟨by omega, by omega, fun _ => ⟨f, k, hsc, locGet_eq_none_iff.mp hn⟩⟩
  · rintro ⟨hkw, h0, h1, h2⟩
    rw [set_eq]
    simp only [hkw, Bool.false_eq_true, if_false]
    rcases labelKind_cases name with hk | hk | hk
    · have hn := globGet_eq_none_iff.mpr (h0 hk)
      simp [hk, hn]
    · have hn := fileGet_eq_none_iff.mpr (h1 hk)
      simp [hk, hn]
    · obtain ⟨f, k, hsc, hx⟩ := h2 (by omega)
      have hn := locGet_eq_none_iff.mpr hx
      subst hsc
      simp [hk, hn]

theorem set_wellKinded (L L' : Labels) (sc : Scope) (name : String) (v : Int)
    (h : L.set sc name v = .ok L') (hw : WellKinded L) : WellKinded L' := by
  obtain ⟨-, hc⟩ := set_cases h
  rcases hc with ⟨hk, -, rfl⟩ | ⟨hk, -, rfl⟩ | ⟨hk, f, k, -, -, rfl⟩
  · exact hw
  · refine ⟨?_, hw.2⟩
    intro e he
    rcases List.mem_append.mp he with he | he
    · exact hw.1 e he
    · rw [List.mem_singleton.mp he]; exact hk
  · refine ⟨hw.1, ?_⟩
    intro e he
    rcases List.mem_append.mp he with he | he
    · exact hw.2 e he
    · rw [List.mem_singleton.mp he]; exact hk

/-- `GlobKinded` is an invariant of definitions, too -/
theorem set_globKinded (L L' : Labels) (sc : Scope) (name : String) (v : Int)
    (h : L.set sc name v = .ok L') (hg : GlobKinded L) : GlobKinded L' := by
  obtain ⟨-, hc⟩ := set_cases h
  rcases hc with ⟨hk, -, rfl⟩ | ⟨hk, -, rfl⟩ | ⟨hk, f, k, -, -, rfl⟩
  · intro e he
    rcases List.mem_append.mp he with he | he
    · exact hg e he
    · rw [List.mem_singleton.mp he]; exact hk
  · exact hg
  · exact hg

/-- after its definition a name resolves, from its own scope, to the defined value … -/
theorem set_then_lookup (L L' : Labels) (regs : List String) (sc : Scope) (name : String) (v : Int)
    (h : L.set sc name v = .ok L') (hw : WellKinded L) (hr : isRegName regs name = false) :
    L'.lookup regs sc name = .ok v := by
  obtain ⟨-, hc⟩ := set_cases h
  rcases hc with ⟨hk, hn, rfl⟩ | ⟨hk, hn, rfl⟩ | ⟨hk, f, k, rfl, hn, rfl⟩
  · have h1 : scGet { L with glob := L.glob ++ [(name, v)] } sc name = none :=
      scGet_none_of_kind hw.2 (by omega)
    have h2 : fileGet L.file sc.fileId name = none := fileGet_none_of_kind hw.1 (by omega)
    rw [lookup_eq, h1]
    simp only [h2, hr, globGet_append, hn, if_true, Option.none_or, Bool.false_eq_true, if_false]
  · have h1 : scGet { L with file := L.file ++ [(sc.fileId, name, v)] } sc name = none :=
      scGet_none_of_kind hw.2 (by omega)
    rw [lookup_eq, h1]
    simp only [fileGet_append, hn, and_self, if_true, Option.none_or]
  · rw [lookup_eq]
    simp only [scGet, locGet_append, hn, and_self, if_true, Option.none_or]

/-- … and later definitions never change what an earlier reference resolves to
    (restated: needs `GlobKinded`, see the counterexample below) -/
theorem set_preserves_lookup_partial (L L' : Labels) (regs : List String) (sc sc' : Scope)
    (name name' : String) (v v' : Int) (h : L.set sc' name' v' = .ok L') (hw : WellKinded L)
    (hg : GlobKinded L)
    (hl : L.lookup regs sc name = .ok v) : L'.lookup regs sc name = .ok v := by
  have hw' := set_wellKinded L L' sc' name' v' h hw
  rw [lookup_eq] at hl ⊢
  cases h1 : scGet L sc name with
  | some w =>
    rw [h1] at hl
    rw [set_scGet_mono h h1]
    exact hl
  | none =>
    rw [h1] at hl
    simp only at hl
    cases h2 : fileGet L.file sc.fileId name with
    | some w =>
      rw [h2] at hl
      have hk : labelKind name = 1 := hw.1 _ (fileGet_some_mem h2)
      rw [scGet_none_of_kind hw'.2 (by omega), set_fileGet_mono h h2]
      exact hl
    | none =>
      rw [h2] at hl
      simp only at hl
      split at hl
      · cases hl
      · rename_i hr
        cases h3 : assocGet L.glob name with
        | none => rw [h3] at hl; cases hl
        | some w =>
          rw [h3] at hl
          have hk : labelKind name = 0 := hg _ (globGet_some_mem h3)
          rw [scGet_none_of_kind hw'.2 (by omega), fileGet_none_of_kind hw'.1 (by omega),
            set_globGet_mono h h3]
          simp only [hr]
          exact hl

/-- non-vacuity: same local name in two regions and same file name in two files -/
example :
    let L : Labels := { glob := [("g", 1)], file := [(0, "_x", 10), (1, "_x", 20)],
                        loc := [(0, 0, ".l", 100), (0, 1, ".l", 200)] }
    L.lookup [] (.loc 0 1) ".l" = .ok 200 ∧ L.lookup [] (.loc 0 0) ".l" = .ok 100 ∧
    L.lookup [] (.loc 1 5) "_x" = .ok 20 ∧ L.lookup [] (.file 0) "_x" = .ok 10 ∧
    L.lookup [] (.file 0) ".l" = .error .unresolvedLabel := by decide +kernel

/-! ### why the `_partial` theorems need `GlobKinded`

`cex` is `WellKinded` (file and local tables are empty) but holds a local-kind and a file-kind name
in the global table — exactly what `initLabels` builds from predefined constants `.l` / `_x`. -/

def cex : Labels := { glob := [(".l", 5), ("_x", 6)] }

theorem cex_wellKinded : WellKinded cex := ⟨by simp [cex], by simp [cex]⟩

/-- `no_cross_region`, `no_cross_file`, `local_needs_region` without `GlobKinded`: all hypotheses
    hold (no `.l` in any local region, no `_x` in any file table) and yet the reference resolves -/
example :
    labelKind ".l" = 2 ∧ labelKind "_x" = 1 ∧
    cex.lookup [] (.loc 0 0) ".l" = .ok 5 ∧      -- no_cross_region
    cex.lookup [] (.file 0) "_x" = .ok 6 ∧       -- no_cross_file
    cex.lookup [] (.file 0) ".l" = .ok 5 := by   -- local_needs_region
  decide +kernel

/-- `set_preserves_lookup` without `GlobKinded`: `_x` resolves to the global entry 6; defining
    `_x` in file 0 is accepted and from then on shadows it -/
example :
    cex.lookup [] (.file 0) "_x" = .ok 6 ∧
    (cex.set (.file 0) "_x" 7).bind (fun L' => L'.lookup [] (.file 0) "_x") = .ok 7 := by
  decide +kernel

end BV.C06
