/-
  Property C16 — all output formats describe the same memory contents as the binary image.
  Statements only; helper lemmas live in `BespokeVerif/Lemmas/Output.lean`.
  The decoders below are what the check applies to the text printed by the real assembler; the
  theorems say that they invert the reference encoders of each format.
-/
import BespokeVerif.Model.Output
import BespokeVerif.Lemmas.Output
import BespokeVerif.Lemmas.FormatsImage
import BespokeVerif.Lemmas.Listing
namespace BV.C16
open BV

/-! ## hex text -/

theorem parseHexPairs_hexByte (bs : List Nat) (h : ∀ b ∈ bs, b < 256) :
    parseHexPairs (bs.flatMap hexByte) = some bs := by
  exact parseHexPairs_flatMap_hexByte bs h

/-! ## Intel HEX -/

def IRec.wf (r : IRec) : Prop := r.addr < 65536 ∧ r.typ < 256 ∧ r.data.length < 256 ∧ ∀ b ∈ r.data, b < 256

/-- the text of one record -/
def renderIRec (r : IRec) : List Char := ':' :: (r.bytes ++ [r.checksum]).flatMap hexByte

/-- a record is read back exactly, and only with a correct checksum -/
theorem parseIRec_render (r : IRec) (h : IRec.wf r) : parseIRec (renderIRec r) = .ok r := by
  obtain ⟨h1, h2, h3, h4⟩ := h
  unfold renderIRec
  rw [parseIRec_bytes r h1 h2 h3 h4 _ (checksum_lt r)]
  simp

theorem checksum_valid (r : IRec) : ((r.bytes.foldl (· + ·) 0) + r.checksum) % 256 = 0 := by
  exact checksum_sum r

/-- a corrupted checksum is rejected -/
theorem parseIRec_bad_checksum (r : IRec) (h : IRec.wf r) (c : Nat) (hc : c < 256) (hne : c ≠ r.checksum) :
    ∃ e, parseIRec (':' :: (r.bytes ++ [c]).flatMap hexByte) = .error e := by
  obtain ⟨h1, h2, h3, h4⟩ := h
  refine ⟨.other, ?_⟩
  rw [parseIRec_bytes r h1 h2 h3 h4 c hc, if_pos hne]

/-- decoding the records of one contiguous run (at most 16 bytes per record, never across a 64 K
    boundary, an extended-address record whenever the upper half changes) gives back the run -/
theorem recsToMap_encRun (bs : List Nat) (a : Nat) (m : AddrMap) (h32 : a + bs.length ≤ 2 ^ 32) :
    recsToMap (encRun (bs.length + 1) a bs none).1 0 m =
      m ++ (List.range bs.length).map fun (i : Nat) => (((a + i : Nat) : Int), bs[i]!) := by
  exact recsToMap_encRun_gen _ bs a none 0 m (by omega) h32 (by intro hi h; cases h)

/-! ## compact hex -/

/-- rows of the compact format never exceed 16 bytes -/
theorem encMinHex_row_le (ols : List OutLine) (cur : List Nat) (hc : cur.length < 16) :
    ∀ r ∈ encMinHex ols cur, match r with | .bytes bs => bs.length ≤ 16 | .addr _ => True := by
  exact encMinHex_row_le_gen ols cur hc

/-- Partial round trip (finding class `minhex-gap-without-org` excluded by the hypothesis): when
    every gap is announced by an `.org`, the compact format decodes to exactly the unmuted bytes
    at their assigned addresses. -/
theorem minhex_roundtrip_partial (ols : List OutLine) (h : everyGapHasOrg ols 0 = true)
    (hnn : ∀ a, OutLine.org a ∈ ols → 0 ≤ a) :
    mhRowsToMap (encMinHex ols []) 0 [] = outLinesMap ols := by
  have := minhex_roundtrip_gen ols [] 0 0 [] h (by simp) hnn
  simpa using this

/-- the full statement is false on the unchanged code: the muted-line witness -/
theorem minhex_counterexample :
    mhRowsToMap (encMinHex [.bytes 0 [1] false, .bytes 1 [2] true, .bytes 2 [3] false] []) 0 []
      ≠ outLinesMap [.bytes 0 [1] false, .bytes 1 [2] true, .bytes 2 [3] false] := by
  decide

/-- muted lines appear in none of the memory-describing formats -/
theorem outLinesMap_muted (a : Int) (bs : List Nat) (pre post : List OutLine) :
    outLinesMap (pre ++ .bytes a bs true :: post) = outLinesMap (pre ++ post) := by
  exact outLinesMap_append_muted a bs pre post
theorem encMinHex_muted (a : Int) (bs : List Nat) (rest : List OutLine) (cur : List Nat) :
    encMinHex (.bytes a bs true :: rest) cur = encMinHex rest cur := by
  rw [encMinHex]

/-! ## listing -/

/-- a continuation row extends the bytes of the statement above it; a primary row starts a new
    statement with its own address -/
theorem lrowsMap_append (r₁ r₂ : List LRow) : lrowsMap (r₁ ++ r₂) = lrowsMap r₁ ++ lrowsMap r₂ := by
  exact lrowsMap_append' r₁ r₂

theorem lrowsMap_row (r : LRow) :
    lrowsMap [r] = (List.range r.bytes.length).map fun (i : Nat) => (((r.addr + i : Nat) : Int), r.bytes[i]!) := by
  exact lrowsMap_single r

/-- non-vacuity -/
example : parseIRec ":0300100010111 2BA".toList = .error .other := by decide +kernel
example : parseIRec ":03001000101112BA".toList = .ok { addr := 16, typ := 0, data := [16, 17, 18] } := by decide +kernel
example : decMinHexLines [":aa 01".toList, "00020".toList, ":41".toList] 0 [] = .ok [(0, 170), (1, 1), (32, 65)] := by
  decide +kernel

/-! ## the formats and the image, end to end -/

/-- the pretty printers are fed the very lines the image is made of: the address→byte pairs of the lines
    handed to the printers are those of the unmuted emitted byte lines, in the same order -/
theorem printers_fed_image_lines (cfg : Cfg) (L : Labels) (ps : List Placed) (es : List Emitted)
    (h : emitAll cfg L ps = .ok es) :
    ∃ ols, toOutLines cfg L ps = .ok ols ∧ outLinesMap ols = emittedMap es :=
  toOutLines_of_emitAll cfg L ps es h

/-- end to end, for EVERY accepted program and every window / fill: the printers receive a line list, and each
    byte of the binary image is what that list says about its address (the fill value where it says nothing) -/
theorem accepted_image_is_what_printers_get (cfg : Cfg) (files : List (List Stmt)) (start : Int) (stop : Option Int)
    (fill : Nat) (o : Outcome) (h : assemble cfg files start stop fill = .ok o) :
    ∃ ols, assembleOut cfg files = .ok ols ∧
      o.image = (List.range o.image.length).map fun (i : Nat) =>
        (mapGet (outLinesMap ols) (start + (i : Int))).getD (fill % 256) :=
  image_eq_outLines cfg files start stop fill o h

/-- … hence the image is what the decoded compact-hex text says, for every accepted program in which every gap
    is announced by an `.org` (partial: the excluded class is the listed finding D17) -/
theorem accepted_image_eq_decoded_minhex_partial (cfg : Cfg) (files : List (List Stmt)) (start : Int) (stop : Option Int)
    (fill : Nat) (o : Outcome) (h : assemble cfg files start stop fill = .ok o)
    (ols : List OutLine) (hols : assembleOut cfg files = .ok ols)
    (hgap : everyGapHasOrg ols 0 = true) (hnn : ∀ a, OutLine.org a ∈ ols → 0 ≤ a) :
    o.image = (List.range o.image.length).map fun (i : Nat) =>
      (mapGet (mhRowsToMap (encMinHex ols []) 0 []) (start + (i : Int))).getD (fill % 256) := by
  obtain ⟨ols', h1, h2⟩ := image_eq_outLines cfg files start stop fill o h
  rw [hols] at h1
  cases h1
  rw [minhex_roundtrip_partial ols hgap hnn]
  exact h2

/-- non-vacuity: three placed lines (one of them muted); what the image lines say and what the printers are
    handed is the same list of address→byte pairs -/
def exCfg16 : Cfg := { bits := 8, origin := 0, little := true, pageSize := 1, regs := [], preZones := [], preConsts := [], preData := [] }
def exPl : List Placed := [{ line := { stmt := .bytes [1, 2], scope := .file 0, zone := "GLOBAL", muted := false, file := 0 }, addr := 0, size := 2 },
  { line := { stmt := .bytes [9], scope := .file 0, zone := "GLOBAL", muted := true, file := 0 }, addr := 2, size := 1 },
  { line := { stmt := .bytes [3], scope := .file 0, zone := "GLOBAL", muted := false, file := 0 }, addr := 8, size := 1 }]
example : (emitAll exCfg16 {} exPl).toOption.map emittedMap = some [(0, 1), (1, 2), (8, 3)] := by decide +kernel
example : (toOutLines exCfg16 {} exPl).toOption.map outLinesMap = some [(0, 1), (1, 2), (8, 3)] := by decide +kernel


/-! ## the listing: rows of one statement -/

/-- the rows a statement's bytes are spread over carry all of its bytes, in order -/
theorem listing_rows_carry_all_bytes (k : Nat) (hk : 0 < k) (bs : List Nat) :
    (chunkRows k bs.length bs).flatten = bs :=
  chunkRows_flatten k hk bs.length bs (Nat.le_refl _)

/-- no row is wider than the listing's bytes-per-row -/
theorem listing_row_width (k : Nat) (bs : List Nat) : ∀ c ∈ chunkRows k bs.length bs, c.length ≤ k :=
  chunkRows_row_le k bs.length bs

/-- the listing shows each assembled statement exactly once, with the address it was assigned and all the bytes it
    produced, however many continuation rows its bytes take: decoding the rows gives back the statements -/
theorem listing_statement_once (k : Nat) (hk : 0 < k) (rows : List LRow) :
    mergePRows (rows.flatMap (encListingLine k)) [] = rows :=
  mergePRows_listing k hk rows

example : encListingLine 6 ⟨3, 16, [1, 2, 3, 4, 5, 6, 7, 8]⟩ = [.primary 3 16 [1, 2, 3, 4, 5, 6], .cont [7, 8]] := by decide
example : encListingLine 6 ⟨4, 24, []⟩ = [.primary 4 24 []] := by decide

end BV.C16
