/-
  Property C14 — assembly always terminates and fails closed.  (Partial: the logic is proved on the
  model; that the Python process terminates and that no failure can happen after the write are
  observed by the check, not proved.)
  Termination of the model: every definition in `Model/` is a total function accepted by Lean's
  termination checker; the fuel-indexed ones are shown never to exhaust the fuel supplied at their
  entry point (`C07.parse_never_out_of_fuel`, `C07.lex_never_out_of_fuel`, `C09.expand_never_out_of_fuel`,
  `text_front_end_never_out_of_fuel` below).
-/
import BespokeVerif.Model.Run
import BespokeVerif.Model.Select
import BespokeVerif.Lemmas.Run
import BespokeVerif.Lemmas.ParseFuel
import BespokeVerif.Lemmas.Muted
namespace BV.C14
open BV

/-! ## fail closed -/

/-- when assembling fails, no image is created or altered: the file system is unchanged -/
theorem run_error_fs_unchanged (cfg : Cfg) (files : List (List Stmt)) (start : Int) (stop : Option Int) (fill : Nat)
    (out : String) (fs : FS) (e : Err) (h : assemble cfg files start stop fill = .error e) :
    runCompile cfg files start stop fill out fs = (false, fs) := by
  simp only [runCompile, h]

/-- when success is reported the image exists and holds the assembled bytes -/
theorem run_ok_file_exists (cfg : Cfg) (files : List (List Stmt)) (start : Int) (stop : Option Int) (fill : Nat)
    (out : String) (fs : FS) (o : Outcome) (h : assemble cfg files start stop fill = .ok o) :
    (runCompile cfg files start stop fill out fs).1 = true ∧
    (runCompile cfg files start stop fill out fs).2.read out = some o.image := by
  simp only [runCompile, h]
  exact ⟨trivial, FS.read_write_same fs out o.image⟩

/-- no other file is touched -/
theorem run_other_files_untouched (cfg : Cfg) (files : List (List Stmt)) (start : Int) (stop : Option Int) (fill : Nat)
    (out other : String) (fs : FS) (hne : (other == out) = false) :
    (runCompile cfg files start stop fill out fs).2.read other = fs.read other := by
  unfold runCompile
  split
  · exact FS.read_write_other fs out other _ hne
  · rfl

/-- success and the written file go together: the exit status is success iff assembly succeeded -/
theorem run_status_iff (cfg : Cfg) (files : List (List Stmt)) (start : Int) (stop : Option Int) (fill : Nat)
    (out : String) (fs : FS) :
    (runCompile cfg files start stop fill out fs).1 = true ↔ ∃ o, assemble cfg files start stop fill = .ok o := by
  unfold runCompile
  cases h : assemble cfg files start stop fill with
  | ok o => simp
  | error e => simp

/-! ## no false success -/

/-- an expression that mentions an unresolvable label has no value -/
theorem unresolved_label_no_value (env : String → Option Int) (e : E) (s : String) (hs : s ∈ labelsOf e)
    (hn : env s = none) : ∃ err, evalE env e = .error err := by
  exact evalE_unresolved env e s hs hn

/-- a line whose bytes cannot be produced makes the second pass fail -/
theorem emitAll_error_propagates (cfg : Cfg) (L : Labels) (pre post : List Placed) (p : Placed) (e : Err)
    (hp : lineBytes cfg L p = .error e) (hpre : ∀ q ∈ pre, ∃ bs, lineBytes cfg L q = .ok bs) :
    emitAll cfg L (pre ++ p :: post) = .error e ∨ ∃ e', emitAll cfg L (pre ++ p :: post) = .error e' := by
  exact Or.inl (emitAll_error_at cfg L pre post p e hp hpre)

/-- success implies that every line produced its bytes (all labels resolved, all values fit) -/
theorem emitAll_ok_all_lines (cfg : Cfg) (L : Labels) (ps : List Placed) (es : List Emitted)
    (h : emitAll cfg L ps = .ok es) : ∀ p ∈ ps, ∃ bs, lineBytes cfg L p = .ok bs := by
  exact emitAll_ok_lines cfg L ps es h

/-- a data value that references an unresolvable label is an error of the line -/
theorem data_unresolved_rejected (cfg : Cfg) (L : Labels) (p : Placed) (w : Nat) (vals : List E) (s : String)
    (hs : p.line.stmt = .data w vals) (hv : (.label s) ∈ vals)
    (hn : envOf L cfg.regs p.line.scope s = none) : ∃ e, lineBytes cfg L p = .error e := by
  obtain ⟨e', he'⟩ := mapM_except_error_of_mem (valueE (envOf L cfg.regs p.line.scope)) vals (.label s) hv
    .unresolvedLabel (valueE_label_unresolved _ s hn)
  refine ⟨e', ?_⟩
  simp only [lineBytes, hs, he']
  rfl

/-- an instruction argument that does not fit its width is an error of the line -/
theorem instr_unfit_rejected (cfg : Cfg) (L : Labels) (p : Placed) (opc : Nat) (e : E) (w : Nat) (v : Int)
    (hs : p.line.stmt = .instr opc [(e, w)]) (hv : valueE (envOf L cfg.regs p.line.scope) e = .ok v)
    (hf : ¬ Fits v (8 * w)) : lineBytes cfg L p = .error .fieldOverflow := by
  simp only [lineBytes, hs, List.mapM_cons, List.mapM_nil, hv]
  show (do let bs ← (do let x ← (if Fits v (8 * w) then Except.ok (wordBytes w cfg.little v) else Except.error Err.fieldOverflow); _) ; _) = _
  rw [if_neg hf]
  rfl

/-- a statement that no variant accepts is rejected -/
theorem no_variant_rejected (regs : List String) (gz : Int × Int) (env : String → Option Int) (addr : Int)
    (vs : List VariantCfg) (fs : List Form)
    (h : ∀ v ∈ vs, (match matchVariant regs gz v fs with | .decline => True | _ => False)) :
    assembleStmt regs gz env addr vs fs = .error .noVariant := by
  have hd : selectVariant regs gz vs fs 0 = .decline := by
    rw [selectVariant_decline_iff]
    intro v hv
    have := h v hv
    cases hm : matchVariant regs gz v fs with
    | decline => rfl
    | ok m => rw [hm] at this; exact this.elim
    | hard => rw [hm] at this; exact this.elim
  simp only [assembleStmt, hd]

/-! ## termination of the reader -/

/-- the image loop of the model is a bounded iteration: the image never holds more bytes than the
    window — in particular the loop cannot stall on a zero-length line -/
theorem image_length_bound (start stop : Int) (fill : Nat) (m : List (Int × Nat)) :
    (imageOf start (some stop) fill m).length = (stop + 1 - start).toNat := by
  rw [imageOf_length]

/-- a zero-length byte line contributes no key to the address→byte map (the state of the image
    loop of the unrepaired code did not advance on such a line) -/
theorem empty_line_no_key (es₁ es₂ : List Emitted) (e : Emitted) (he : e.bytes = []) :
    memMap (es₁ ++ e :: es₂) = memMap (es₁ ++ es₂) := by
  exact memMap_skip_empty es₁ es₂ e he

/-! ## the text front end is total: it never gives up for lack of fuel -/

/-- every recursive call of the statement parser is on a strictly shorter text, so fuel above the
    length of the line is enough (no mnemonic is the empty word) -/
theorem statement_parser_never_out_of_fuel (cfg : PCfg) (hmn : cfg.mnemonics.contains "" = false)
    (f : Nat) (t : List Char) (h : t.length < f) : parseStmts cfg f t ≠ .error .outOfFuel :=
  parseStmts_noOof cfg hmn f t h

/-- a whole source file: whatever the text, the front end answers with statements or with a genuine
    error, never with "out of fuel" - a rejection by the model is never an artefact of the fuel -/
theorem text_front_end_never_out_of_fuel (cfg : PCfg) (hmn : cfg.mnemonics.contains "" = false) (text : String) :
    parseFile cfg text ≠ .error .outOfFuel :=
  parseFile_noOof cfg hmn text

/-- evaluation of an expression is structural: no fuel involved -/
theorem eval_never_out_of_fuel (env : String → Option Int) (e : E) : evalE env e ≠ .error .outOfFuel :=
  evalE_noOof env e


/-! ## muted statements fail closed too -/

/-- one line whose bytes cannot be built (an unresolved name, a value that does not fit, a violated operand
    constraint) fails the second pass, whether the line is muted or not: muting hides bytes, not errors -/
theorem faulty_line_fails_muted_or_not (cfg : Cfg) (L : Labels) (ps : List Placed) (p : Placed) (hp : p ∈ ps) (e : Err)
    (he : lineBytes cfg L p = .error e) : ∃ e', emitAll cfg L ps = .error e' :=
  emitAll_error_of_line cfg L ps p hp e he

/-- … so an accepted program has no line, muted or not, whose bytes could not be built -/
theorem accepted_program_built_every_line (cfg : Cfg) (files : List (List Stmt)) (start : Int) (stop : Option Int)
    (fill : Nat) (o : Outcome) (h : assemble cfg files start stop fill = .ok o) :
    ∃ sorted L, assemblePlaced cfg files = .ok (sorted, L) ∧ ∀ p ∈ sorted, ∃ bs, lineBytes cfg L p = .ok bs :=
  assemble_all_lines_built cfg files start stop fill o h

/-- non-vacuity: a muted data line that names an undefined label cannot be built -/
def exCfgM : Cfg := { bits := 8, origin := 0, little := true, pageSize := 1, regs := [], preZones := [], preConsts := [], preData := [] }
def exMuted : Placed := { line := { stmt := .data 1 [.label "nowhere"], scope := .file 0, zone := "GLOBAL", muted := true, file := 0 }, addr := 2, size := 1 }
example : (lineBytes exCfgM {} exMuted).toOption = none ∧ exMuted.line.muted = true := by decide +kernel

end BV.C14
