/-
  Property C05 — memory zones confine and sequence the code assigned to them.
  Statements only; helper lemmas live in `BespokeVerif/Lemmas/Layout.lean`.
-/
import BespokeVerif.Model.Layout
import BespokeVerif.Lemmas.Layout
import BespokeVerif.Props.C02
import BespokeVerif.Lemmas.Parse
import BespokeVerif.Lemmas.Include
namespace BV.C05
open BV

/-- cursor invariant of every zone: `start ≤ cur ≤ end + 1` -/
def ZonesInv (zs : Zones) : Prop := ∀ z ∈ zs, z.start ≤ z.cur ∧ z.cur ≤ z.stop + 1

/-- every zone lies inside GLOBAL -/
def InGlobal (zs : Zones) : Prop :=
  ∃ g, zs.get? "GLOBAL" = some g ∧ ∀ z ∈ zs, g.start ≤ z.start ∧ z.stop ≤ g.stop

/-- zone names are unique -/
def UniqueNames (zs : Zones) : Prop := (zs.map (·.name)).Nodup

theorem setCur_ok_iff (z : Zone) (v : Int) :
    (∃ z', z.setCur v = .ok z') ↔ z.start ≤ v ∧ v ≤ z.stop + 1 := by
  constructor
  · rintro ⟨z', h⟩
    exact (Zone.setCur_ok h).2
  · rintro ⟨h1, h2⟩
    exact ⟨_, Zone.setCur_of_bounds h1 h2⟩

/-- any zone that is inverted, negative, or exceeds the address width is rejected -/
theorem mkZone_ok_iff (bits : Nat) (name : String) (s e : Int) :
    (∃ z, mkZone bits name s e = .ok z) ↔ 0 ≤ s ∧ s ≤ e ∧ e ≤ (2 : Int) ^ bits - 1 := by
  constructor
  · rintro ⟨z, h⟩
    exact (mkZone_ok h).2
  · rintro ⟨h0, h1, h2⟩
    exact ⟨_, mkZone_of_bounds h0 h1 h2⟩

theorem mkZone_fields (bits : Nat) (name : String) (s e : Int) (z : Zone) (h : mkZone bits name s e = .ok z) :
    z.name = name ∧ z.start = s ∧ z.stop = e ∧ z.cur = s := by
  obtain ⟨rfl, _⟩ := mkZone_ok h
  exact ⟨rfl, rfl, rfl, rfl⟩

/-- a zone declared in source that is not contained in GLOBAL or reuses a name is rejected -/
theorem createZone_ok_iff (bits : Nat) (zs : Zones) (name : String) (s e : Int) (g : Zone)
    (hg : zs.get? "GLOBAL" = some g) :
    (∃ zs', createZone bits zs name s e = .ok zs') ↔
      zs.get? name = none ∧ g.start ≤ s ∧ e ≤ g.stop ∧ 0 ≤ s ∧ s ≤ e ∧ e ≤ (2 : Int) ^ bits - 1 := by
  unfold createZone
  rw [hg]
  cases hn : zs.get? name with
  | some z0 =>
    simp only [Option.isSome_some, if_true]
    constructor
    · rintro ⟨zs', h⟩; cases h
    · rintro ⟨h, _⟩; cases h
  | none =>
    simp only [Option.isSome_none, Bool.false_eq_true, if_false]
    by_cases h1 : s < g.start
    · simp only [h1, if_true]
      constructor
      · rintro ⟨zs', h⟩; cases h
      · rintro ⟨_, h, _⟩; omega
    · by_cases h2 : e > g.stop
      · simp only [h1, h2, if_true, if_false]
        constructor
        · rintro ⟨zs', h⟩; cases h
        · rintro ⟨_, _, h, _⟩; omega
      · simp only [h1, h2, if_false]
        constructor
        · rintro ⟨zs', h⟩
          cases hm : mkZone bits name s e with
          | error er => rw [hm] at h; cases h
          | ok z =>
            obtain ⟨_, h3, h4, h5⟩ := mkZone_ok hm
            exact ⟨trivial, by omega, by omega, h3, h4, h5⟩
        · rintro ⟨_, _, _, h3, h4, h5⟩
          rw [mkZone_of_bounds h3 h4 h5]
          exact ⟨_, rfl⟩

theorem createZone_preserves (bits : Nat) (zs zs' : Zones) (name : String) (s e : Int)
    (h : createZone bits zs name s e = .ok zs') (hi : ZonesInv zs) (hg : InGlobal zs) :
    ZonesInv zs' ∧ InGlobal zs' := by
  obtain ⟨g, hgg, hall⟩ := hg
  have hex : ∃ zs', createZone bits zs name s e = .ok zs' := ⟨zs', h⟩
  rw [createZone_ok_iff bits zs name s e g hgg] at hex
  obtain ⟨hn, h1, h2, h3, h4, h5⟩ := hex
  unfold createZone at h
  rw [hn, hgg] at h
  simp only [Option.isSome_none, Bool.false_eq_true, if_false] at h
  rw [if_neg (by omega), if_neg (by omega), mkZone_of_bounds h3 h4 h5] at h
  cases h
  constructor
  · intro x hx
    rw [List.mem_append, List.mem_singleton] at hx
    rcases hx with hx | rfl
    · exact hi x hx
    · exact ⟨Int.le_refl _, by show s ≤ e + 1; omega⟩
  · refine ⟨g, Zones.get?_append_some _ hgg, ?_⟩
    intro x hx
    rw [List.mem_append, List.mem_singleton] at hx
    rcases hx with hx | rfl
    · exact hall x hx
    · exact ⟨h1, h2⟩

theorem setCur_preserves_inv {zs zs' : Zones} {n : String} {v : Int} (h : zs.setCur n v = .ok zs')
    (hi : ZonesInv zs) : ZonesInv zs' := by
  intro x hx
  rcases Zones.setCur_mem h hx with hm | ⟨z, _, rfl, h1, h2⟩
  · exact hi x hm
  · exact ⟨h1, h2⟩

theorem setCur_preserves_inGlobal {zs zs' : Zones} {n : String} {v : Int} (h : zs.setCur n v = .ok zs')
    (hg : InGlobal zs) : InGlobal zs' := by
  obtain ⟨g, hgg, hall⟩ := hg
  obtain ⟨g', hg', hs, he⟩ := Zones.setCur_get?_bounds h hgg
  refine ⟨g', hg', ?_⟩
  intro x hx
  rw [hs, he]
  rcases Zones.setCur_mem h hx with hm | ⟨z, hz, rfl, _, _⟩
  · exact hall x hm
  · exact hall z (Zones.get?_mem hz)

theorem replace_inv {zs : Zones} {n : String} {z : Zone} (hi : ZonesInv zs)
    (hz : z.start ≤ z.cur ∧ z.cur ≤ z.stop + 1) : ZonesInv (zs.replace n z) := by
  intro x hx
  rcases Zones.mem_replace hx with rfl | hm
  · exact hz
  · exact hi x hm

theorem append_inv {zs : Zones} {z : Zone} (hi : ZonesInv zs)
    (hz : z.start ≤ z.cur ∧ z.cur ≤ z.stop + 1) : ZonesInv (zs ++ [z]) := by
  intro x hx
  rw [List.mem_append, List.mem_singleton] at hx
  rcases hx with hx | rfl
  · exact hi x hx
  · exact hz

theorem mkZone_inv {bits : Nat} {name : String} {s e : Int} {z : Zone} (h : mkZone bits name s e = .ok z) :
    z.start ≤ z.cur ∧ z.cur ≤ z.stop + 1 := by
  obtain ⟨rfl, _, h1, _⟩ := mkZone_ok h
  exact ⟨Int.le_refl _, by show s ≤ e + 1; omega⟩

theorem initTail {zs2 zs3 : Zones} {origin : Int} {g : Zone} (hi : ZonesInv zs2)
    (hs : zs2.setCur "GLOBAL" origin = .ok zs3) (hg : zs3.get? "GLOBAL" = some g)
    (hall : (zs3.all fun z => decide (g.start ≤ z.start) && decide (z.stop ≤ g.stop)) = true) :
    ZonesInv zs3 ∧ InGlobal zs3 := by
  refine ⟨setCur_preserves_inv hs hi, g, hg, ?_⟩
  intro x hx
  rw [List.all_eq_true] at hall
  have := hall x hx
  simpa using this

/-- the predefined zones: all inside GLOBAL, cursors inside their zones -/
theorem initZones_inv (bits : Nat) (origin : Int) (pre : List (String × Int × Int)) (zs : Zones)
    (h : initZones bits origin pre = .ok zs) : ZonesInv zs ∧ InGlobal zs := by
  unfold initZones at h
  simp only [bind, Except.bind, pure, Except.pure] at h
  generalize hf : List.foldlM (m := Except Err) _ [] pre = r at h
  cases r with
  | error e => cases h
  | ok zs1 =>
    have h1 : ZonesInv zs1 := by
      refine foldlM_inv ZonesInv _ ?_ pre [] zs1 (fun x hx => nomatch hx) hf
      intro acc x acc' hacc hstep
      cases hm : mkZone bits x.1 x.2.1 x.2.2 with
      | error e => rw [hm] at hstep; cases hstep
      | ok z =>
        rw [hm] at hstep
        simp only [] at hstep
        split at hstep
        · cases hstep
          exact replace_inv hacc (mkZone_inv hm)
        · cases hstep
          exact append_inv hacc (mkZone_inv hm)
    simp only [] at h
    split at h
    · cases hs : Zones.setCur zs1 "GLOBAL" origin with
      | error e => rw [hs] at h; cases h
      | ok zs3 =>
        rw [hs] at h
        simp only [] at h
        split at h
        · cases h
        · rename_i g hg
          split at h
          · cases h
            exact initTail h1 hs hg ‹_›
          · cases h
    · cases hm : mkZone bits "GLOBAL" 0 (2 ^ bits - 1) with
      | error e => rw [hm] at h; cases h
      | ok g0 =>
        rw [hm] at h
        simp only [] at h
        cases hs : Zones.setCur (zs1 ++ [g0]) "GLOBAL" origin with
        | error e => rw [hs] at h; cases h
        | ok zs3 =>
          rw [hs] at h
          simp only [] at h
          split at h
          · cases h
          · rename_i g hg
            split at h
            · cases h
              exact initTail (append_inv h1 (mkZone_inv hm)) hs hg ‹_›
            · cases h

/-- the first pass keeps the cursor invariant and never changes zone bounds -/
theorem firstPassStep_inv (cfg : Cfg) (zs : Zones) (L : Labels) (ln : Line) (p : Placed) (zs' : Zones)
    (L' : Labels) (h : firstPassStep cfg (zs, L) ln = .ok (p, zs', L')) (hi : ZonesInv zs) (hg : InGlobal zs) :
    ZonesInv zs' ∧ InGlobal zs' := by
  obtain ⟨z₀, addr, size, _, _, hs, _, rfl⟩ := firstPassStep_ok h
  exact ⟨setCur_preserves_inv hs hi, setCur_preserves_inGlobal hs hg⟩

/-- Confinement: every byte assembled while a zone is selected lies inside that zone's inclusive
    range … -/
theorem zone_confines (cfg : Cfg) (zs : Zones) (L : Labels) (ln : Line) (p : Placed) (zs' : Zones)
    (L' : Labels) (z : Zone) (h : firstPassStep cfg (zs, L) ln = .ok (p, zs', L'))
    (hz : zs.get? ln.zone = some z) (hi : ZonesInv zs) (hb : isByteLine ln.stmt = true) (hpos : 0 < p.size) :
    z.start ≤ p.addr ∧ p.addr + p.size - 1 ≤ z.stop := by
  obtain ⟨z₀, addr, size, hz₀, hp, hs, _, rfl⟩ := firstPassStep_ok h
  rw [hz] at hz₀; cases hz₀
  have ha : addr = z.cur := placeOf_byte_addr hb hp
  obtain ⟨z₁, hz₁, h1, h2, _⟩ := Zones.setCur_ok hs
  rw [hz] at hz₁; cases hz₁
  have := hi z (Zones.get?_mem hz)
  show z.start ≤ addr ∧ addr + size - 1 ≤ z.stop
  omega

/-- … and inside GLOBAL -/
theorem zone_confines_global (cfg : Cfg) (zs : Zones) (L : Labels) (ln : Line) (p : Placed) (zs' : Zones)
    (L' : Labels) (g : Zone) (h : firstPassStep cfg (zs, L) ln = .ok (p, zs', L'))
    (hgz : zs.get? "GLOBAL" = some g) (hi : ZonesInv zs) (hg : InGlobal zs) (hu : UniqueNames zs)
    (hb : isByteLine ln.stmt = true) (hpos : 0 < p.size) :
    g.start ≤ p.addr ∧ p.addr + p.size - 1 ≤ g.stop := by
  obtain ⟨g', hg', hall⟩ := hg
  rw [hgz] at hg'; cases hg'
  obtain ⟨z, _, _, hz, _⟩ := firstPassStep_ok h
  have hc := zone_confines cfg zs L ln p zs' L' z h hz hi hb hpos
  have := hall z (Zones.get?_mem hz)
  omega

/-- a line that would place a byte outside its zone is rejected -/
theorem outside_rejected (cfg : Cfg) (zs : Zones) (L : Labels) (ln : Line) (z : Zone) (vals : List E) (w : Nat)
    (hz : zs.get? ln.zone = some z) (hs : ln.stmt = .data w vals)
    (hout : z.cur + (w * vals.length : Nat) > z.stop + 1) :
    ∃ e, firstPassStep cfg (zs, L) ln = .error e := by
  rw [firstPassStep_eq, hz]
  simp only [placeOf_data hs, Except.bind]
  rw [Zones.setCur_eq hz, Zone.setCur_error (Or.inr (by push_cast at hout; omega))]
  exact ⟨_, rfl⟩

/-- an origin given relative to a zone is offset from that zone's start; a bare origin is absolute -/
theorem org_relative (cfg : Cfg) (zs : Zones) (L : Labels) (ln : Line) (p : Placed) (zs' : Zones)
    (L' : Labels) (e : E) (zn : String) (z : Zone) (v : Int)
    (h : firstPassStep cfg (zs, L) ln = .ok (p, zs', L')) (hs : ln.stmt = .org e (some zn))
    (hz : zs.get? ln.zone = some z) (hv : valueE (envOf L cfg.regs ln.scope) e = .ok v) :
    p.addr = z.start + v := by
  obtain ⟨z₀, addr, size, hz₀, hp, _, _, rfl⟩ := firstPassStep_ok h
  rw [hz] at hz₀; cases hz₀
  exact (placeOf_org hs hv hp).1

theorem org_absolute (cfg : Cfg) (zs : Zones) (L : Labels) (ln : Line) (p : Placed) (zs' : Zones)
    (L' : Labels) (e : E) (v : Int)
    (h : firstPassStep cfg (zs, L) ln = .ok (p, zs', L')) (hs : ln.stmt = .org e none)
    (hv : valueE (envOf L cfg.regs ln.scope) e = .ok v) :
    p.addr = v := by
  obtain ⟨z₀, addr, size, hz₀, hp, _, _, rfl⟩ := firstPassStep_ok h
  exact (placeOf_org hs hv hp).1

/-- lines of other zones leave the zone called `n` as it was -/
theorem firstPass_skip (cfg : Cfg) (n : String) (l₂ : Line) (rest : List Line) (p₂ : Placed) (ps : List Placed)
    (zs : Zones) (L : Labels) :
    ∀ (mid : List Line) (pm : List Placed) (st : Zones × Labels),
      firstPass cfg (mid ++ l₂ :: rest) st = .ok (pm ++ p₂ :: ps, zs, L) → pm.length = mid.length →
      (∀ m ∈ mid, m.zone ≠ n) →
      ∃ zs1 L1 zs2 L2, firstPassStep cfg (zs1, L1) l₂ = .ok (p₂, zs2, L2) ∧ zs1.get? n = st.1.get? n
  | [], pm, st, h, hlen, _ => by
    cases pm with
    | cons q pm' => cases hlen
    | nil =>
      obtain ⟨q, zs1, L1, ps1, h1, _, he⟩ := firstPass_cons_ok h
      cases he
      exact ⟨st.1, st.2, zs1, L1, h1, rfl⟩
  | m :: mid, pm, st, h, hlen, hmid => by
    cases pm with
    | nil => cases hlen
    | cons q pm' =>
      obtain ⟨q', zs1, L1, ps1, h1, hrest, he⟩ := firstPass_cons_ok h
      cases he
      have hlen' : pm'.length = mid.length := by simpa using hlen
      obtain ⟨zsA, LA, zsB, LB, hstep, hget⟩ :=
        firstPass_skip cfg n l₂ rest p₂ ps zs L mid pm' (zs1, L1) hrest hlen'
          (fun x hx => hmid x (List.mem_cons_of_mem _ hx))
      refine ⟨zsA, LA, zsB, LB, hstep, ?_⟩
      rw [hget]
      have hne : n ≠ m.zone := fun hc => hmid m (List.mem_cons_self ..) hc.symm
      exact (C02.cursor_after cfg st.1 st.2 m q zs1 L1 h1).2 n hne

/-- Sequencing: separate stretches of source assigned to the same zone are laid out consecutively
    as if concatenated — lines of other zones in between do not matter. -/
theorem zone_concatenates (cfg : Cfg) (mid : List Line) (l₁ l₂ : Line) (st : Zones × Labels)
    (p₁ p₂ : Placed) (pm ps : List Placed) (rest : List Line) (zs : Zones) (L : Labels)
    (h : firstPass cfg (l₁ :: mid ++ l₂ :: rest) st = .ok (p₁ :: pm ++ p₂ :: ps, zs, L))
    (hlen : pm.length = mid.length)
    (hz : l₁.zone = l₂.zone) (hmid : ∀ m ∈ mid, m.zone ≠ l₁.zone)
    (hm : C02.movesCursor l₂.stmt = false) :
    p₂.addr = p₁.addr + p₁.size := by
  obtain ⟨q₁, zs1, L1, ps1, h1, hrest, he⟩ := firstPass_cons_ok h
  cases he
  obtain ⟨⟨z', hz', hc⟩, _⟩ := C02.cursor_after cfg st.1 st.2 l₁ p₁ zs1 L1 h1
  obtain ⟨zsA, LA, zsB, LB, hstep, hget⟩ :=
    firstPass_skip cfg l₁.zone l₂ rest p₂ ps zs L mid pm (zs1, L1) hrest hlen hmid
  rw [hz'] at hget
  rw [hz] at hget
  rw [C02.placed_at_cursor cfg zsA LA l₂ p₂ zsB LB z' hstep hget hm, hc]

/-! ### whole programs: the invariants hold from the first statement to the last -/

/-- the first pass never changes the bounds of the zone found under a name -/
theorem firstPass_bounds (cfg : Cfg) : ∀ (lines : List Line) (st : Zones × Labels) (out : List Placed) (zsF : Zones) (L : Labels),
    firstPass cfg lines st = .ok (out, zsF, L) → ∀ (m : String) (g : Zone), st.1.get? m = some g →
    ∃ g', zsF.get? m = some g' ∧ g'.start = g.start ∧ g'.stop = g.stop := by
  intro lines
  induction lines with
  | nil =>
    intro st out zsF L h m g hg
    simp [firstPass] at h
    rw [← h.2.1]; exact ⟨g, hg, rfl, rfl⟩
  | cons ln rest ih =>
    intro st out zsF L h m g hg
    obtain ⟨p1, zs1, L1, ps, h1, h2, _⟩ := firstPass_cons_ok h
    obtain ⟨z₀, addr, size, _, _, hs, _, _⟩ := firstPassStep_ok (zs := st.1) (L := st.2) h1
    obtain ⟨g1, hg1, hs1, he1⟩ := Zones.setCur_get?_bounds hs hg
    obtain ⟨g', hg', hs', he'⟩ := ih (zs1, L1) ps zsF L h2 m g1 hg1
    exact ⟨g', hg', by omega, by omega⟩

/-- Confinement for a whole program: starting from any zone table whose cursors lie inside their zones
    (`initZones_inv`, `createZone_preserves`), every byte-producing line of every length the first pass
    places lies inside the inclusive range of the zone it was assembled in - the bounds that zone has at
    the end, which are the bounds it always had. -/
theorem firstPass_confines (cfg : Cfg) : ∀ (lines : List Line) (st : Zones × Labels) (out : List Placed) (zsF : Zones) (L : Labels),
    firstPass cfg lines st = .ok (out, zsF, L) → ZonesInv st.1 →
    ∀ p ∈ out, isByteLine p.line.stmt = true → 0 < p.size →
      ∃ z, zsF.get? p.line.zone = some z ∧ z.start ≤ p.addr ∧ p.addr + p.size - 1 ≤ z.stop := by
  intro lines
  induction lines with
  | nil =>
    intro st out zsF L h _ p hp
    simp [firstPass] at h
    rw [h.1] at hp; cases hp
  | cons ln rest ih =>
    intro st out zsF L h hi p hp hb hpos
    obtain ⟨p1, zs1, L1, ps, h1, h2, rfl⟩ := firstPass_cons_ok h
    have hinv1 : ZonesInv zs1 := by
      obtain ⟨z₀, addr, size, _, _, hs, _, _⟩ := firstPassStep_ok (zs := st.1) (L := st.2) h1
      exact setCur_preserves_inv hs hi
    rcases List.mem_cons.mp hp with rfl | hp'
    · obtain ⟨z₀, addr, size, hz₀, _, hs, _, hpe⟩ := firstPassStep_ok (zs := st.1) (L := st.2) h1
      have hline : p.line = ln := by rw [hpe]
      rw [hline] at hb ⊢
      have hc := zone_confines cfg st.1 st.2 ln p zs1 L1 z₀ h1 hz₀ hi hb hpos
      obtain ⟨g1, hg1, hs1, he1⟩ := Zones.setCur_get?_bounds hs hz₀
      obtain ⟨g', hg', hs', he'⟩ := firstPass_bounds cfg rest (zs1, L1) ps zsF L h2 ln.zone g1 hg1
      exact ⟨g', hg', by omega, by omega⟩
    · exact ih (zs1, L1) ps zsF L h2 hinv1 p hp' hb hpos

/-- the invariants survive the whole first pass -/
theorem firstPass_inv (cfg : Cfg) : ∀ (lines : List Line) (st : Zones × Labels) (out : List Placed) (zsF : Zones) (L : Labels),
    firstPass cfg lines st = .ok (out, zsF, L) → ZonesInv st.1 → InGlobal st.1 → ZonesInv zsF ∧ InGlobal zsF := by
  intro lines
  induction lines with
  | nil =>
    intro st out zsF L h hi hg
    simp [firstPass] at h
    rw [← h.2.1]; exact ⟨hi, hg⟩
  | cons ln rest ih =>
    intro st out zsF L h hi hg
    obtain ⟨p1, zs1, L1, ps, h1, h2, _⟩ := firstPass_cons_ok h
    obtain ⟨hi1, hg1⟩ := firstPassStep_inv cfg st.1 st.2 ln p1 zs1 L1 h1 hi hg
    exact ih (zs1, L1) ps zsF L h2 hi1 hg1

/-- End to end, no hypothesis on the zone table: for every program the model places (any ISA zone
    configuration that `initZones` accepts, any zones the source creates, any includes), every
    byte-producing source line of positive size lies inside the inclusive range of the zone it was
    assembled in AND inside GLOBAL. (`sorted` additionally holds the predefined data blocks of the ISA
    configuration, which are placed at their configured addresses without a zone check.) -/
theorem program_lines_confined (cfg : Cfg) (files : List (List Stmt)) (sorted : List Placed) (L : Labels)
    (h : assemblePlaced cfg files = .ok (sorted, L)) :
    ∃ (placed : List Placed) (zsF : Zones) (g : Zone), sorted = sortByAddr (placed ++ predefinedLines cfg) ∧
      zsF.get? "GLOBAL" = some g ∧
      ∀ p ∈ placed, isByteLine p.line.stmt = true → 0 < p.size →
        ∃ z, zsF.get? p.line.zone = some z ∧ z.start ≤ p.addr ∧ p.addr + p.size - 1 ≤ z.stop ∧
          g.start ≤ p.addr ∧ p.addr + p.size - 1 ≤ g.stop := by
  unfold assemblePlaced at h
  cases h0 : initLabels cfg with
  | error e => rw [h0] at h; cases h
  | ok L0 =>
    rw [h0] at h
    simp only [bind, Except.bind] at h
    cases hz : initZones cfg.bits cfg.origin cfg.preZones with
    | error e => rw [hz] at h; cases h
    | ok zs0 =>
      rw [hz] at h
      simp only at h
      cases hr : readFile cfg files (files.length + 1) 0 { labels := L0, zones := zs0, used := [], nextLoc := 0, syms := cfg.preSyms } with
      | error e => rw [hr] at h; cases h
      | ok rr =>
        obtain ⟨lines, st⟩ := rr
        rw [hr] at h
        simp only at h
        cases hf : firstPass cfg lines (st.zones, st.labels) with
        | error e => rw [hf] at h; cases h
        | ok fr =>
          obtain ⟨placed, zsF, Lf⟩ := fr
          rw [hf] at h
          simp only [Except.ok.injEq, Prod.mk.injEq] at h
          obtain ⟨rfl, rfl⟩ := h
          have hinit := initZones_inv cfg.bits cfg.origin cfg.preZones zs0 hz
          have hread : ZonesInv st.zones ∧ InGlobal st.zones :=
            readFile_zones_pred (fun zs => ZonesInv zs ∧ InGlobal zs) cfg
              (fun zs name s e zs' hc hp => createZone_preserves cfg.bits zs zs' name s e hc hp.1 hp.2)
              files _ _ _ _ _ hr hinit
          obtain ⟨hiF, hgF⟩ := firstPass_inv cfg lines _ placed zsF Lf hf hread.1 hread.2
          obtain ⟨g, hgg, hall⟩ := hgF
          refine ⟨placed, zsF, g, rfl, hgg, ?_⟩
          intro p hp hb hpos
          obtain ⟨z, hzz, h1, h2⟩ := firstPass_confines cfg lines _ placed zsF Lf hf hread.1 p hp hb hpos
          have := hall z (Zones.get?_mem hzz)
          exact ⟨z, hzz, h1, h2, by omega, by omega⟩

/-! ### the text level: a zone / origin directive and what follows it on the same source line

The layout theorems above speak about a list of statements.  The front end (`Model/Parse.lean`) turns
a source line into such a list; these two theorems say that a statement written behind a zone or
origin directive on the same line is simply the next statement of that list - so everything proved
about "the statement after a zone switch" (it is placed at the selected zone's cursor, confined to
that zone) holds for it as it does for a statement on the next line.  (The real code gave such a
statement the zone of the start of the line: finding D38, fixed.) -/

/-- `.memzone NAME rest…` (directive name in any letter case): the zone switch, then the statements
    of the rest of the line -/
theorem text_zone_directive_line (cfg : PCfg) (f : Nat) (d z rest : List Char)
    (hd : NameText d) (hdot : d.head? = some '.') (hlow : lowerS d = ".memzone")
    (hz : z ≠ [] ∧ ∀ c ∈ z, isWordChar c = true) (hr : ∀ c, rest.head? = some c → isWordChar c = false) :
    parseStmts cfg (f + 1) (d ++ ' ' :: z ++ rest) =
      (do let more ← parseStmts cfg f rest; .ok (.memzone (String.ofList z) :: more)) :=
  parseStmts_memzone_front cfg f d z rest hd hdot hlow hz hr

/-- `.org ARG label: rest…`: the origin directive with exactly `ARG` as its argument, then the
    statements of the rest of the line, beginning with the label -/
theorem text_origin_label_line (cfg : PCfg) (f : Nat) (d own after : List Char)
    (hd : NameText d) (hdot : d.head? = some '.') (hlow : lowerS d = ".org")
    (hown : ArgText own) (hafter : startsLabelDef (ptrimL after) = true) (hrt : ptrimR after = after) :
    parseStmts cfg (f + 1) (d ++ ' ' :: own ++ ' ' :: after) =
      (do let e ← parseExprText own
          let more ← parseStmts cfg f after
          .ok (.org e none :: more)) :=
  parseStmts_org_label cfg f d own after hd hdot hlow hown hafter hrt

-- the hypotheses are satisfiable: `.MemZone ZONE1 .byte 1`, `.ORG $20 next: nop`
example : NameText ".MemZone".toList ∧ ".MemZone".toList.head? = some '.' ∧ lowerS ".MemZone".toList = ".memzone" ∧
    ("ZONE1".toList ≠ [] ∧ ∀ c ∈ "ZONE1".toList, isWordChar c = true) ∧
    (∀ c, " .byte 1".toList.head? = some c → isWordChar c = false) := by
  refine ⟨by unfold NameText; decide, by decide, by rw [lowerS_eq]; decide, by decide, by decide⟩
example : NameText ".ORG".toList ∧ lowerS ".ORG".toList = ".org" ∧ ArgText "$20".toList ∧
    startsLabelDef (ptrimL "next: nop".toList) = true ∧ ptrimR "next: nop".toList = "next: nop".toList := by
  refine ⟨by unfold NameText; decide, by rw [lowerS_eq]; decide, by unfold ArgText; decide, by decide, by decide⟩

end BV.C05
