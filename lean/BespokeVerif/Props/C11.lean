/-
  Property C11 — data and fill directives emit exactly the bytes they describe.
  Statements only; helper lemmas live in `BespokeVerif/Lemmas/Data.lean`.
-/
import BespokeVerif.Model.Layout
import BespokeVerif.Lemmas.Data
import BespokeVerif.Model.Split
import BespokeVerif.Lemmas.Split
namespace BV.C11
open BV

/-- a value emits exactly `w` bytes -/
theorem wordBytes_length (w : Nat) (little : Bool) (v : Int) : (wordBytes w little v).length = w :=
  DataLemmas.wordBytes_length w little v

/-- … namely the value reduced modulo `2^(8w)`: negative and oversized values wrap -/
theorem wordBytes_mod (w : Nat) (little : Bool) (v : Int) :
    wordBytes w little v = wordBytes w little (v % (2 : Int) ^ (8 * w)) :=
  DataLemmas.wordBytes_mod w little v

/-- little endian: byte `j` is byte `j` of the value; big endian: byte `j` is byte `w-1-j` -/
theorem wordBytes_little (w : Nat) (v : Int) (j : Nat) (hj : j < w) :
    (wordBytes w true v)[j]? = some (byteAt v j) :=
  DataLemmas.wordBytes_little w v j hj
theorem wordBytes_big (w : Nat) (v : Int) (j : Nat) (hj : j < w) :
    (wordBytes w false v)[j]? = some (byteAt v (w - 1 - j)) :=
  DataLemmas.wordBytes_big w v j hj

/-- the bytes are the base-256 digits of `v mod 2^(8w)` -/
theorem wordBytes_value (w : Nat) (v : Int) :
    ((wordBytes w true v).foldr (fun (b : Nat) (acc : Int) => (b : Int) + 256 * acc) (0 : Int)) = v % (2 : Int) ^ (8 * w) :=
  DataLemmas.wordBytes_value w v

/-- a data directive emits `w` bytes per listed value, in list order -/
theorem data_bytes (cfg : Cfg) (L : Labels) (p : Placed) (w : Nat) (vals : List E) (vs : List Int)
    (hs : p.line.stmt = .data w vals)
    (hv : vals.mapM (valueE (envOf L cfg.regs p.line.scope)) = .ok vs) :
    lineBytes cfg L p = .ok (vs.flatMap (wordBytes w cfg.little)) := by
  unfold lineBytes
  simp only [hs, hv]
  rfl

theorem data_length (cfg : Cfg) (L : Labels) (p : Placed) (w : Nat) (vals : List E) (bs : List Nat)
    (hs : p.line.stmt = .data w vals) (hb : lineBytes cfg L p = .ok bs) : bs.length = w * vals.length := by
  unfold lineBytes at hb
  simp only [hs] at hb
  cases hv : vals.mapM (valueE (envOf L cfg.regs p.line.scope)) with
  | error e => simp [hv, bind, Except.bind] at hb
  | ok vs =>
    simp only [hv, bind, Except.bind, Except.ok.injEq] at hb
    subst hb
    rw [DataLemmas.flatMap_wordBytes_length, DataLemmas.mapM_ok_length _ _ _ hv]

/-- `.fill n, v` emits `n` copies of the low byte of `v` -/
theorem fill_bytes (cfg : Cfg) (L : Labels) (p : Placed) (cnt val : E) (v : Int)
    (hs : p.line.stmt = .fill cnt val) (hv : valueE (envOf L cfg.regs p.line.scope) val = .ok v) :
    lineBytes cfg L p = .ok (List.replicate p.size.toNat ((v % 256).toNat)) := by
  unfold lineBytes
  simp only [hs, hv, ← DataLemmas.byteAt_zero]
  rfl

/-- `.zerountil` emits zeros only -/
theorem zerountil_bytes (cfg : Cfg) (L : Labels) (p : Placed) (a : E) (hs : p.line.stmt = .zerountil a) :
    lineBytes cfg L p = .ok (List.replicate p.size.toNat 0) := by
  unfold lineBytes
  simp only [hs]

/-- a quoted string emits one byte per character after escape processing, then the terminator -/
theorem str_bytes (cfg : Cfg) (L : Labels) (p : Placed) (raw : String) (term : Option Nat)
    (hs : p.line.stmt = .str raw term) :
    lineBytes cfg L p = .ok ((unescape raw.toList).map (· % 256) ++ term.toList.map (· % 256)) := by
  unfold lineBytes
  simp only [hs]

/-- the terminator of `.cstr` / `.asciiz` is appended always and exactly once - also when the string itself already
    ends with the terminator value (`.cstr "abc\\0"` is five bytes) -/
theorem cstr_terminator_always (cfg : Cfg) (L : Labels) (p : Placed) (raw : String) (t : Nat)
    (hs : p.line.stmt = .str raw (some t)) :
    ∃ bs, lineBytes cfg L p = .ok bs ∧ bs.length = (unescape raw.toList).length + 1 ∧ bs.getLast? = some (t % 256) ∧
      bs.dropLast = (unescape raw.toList).map (· % 256) := by
  refine ⟨_, str_bytes cfg L p raw (some t) hs, ?_, ?_, ?_⟩ <;> simp

/-- escape processing: text without a backslash is taken character by character -/
theorem unescape_plain (cs : List Char) (h : ∀ c ∈ cs, c ≠ '\\') : unescape cs = cs.map Char.toNat := by
  induction cs with
  | nil => simp [unescape]
  | cons c rest ih =>
    have hc : c ≠ '\\' := h c (by simp)
    have := ih (fun x hx => h x (by simp [hx]))
    rw [unescape.eq_def]
    split
    · simp_all
    · simp_all
    · simp_all

theorem unescape_simple_escapes (rest : List Char) :
    unescape ('\\' :: 'n' :: rest) = 10 :: unescape rest ∧
    unescape ('\\' :: 't' :: rest) = 9 :: unescape rest ∧
    unescape ('\\' :: 'r' :: rest) = 13 :: unescape rest ∧
    unescape ('\\' :: '\\' :: rest) = 92 :: unescape rest ∧
    unescape ('\\' :: '"' :: rest) = 34 :: unescape rest ∧
    unescape ('\\' :: '\'' :: rest) = 39 :: unescape rest := by
  refine ⟨?_, ?_, ?_, ?_, ?_, ?_⟩ <;> rw [unescape]

theorem unescape_hex (h1 h2 : Char) (rest : List Char) (hh1 : isHexDigit h1 = true) (hh2 : isHexDigit h2 = true) :
    unescape ('\\' :: 'x' :: h1 :: h2 :: rest) = (hexVal h1 * 16 + hexVal h2) :: unescape rest := by
  rw [unescape]; simp [hh1, hh2]

/-- the number of emitted characters never exceeds the number of source characters -/
theorem unescape_length_le (cs : List Char) : (unescape cs).length ≤ cs.length := by
  fun_induction unescape cs <;> simp_all <;> omega

/-- non-vacuity -/
example : wordBytes 2 false (-2) = [255, 254] ∧ wordBytes 2 true 0x12345 = [0x45, 0x23] := by decide +kernel
example : unescape "a\\n\\x41\\0;\\\"".toList = [97, 10, 65, 0, 59, 34] := by decide +kernel


/-! ## value lists: where one listed value ends and the next begins (`split_on_commas`) -/

/-- splitting loses nothing: the items joined by commas are the text -/
theorem splitCommas_join (s : List Char) : joinCommas (splitCommas s) = s :=
  SplitLemmas.splitCommas_join s

/-- a text without quote characters is split at every comma, exactly like `str.split(',')` -/
theorem splitCommas_no_quote (s : List Char) (h : '\'' ∉ s) : splitCommas s = splitPlain s :=
  SplitLemmas.splitCommas_no_quote s h

/-- Main statement: a list of well-tokenised values (quoted characters — the comma `','` and the
    quote included — and other characters that are neither comma nor quote), written with commas
    between them, is split into exactly those values. -/
theorem splitCommas_items (items : List (List QSeg)) (hne : items ≠ [])
    (hok : ∀ it ∈ items, ∀ sg ∈ it, sg.ok = true) :
    splitCommas (joinCommas (items.map renderItem)) = items.map renderItem :=
  SplitLemmas.splitCommas_items items hne hok

/-- the number of values is one more than the number of separating commas -/
theorem splitCommas_length (items : List (List QSeg)) (hne : items ≠ [])
    (hok : ∀ it ∈ items, ∀ sg ∈ it, sg.ok = true) :
    (splitCommas (joinCommas (items.map renderItem))).length = items.length :=
  SplitLemmas.splitCommas_length items hne hok

/-- a quoted comma is one value, not two (the defect repaired in /repo: D35) -/
example : splitCommas "1, ',', 2".toList = ["1".toList, " ','".toList, " 2".toList] ∧
          splitPlain "1, ',', 2".toList = ["1".toList, " '".toList, "'".toList, " 2".toList] := by
  decide

end BV.C11
