/-
  Property C07 — numeric expressions evaluate to their arithmetic value.
  Statements only; helper lemmas live in `BespokeVerif/Lemmas/Expr.lean`.
-/
import BespokeVerif.Model.Expr
import BespokeVerif.Lemmas.Expr
import BespokeVerif.Lemmas.LexFuel
namespace BV.C07
open BV

/-! ## the parser is exactly the stratified grammar -/

/-- the fuel supplied at the entry point is never exhausted: "the model terminates" is not true
    merely because fuel ran out -/
theorem parse_never_out_of_fuel (ts : List Tok) : parseExpr ts ≠ .error .outOfFuel := by
  exact ParseLemmas.parseExpr_ne_oof ts

/-- the same for the lexer: every step consumes at least one character and reports nothing but
    `badExpression`, so the fuel `lexExpr` supplies (length of the text + 1) is never exhausted -/
theorem lex_never_out_of_fuel (s : List Char) : lexExpr s ≠ .error .outOfFuel :=
  lexExpr_ne_oof s

/-- every lexer step makes progress (the rest is strictly shorter) and fails only with `badExpression` -/
theorem lex_step_progress (cs : List Char) (r : Except Err Tok) (rest : List Char)
    (h : lexStep cs = some (r, rest)) : rest.length < cs.length ∧ ∀ e, r = .error e → e = .badExpression :=
  lexStep_ok cs r rest h

/-- soundness: whatever the recursive-descent parser accepts is derivable in the grammar
    (precedence: unary/byte extraction > `* / %` > `+ -` > `<< >>` > `& | ^`, left-associative) -/
theorem parse_sound (ts : List Tok) (e : E) (h : parseExpr ts = .ok e) : Gram 0 ts e := by
  exact ParseLemmas.parseExpr_sound h

/-- completeness: every derivable token list is accepted, with that very tree -/
theorem parse_complete (ts : List Tok) (e : E) (h : Gram 0 ts e) : parseExpr ts = .ok e := by
  exact ParseLemmas.parseExpr_complete h

/-- the grammar assigns at most one tree to a token list -/
theorem gram_unambiguous (ts : List Tok) (e₁ e₂ : E) (h₁ : Gram 0 ts e₁) (h₂ : Gram 0 ts e₂) :
    e₁ = e₂ := by
  have h := (ParseLemmas.parseExpr_complete h₁).symm.trans (ParseLemmas.parseExpr_complete h₂)
  injection h

/-- token lists that are not well-formed expressions are rejected, never given a value -/
theorem malformed_rejected (ts : List Tok) (h : ¬ ∃ e, Gram 0 ts e) :
    ∃ err, parseExpr ts = .error err := by
  cases hp : parseExpr ts with
  | ok e => exact absurd ⟨e, ParseLemmas.parseExpr_sound hp⟩ h
  | error err => exact ⟨err, rfl⟩

/-- every tree, printed with minimal parentheses, is read back as itself -/
theorem parse_pp (e : E) : parseExpr (pp e) = .ok e := by
  exact ParseLemmas.parseExpr_complete (ParseLemmas.ppAt_gram e 0 (Nat.zero_le _))

/-- the printer's output is derivable (so `parse_pp` is an instance of completeness) -/
theorem pp_gram (e : E) : Gram 0 (pp e) e := by
  exact ParseLemmas.ppAt_gram e 0 (Nat.zero_le _)

/-! ## evaluation is ordinary arithmetic -/

theorem eval_add (env) (l r : E) (a b : Rat) (hl : evalE env l = .ok a) (hr : evalE env r = .ok b) :
    evalE env (.bin .add l r) = .ok (a + b) := by
  exact EvalLemmas.eval_add env l r a b hl hr
theorem eval_sub (env) (l r : E) (a b : Rat) (hl : evalE env l = .ok a) (hr : evalE env r = .ok b) :
    evalE env (.bin .sub l r) = .ok (a - b) := by
  exact EvalLemmas.eval_sub env l r a b hl hr
theorem eval_mul (env) (l r : E) (a b : Rat) (hl : evalE env l = .ok a) (hr : evalE env r = .ok b) :
    evalE env (.bin .mul l r) = .ok (a * b) := by
  exact EvalLemmas.eval_mul env l r a b hl hr
/-- division yields the real (exact rational) quotient -/
theorem eval_div (env) (l r : E) (a b : Rat) (hl : evalE env l = .ok a) (hr : evalE env r = .ok b)
    (hb : b ≠ 0) : evalE env (.bin .div l r) = .ok (a / b) := by
  exact EvalLemmas.eval_div env l r a b hl hr hb
theorem eval_div_zero (env) (l r : E) (a : Rat) (hl : evalE env l = .ok a) (hr : evalE env r = .ok 0) :
    evalE env (.bin .div l r) = .error .divZero := by
  exact EvalLemmas.eval_div_zero env l r a hl hr
theorem eval_neg (env) (e : E) (a : Rat) (h : evalE env e = .ok a) :
    evalE env (.neg e) = .ok (-a) := by
  exact EvalLemmas.eval_neg env e a h

/-- `%` is the floored remainder: `a = b * k + m` for an integer `k`, with `m` between 0 and `b` -/
theorem mod_spec (a b : Rat) (hb : b ≠ 0) :
    ∃ (k : Int) (m : Rat), applyBin .mod a b = .ok m ∧ a = b * (k : Rat) + m
      ∧ ((0 < b → 0 ≤ m ∧ m < b) ∧ (b < 0 → b < m ∧ m ≤ 0)) := by
  exact EvalLemmas.mod_spec a b hb

/-- the final result is truncated toward zero -/
theorem truncQ_int (n : Int) : truncQ (n : Rat) = n := by
  exact EvalLemmas.truncQ_int n
theorem truncQ_nonneg (q : Rat) (h : 0 ≤ q) : truncQ q = q.floor := by
  exact EvalLemmas.truncQ_nonneg q h
theorem truncQ_neg (q : Rat) (h : q < 0) : truncQ q = -((-q).floor) := by
  exact EvalLemmas.truncQ_neg q h

/-- shifts are multiplication / floored division by a power of two -/
theorem shl_spec (a n : Int) (hn : 0 ≤ n) :
    applyBin .shl (a : Rat) (n : Rat) = .ok ((a * (2 : Int) ^ n.toNat : Int) : Rat) := by
  exact EvalLemmas.shl_spec a n hn
theorem shr_spec (a n : Int) (hn : 0 ≤ n) :
    applyBin .shr (a : Rat) (n : Rat) = .ok ((a / (2 : Int) ^ n.toNat : Int) : Rat) := by
  exact EvalLemmas.shr_spec a n hn
theorem shift_negative_rejected (a n : Int) (hn : n < 0) :
    applyBin .shl (a : Rat) (n : Rat) = .error .badExpression ∧
    applyBin .shr (a : Rat) (n : Rat) = .error .badExpression := by
  exact EvalLemmas.shift_negative_rejected a n hn

/-- the bitwise operators act bit by bit on the infinite two's-complement representation -/
theorem intAnd_spec (a b : Int) (i : Nat) : bitAt (intAnd a b) i = (bitAt a i && bitAt b i) := by
  exact EvalLemmas.intAnd_spec a b i
theorem intOr_spec (a b : Int) (i : Nat) : bitAt (intOr a b) i = (bitAt a i || bitAt b i) := by
  exact EvalLemmas.intOr_spec a b i
theorem intXor_spec (a b : Int) (i : Nat) : bitAt (intXor a b) i = (bitAt a i != bitAt b i) := by
  exact EvalLemmas.intXor_spec a b i

/-- without `/`, every value is an integer (no rounding anywhere) -/
def NoDiv : E → Prop
  | .num _ => True
  | .label _ => True
  | .neg e => NoDiv e
  | .byteN _ e => NoDiv e
  | .bin op l r => op ≠ .div ∧ NoDiv l ∧ NoDiv r

theorem eval_int_closed (env) (e : E) (q : Rat) (hd : NoDiv e) (h : evalE env e = .ok q) :
    ∃ n : Int, q = (n : Rat) := by
  exact EvalLemmas.eval_int_closed_gen NoDiv (fun _ h => h) (fun _ _ h => h) (fun _ _ _ h => h)
    env e q hd h

/-! ## byte extraction -/

/-- `BYTEn(x)` / `LSB(x)`: byte `n` of the two's-complement representation of `x`; the code's
    `byte_count = max(⌈bitlen|x|/8⌉, n+1)` masking computes exactly that -/
theorem byteN_spec (x : Int) (n : Nat) : byteNImpl x n = byteAt x n := by
  exact EvalLemmas.byteN_spec x n

theorem byteAt_lt (x : Int) (n : Nat) : byteAt x n < 256 := by
  exact EvalLemmas.byteAt_lt x n

/-- byte `n` collects bits `8n … 8n+7` -/
theorem byteAt_bits (x : Int) (n i : Nat) (hi : i < 8) :
    (byteAt x n).testBit i = bitAt x (8 * n + i) := by
  exact EvalLemmas.byteAt_bits x n i hi

/-! ## literals (lexer, single token) -/

theorem lex_decimal (n : Nat) : lexExpr (Nat.toDigits 10 n) = .ok [.num n] := by
  exact LexLemmas.lex_decimal n
theorem lex_hex_dollar (n : Nat) : lexExpr ('$' :: Nat.toDigits 16 n) = .ok [.num n] := by
  exact LexLemmas.lex_hex_dollar n
theorem lex_hex_0x (n : Nat) : lexExpr ('0' :: 'x' :: Nat.toDigits 16 n) = .ok [.num n] := by
  exact LexLemmas.lex_hex_0x n
theorem lex_bin_percent (n : Nat) : lexExpr ('%' :: Nat.toDigits 2 n) = .ok [.num n] := by
  exact LexLemmas.lex_bin_percent n
theorem lex_bin_b (n : Nat) : lexExpr ('b' :: Nat.toDigits 2 n) = .ok [.num n] := by
  exact LexLemmas.lex_bin_b n
/-- `lex_hex_H` as originally stated (`∀ n, lexExpr (Nat.toDigits 16 n ++ ['H']) = .ok [.num n]`) is
    FALSE: the binary alternative `(?:\%|b)[01]+` comes first in the pattern, so a hex string that
    starts with `b0…` / `b1…` is read as a binary literal (`b1H` lexes as `1` followed by label `H`).
    The hypothesis excludes exactly those strings (it is necessary and sufficient, see
    `lex_hex_H_iff`). -/
theorem lex_hex_H_partial (n : Nat)
    (h : ∀ d ds, Nat.toDigits 16 n = 'b' :: d :: ds → isBinDigit d = false) :
    lexExpr (Nat.toDigits 16 n ++ ['H']) = .ok [.num n] := by
  exact LexLemmas.lex_hex_H_partial n h
/-- the counterexample: `b1H` (n = 0xb1 = 177) -/
theorem lex_hex_H_counterexample :
    lexExpr (Nat.toDigits 16 177 ++ ['H']) = .ok [.num 1, .label "H"] := by
  exact LexLemmas.lex_hex_H_counterexample
/-- the side condition of `lex_hex_H_partial` is exactly what is needed -/
theorem lex_hex_H_iff (n : Nat) :
    lexExpr (Nat.toDigits 16 n ++ ['H']) = .ok [.num n] ↔
      ∀ d ds, Nat.toDigits 16 n = 'b' :: d :: ds → isBinDigit d = false := by
  exact LexLemmas.lex_hex_H_iff n
/-- arithmetic reading of the side condition: no hex prefix of `n` equals `b0` or `b1` -/
theorem lex_hex_H_iff_arith (n : Nat) :
    lexExpr (Nat.toDigits 16 n ++ ['H']) = .ok [.num n] ↔
      ∀ k, n / 16 ^ k ≠ 176 ∧ n / 16 ^ k ≠ 177 := by
  exact LexLemmas.lex_hex_H_iff_arith n
theorem lex_char (c : Char) : lexExpr ['\'', c, '\''] = .ok [.num c.toNat] := by
  exact LexLemmas.lex_char c

/-- non-vacuity / concrete readings of precedence and associativity -/
example : evalText (fun _ => none) "-1 + 2".toList = .ok 1 := by decide +kernel
example : evalText (fun _ => none) "1/49*49".toList = .ok 1 := by decide +kernel
example : evalText (fun _ => none) "2 + 3 * 4 << 1 & $ff".toList = .ok 28 := by decide +kernel
example : evalText (fun _ => none) "8 - 2 - 2".toList = .ok 4 := by decide +kernel
example : evalText (fun _ => none) "BYTE1(-256)".toList = .ok 255 := by decide +kernel
example : evalText (fun _ => none) "-7/2".toList = .ok (-3) := by decide +kernel
example : evalText (fun _ => none) "1 +! 2".toList = .error .badExpression := by decide +kernel

end BV.C07
