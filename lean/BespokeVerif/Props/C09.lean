/-
  Property C09 — preprocessor symbols are substituted as whole words, in definition order.
  Statements only; helper lemmas live in `BespokeVerif/Lemmas/Subst.lean`.
-/
import BespokeVerif.Model.Subst
import BespokeVerif.Lemmas.Subst
namespace BV.C09
open BV

/-- a word that is a defined symbol candidate -/
def isDefined (t : STab) : Seg → Bool
  | .word w => isCandidate w && (t.get? w).isSome
  | .other _ => false

/-- the fuel supplied by `expand` is never exhausted -/
theorem expand_never_out_of_fuel (t : STab) (l : List Seg) : expand t l ≠ .error .outOfFuel := by
  exact (expandSegs_stable t t.length [] (GoodPath.nil t) (by simp) _ (2 * t.length + 4)
    (by omega) (by omega) l).2

/-- "until no defined symbol remains": the expansion contains no defined symbol -/
theorem expand_fixpoint (t : STab) (l l' : List Seg) (h : expand t l = .ok l') :
    ∀ s ∈ l', isDefined t s = false := by
  intro s hs
  have := expandSegs_fix t _ _ _ _ h s hs
  cases s <;> exact this

/-- identifiers that merely contain a symbol's name, undefined words and all non-word text are left
    untouched: a line without a defined whole word is returned verbatim -/
theorem expand_untouched (t : STab) (l : List Seg) (h : ∀ s ∈ l, isDefined t s = false) :
    expand t l = .ok l := by
  show expandSegs t (2 * t.length + 3 + 1) [] l = .ok l
  rw [expandSegs_succ]
  apply seqM_id
  intro s hs
  apply wordStep_not_def
  have := h s hs
  cases s <;> exact this

/-- expansion is word-local: the line is expanded segment by segment, in order -/
theorem expand_append (t : STab) (l₁ l₂ r₁ r₂ : List Seg) (h₁ : expand t l₁ = .ok r₁) (h₂ : expand t l₂ = .ok r₂) :
    expand t (l₁ ++ l₂) = .ok (r₁ ++ r₂) := by
  have e : ∀ l, expand t l = seqM (wordStep (expandWord t (2 * t.length + 3) [])) l :=
    fun l => expandSegs_succ ..
  rw [e] at h₁ h₂ ⊢
  rw [seqM_append, h₁, h₂]; rfl

/-- a symbol whose replacement leads back to itself is rejected when used -/
theorem self_cycle_rejected (t : STab) (s : String) (repl : List Seg) (hc : isCandidate s = true)
    (hg : t.get? s = some repl) (hm : Seg.word s ∈ repl) :
    expand t [.word s] = .error .symbolCycle := by
  have hsome : (t.get? s).isSome = true := by rw [hg]; rfl
  have hgood : GoodPath t [s] := (GoodPath.nil t).cons s repl hg (by simp)
  have hlen := hgood.length_le
  simp only [List.length_cons, List.length_nil] at hlen
  show expandSegs t (2 * t.length + 3 + 1) [] [.word s] = _
  rw [expandSegs_succ]
  apply seqM_cons_error
  show expandWord t (2 * t.length + 2 + 1) [] s = _
  rw [expandWord_step _ _ _ _ _ hc hg (by simp)]
  show expandSegs t (2 * t.length + 1 + 1) [s] repl = _
  rw [expandSegs_succ]
  have hcyc : wordStep (expandWord t (2 * t.length + 1) [s]) (.word s) = .error .symbolCycle :=
    expandWord_cycle _ _ _ _ _ hc hg (by simp)
  obtain ⟨e', he'⟩ := seqM_error_of_mem _ _ _ _ hm hcyc
  obtain ⟨sg, _, hsg⟩ := seqM_error_elim _ _ _ he'
  cases sg with
  | other o => cases hsg
  | word w =>
    rcases expandWord_kinds _ _ _ _ _ hsg with rfl | rfl
    · exact absurd hsg (expandWord_stable t (t.length - 1) [s] hgood (by simp) _ (2 * t.length + 1)
        (by omega) (by omega) w).2
    · exact he'

/-- the algorithm of the implementation (candidate scan, per-candidate recursive resolution with the
    set of symbols being resolved, whole-word replacement, re-scan) computes exactly the expansion -/
theorem resolve_eq_expand (t : STab) (l : List Seg) : resolve t l = expand t l := by
  have h := resolveImpl_eq_expandSegs t (3 * t.length + 6) [] (GoodPath.nil t)
    (by simp only [List.length_nil]; omega) l
  unfold resolve expand
  rw [h]
  exact (expandSegs_stable t t.length [] (GoodPath.nil t) (by simp) _ _
    (by simp only [List.length_nil]; omega) (by omega) l).1

/-- defining a symbol twice is rejected, whatever the source of the first definition -/
theorem redefine_rejected (t : STab) (n : String) (v : List Seg) (h : (t.get? n).isSome = true) :
    addS t n v = .error .symbolRedefined := by
  simp [addS, h]
theorem define_fresh (t : STab) (n : String) (v : List Seg) (h : (t.get? n).isSome = false) :
    addS t n v = .ok (t ++ [(n, v)]) := by
  simp [addS, h]

/-- definition order: a line is expanded with the table as of that line — uses that precede the
    definition are left untouched -/
theorem use_before_define (f : STab → List Seg → Except Err (List Seg)) (t : STab) (l : List Seg) (n : String)
    (v : List Seg) (rest : List SItem) (e : List Seg) (h : f t l = .ok e) :
    ∃ r : Except Err (List (List Seg)),
      substProg f t (.line l :: .define n v :: rest) = r.map (fun tl => e :: tl) := by
  refine ⟨substProg f t (.define n v :: rest), ?_⟩
  conv => lhs; rw [substProg, h]
  cases substProg f t (.define n v :: rest) <;> rfl

/-- segmentation loses nothing -/
theorem unsegment_segment (cs : List Char) : unsegment (segment cs) = String.ofList cs := by
  have := unsegment_segmentAux cs none []
  simpa [segment, pendingChars, unsegment] using this

/-- segmentation yields maximal runs: every word segment consists of word characters only and
    every other segment of non-word characters only -/
theorem segment_kinds (cs : List Char) :
    ∀ s ∈ segment cs, match s with
      | .word w => w.toList ≠ [] ∧ w.toList.all isWordChar = true
      | .other o => o.toList ≠ [] ∧ o.toList.all (fun c => !isWordChar c) = true := by
  intro s hs
  have := segmentAux_ok cs none [] (fun _ h => nomatch h) (fun _ _ h => nomatch h) s hs
  cases s <;> exact this

/-- non-vacuity: `MYVAL` and `VAL_X` are untouched while `VAL` is expanded through a chain -/
example :
    (expand [("VAL", segment "AA + 1".toList), ("AA", segment "5".toList)]
      (segment ".byte VAL, MYVAL,VAL_X".toList)).map unsegment = .ok ".byte 5 + 1, MYVAL,VAL_X" := by
  have h1 : segment "AA + 1".toList = [.word "AA", .other " + ", .word "1"] := by decide
  have h2 : segment "5".toList = [.word "5"] := by decide
  have h3 : segment ".byte VAL, MYVAL,VAL_X".toList =
      [.other ".", .word "byte", .other " ", .word "VAL", .other ", ", .word "MYVAL", .other ",",
        .word "VAL_X"] := by decide
  rw [h1, h2, h3]
  simp [expand, expandSegs, expandWord, STab.get?, isCandidate]
  decide
example :
    resolve [("CY", segment "CZ".toList), ("CZ", segment "CY + 1".toList)] (segment ".byte CY".toList)
      = .error .symbolCycle := by
  have h1 : segment "CZ".toList = [.word "CZ"] := by decide
  have h2 : segment "CY + 1".toList = [.word "CY", .other " + ", .word "1"] := by decide
  have h3 : segment ".byte CY".toList = [.other ".", .word "byte", .other " ", .word "CY"] := by decide
  rw [resolve_eq_expand, h1, h2, h3]
  simp [expand, expandSegs, expandWord, STab.get?, isCandidate]
  decide

end BV.C09
