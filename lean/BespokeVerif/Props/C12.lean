/-
  Property C12 — configured operand value constraints are enforced, not silently bypassed.
  Statements only; helper lemmas live in `BespokeVerif/Lemmas/Constraint.lean`.
-/
import BespokeVerif.Model.Instr
import BespokeVerif.Lemmas.Bits
import BespokeVerif.Lemmas.Constraint
namespace BV.C12
open BV

/-- Decision logic stated outright: a constrained value is accepted iff it satisfies the
    configured constraint, and then the documented value is what is emitted. -/
theorem resolve_ok_iff (s : ValSrc) (addr size : Int) (w : Nat) (v : Int) :
    s.resolve addr size w = .ok v ↔ s.Satisfies addr size w ∧ v = s.emitted addr size w := by
  exact ValSrc.resolve_ok_iff' s addr size w v

theorem resolve_error_iff (s : ValSrc) (addr size : Int) (w : Nat) :
    (∃ e, s.resolve addr size w = .error e) ↔ ¬ s.Satisfies addr size w := by
  exact ValSrc.resolve_error_iff' s addr size w

theorem resolve_error_kind (s : ValSrc) (addr size : Int) (w : Nat) (e : Err)
    (h : s.resolve addr size w = .error e) : e = .constraint := by
  exact ValSrc.resolve_error_kind' s addr size w e h

/-- min/max (bit-index style operands): exactly the closed interval is accepted -/
theorem ranged_accept_iff (v lo hi : Int) (addr size : Int) (w : Nat) :
    (ValSrc.ranged v (some lo) (some hi)).resolve addr size w = .ok v ↔ lo ≤ v ∧ v ≤ hi := by
  rw [ValSrc.resolve_ok_iff']
  simp only [ValSrc.Satisfies, ValSrc.emitted, leOpt, geOpt, and_true]
  exact And.comm

/-- zone membership: exactly the inclusive zone range is accepted -/
theorem zone_accept_iff (v zs ze : Int) (addr size : Int) (w : Nat) :
    (ValSrc.inZone v zs ze).resolve addr size w = .ok v ↔ zs ≤ v ∧ v ≤ ze := by
  rw [ValSrc.resolve_ok_iff']
  simp only [ValSrc.Satisfies, ValSrc.emitted, and_true]

/-- numeric enumeration: accepted iff the value is a key; the mapped value is emitted -/
theorem enum_accept_iff (v x : Int) (d : List (Int × Int)) (addr size : Int) (w : Nat) :
    (ValSrc.enum v d).resolve addr size w = .ok x ↔ lookupInt d v = some x := by
  simp only [ValSrc.resolve]
  cases lookupInt d v <;> simp

theorem enum_reject_iff (v : Int) (d : List (Int × Int)) (addr size : Int) (w : Nat) :
    (∃ e, (ValSrc.enum v d).resolve addr size w = .error e) ↔ v ∉ d.map Prod.fst := by
  rw [ValSrc.resolve_error_iff']
  exact Iff.rfl

/-- relative offsets are measured from the instruction's address, or from its last byte when so
    configured -/
theorem rel_offset_from_start (t addr size zs ze : Int) (w : Nat) (h1 : zs ≤ t) (h2 : t ≤ ze) :
    (ValSrc.rel t false none none zs ze).resolve addr size w = .ok (t - addr) := by
  rw [ValSrc.resolve_ok_iff']
  simp only [ValSrc.Satisfies, ValSrc.emitted, leOpt, geOpt, relBase, and_true]
  exact ⟨⟨h1, h2⟩, by simp⟩

theorem rel_offset_from_end (t addr size zs ze : Int) (w : Nat) (h1 : zs ≤ t) (h2 : t ≤ ze) :
    (ValSrc.rel t true none none zs ze).resolve addr size w = .ok (t - (addr + size - 1)) := by
  rw [ValSrc.resolve_ok_iff']
  simp only [ValSrc.Satisfies, ValSrc.emitted, leOpt, geOpt, relBase, and_true]
  exact ⟨⟨h1, h2⟩, by simp⟩

/-- the configured limits of a relative-address operand are tested on the very value the field encodes - the
    distance from the instruction's first byte, or from its last byte when so configured - not on another one -/
theorem rel_limits_on_encoded_value (t addr size zs ze lo hi : Int) (w : Nat) (fromEnd : Bool) (v : Int) :
    (ValSrc.rel t fromEnd (some lo) (some hi) zs ze).resolve addr size w = .ok v ↔
      (zs ≤ t ∧ t ≤ ze ∧ lo ≤ v ∧ v ≤ hi ∧ v = t - (if fromEnd then addr + size - 1 else addr)) := by
  rw [ValSrc.resolve_ok_iff']
  simp only [ValSrc.Satisfies, ValSrc.emitted, leOpt, geOpt, relBase]
  constructor
  · rintro ⟨⟨h1, h2, h3, h4⟩, rfl⟩; exact ⟨h1, h2, h4, h3, rfl⟩
  · rintro ⟨h1, h2, h3, h4, rfl⟩; exact ⟨⟨h1, h2, h4, h3⟩, rfl⟩
example : (ValSrc.rel 128 true (some (-128)) (some 127) 0 65535).resolve 0 2 8 = .ok 127 := by decide
example : (ValSrc.rel 48 true (some (-16)) (some 127) 0 65535).resolve 64 2 8 ≠ .ok (-17) := by decide

/-- sliced address: accepted iff in zone and sharing the high-order bits with the instruction's own
    address; the low `w` bits are emitted and always fit the field -/
theorem sliced_accept_iff (v zs ze addr size : Int) (w : Nat) :
    (∃ x, (ValSrc.sliced v zs ze).resolve addr size w = .ok x) ↔
      zs ≤ v ∧ v ≤ ze ∧ addr / (2 : Int) ^ w = v / (2 : Int) ^ w := by
  constructor
  · rintro ⟨x, hx⟩
    exact ((ValSrc.resolve_ok_iff' _ _ _ _ _).mp hx).1
  · intro h
    exact ⟨_, ValSrc.resolve_of_sat (ValSrc.sliced v zs ze) addr size w h⟩

theorem sliced_emitted_fits (v zs ze addr size : Int) (w : Nat) (hw : 1 ≤ w) :
    Fits ((ValSrc.sliced v zs ze).emitted addr size w) w := by
  have _ := hw
  exact sliced_fits v w

/-- width fit: the boundaries of the signed-or-unsigned range -/
theorem fits_iff (v : Int) (n : Nat) (hn : 1 ≤ n) :
    Fits v n ↔ -((2 : Int) ^ (n - 1)) ≤ v ∧ v ≤ (2 : Int) ^ n - 1 := by
  exact fits_iff' v n hn

theorem fits_boundaries (n : Nat) (hn : 1 ≤ n) :
    Fits (-((2 : Int) ^ (n - 1))) n ∧ Fits ((2 : Int) ^ n - 1) n
      ∧ ¬ Fits (-((2 : Int) ^ (n - 1)) - 1) n ∧ ¬ Fits ((2 : Int) ^ n) n := by
  have hp := two_pow_pred_le n hn
  have hq : (0 : Int) < (2 : Int) ^ (n - 1) := Int.pow_pos (by decide)
  simp only [fits_iff' _ n hn]
  refine ⟨⟨?_, ?_⟩, ⟨?_, ?_⟩, ?_, ?_⟩ <;> omega

/-- every field of the operands and the opcode/suffix, in any order -/
def allSizesPos (ops : List SrcOp) (opcode : Field) (sfx : Option Field) : Prop :=
  1 ≤ opcode.size ∧ (∀ s ∈ sfx.toList, 1 ≤ s.size) ∧
  ∀ o ∈ ops, (∀ f p, o.code = some (f, p) → 1 ≤ f.size) ∧ (∀ f, o.arg = some f → 1 ≤ f.size)

/-- Whole statement: it is assembled iff every constraint is satisfied and every value fits its
    field, and then the emitted bytes are the specified ones (accept direction of C12 composed
    with C01). -/
theorem encodeInstr_ok_iff (addr : Int) (ops : List SrcOp) (opcode : Field) (sfx : Option Field)
    (ra rc : Bool) (hpos : allSizesPos ops opcode sfx) (bs : List Nat) :
    encodeInstr addr ops opcode sfx ra rc = .ok (some bs) ↔
      specEncodeInstr addr ops opcode sfx ra rc = some bs := by
  obtain ⟨h0, h1, h2⟩ := hpos
  constructor
  · intro h
    cases hs : specEncodeInstr addr ops opcode sfx ra rc with
    | none =>
      rcases encodeInstr_of_spec_none addr ops opcode sfx ra rc hs with he | he <;>
        rw [he] at h <;> cases h
    | some bs' =>
      rw [encodeInstr_of_spec_some addr ops opcode sfx ra rc h0 h1 h2 bs' hs] at h
      cases h; rfl
  · exact encodeInstr_of_spec_some addr ops opcode sfx ra rc h0 h1 h2 bs

/-- … and it is rejected (never silently assembled) otherwise. -/
theorem encodeInstr_error_iff (addr : Int) (ops : List SrcOp) (opcode : Field) (sfx : Option Field)
    (ra rc : Bool) (hpos : allSizesPos ops opcode sfx) :
    (∃ e, encodeInstr addr ops opcode sfx ra rc = .error e) ↔
      specEncodeInstr addr ops opcode sfx ra rc = none := by
  obtain ⟨h0, h1, h2⟩ := hpos
  constructor
  · rintro ⟨e, he⟩
    cases hs : specEncodeInstr addr ops opcode sfx ra rc with
    | none => rfl
    | some bs =>
      rw [encodeInstr_of_spec_some addr ops opcode sfx ra rc h0 h1 h2 bs hs] at he
      cases he
  · intro hs
    rcases encodeInstr_of_spec_none addr ops opcode sfx ra rc hs with he | he
    · exact ⟨_, he⟩
    · exact ⟨_, he⟩

/-- the length-mismatch branch of `get_bytes` is unreachable for well-formed field lists -/
theorem encodeInstr_never_none (addr : Int) (ops : List SrcOp) (opcode : Field) (sfx : Option Field)
    (ra rc : Bool) (hpos : allSizesPos ops opcode sfx) :
    encodeInstr addr ops opcode sfx ra rc ≠ .ok none := by
  obtain ⟨h0, h1, h2⟩ := hpos
  intro h
  cases hs : specEncodeInstr addr ops opcode sfx ra rc with
  | none =>
    rcases encodeInstr_of_spec_none addr ops opcode sfx ra rc hs with he | he <;>
      rw [he] at h <;> cases h
  | some bs =>
    rw [encodeInstr_of_spec_some addr ops opcode sfx ra rc h0 h1 h2 bs hs] at h
    cases h

/-- reserved size = emitted size for an assembled statement (feeds C02) -/
theorem encodeInstr_length (addr : Int) (ops : List SrcOp) (opcode : Field) (sfx : Option Field)
    (ra rc : Bool) (hpos : allSizesPos ops opcode sfx) (bs : List Nat)
    (h : encodeInstr addr ops opcode sfx ra rc = .ok (some bs)) :
    bs.length = instrSize ops opcode sfx ra rc := by
  have hs := (encodeInstr_ok_iff addr ops opcode sfx ra rc hpos bs).mp h
  unfold specEncodeInstr at hs
  simp only at hs
  split at hs
  · cases hs
    rw [specBytes_length, ← fieldOrder_eq_specOrder', byteSizeOf_fieldOrder_emitted]
    rfl
  · cases hs

/-- No emitted bit depends on the statement's address unless an operand is address-relative or
    sliced (C01, last sentence). -/
def SrcField.addrFree (f : SrcField) : Prop :=
  match f.src with
  | .rel .. => False
  | .sliced .. => False
  | _ => True

def SrcOp.addrFree (o : SrcOp) : Prop :=
  (∀ f p, o.code = some (f, p) → SrcField.addrFree f) ∧ (∀ f, o.arg = some f → SrcField.addrFree f)

theorem encodeInstr_addr_irrelevant (a₁ a₂ : Int) (ops : List SrcOp) (opcode : Field)
    (sfx : Option Field) (ra rc : Bool) (h : ∀ o ∈ ops, SrcOp.addrFree o) :
    encodeInstr a₁ ops opcode sfx ra rc = encodeInstr a₂ ops opcode sfx ra rc := by
  have hf : ∀ f : SrcField, SrcField.addrFree f → ∀ size : Int,
      f.resolveField a₁ size = f.resolveField a₂ size := by
    intro f hf size
    apply SrcField.resolveField_congr
    apply ValSrc.resolve_addr_irrelevant
    · intro t fe mn mx zs ze hs
      simp [SrcField.addrFree, hs] at hf
    · intro v zs ze hs
      simp [SrcField.addrFree, hs] at hf
  unfold encodeInstr
  simp only
  rw [resolveOps_congr a₁ a₂ _ ops fun o ho =>
    SrcOp.resolve_congr o a₁ a₂ _ (fun f p hc => hf f ((h o ho).1 f p hc) _)
      (fun f ha => hf f ((h o ho).2 f ha) _)]

/-- non-vacuity: a statement with a relative (from end) 12-bit little-endian argument and a 2-bit
    prefix code is assembled -/
example : encodeInstr 5
    [{ code := none, arg := some { src := .rel 20 true none none 0 255, size := 12, align := false, little := true } },
     { code := some ({ src := .plain 3, size := 2, align := false, little := false }, .prefix), arg := none }]
    { value := 10, size := 4, align := false, little := false } none false false
    = .ok (some [232, 52, 0]) := by decide +kernel

end BV.C12
