/-
  Property C19 — malformed ISA definitions and unmet version requirements are rejected.
  Statements only; helper lemmas live in `BespokeVerif/Lemmas/Config.lean`.
-/
import BespokeVerif.Model.Config
import BespokeVerif.Lemmas.Config
namespace BV.C19
open BV

/-! ## versions: a total order that compares release numbers as numbers -/

theorem relCmp_refl (a : List Nat) : relCmp a a = .eq := by
  exact relCmp_refl' a
theorem relCmp_swap (a b : List Nat) : relCmp b a = (relCmp a b).swap := by
  exact relCmp_swap' a b
theorem vcmp_refl (a : Version) : vcmp a a = .eq := by
  simp [vcmp, relCmp_refl', preCmp_refl]
theorem vcmp_swap (a b : Version) : vcmp b a = (vcmp a b).swap := by
  exact vcmp_swap' a b
/-- transitivity of ≤ -/
theorem vle_trans (a b c : Version) (h1 : vle a b = true) (h2 : vle b c = true) : vle a c = true := by
  exact vle_trans' a b c h1 h2
/-- totality -/
theorem vle_total (a b : Version) : vle a b = true ∨ vle b a = true := by
  have h := vcmp_swap' a b
  unfold vle
  cases hc : vcmp a b <;> simp [hc, h]

/-- three-number releases compare lexicographically on NUMBERS (0.10.0 > 0.9.0, 0.4.10 > 0.4.3) -/
theorem relCmp_triple (a b c a' b' c' : Nat) :
    relCmp [a, b, c] [a', b', c'] =
      if a < a' then .lt else if a > a' then .gt else
      if b < b' then .lt else if b > b' then .gt else
      if c < c' then .lt else if c > c' then .gt else .eq := by
  simp only [relCmp]

/-- trailing zeros do not matter (1.2 = 1.2.0) -/
theorem relCmp_pad (a : List Nat) : relCmp a (a ++ [0]) = .eq := by
  exact relCmp_pad' a

/-- a pre-release sorts strictly before its release, and a < b < rc -/
theorem prerelease_before_release (r : List Nat) (k n : Nat) :
    vlt { release := r, pre := some (k, n) } { release := r, pre := none } = true := by
  simp [vlt, vcmp, relCmp_refl', preCmp]

/-- the gate: accepted exactly when  minimum supported ≤ required ≤ running -/
theorem gate_spec (running minSupported required : Version) :
    gateOk running minSupported required = true ↔ vle minSupported required = true ∧ vle required running = true := by
  have h1 := vcmp_swap' minSupported required
  have h2 := vcmp_swap' required running
  unfold gateOk vle vlt
  cases hc1 : vcmp minSupported required <;> cases hc2 : vcmp required running <;> simp [hc1, hc2, h1, h2]

/-- `#require`: honoured exactly when the language name matches and the ISA version satisfies the
    stated comparison -/
theorem require_spec (isaName name : String) (iv v : Version) (op : CmpOp) (hop : op ≠ .ne) :
    requireOk isaName iv name (some (op, v)) = true ↔
      name = isaName ∧ (match op with
        | .ge => vle v iv = true | .le => vle iv v = true | .gt => vlt v iv = true | .lt => vlt iv v = true
        | .eq => vcmp iv v = .eq | .ne => False) := by
  cases op <;> simp_all [requireOk]
theorem require_name_only (isaName name : String) (iv : Version) :
    requireOk isaName iv name none = true ↔ name = isaName := by
  simp [requireOk]

/-! ## well-formedness -/

def OperandWF (regs : List String) (inSet : Bool) (o : RawOperand) : Prop :=
  o.kind ∈ knownKinds ∧
  (o.kind ∈ registerKinds → ∃ r, o.register = some r ∧ r ∈ regs) ∧
  (o.kind ∈ argumentKinds → o.hasArgument = true) ∧
  (o.kind = "numeric_bytecode" → ∃ a b, o.min = some a ∧ o.max = some b ∧ a ≤ b) ∧
  (o.kind = "relative_address" → ∀ a b, o.min = some a → o.max = some b → a ≤ b) ∧
  (o.kind = "enumeration" → ∀ k ∈ o.enumKeys, k ∉ regs) ∧
  ¬ (inSet = true ∧ o.kind = "empty")

/-- every check on one operand definition, both directions -/
theorem operandOk_iff (regs : List String) (inSet : Bool) (o : RawOperand) :
    operandOk regs inSet o = true ↔ OperandWF regs inSet o := by
  unfold operandOk OperandWF
  simp only [Bool.and_eq_true, and_assoc]
  refine and_congr ?_ (and_congr ?_ (and_congr ?_ (and_congr ?_ (and_congr ?_ (and_congr ?_ ?_)))))
  · simp
  · cases o.register <;> simp [not_or_iff_imp]
  · simp [not_or_iff_imp]
  · cases o.min <;> cases o.max <;> simp [not_or_iff_imp]
  · cases o.min <;> cases o.max <;> simp [not_or_iff_imp]
  · simp [not_or_iff_imp]
  · cases inSet <;> simp

def VariantWF (regs setNames : List String) (isMacro : Bool) (v : RawVariant) : Prop :=
  (isMacro = true ∨ v.hasBytecode = true) ∧
  (v.hasOperands = true →
    (∃ n, v.count = some n) ∧
    (∀ refs, v.setRefs = some refs → (∀ s ∈ refs, s ∈ setNames) ∧ v.count = some refs.length) ∧
    (∀ ops ∈ v.specific, ∀ o ∈ ops, OperandWF regs false o))

theorem variantOk_iff (regs setNames : List String) (isMacro : Bool) (v : RawVariant) :
    variantOk regs setNames isMacro v = true ↔ VariantWF regs setNames isMacro v := by
  unfold variantOk VariantWF
  simp only [Bool.and_eq_true, Bool.or_eq_true, and_assoc]
  refine and_congr Iff.rfl ?_
  cases v.hasOperands
  · simp
  · simp only [Bool.not_true, Bool.false_eq_true, false_or, true_implies]
    refine and_congr ?_ (and_congr ?_ ?_)
    · simp [Option.isSome_iff_exists]
    · cases v.setRefs <;> simp
    · simp [List.all_eq_true, operandOk_iff]

/-- the declarative reading of "well-formed" in the property -/
def WellFormed (running minSupported : Version) (c : RawIsa) : Prop :=
  c.hasGeneral = true ∧ c.hasInstructions = true ∧ c.hasOperandSets = true ∧
  (∀ s, c.minVersion = some s → ∃ v, parseVersion s = some v ∧ vle minSupported v = true ∧ vle v running = true) ∧
  (∀ s, c.isaVersion = some s → (parseVersion s).isSome = true) ∧
  (∀ r ∈ c.registers, r ∉ keywords) ∧
  (∀ s ∈ c.operandSets, ∀ o ∈ s.2, OperandWF c.registers true o) ∧
  (∀ i ∈ c.instructions, i.1.toLower ∉ lowerKeywords ∧ i.2 ≠ [] ∧
      ∀ v ∈ i.2, VariantWF c.registers (c.operandSets.map (·.1)) false v) ∧
  (∀ m ∈ c.macros, m.1.toLower ∉ lowerKeywords ∧ m.1.toLower ∉ c.instructions.map (·.1.toLower) ∧
      ∀ v ∈ m.2, VariantWF c.registers (c.operandSets.map (·.1)) true v) ∧
  zonesOk c.bits c.origin c.zones = true

/-- Main statement: a definition is accepted iff it is well-formed — malformed definitions are
    rejected, well-formed ones never are. -/
theorem validate_ok_iff (running minSupported : Version) (c : RawIsa) :
    validate running minSupported c = true ↔ WellFormed running minSupported c := by
  unfold validate WellFormed
  simp only [Bool.and_eq_true, and_assoc]
  refine and_congr Iff.rfl (and_congr Iff.rfl (and_congr Iff.rfl (and_congr ?_ (and_congr ?_
    (and_congr ?_ (and_congr ?_ (and_congr ?_ (and_congr ?_ Iff.rfl))))))))
  · cases c.minVersion with
    | none => simp
    | some s =>
      cases hp : parseVersion s with
      | none => simp [hp]
      | some v => simp [hp, gate_spec]
  · cases c.isaVersion <;> simp
  · simp [List.all_eq_true]
  · simp [List.all_eq_true, operandOk_iff]
  · simp [List.all_eq_true, variantOk_iff, and_assoc]
  · simp [List.all_eq_true, variantOk_iff, and_assoc]

/-- memory zones: non-inverted, inside the address space, inside GLOBAL; the default origin inside GLOBAL -/
theorem zonesOk_zone (bits : Nat) (origin : Int) (zones : List (String × Int × Int)) (n : String) (s e : Int)
    (h : zonesOk bits origin zones = true) (hm : (n, s, e) ∈ zones) :
    0 ≤ s ∧ s ≤ e ∧ e ≤ (2 : Int) ^ bits - 1 := by
  unfold zonesOk at h
  simp only [Bool.and_eq_true, List.all_eq_true, decide_eq_true_eq] at h
  have := h.1.1.1.1.1 _ hm
  dsimp only at this
  exact ⟨this.1.1.1.1, this.1.1.1.2, this.1.1.2⟩

/-- non-vacuity: the orderings the string comparison got wrong -/
example : vlt ⟨[0, 4, 3], some (1, 1)⟩ ⟨[0, 4, 10], none⟩ = true := by simp [vlt, vcmp, relCmp]
example : vlt ⟨[0, 3, 0], none⟩ ⟨[0, 10, 0], none⟩ = true := by simp [vlt, vcmp, relCmp]
example : vlt ⟨[0, 4, 3], some (1, 1)⟩ ⟨[0, 4, 3], none⟩ = true := prerelease_before_release _ _ _

end BV.C19
