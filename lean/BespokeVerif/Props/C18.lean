/-
  Property C18 — output is invariant under meaning-preserving changes of surface syntax.
  Statements about the MODEL scanner (`Model/Scan.lean`); helper lemmas in `Lemmas/Scan.lean`.
  (Partial: Python's regular expressions on the real patterns are modelled, not verified; the
  scanner is tied to the code by the differential runs of the check.)
-/
import BespokeVerif.Model.Scan
import BespokeVerif.Lemmas.Scan
import BespokeVerif.Lemmas.Parse
import BespokeVerif.Lemmas.ParseRoundTrip
namespace BV.C18
open BV

/-- a word token: non-empty, made of token characters -/
def WordTok (t : String) : Prop := t.toList ≠ [] ∧ ∀ c ∈ t.toList, isTokChar c = true ∧ isPunct c = false ∧ c ≠ ';' ∧ isSpaceChar c = false
/-- a punctuation token: exactly one punctuation character -/
def PunctTok (t : String) : Prop := ∃ c, t = String.ofList [c] ∧ isPunct c = true
/-- a quoted literal: opening quote, a body without that quote and without backslashes (whatever
    else it contains: `;`, `,`, `:`, blanks, mnemonics), closing quote -/
def QuotedTok (t : String) : Prop :=
  ∃ q body, isQuote q = true ∧ (∀ c ∈ body, c ≠ q ∧ c ≠ '\\') ∧ t = String.ofList (q :: body ++ [q])
def ValidTok (t : String) : Prop := WordTok t ∨ PunctTok t ∨ QuotedTok t

/-- gaps: whitespace only, and non-empty between two adjacent word tokens -/
def GapsOk : List String → List (List Char) → Prop
  | [], _ => True
  | [_], g => ∀ x ∈ g, ∀ c ∈ x, isSpaceChar c = true
  | t :: t' :: ts, g :: gs => (∀ c ∈ g, isSpaceChar c = true) ∧ ((WordTok t ∧ WordTok t') → g ≠ []) ∧ GapsOk (t' :: ts) gs
  | _ :: _ :: _, [] => True

/-- blank lines carry no meaning -/
theorem tokenize_blank (l : List Char) (h : ∀ c ∈ l, isSpaceChar c = true) : tokenize l = [] := by
  have := tokenizeAux_spaces l [] [] h
  rw [List.append_nil] at this
  rw [tokenize, this]; rfl

/-- comments carry no meaning: everything from the first `;` on is ignored -/
theorem tokenize_comment (s c : List Char) (h : ∀ x ∈ s, x ≠ ';' ∧ isQuote x = false) :
    tokenize (s ++ ';' :: c) = tokenize s :=
  tokenizeAux_comment s c [] [] h

/-- … but a `;` (or `,`, `:`, a blank, a mnemonic) inside a quoted literal is part of the literal:
    the literal is one token and scanning continues behind its closing quote -/
theorem tokenize_quoted (q : Char) (body rest : List Char) (hq : isQuote q = true)
    (hb : ∀ c ∈ body, c ≠ q ∧ c ≠ '\\') :
    tokenize (q :: body ++ q :: rest) = String.ofList (q :: body ++ [q]) :: tokenize rest := by
  unfold tokenize
  rw [tokenizeAux_quoted q body rest [] hq hb]
  have h := tokenizeAux_acc rest [String.ofList (q :: body ++ [q])]
  simpa using h

/-- accumulator form of `tokenize_join` -/
theorem tokenizeAux_join (ts : List String) (gaps : List (List Char)) (acc : List String)
    (hv : ∀ t ∈ ts, ValidTok t) (hlen : gaps.length = ts.length) (hg : GapsOk ts gaps) :
    tokenizeAux none (joinToks ts gaps) [] acc = acc.reverse ++ ts := by
  induction ts generalizing gaps acc with
  | nil => simp [joinToks, tokenizeAux_nil]
  | cons t ts ih =>
    obtain _ | ⟨g, gs⟩ := gaps
    · simp at hlen
    have hlen' : gs.length = ts.length := by simpa using hlen
    have hvt := hv t (List.mem_cons_self ..)
    have hv' : ∀ t ∈ ts, ValidTok t := fun y hy => hv y (List.mem_cons_of_mem _ hy)
    -- facts about the gap after `t`
    have key : (∀ c ∈ g, isSpaceChar c = true) ∧ (WordTok t → Delim (g ++ joinToks ts gs))
        ∧ GapsOk ts gs := by
      cases ts with
      | nil =>
        have hsp : ∀ c ∈ g, isSpaceChar c = true := hg g (List.mem_cons_self ..)
        refine ⟨hsp, ?_, trivial⟩
        intro _ c hc
        cases g with
        | nil => simp [joinToks] at hc
        | cons d g =>
          simp only [List.cons_append, List.head?_cons, Option.some.injEq] at hc
          subst hc; exact Or.inl (hsp _ (List.mem_cons_self ..))
      | cons t' ts' =>
        obtain _ | ⟨g', gs'⟩ := gs
        · simp at hlen'
        obtain ⟨hsp, hne, hrest⟩ := hg
        refine ⟨hsp, ?_, hrest⟩
        intro hw c hc
        cases g with
        | nil =>
          rcases hv' t' (List.mem_cons_self ..) with hw' | ⟨d, hd, hp⟩ | ⟨q, body, hq, _, hd⟩
          · exact absurd rfl (hne ⟨hw, hw'⟩)
          · subst hd
            simp only [joinToks, String.toList_ofList, List.nil_append, List.cons_append,
              List.head?_cons, Option.some.injEq] at hc
            subst hc; exact Or.inr (Or.inl hp)
          · subst hd
            simp only [joinToks, String.toList_ofList, List.nil_append, List.cons_append,
              List.head?_cons, Option.some.injEq] at hc
            subst hc; exact Or.inr (Or.inr hq)
        | cons d g =>
          simp only [List.cons_append, List.head?_cons, Option.some.injEq] at hc
          subst hc; exact Or.inl (hsp _ (List.mem_cons_self ..))
    obtain ⟨hsp, hD, hrest⟩ := key
    have ih := ih gs (t :: acc) hv' hlen' hrest
    rw [joinToks, List.append_assoc]
    rcases hvt with hw | ⟨d, hd, hp⟩ | ⟨q, body, hq, hb, hd⟩
    · rw [tokenizeAux_word t.toList _ [] acc (fun c hc => ⟨(hw.2 c hc).2.1, (hw.2 c hc).2.2.1, (hw.2 c hc).2.2.2,
          isTokChar_not_quote (hw.2 c hc).1⟩),
        List.append_nil, tokenizeAux_flush _ _ acc (hD hw) (by simpa using hw.1),
        List.reverse_reverse, String.ofList_toList, tokenizeAux_spaces g _ _ hsp, ih]
      simp
    · subst hd
      rw [String.toList_ofList, List.cons_append, List.nil_append, tokenizeAux_punct d _ acc hp,
        tokenizeAux_spaces g _ _ hsp, ih]
      simp
    · subst hd
      have hshape : (String.ofList (q :: body ++ [q])).toList ++ (g ++ joinToks ts gs)
          = q :: body ++ q :: (g ++ joinToks ts gs) := by simp
      rw [hshape, tokenizeAux_quoted q body _ acc hq hb, tokenizeAux_spaces g _ _ hsp, ih]
      simp

/-- amount and kind of horizontal whitespace between tokens carry no meaning: however the tokens
    of a line are spaced (blanks or tabs, any amount, none at all next to punctuation), the scanner
    recovers exactly the tokens -/
theorem tokenize_join (ts : List String) (gaps : List (List Char)) (hv : ∀ t ∈ ts, ValidTok t)
    (hlen : gaps.length = ts.length) (hg : GapsOk ts gaps) :
    tokenize (joinToks ts gaps) = ts := by
  simpa [tokenize] using tokenizeAux_join ts gaps [] hv hlen hg

/-- leading whitespace (indentation) carries no meaning -/
theorem tokenize_indent (ws l : List Char) (h : ∀ c ∈ ws, isSpaceChar c = true) : tokenize (ws ++ l) = tokenize l :=
  tokenizeAux_spaces ws l [] h

/-- letter case of mnemonics and register names carries no meaning -/
theorem canonTok_case (v : Vocab) (t t' : String) (h : t'.toLower = t.toLower)
    (hm : v.isMnemonic t = true ∨ v.isRegister t = true) : canonTok v t' = canonTok v t := by
  have h1 : v.isMnemonic t' = v.isMnemonic t := by simp only [Vocab.isMnemonic, h]
  have h2 : v.isRegister t' = v.isRegister t := by simp only [Vocab.isRegister, h]
  have h3 : (v.isMnemonic t || v.isRegister t) = true := by
    rcases hm with hm | hm <;> simp [hm]
  simp only [canonTok, h1, h2, h3, if_true, h]

/-- other identifiers (labels, numbers) are kept as written -/
theorem canonTok_other (v : Vocab) (t : String) (hm : v.isMnemonic t = false) (hr : v.isRegister t = false) :
    canonTok v t = t := by
  simp [canonTok, hm, hr]

/-- a label on its own line or in front of the statement it labels: the statements are the same -/
theorem label_own_line (v : Vocab) (name : String) (rest : List String) :
    splitStmts v (name :: ":" :: rest) [] [] = [name, ":"] :: splitStmts v rest [] [] := by
  rw [splitStmts.eq_2, List.isEmpty_nil, if_pos rfl, splitStmts_acc]; rfl

/-- why `compound_line_partial` needs `m ≠ ":"`: a vocabulary is arbitrary, so `":"` may be a
    "mnemonic"; then the last token of `a` followed by `m` is read as a label -/
example : let v : Vocab := ⟨[":", "ldi"], []⟩
    v.isMnemonic ":" = true ∧
    splitStmts v (["x"] ++ ":" :: ["y"]) [] [] = [["x", ":"], ["y"]] ∧
    splitStmts v ["x"] [] [] ++ splitStmts v (":" :: ["y"]) [] [] = [["x"], [":", "y"]] := by
  decide +kernel

/-- consecutive instructions on one line or on separate lines: a line whose second part starts
    with a mnemonic is split exactly there.
    (Restated: the original `compound_line` lacked `hmc : m ≠ ":"` and is false without it, see the
    example above.) -/
theorem compound_line_partial (v : Vocab) (a b : List String) (m : String) (hm : v.isMnemonic m = true)
    (hmc : m ≠ ":")
    (ha : a ≠ []) (hlast : ∀ x, a.getLast? = some x → x ≠ "[" ∧ x ≠ "+" ∧ x ≠ "," ∧ x ≠ ":")
    (hnl : ∀ x ∈ a, x ≠ ":") (hb : b.head? ≠ some ":") :
    splitStmts v (a ++ m :: b) [] [] = splitStmts v a [] [] ++ splitStmts v (m :: b) [] [] :=
  splitStmts_compound v a b m hm hmc ha
    (fun x hx => ⟨(hlast x hx).1, (hlast x hx).2.1, (hlast x hx).2.2.1⟩) hnl hb

/-- blank and comment-only lines contribute no statement -/
theorem blank_line_ignored (v : Vocab) (ls₁ ls₂ : List (List Char)) (l : List Char) (h : tokenize l = []) :
    scanProgram v (ls₁ ++ l :: ls₂) = scanProgram v (ls₁ ++ ls₂) := by
  simp only [scanProgram, List.flatMap_append, List.flatMap_cons, h, splitStmts.eq_1,
    List.isEmpty_nil, if_true, List.reverse_nil, List.nil_append]

/-- the statement list of a program is the concatenation of the statement lists of its lines -/
theorem scanProgram_append (v : Vocab) (ls₁ ls₂ : List (List Char)) :
    scanProgram v (ls₁ ++ ls₂) = scanProgram v ls₁ ++ scanProgram v ls₂ := by
  simp only [scanProgram, List.flatMap_append]

/-- non-vacuity -/
example : tokenize "  LDI\tA ,5 ; x".toList = ["LDI", "A", ",", "5"] := by decide +kernel
example : tokenize "x: .byte ';', 1 ; c".toList = ["x", ":", ".byte", "';'", ",", "1"] := by decide +kernel
example : tokenize ".cstr \"a;b, c: nop\" nop".toList = [".cstr", "\"a;b, c: nop\"", "nop"] := by decide +kernel
example : tokenize "st[kone+1]".toList = ["st", "[", "kone", "+", "1", "]"] := by decide +kernel

/-! ### the same facts for the parser that feeds the layout model (`Model/Parse.lean`) -/

/-- comments carry no meaning (parser): the text handed to the statement parser is what stands in
    front of the first `;` outside a literal -/
theorem text_comment_ignored (s c : List Char) (h : ∀ x ∈ s, x ≠ ';' ∧ isQuote x = false) :
    stripComment none (s ++ ';' :: c) = s := by
  rw [stripComment_plain_append s _ h]; simp [stripComment]

/-- … and a `;` inside a quoted literal does not start one -/
theorem text_semicolon_in_literal (s body rest : List Char) (q : Char) (hs : ∀ x ∈ s, x ≠ ';' ∧ isQuote x = false)
    (hq : isQuote q = true) (hb : ∀ c ∈ body, c ≠ q ∧ c ≠ '\\') :
    stripComment none (s ++ q :: body ++ q :: rest) = s ++ q :: body ++ q :: stripComment none rest := by
  have hq' : q ≠ '\\' := by intro h; subst h; simp [isQuote] at hq
  rw [List.append_assoc, stripComment_plain_append s _ hs]
  simp only [List.cons_append, stripComment, hq, if_true]
  have h1 : (q == ';') = false := by
    cases h : (q == ';') with
    | false => rfl
    | true => simp at h; subst h; simp [isQuote] at hq
  simp only [h1, Bool.false_eq_true, if_false, stripComment_inside q body rest hq' hb, List.append_assoc, List.cons_append]

/-- removing the comment twice changes nothing more -/
theorem text_comment_idempotent (l : List Char) : stripComment none (stripComment none l) = stripComment none l :=
  stripComment_idem none l

/-- white space around the statements of a line carries no meaning (parser) -/
theorem text_surrounding_blanks (cfg : PCfg) (f : Nat) (t : List Char) :
    parseStmts cfg f (ptrim t) = parseStmts cfg f t := parseStmts_trim cfg f t

/-- a label in front of a statement (parser): the line `name: rest` is the label followed by the
    statements of `rest` - what the two lines `name:` and `rest` give -/
theorem text_label_in_front (cfg : PCfg) (f : Nat) (w rest : List Char) (hw : NameText w) :
    parseStmts cfg (f + 1) (w ++ ':' :: rest) =
      (do let more ← parseStmts cfg f rest; .ok (.label (String.ofList w) :: more)) :=
  parseStmts_label_front cfg f w rest hw

/-- … and the label alone on its line is that label -/
theorem text_label_own_line (cfg : PCfg) (f : Nat) (w : List Char) (hw : NameText w) :
    parseStmts cfg (f + 2) (w ++ [':']) = .ok [.label (String.ofList w)] := by
  rw [parseStmts_label_front cfg (f + 1) w [] hw]
  simp [parseStmts, ptrim, ptrimR, ptrimL]
  rfl

/-- a trailing comment carries no meaning for the statements of a line (parser) -/
theorem text_line_comment_ignored (cfg : PCfg) (s c : List Char) (h : ∀ x ∈ s, x ≠ ';' ∧ isQuote x = false) :
    parseLine cfg (s ++ ';' :: c) = parseLine cfg s :=
  parseLine_comment cfg s c h

/-- a blank line has no statements (parser) -/
theorem text_blank_line (cfg : PCfg) (l : List Char) (h : ∀ c ∈ l, isSpaceChar c = true) : parseLine cfg l = .ok [] :=
  parseLine_blank cfg l h

/-- consecutive instructions on one line (parser): `MN ops MN2 …` is the instruction `MN ops` - its
    operand text ends where the next mnemonic starts a word - followed by the statements of `MN2 …`,
    i.e. what the two lines `MN ops` and `MN2 …` give.  `hno` says that the operand text itself holds
    no mnemonic; the mnemonic is recorded in lower case whatever its spelling. -/
theorem text_consecutive_instructions (cfg : PCfg) (f : Nat) (w ops w2 r2 : List Char)
    (hw : NameText w) (hwdot : w.head? ≠ some '.') (hmn : cfg.mnemonics.contains (lowerS w) = true)
    (hops : ops ≠ [] ∧ ∀ c ∈ ops, isQuote c = false)
    (hop0 : ∀ c, ops.head? = some c → isSpaceChar c = false ∧ c ≠ '=' ∧ c ≠ ':')
    (hequ : lowerS (takeName ops).1 ≠ "equ")
    (hno : cutAtMnemonic cfg none false (' ' :: ops ++ [' ']) = (' ' :: ops ++ [' '], []))
    (hw2 : NameText w2) (hr2 : ∀ c, r2.head? = some c → isNameChar c = false)
    (hm2 : cfg.mnemonics.contains (lowerS w2) = true) (hrt : ptrimR r2 = r2) :
    parseStmts cfg (f + 1) (w ++ ' ' :: ops ++ ' ' :: w2 ++ r2) =
      (do let fs ← (match parseOperands cfg.regs (' ' :: ops ++ [' ']) with
                    | .ok fs => pure fs
                    | .error _ => .error .noVariant)
          let more ← parseStmts cfg f (w2 ++ r2)
          .ok (.isa (lowerS w) fs :: more)) :=
  parseStmts_isa_front cfg f w ops w2 r2 hw hwdot hmn hops hop0 hequ hno hw2 hr2 hm2 hrt

/-- render / parse round trip, origin: `.org` followed by the decimal spelling of ANY address is read
    back as the origin statement with exactly that address (no zone) -/
theorem text_roundtrip_org_decimal (cfg : PCfg) (f : Nat) (n : Nat) :
    parseStmts cfg (f + 2) (".org ".toList ++ Nat.toDigits 10 n) = .ok [.org (.num n) none] :=
  parseStmts_org_decimal cfg f n

/-- render / parse round trip, data: `.byte` followed by the decimal spelling of ANY value -/
theorem text_roundtrip_byte_decimal (cfg : PCfg) (f : Nat) (n : Nat) :
    parseStmts cfg (f + 2) (".byte ".toList ++ Nat.toDigits 10 n) = .ok [.data 1 [.num n]] :=
  parseStmts_byte_decimal cfg f n

/-- round trip for a fragment of the statement language (labels, constants `name = N`, `.org N`,
    `.memzone Z`, `.byte / .2byte / .4byte / .8byte N`, `.fill N,V`, `.zerountil N`, `.align N` with decimal
    numbers): whatever the renderer `renderSimple` writes for a statement, the front end reads back as
    exactly that statement - for every name, zone and number -/
theorem text_roundtrip_simple_statements (cfg : PCfg) (f : Nat) (s : Stmt) (txt : List Char)
    (h : renderSimple s = some txt) : parseStmts cfg (f + 2) txt = .ok [s] :=
  parse_renderSimple cfg f s txt h

/-- … and with any number of labels written in front of it on the same line -/
theorem text_roundtrip_labelled_statement (cfg : PCfg) (f : Nat) (ws : List String) (s : Stmt) (txt : List Char)
    (hws : ∀ w ∈ ws, NameText w.toList) (h : renderSimple s = some txt) :
    parseStmts cfg (f + 2 + ws.length) (renderLabels ws ++ txt) = .ok (ws.map .label ++ [s]) :=
  parse_labels_renderSimple cfg f ws s txt hws h

/-- render / parse round trip, fill: `.fill N,V` with the decimal spelling of ANY count and value -/
theorem text_roundtrip_fill_decimal (cfg : PCfg) (f : Nat) (n v : Nat) :
    parseStmts cfg (f + 2) (".fill ".toList ++ Nat.toDigits 10 n ++ ',' :: Nat.toDigits 10 v) =
      .ok [.fill (.num n) (.num v)] :=
  parseStmts_fill_decimal cfg f n v

/-- render / parse round trip, `.zero N`: the fill statement with value 0 -/
theorem text_roundtrip_zero_decimal (cfg : PCfg) (f : Nat) (n : Nat) :
    parseStmts cfg (f + 2) (".zero ".toList ++ Nat.toDigits 10 n) = .ok [.fill (.num n) (.num 0)] :=
  parseStmts_zero_decimal cfg f n

/-- render / parse round trip, constant: `name = N` for every name that does not start with a dot -/
theorem text_roundtrip_constant_decimal (cfg : PCfg) (f : Nat) (w : List Char) (hw : NameText w)
    (hdot : w.head? ≠ some '.') (n : Nat) :
    parseStmts cfg (f + 2) (w ++ " = ".toList ++ Nat.toDigits 10 n) = .ok [.const (String.ofList w) (.num n)] :=
  parseStmts_const_decimal cfg f w hw hdot n

example : renderSimple (.fill (.num 16) (.num 255)) = some ".fill 16,255".toList := by decide
example : renderSimple (.const "kone" (.num 1)) = some "kone = 1".toList := by decide
example : renderLabels ["a", "_b"] ++ ".byte 7".toList = "a: _b: .byte 7".toList := by decide
example : NameText "kone".toList ∧ "kone".toList.head? ≠ some '.' := by
  refine ⟨⟨by decide, ?_⟩, by decide⟩; decide
example : renderSimple (.org (.num 4096) none) = some ".org 4096".toList := by decide
example : renderSimple (.data 1 [.num 255]) = some ".byte 255".toList := by decide

-- the hypotheses are satisfiable: `LDI a,5 Nop` under the mnemonics `ldi`, `nop`
def exCfg : PCfg := { regs := ["a"], mnemonics := ["ldi", "nop"] }
example : cutAtMnemonic exCfg none false " a,5 ".toList = (" a,5 ".toList, []) := by
  simp [cutAtMnemonic, takeName, lowerS_eq, isQuote, isNameChar, isWordChar, exCfg]
example : exCfg.mnemonics.contains (lowerS "LDI".toList) = true ∧ exCfg.mnemonics.contains (lowerS "Nop".toList) = true ∧
    lowerS (takeName "a,5".toList).1 ≠ "equ" ∧ NameText "LDI".toList ∧ NameText "Nop".toList := by
  refine ⟨by rw [lowerS_eq]; decide, by rw [lowerS_eq]; decide, by rw [lowerS_eq]; decide, by unfold NameText; decide,
    by unfold NameText; decide⟩

end BV.C18
