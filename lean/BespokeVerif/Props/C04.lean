/-
  Property C04 — two lines never silently occupy the same address.
  Statements only; helper lemmas live in `BespokeVerif/Lemmas/Image.lean`.
-/
import BespokeVerif.Model.Layout
import BespokeVerif.Lemmas.Image
import BespokeVerif.Lemmas.ImageFast
namespace BV.C04
open BV

/-- the byte-producing lines that occupy at least one address -/
def occupying (es : List Emitted) : List Emitted := es.filter fun e => e.isByte && decide (e.size > 0)

/-- two lines occupy no common address -/
def Disjoint (e e' : Emitted) : Prop := e.addr + e.size ≤ e'.addr ∨ e'.addr + e'.size ≤ e.addr

def SortedByAddr (es : List Emitted) : Prop := es.Pairwise fun a b => a.addr ≤ b.addr

/-- the sort used before the second pass: a permutation, sorted, and stable -/
theorem sortByAddr_perm (ps : List Placed) : (sortByAddr ps).Perm ps := by
  exact sortByAddr_perm' ps

theorem sortByAddr_sorted (ps : List Placed) : (sortByAddr ps).Pairwise fun a b => a.addr ≤ b.addr := by
  exact sortByAddr_sorted' ps

theorem sortByAddr_stable (ps : List Placed) (a : Int) :
    (sortByAddr ps).filter (fun p => p.addr == a) = ps.filter (fun p => p.addr == a) := by
  exact sortByAddr_stable' ps a

/-- "never silently occupy": if the adjacent-range check passes on an address-sorted list, all
    occupying lines are pairwise disjoint -/
theorem overlap_ok_disjoint (es : List Emitted) (hs : SortedByAddr es)
    (h : overlapCheck none es = .ok ()) : (occupying es).Pairwise Disjoint := by
  have _ := hs
  have hc := (overlapCheck_ok_chain es none h).2
  exact hc.imp fun hab => Or.inl hab

/-- "never rejected when disjoint": pairwise disjoint occupying lines always pass -/
theorem disjoint_overlap_ok (es : List Emitted) (hs : SortedByAddr es)
    (h : (occupying es).Pairwise Disjoint) : overlapCheck none es = .ok () := by
  exact overlapCheck_of_disjoint es none hs h (by intro l hl; cases hl)

/-- the only way the check fails is the overlap error -/
theorem overlap_error_kind (es : List Emitted) (e : Err) (h : overlapCheck none es = .error e) :
    e = .overlap := by
  exact overlapCheck_error_kind es none e h

/-- the verdict does not depend on the source order of the lines (files, zones, origins): any
    two address-sorted arrangements of the same lines get the same verdict -/
theorem overlap_order_independent (es es' : List Emitted) (hp : es.Perm es') (hs : SortedByAddr es)
    (hs' : SortedByAddr es') : overlapCheck none es = overlapCheck none es' := by
  have hperm : (occupying es).Perm (occupying es') := hp.filter _
  have hsymm : ∀ a b : Emitted, Disjoint a b → Disjoint b a := fun _ _ h => Or.symm h
  have key : ∀ (l l' : List Emitted), l.Perm l' → SortedByAddr l → SortedByAddr l' →
      overlapCheck none l = .ok () → overlapCheck none l' = .ok () := by
    intro l l' hpl hsl hsl' hok
    have hd := overlap_ok_disjoint l hsl hok
    have hpl' : (occupying l).Perm (occupying l') := hpl.filter _
    exact disjoint_overlap_ok l' hsl' ((hpl'.pairwise_iff (fun {a b} h => hsymm a b h)).mp hd)
  cases h1 : overlapCheck none es with
  | ok u =>
    cases u
    exact (key es es' hp hs hs' h1).symm
  | error er =>
    cases h2 : overlapCheck none es' with
    | ok u =>
      cases u
      rw [key es' es hp.symm hs' hs h2] at h1
      cases h1
    | error er' =>
      rw [overlap_error_kind es er h1, overlap_error_kind es' er' h2]

/-- a line that emits no byte never causes a rejection -/
theorem empty_line_irrelevant (es₁ es₂ : List Emitted) (e : Emitted) (he : e.size ≤ 0) :
    overlapCheck none (es₁ ++ e :: es₂) = overlapCheck none (es₁ ++ es₂) := by
  exact overlapCheck_skip_empty es₁ es₂ e he none

/-- non-vacuity -/
example : overlapCheck none [⟨0, 2, [1, 2], false, true⟩, ⟨1, 1, [9], true, true⟩] = .error .overlap := by
  decide +kernel
example : overlapCheck none [⟨0, 2, [1, 2], false, true⟩, ⟨1, 0, [], false, true⟩, ⟨2, 1, [9], false, true⟩] = .ok () := by
  decide +kernel

/-! ## end to end: the lines the model emits for any program -/

/-- the emitted lines of any program are sorted by address: the hypothesis `SortedByAddr` of the
    theorems above holds for them -/
theorem emitted_sorted (cfg : Cfg) (files : List (List Stmt)) (es : List Emitted) (L : Labels)
    (h : assembleLines cfg files = .ok (es, L)) : SortedByAddr es :=
  assembleLines_sorted cfg files es L h

/-- hence, for every program: the overlap check passes iff its occupying byte lines are pairwise
    disjoint -/
theorem check_passes_iff_disjoint (cfg : Cfg) (files : List (List Stmt)) (es : List Emitted) (L : Labels)
    (h : assembleLines cfg files = .ok (es, L)) :
    overlapCheck none es = .ok () ↔ (occupying es).Pairwise Disjoint :=
  ⟨overlap_ok_disjoint es (emitted_sorted cfg files es L h), disjoint_overlap_ok es (emitted_sorted cfg files es L h)⟩

/-- an accepted program has pairwise disjoint byte lines ("never silently occupy the same address") -/
theorem accepted_program_disjoint (cfg : Cfg) (files : List (List Stmt)) (start : Int) (stop : Option Int) (fill : Nat)
    (o : Outcome) (h : assemble cfg files start stop fill = .ok o) : (occupying o.emitted).Pairwise Disjoint := by
  unfold assemble at h
  cases hl : assembleLines cfg files with
  | error e => rw [hl] at h; cases h
  | ok r =>
    obtain ⟨es, L⟩ := r
    rw [hl] at h
    simp only [bind, Except.bind] at h
    cases ho : overlapCheck none es with
    | error e => rw [ho] at h; cases h
    | ok u =>
      rw [ho] at h
      cases h
      exact (check_passes_iff_disjoint cfg files es L hl).mp ho

/-- ... and a program whose byte lines are not pairwise disjoint is rejected, with the overlap error -/
theorem overlapping_program_rejected (cfg : Cfg) (files : List (List Stmt)) (start : Int) (stop : Option Int) (fill : Nat)
    (es : List Emitted) (L : Labels) (hl : assembleLines cfg files = .ok (es, L))
    (hov : ¬ (occupying es).Pairwise Disjoint) : assemble cfg files start stop fill = .error .overlap := by
  unfold assemble
  rw [hl]
  simp only [bind, Except.bind]
  cases ho : overlapCheck none es with
  | ok u => exact absurd ((check_passes_iff_disjoint cfg files es L hl).mp ho) hov
  | error e => rw [overlap_error_kind es e ho]

end BV.C04
