/-
  Property C02 — address assignment and label values are consistent across both passes.
  Statements only; helper lemmas live in `BespokeVerif/Lemmas/Layout.lean`.
-/
import BespokeVerif.Model.Layout
import BespokeVerif.Lemmas.Layout
import BespokeVerif.Lemmas.StmtSize
import BespokeVerif.Lemmas.ImageFast
namespace BV.C02
open BV

/-- `.align p` moves the address to the smallest multiple of `p` that is not below it -/
theorem alignUp_dvd (a p : Int) (hp : 0 < p) : p ∣ alignUp a p := by
  exact alignUp_dvd' a p
theorem alignUp_ge (a p : Int) (hp : 0 < p) : a ≤ alignUp a p := by
  exact alignUp_ge' a p hp
theorem alignUp_least (a p m : Int) (hp : 0 < p) (hd : p ∣ m) (hm : a ≤ m) : alignUp a p ≤ m := by
  exact alignUp_least' a p m hp hd hm
theorem alignUp_aligned (a p : Int) (hp : 0 < p) (h : p ∣ a) : alignUp a p = a := by
  exact alignUp_aligned' a p h
/-- address 0 is a multiple of every page size: `.align` at address 0 stays at 0 -/
theorem alignUp_zero (p : Int) : alignUp 0 p = 0 := by
  simp [alignUp]

/-- the statements whose address is *not* simply the cursor of their zone -/
def movesCursor : Stmt → Bool
  | .org .. => true
  | .align .. => true
  | _ => false

theorem movesCursor_eq (s : Stmt) : movesCursor s = movesCur s := by
  cases s <;> rfl

/-- Every line is placed at the cursor of its zone (the address immediately following the bytes
    of the preceding line of that zone) unless an origin or alignment directive intervenes … -/
theorem placed_at_cursor (cfg : Cfg) (zs : Zones) (L : Labels) (ln : Line) (p : Placed) (zs' : Zones)
    (L' : Labels) (z : Zone) (h : firstPassStep cfg (zs, L) ln = .ok (p, zs', L'))
    (hz : zs.get? ln.zone = some z) (hm : movesCursor ln.stmt = false) :
    p.addr = z.cur := by
  obtain ⟨z₀, addr, size, hz₀, hp, _, _, rfl⟩ := firstPassStep_ok h
  rw [hz] at hz₀; cases hz₀
  rw [movesCursor_eq] at hm
  exact placeOf_addr hm hp

/-- … and afterwards the cursor of that zone sits right behind the line, all other zones untouched -/
theorem cursor_after (cfg : Cfg) (zs : Zones) (L : Labels) (ln : Line) (p : Placed) (zs' : Zones)
    (L' : Labels) (h : firstPassStep cfg (zs, L) ln = .ok (p, zs', L')) :
    (∃ z', zs'.get? ln.zone = some z' ∧ z'.cur = p.addr + p.size) ∧
    ∀ n, n ≠ ln.zone → zs'.get? n = zs.get? n := by
  obtain ⟨z₀, addr, size, hz₀, hp, hs, _, rfl⟩ := firstPassStep_ok h
  obtain ⟨z₁, hz₁, _, _, rfl⟩ := Zones.setCur_ok hs
  have hn : ({ z₁ with cur := addr + size } : Zone).name = ln.zone := Zones.get?_name (z := z₁) hz₁
  refine ⟨⟨_, Zones.get?_replace_same hz₁ hn, rfl⟩, ?_⟩
  intro n hne
  exact Zones.get?_replace_other hn hne

/-- consecutive lines of one zone are contiguous (two-line form; the zone-interleaved form is
    `C05.zone_concatenates`) -/
theorem placed_contiguous (cfg : Cfg) (st : Zones × Labels) (l₁ l₂ : Line) (rest : List Line)
    (p₁ p₂ : Placed) (ps : List Placed) (zs : Zones) (L : Labels)
    (h : firstPass cfg (l₁ :: l₂ :: rest) st = .ok (p₁ :: p₂ :: ps, zs, L))
    (hz : l₁.zone = l₂.zone) (hm : movesCursor l₂.stmt = false) :
    p₂.addr = p₁.addr + p₁.size := by
  obtain ⟨q₁, zs1, L1, ps1, h1, hrest, he⟩ := firstPass_cons_ok h
  obtain ⟨q₂, zs2, L2, ps2, h2, _, he2⟩ := firstPass_cons_ok hrest
  cases he2; cases he
  obtain ⟨⟨z', hz', hc⟩, _⟩ := cursor_after cfg st.1 st.2 l₁ p₁ zs1 L1 h1
  rw [hz] at hz'
  rw [placed_at_cursor cfg zs1 L1 l₂ p₂ zs2 L2 z' h2 hz' hm, hc]

/-- the number of bytes a line finally emits equals the space reserved for it -/
theorem reserved_eq_emitted (cfg : Cfg) (zs : Zones) (L L₂ : Labels) (ln : Line) (p : Placed)
    (zs' : Zones) (L' : Labels) (bs : List Nat)
    (h : firstPassStep cfg (zs, L) ln = .ok (p, zs', L')) (hb : lineBytes cfg L₂ p = .ok bs)
    (hbyte : isByteLine ln.stmt = true) (hpos : 0 ≤ p.size) :
    (bs.length : Int) = p.size := by
  obtain ⟨z₀, addr, size, _, hp, _, _, rfl⟩ := firstPassStep_ok h
  exact lineBytes_length hp hb hbyte hpos

/-- … and for the whole run: every byte line of every program the model assembles (source lines of
    any kind, macro invocations, predefined data blocks) emits exactly the bytes that were reserved
    for it when addresses were assigned - none when a fill was given a negative count -/
theorem every_line_reserved_eq_emitted (cfg : Cfg) (files : List (List Stmt)) (es : List Emitted) (L : Labels)
    (h : assembleLines cfg files = .ok (es, L)) (e : Emitted) (he : e ∈ es) (hb : e.isByte = true) :
    (e.bytes.length : Int) = if 0 ≤ e.size then e.size else 0 :=
  assembleLines_wf cfg files es L h e he hb

/-- the same for a bit-packed ISA instruction statement (any operand types, field widths, alignment
    and byte order): the bytes finally emitted — with the final label values, at the final address —
    are exactly as many as `stmtSize` reserved from variant selection, which looks at no value -/
theorem instruction_reserved_eq_emitted (regs : List String) (gz : Int × Int) (env : String → Option Int) (addr : Int)
    (variants : List VariantCfg) (fs : List Form) (i : Nat) (bs : List Nat)
    (h : assembleStmt regs gz env addr variants fs = .ok (i, bs)) :
    ∃ v m, selectVariant regs gz variants fs 0 = .ok (i, v, m) ∧ bs.length = stmtSize v m :=
  assembleStmt_length h

/-- … hence two passes over the same statement (unknown forward labels first, final values second;
    or the statement moved to another address) always agree on its size -/
theorem instruction_size_pass_independent (regs : List String) (gz : Int × Int) (env env' : String → Option Int)
    (addr addr' : Int) (variants : List VariantCfg) (fs : List Form) (i i' : Nat) (bs bs' : List Nat)
    (h : assembleStmt regs gz env addr variants fs = .ok (i, bs))
    (h' : assembleStmt regs gz env' addr' variants fs = .ok (i', bs')) :
    bs.length = bs'.length ∧ i = i' := by
  obtain ⟨v, m, hs, hl⟩ := assembleStmt_length h
  obtain ⟨v', m', hs', hl'⟩ := assembleStmt_length h'
  rw [hs] at hs'
  simp only [Acc.ok.injEq, Prod.mk.injEq] at hs'
  obtain ⟨rfl, rfl, rfl⟩ := hs'
  exact ⟨by rw [hl, hl'], rfl⟩

/-- a line that is not byte-producing emits nothing and reserves nothing -/
theorem non_byte_line_empty (cfg : Cfg) (zs : Zones) (L L₂ : Labels) (ln : Line) (p : Placed)
    (zs' : Zones) (L' : Labels) (h : firstPassStep cfg (zs, L) ln = .ok (p, zs', L'))
    (hbyte : isByteLine ln.stmt = false) :
    p.size = 0 ∧ lineBytes cfg L₂ p = .ok [] := by
  obtain ⟨z₀, addr, size, _, hp, _, _, rfl⟩ := firstPassStep_ok h
  exact ⟨placeOf_nonbyte hbyte hp, lineBytes_nonbyte hbyte⟩

/-- an address label is bound to the cursor at its definition = the address of the next line of
    that zone (by `placed_at_cursor`) -/
theorem label_bound_to_cursor (cfg : Cfg) (zs : Zones) (L : Labels) (ln : Line) (p : Placed)
    (zs' : Zones) (L' : Labels) (z : Zone) (name : String)
    (h : firstPassStep cfg (zs, L) ln = .ok (p, zs', L')) (hs : ln.stmt = .label name)
    (hz : zs.get? ln.zone = some z) :
    L.set ln.scope name z.cur = .ok L' ∧ p.addr = z.cur ∧ p.size = 0 := by
  obtain ⟨z₀, addr, size, hz₀, hp, _, hl, rfl⟩ := firstPassStep_ok h
  rw [hz] at hz₀; cases hz₀
  rw [placeOf_label hs] at hp
  cases hp
  rw [labelUpd_label hs] at hl
  exact ⟨hl, rfl, rfl⟩

/-- lines other than labels never change the label tables in the first pass -/
theorem first_pass_labels_only_labels (cfg : Cfg) (zs : Zones) (L : Labels) (ln : Line) (p : Placed)
    (zs' : Zones) (L' : Labels) (h : firstPassStep cfg (zs, L) ln = .ok (p, zs', L'))
    (hs : ∀ name, ln.stmt ≠ .label name) : L' = L := by
  obtain ⟨z₀, addr, size, _, _, _, hl, rfl⟩ := firstPassStep_ok h
  rw [labelUpd_other hs] at hl
  cases hl; rfl

/-- zero-until: zeros up to and including the target address, nothing when already past it -/
theorem zerountil_size (cfg : Cfg) (zs : Zones) (L : Labels) (ln : Line) (p : Placed) (zs' : Zones)
    (L' : Labels) (a : E) (t : Int) (z : Zone)
    (h : firstPassStep cfg (zs, L) ln = .ok (p, zs', L')) (hs : ln.stmt = .zerountil a)
    (hz : zs.get? ln.zone = some z) (ht : valueE (envOf L cfg.regs ln.scope) a = .ok t) :
    p.addr = z.cur ∧ (z.cur ≤ t → p.addr + p.size - 1 = t) ∧ (t < z.cur → p.size = 0) := by
  obtain ⟨z₀, addr, size, hz₀, hp, _, _, rfl⟩ := firstPassStep_ok h
  rw [hz] at hz₀; cases hz₀
  rw [placeOf_zerountil hs ht] at hp
  cases hp
  refine ⟨rfl, ?_, ?_⟩
  · intro hle
    simp only [ge_iff_le, hle, if_true]
    omega
  · intro hlt
    have : ¬ (z.cur ≤ t) := by omega
    simp only [ge_iff_le, this, if_false]

/-- non-vacuity -/
example : alignUp 7 6 = 12 ∧ alignUp 16 16 = 16 ∧ alignUp 21 12 = 24 := by decide

end BV.C02
