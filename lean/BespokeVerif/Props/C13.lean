/-
  Property C13 — variant and operand selection follows the documented priority only.
  Statements only; helper lemmas live in `BespokeVerif/Lemmas/Select.lean`.
-/
import BespokeVerif.Model.Select
import BespokeVerif.Lemmas.Select
namespace BV.C13
open BV

/-- variants are tried in definition order and the first whose operand pattern accepts is used -/
theorem select_first (regs : List String) (gz : Int × Int) (vs : List VariantCfg) (fs : List Form) (i j : Nat)
    (v : VariantCfg) (m : Matched) (h : selectVariant regs gz vs fs i = .ok (j, v, m)) :
    ∃ pre post, vs = pre ++ v :: post ∧ j = i + pre.length ∧
      (∀ u ∈ pre, ∃ r, matchVariant regs gz u fs = r ∧ (match r with | .decline => True | _ => False)) ∧
      (∃ r, matchVariant regs gz v fs = r ∧ (match r with | .ok _ => True | _ => False)) := by
  obtain ⟨pre, post, hl, hj, hpre, hv⟩ := selectVariant_ok regs gz vs fs i j v m h
  refine ⟨pre, post, hl, hj, ?_, ⟨_, rfl, ?_⟩⟩
  · intro u hu
    exact ⟨_, rfl, by rw [hpre u hu]; trivial⟩
  · rw [hv]; trivial

/-- a statement no variant accepts is rejected, and only then (hard errors aside) -/
theorem select_decline_iff (regs : List String) (gz : Int × Int) (vs : List VariantCfg) (fs : List Form) (i : Nat) :
    (match selectVariant regs gz vs fs i with | .decline => True | _ => False) ↔
      ∀ v ∈ vs, (match matchVariant regs gz v fs with | .decline => True | _ => False) := by
  constructor
  · intro h v hv
    have hd : selectVariant regs gz vs fs i = .decline := by
      cases hx : selectVariant regs gz vs fs i <;> simp_all
    rw [(selectVariant_decline_iff regs gz vs fs i).mp hd v hv]; trivial
  · intro h
    have hd : selectVariant regs gz vs fs i = .decline :=
      (selectVariant_decline_iff regs gz vs fs i).mpr (fun v hv => by
        have := h v hv
        cases hx : matchVariant regs gz v fs <;> simp_all)
    rw [hd]; trivial

/-- the variant index reported is the position in the definition -/
theorem select_index (regs : List String) (gz : Int × Int) (vs : List VariantCfg) (fs : List Form) (j : Nat)
    (v : VariantCfg) (m : Matched) (h : selectVariant regs gz vs fs 0 = .ok (j, v, m)) : vs[j]? = some v := by
  obtain ⟨pre, post, hl, hj, -, -⟩ := selectVariant_ok regs gz vs fs 0 j v m h
  subst hl
  simp [hj]

/-- within a variant, explicitly listed operand combinations are tried before operand sets -/
theorem specific_before_sets (regs : List String) (gz : Int × Int) (v : VariantCfg) (fs : List Form) (count : Nat)
    (m : Matched) (hc : v.count = some count) (hne : ¬ (count = 0 ∧ fs = []))
    (hs : ∃ r, matchSpecific regs gz count v.specific fs = r ∧ (match r with | .ok m' => m'.ops.map (·.id) = m.ops.map (·.id) | _ => False)) :
    ∃ r, matchVariant regs gz v fs = r ∧ (match r with | .ok m' => m'.ops.map (·.id) = m.ops.map (·.id) | _ => False) := by
  obtain ⟨r, hr, hm⟩ := hs
  refine ⟨_, rfl, ?_⟩
  have hne' : (decide (count = 0) && fs.isEmpty) = false := by
    cases fs <;> simp_all
  cases r with
  | ok m' =>
    have : matchVariant regs gz v fs = .ok m' := by
      simp only [matchVariant, hc, hne', hr]
      simp
    rw [this]; exact hm
  | decline => exact hm.elim
  | hard => exact hm.elim

/-- … and the disallowed list is about combinations made from the operand sets only: whatever the `operand_sets`
    section (its sets, its disallowed list, absent altogether) says, an explicitly listed combination that matches is
    the match of the variant -/
theorem explicit_combination_ignores_disallowed (regs : List String) (gz : Int × Int) (v : VariantCfg) (fs : List Form)
    (count : Nat) (m : Matched) (hc : v.count = some count) (hne : ¬ (count = 0 ∧ fs = []))
    (hs : matchSpecific regs gz count v.specific fs = .ok m) (sets' : Option SetsCfg) :
    matchVariant regs gz { v with sets := sets' } fs = .ok m := by
  have hne' : (decide (count = 0) && fs.isEmpty) = false := by
    cases hf : fs with
    | nil => simp_all
    | cons a b => simp
  unfold matchVariant
  simp only [hc, hne', hs]
  simp

/-- disallowed combinations are skipped -/
theorem disallowed_skipped (regs : List String) (gz : Int × Int) (v : VariantCfg) (fs : List Form) (count : Nat)
    (sc : SetsCfg) (ps : List ParsedOp) (hc : v.count = some count) (hne : ¬ (count = 0 ∧ fs = []))
    (hsp : ∃ r, matchSpecific regs gz count v.specific fs = r ∧ (match r with | .decline => True | _ => False))
    (hs : v.sets = some sc) (hlen : fs.length = sc.sets.length)
    (hm : ∃ r, matchSets regs gz sc.sets fs = r ∧ (match r with | .ok ps' => ps'.map (·.id) = ps.map (·.id) | _ => False))
    (hd : sc.disallowed.contains (ps.map (·.id)) = true) :
    (match matchVariant regs gz v fs with | .decline => True | _ => False) := by
  obtain ⟨r, hr, hrd⟩ := hsp
  obtain ⟨r', hr', hm'⟩ := hm
  have hne' : (decide (count = 0) && fs.isEmpty) = false := by
    cases fs <;> simp_all
  have hrd' : r = .decline := by cases r <;> simp_all
  subst hrd'
  cases r' with
  | ok ps' =>
    have hd' : sc.disallowed.contains (ps'.map (·.id)) = true := by rw [hm']; exact hd
    have : matchVariant regs gz v fs = .decline := by
      simp only [matchVariant, hc, hne', hr, hs, hlen, hr', hd']
      simp
    rw [this]; trivial
  | decline => exact hm'.elim
  | hard => exact hm'.elim

/-- within an operand set the alternatives are tried in rank order, ties in definition order, and
    the first that accepts wins: everything before it in that order declined -/
theorem set_priority (regs : List String) (gz : Int × Int) (set : List (String × OperandCfg)) (f : Form) (p : ParsedOp)
    (h : ∃ r, matchSet regs gz set f = r ∧ (match r with | .ok p' => p'.id = p.id | _ => False)) :
    ∃ pre x post, sortByRank (fun (y : String × OperandCfg) => y.2.rank) set = pre ++ x :: post ∧
      (match accepts regs gz x.1 x.2 f with | .ok p' => p'.id = p.id | _ => False) ∧
      ∀ y ∈ pre, (match accepts regs gz y.1 y.2 f with | .decline => True | _ => False) := by
  obtain ⟨r, hr, hm⟩ := h
  cases r with
  | ok p' =>
    obtain ⟨pre, x, post, hl, hx, hpre⟩ := firstAccept_ok regs gz f _ p' hr
    refine ⟨pre, x, post, hl, ?_, ?_⟩
    · rw [hx]; exact hm
    · intro y hy; rw [hpre y hy]; trivial
  | decline => exact hm.elim
  | hard => exact hm.elim

/-- the order used inside a set: a stable sort by type rank -/
theorem sortByRank_perm {α : Type} (rank : α → Nat) (l : List α) : (sortByRank rank l).Perm l := by
  exact sortByRank_perm' rank l
theorem sortByRank_sorted {α : Type} (rank : α → Nat) (l : List α) :
    (sortByRank rank l).Pairwise fun a b => rank a ≤ rank b := by
  exact sortByRank_sorted' rank l
theorem sortByRank_stable {α : Type} (rank : α → Nat) (l : List α) (k : Nat) :
    (sortByRank rank l).filter (fun a => rank a == k) = l.filter (fun a => rank a == k) := by
  exact sortByRank_stable' rank l k

/-- bracketed and register-indexed forms are tried before enumeration keys and plain registers,
    which are tried before numeric expressions -/
theorem rank_order (r : String) (c : Option CodeCfg) (o : Option ArgCfg) (a : ArgCfg) (ix : List (String × IdxCfg))
    (ec : Option (Nat × CodePos × List (String × Int))) (d : List (String × Int)) (p q : String) (va : Bool)
    (zs ze : Int) (sl : Bool) (mn mx : Option Int) (fe cu : Bool) (n : Nat) (pos : CodePos) (lo hi : Int) :
    (OperandCfg.indReg r c o p q).rank < (OperandCfg.indIdxReg r c ix).rank ∧
    (OperandCfg.indIdxReg r c ix).rank < (OperandCfg.indNum c a).rank ∧
    (OperandCfg.indNum c a).rank < (OperandCfg.defNum c a).rank ∧
    (OperandCfg.defNum c a).rank < (OperandCfg.idxReg r c ix).rank ∧
    (OperandCfg.idxReg r c ix).rank < (OperandCfg.enumeration ec a d).rank ∧
    (OperandCfg.enumeration ec a d).rank < (OperandCfg.register r c p q).rank ∧
    (OperandCfg.register r c p q).rank < (OperandCfg.numeric c a va).rank ∧
    (OperandCfg.numeric c a va).rank < (OperandCfg.address c a zs ze sl).rank ∧
    (OperandCfg.address c a zs ze sl).rank < (OperandCfg.relAddr c a mn mx fe cu).rank ∧
    (OperandCfg.relAddr c a mn mx fe cu).rank < (OperandCfg.numBytecode n pos lo hi).rank := by
  simp [OperandCfg.rank]

set_option linter.unusedVariables false in
/-- a register name is never accepted where a numeric expression or label is expected -/
theorem register_never_numeric (regs : List String) (gz : Int × Int) (id : String) (c : OperandCfg) (e : E) (p : ParsedOp)
    (hc : match c with
          | .numeric .. | .address .. | .relAddr .. | .numBytecode .. => True
          | _ => False)
    (h : ∃ r, accepts regs gz id c (.plain e) = r ∧ (match r with | .ok _ => True | _ => False)) :
    hasReg regs e = false := by
  obtain ⟨r, hr, hok⟩ := h
  obtain ⟨a, rfl⟩ : ∃ a, r = .ok a := by cases r <;> simp_all
  cases c with
  | numeric code arg va =>
    rw [accepts_numeric_plain] at hr
    cases hh : hasReg regs e <;> simp_all
  | address code arg zs ze sl =>
    rw [accepts_address_plain] at hr
    cases hh : hasReg regs e <;> simp_all
  | relAddr code arg mn mx fe cu =>
    rw [accepts_relAddr_plain] at hr
    cases cu <;> cases hh : hasReg regs e <;> simp_all
  | numBytecode size pos mn mx =>
    rw [accepts_numBytecode_plain] at hr
    cases hh : hasReg regs e <;> simp_all
  | _ => exact hc.elim

theorem register_never_numeric_bracketed (regs : List String) (gz : Int × Int) (id : String) (code : Option CodeCfg)
    (arg : ArgCfg) (e : E)
    (h : ∃ r, accepts regs gz id (.indNum code arg) (.ind e) = r ∧ (match r with | .ok _ => True | _ => False)) :
    hasReg regs e = false := by
  obtain ⟨r, hr, hok⟩ := h
  obtain ⟨a, rfl⟩ : ∃ a, r = .ok a := by cases r <;> simp_all
  rw [accepts_indNum_ind] at hr
  cases hb : bracketOk e <;> cases hh : hasReg regs e <;> simp_all

/-- what "contains a register name" means: some label anywhere in the expression — under unary minus
    and the byte-extraction functions too — equals a declared register name up to letter case -/
theorem hasReg_iff (regs : List String) (e : E) :
    hasReg regs e = true ↔ ∃ n ∈ labelsOf e, ∃ r ∈ regs, r.toLower = n.toLower := by
  unfold hasReg isRegName
  simp only [List.any_eq_true, beq_iff_eq]

theorem hasReg_neg (regs : List String) (e : E) : hasReg regs (.neg e) = hasReg regs e := rfl
theorem hasReg_byteN (regs : List String) (k : Nat) (e : E) : hasReg regs (.byteN k e) = hasReg regs e := rfl
theorem hasReg_bin (regs : List String) (o : BinOp) (l r : E) :
    hasReg regs (.bin o l r) = (hasReg regs l || hasReg regs r) := by
  simp [hasReg, labelsOf, List.any_append]

/-- a register name written in any letter case, bare or under unary operators, is refused by every
    numeric-style operand (so the statement is left to a later alternative or variant) -/
theorem register_any_case_refused (regs : List String) (gz : Int × Int) (id : String) (code : Option CodeCfg)
    (arg : ArgCfg) (va : Bool) (r n : String) (hr : r ∈ regs) (hn : r.toLower = n.toLower) :
    accepts regs gz id (.numeric code arg va) (.plain (.label n)) = .decline ∧
    accepts regs gz id (.numeric code arg va) (.plain (.neg (.label n))) = .decline ∧
    accepts regs gz id (.numeric code arg va) (.plain (.byteN 0 (.label n))) = .decline := by
  have h : hasReg regs (.label n) = true := (hasReg_iff regs _).mpr ⟨n, by simp [labelsOf], r, hr, hn⟩
  refine ⟨?_, ?_, ?_⟩ <;> rw [accepts_numeric_plain] <;> simp [hasReg_neg, hasReg_byteN, h]

/-- a plain register operand accepts exactly its own name, in any letter case -/
theorem register_accepts_iff (regs : List String) (gz : Int × Int) (id r s : String) (code : Option CodeCfg) :
    (match accepts regs gz id (.register r code "" "") (.plain (.label s)) with | .ok _ => True | _ => False) ↔
      s.toLower = r.toLower := by
  rw [accepts_register_plain_label]
  by_cases hh : s.toLower = r.toLower <;> simp [eqIgnoreCase, hh]

/-- non-vacuity: `[a+5]` with an indirect register (rank 2) and an indirect indexed register
    (rank 3) in one set selects the former whatever the definition order -/
example :
    let ir : String × OperandCfg := ("ir", .indReg "a" (some ⟨1, 4, .suffix⟩) (some ⟨8, true, false⟩) "" "")
    let ii : String × OperandCfg := ("ii", .indIdxReg "a" (some ⟨2, 4, .suffix⟩) [("n", .numeric none ⟨8, true, false⟩)])
    let f : Form := .ind (.bin .add (.label "a") (.num 5))
    (match matchSet ["a"] (0, 65535) [ii, ir] f with | .ok p => p.id == "ir" | _ => false) = true ∧
    (match matchSet ["a"] (0, 65535) [ir, ii] f with | .ok p => p.id == "ir" | _ => false) = true := by
  decide +kernel

end BV.C13
