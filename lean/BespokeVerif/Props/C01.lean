/-
  Property C01 — instruction encoding is exactly the bit layout the ISA prescribes.
  Statements only; helper lemmas live in `BespokeVerif/Lemmas/Bits.lean`.
-/
import BespokeVerif.Model.Bits
import BespokeVerif.Lemmas.Bits
namespace BV.C01
open BV

/-- Refinement: the cursor-based packer emits exactly the bytes of the specified bit string. -/
theorem getBytes_eq_spec (fs : List Field) (hne : fs ≠ [])
    (h : ∀ f ∈ fs, 1 ≤ f.size ∧ Fits f.value f.size) :
    getBytes fs = .ok (some (specBytes fs)) := by
  exact getBytes_eq_spec' fs hne h

/-- The packer fails only by rejecting a value that does not fit its field, and does so whenever
    one exists (shared with C12). -/
theorem getBytes_error_iff (fs : List Field) :
    (∃ e, getBytes fs = .error e) ↔ ∃ f ∈ fs, ¬ Fits f.value f.size := by
  rw [← appendAll_error_iff fs PB.init]
  constructor
  · rintro ⟨e, he⟩; exact ⟨e, (getBytes_error fs e).mp he⟩
  · rintro ⟨e, he⟩; exact ⟨e, (getBytes_error fs e).mpr he⟩

theorem getBytes_error_kind (fs : List Field) (e : Err) (h : getBytes fs = .error e) :
    e = .fieldOverflow := by
  exact appendAll_error_kind fs PB.init e ((getBytes_error fs e).mp h)

/-- Reserved size = emitted size = ⌈bits/8⌉. -/
theorem byteSizeOf_eq_spec_length (fs : List Field) :
    byteSizeOf fs = (specBytes fs).length := by
  exact (specBytes_length fs).symm

theorem byteSizeOf_eq_ceil (fs : List Field) :
    byteSizeOf fs = ceil8 (layout fs []).length := by
  exact byteSizeOf_eq_ceil' fs

/-- every field occupies exactly its configured number of bits -/
theorem fieldBits_length (v : Int) (n : Nat) (little : Bool) :
    (fieldBits v n little).length = n := by
  exact fieldBits_length' v n little

/-- big endian: bit `i` of the field (transmission order) is bit `n-1-i` of the value -/
theorem fieldBits_big (v : Int) (n i : Nat) (hi : i < n) :
    (fieldBits v n false)[i]? = some (bitAt v (n - 1 - i)) := by
  have hlen : i < ((List.range n).reverse.map (bitAt v)).length := by simpa using hi
  simp only [fieldBits, Bool.false_eq_true, if_false]
  rw [List.getElem?_eq_getElem hlen]
  simp [List.getElem_reverse]

/-- little endian: the bytes go out in ascending significance, each MSB first; the most
    significant byte carries only the remaining `n - 8(len-1)` bits. -/
theorem fieldBits_little_low (v : Int) (n j b : Nat) (hj : j + 1 < ceil8 n) (hb : b < 8) :
    (fieldBits v n true)[8 * j + b]? = some (bitAt v (8 * j + (7 - b))) := by
  exact fieldBits_little_low' v n j b hj hb

theorem fieldBits_little_top (v : Int) (n b : Nat) (hn : 1 ≤ n) (hb : b < n - 8 * (ceil8 n - 1)) :
    (fieldBits v n true)[8 * (ceil8 n - 1) + b]? = some (bitAt v (n - 1 - b)) := by
  exact fieldBits_little_top' v n b hn hb

/-- Layout is compositional: a further field is appended after the existing bit string, after
    padding to a byte boundary iff it is marked byte-aligned. -/
theorem layout_snoc (fs : List Field) (f : Field) :
    layout (fs ++ [f]) [] =
      (if f.align then padTo8 (layout fs []) else layout fs []) ++ fieldBits f.value f.size f.little := by
  rw [layout_append]; rfl

theorem padTo8_length_dvd (bits : List Bool) : 8 ∣ (padTo8 bits).length := by
  rw [padTo8_length]; omega

theorem padTo8_prefix (bits : List Bool) : bits <+: padTo8 bits := by
  exact List.prefix_append _ _

theorem padTo8_minimal (bits : List Bool) : (padTo8 bits).length < bits.length + 8 := by
  rw [padTo8_length]; omega

/-- Field order: the implementation's list manipulation is the documented order. -/
theorem fieldOrder_eq_specOrder (ops : List OpParts) (opcode : Field) (sfx : Option Field)
    (revArgs revCodes : Bool) :
    fieldOrder ops opcode sfx revArgs revCodes = specOrder ops opcode sfx revArgs revCodes := by
  exact fieldOrder_eq_specOrder' ops opcode sfx revArgs revCodes

/-- no field is lost or duplicated, whatever the reverse options -/
theorem fieldOrder_perm (ops : List OpParts) (opcode : Field) (sfx : Option Field)
    (revArgs revCodes : Bool) :
    (fieldOrder ops opcode sfx revArgs revCodes).Perm
      (prefixGroup ops ++ [opcode] ++ suffixGroup ops ++ sfx.toList ++ argGroup ops) := by
  rw [fieldOrder_eq_specOrder]
  unfold specOrder
  have r : ∀ (b : Bool) (l : List Field), (if b then l.reverse else l).Perm l := by
    intro b l; cases b
    · exact List.Perm.refl _
    · exact List.reverse_perm l
  exact ((((r revCodes _).append (List.Perm.refl _)).append (r revCodes _)).append
    (List.Perm.refl _)).append (r revArgs _)

/-- the reverse options reverse exactly the group they name: the argument option only the
    argument group, the bytecode option only the two operand-code groups -/
theorem specOrder_revArgs (ops : List OpParts) (opcode : Field) (sfx : Option Field) (rc : Bool) :
    ∃ head, specOrder ops opcode sfx false rc = head ++ argGroup ops
          ∧ specOrder ops opcode sfx true rc = head ++ (argGroup ops).reverse := by
  refine ⟨(if rc then (prefixGroup ops).reverse else prefixGroup ops) ++ [opcode]
    ++ (if rc then (suffixGroup ops).reverse else suffixGroup ops) ++ sfx.toList, ?_, ?_⟩ <;>
    simp [specOrder]

theorem specOrder_revCodes (ops : List OpParts) (opcode : Field) (sfx : Option Field) (ra : Bool) :
    ∃ tail, specOrder ops opcode sfx ra false = prefixGroup ops ++ [opcode] ++ suffixGroup ops ++ tail
          ∧ specOrder ops opcode sfx ra true =
              (prefixGroup ops).reverse ++ [opcode] ++ (suffixGroup ops).reverse ++ tail := by
  refine ⟨sfx.toList ++ (if ra then (argGroup ops).reverse else argGroup ops), ?_, ?_⟩ <;>
    simp [specOrder]

/-- non-vacuity: a concrete mixed-width, mixed-endian, aligned field list meets the hypotheses -/
example : getBytes [⟨0xA, 4, false, false⟩, ⟨0xFFF, 12, false, true⟩, ⟨-2, 5, true, false⟩, ⟨0x123, 9, false, true⟩]
    = .ok (some [175, 255, 241, 28]) := by decide +kernel

end BV.C01
