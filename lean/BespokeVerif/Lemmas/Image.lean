import BespokeVerif.Model.Layout
import BespokeVerif.Lemmas.Bits
namespace BV

/-! ## the address sort (C04) -/

theorem insertByAddr_perm (p : Placed) (l : List Placed) : (insertByAddr p l).Perm (p :: l) := by
  induction l with
  | nil => exact List.Perm.refl _
  | cons q rest ih =>
    simp only [insertByAddr]
    split
    · exact List.Perm.refl _
    · exact (List.Perm.cons q ih).trans (List.Perm.swap p q rest)

theorem sortByAddr_cons (p : Placed) (ps : List Placed) :
    sortByAddr (p :: ps) = insertByAddr p (sortByAddr ps) := rfl

theorem sortByAddr_perm' (ps : List Placed) : (sortByAddr ps).Perm ps := by
  induction ps with
  | nil => exact List.Perm.refl _
  | cons p ps ih =>
    rw [sortByAddr_cons]
    exact (insertByAddr_perm p _).trans (List.Perm.cons p ih)

theorem insertByAddr_sorted (p : Placed) (l : List Placed)
    (h : l.Pairwise fun a b => a.addr ≤ b.addr) :
    (insertByAddr p l).Pairwise fun a b => a.addr ≤ b.addr := by
  induction l with
  | nil => simp [insertByAddr]
  | cons q rest ih =>
    simp only [insertByAddr]
    rw [List.pairwise_cons] at h
    split
    · rename_i hle
      rw [List.pairwise_cons]
      refine ⟨?_, List.pairwise_cons.mpr h⟩
      intro x hx
      rcases List.mem_cons.mp hx with rfl | hx
      · exact hle
      · exact Int.le_trans hle (h.1 x hx)
    · rename_i hnle
      rw [List.pairwise_cons]
      refine ⟨?_, ih h.2⟩
      intro x hx
      have hx' := (insertByAddr_perm p rest).mem_iff.mp hx
      rcases List.mem_cons.mp hx' with rfl | hx'
      · omega
      · exact h.1 x hx'

theorem sortByAddr_sorted' (ps : List Placed) :
    (sortByAddr ps).Pairwise fun a b => a.addr ≤ b.addr := by
  induction ps with
  | nil => exact List.Pairwise.nil
  | cons p ps ih =>
    rw [sortByAddr_cons]
    exact insertByAddr_sorted p _ ih

theorem insertByAddr_filter (p : Placed) (l : List Placed) (a : Int) :
    (insertByAddr p l).filter (fun q => q.addr == a) = (p :: l).filter (fun q => q.addr == a) := by
  induction l with
  | nil => rfl
  | cons q rest ih =>
    simp only [insertByAddr]
    split
    · rfl
    · rename_i hnle
      rw [List.filter_cons, ih]
      by_cases hq : q.addr = a
      · have hp : ¬ p.addr = a := by omega
        simp [hq, hp]
      · simp [List.filter_cons, hq]

theorem sortByAddr_stable' (ps : List Placed) (a : Int) :
    (sortByAddr ps).filter (fun p => p.addr == a) = ps.filter (fun p => p.addr == a) := by
  induction ps with
  | nil => rfl
  | cons p ps ih =>
    rw [sortByAddr_cons, insertByAddr_filter, List.filter_cons, List.filter_cons, ih]

/-! ## the overlap check (C04) -/

/-- the lines that take part in the overlap check -/
def occ (e : Emitted) : Bool := e.isByte && decide (e.size > 0)

theorem overlapCheck_cons_occ (last : Option Emitted) (e : Emitted) (rest : List Emitted)
    (h : occ e = true) :
    overlapCheck last (e :: rest) =
      match last with
      | some l => if l.addr + l.size > e.addr then .error .overlap else overlapCheck (some e) rest
      | none => overlapCheck (some e) rest := by
  unfold occ at h
  conv => lhs; unfold overlapCheck
  rw [if_pos h]
  cases last <;> rfl

theorem overlapCheck_cons_not_occ (last : Option Emitted) (e : Emitted) (rest : List Emitted)
    (h : occ e = false) :
    overlapCheck last (e :: rest) = overlapCheck last rest := by
  unfold occ at h
  conv => lhs; unfold overlapCheck
  rw [if_neg (by simp [h])]

theorem occ_size_pos (e : Emitted) (h : occ e = true) : e.size > 0 := by
  simp [occ] at h; exact h.2

/-- a passing check: strictly ascending, non-touching ranges, all above `last` -/
theorem overlapCheck_ok_chain (es : List Emitted) : ∀ (last : Option Emitted),
    overlapCheck last es = .ok () →
      (∀ l, last = some l → ∀ e ∈ es.filter occ, l.addr + l.size ≤ e.addr) ∧
      (es.filter occ).Pairwise (fun e e' => e.addr + e.size ≤ e'.addr) := by
  induction es with
  | nil => intro last _; simp
  | cons e rest ih =>
    intro last h
    by_cases ho : occ e = true
    · rw [overlapCheck_cons_occ _ _ _ ho] at h
      rw [List.filter_cons_of_pos ho]
      have hpos := occ_size_pos e ho
      cases last with
      | none =>
        have h' := ih (some e) h
        refine ⟨(by intro l hl; cases hl), ?_⟩
        rw [List.pairwise_cons]
        exact ⟨fun e' he' => h'.1 e rfl e' he', h'.2⟩
      | some l =>
        simp only at h
        split at h
        · cases h
        · rename_i hnot
          have h' := ih (some e) h
          refine ⟨?_, ?_⟩
          · intro l' hl' e' he'
            cases hl'
            rcases List.mem_cons.mp he' with rfl | he'
            · omega
            · have := h'.1 e rfl e' he'
              omega
          · rw [List.pairwise_cons]
            exact ⟨fun e' he' => h'.1 e rfl e' he', h'.2⟩
    · have ho' : occ e = false := by simpa using ho
      rw [overlapCheck_cons_not_occ _ _ _ ho'] at h
      rw [List.filter_cons_of_neg ho]
      exact ih last h

/-- on an address-sorted list, pairwise disjoint occupying lines above `last` pass -/
theorem overlapCheck_of_disjoint (es : List Emitted) : ∀ (last : Option Emitted),
    es.Pairwise (fun a b => a.addr ≤ b.addr) →
    (es.filter occ).Pairwise
      (fun e e' => e.addr + e.size ≤ e'.addr ∨ e'.addr + e'.size ≤ e.addr) →
    (∀ l, last = some l → ∀ e ∈ es.filter occ, l.addr + l.size ≤ e.addr) →
    overlapCheck last es = .ok () := by
  induction es with
  | nil => intro last _ _ _; rfl
  | cons e rest ih =>
    intro last hs hd hl
    rw [List.pairwise_cons] at hs
    by_cases ho : occ e = true
    · rw [overlapCheck_cons_occ _ _ _ ho]
      rw [List.filter_cons_of_pos ho] at hd hl
      rw [List.pairwise_cons] at hd
      have hnext : overlapCheck (some e) rest = .ok () := by
        apply ih (some e) hs.2 hd.2
        intro l' hl' e' he'
        cases hl'
        have hpos' := occ_size_pos e' (List.mem_filter.mp he').2
        have hle := hs.1 e' (List.mem_filter.mp he').1
        rcases hd.1 e' he' with h1 | h1
        · exact h1
        · omega
      cases last with
      | none => exact hnext
      | some l =>
        have := hl l rfl e (List.mem_cons_self)
        simp only
        rw [if_neg (by omega)]
        exact hnext
    · have ho' : occ e = false := by simpa using ho
      rw [overlapCheck_cons_not_occ _ _ _ ho']
      rw [List.filter_cons_of_neg ho] at hd hl
      exact ih last hs.2 hd hl

theorem overlapCheck_error_kind (es : List Emitted) : ∀ (last : Option Emitted) (er : Err),
    overlapCheck last es = .error er → er = .overlap := by
  induction es with
  | nil => intro last er h; simp [overlapCheck] at h
  | cons e rest ih =>
    intro last er h
    by_cases ho : occ e = true
    · rw [overlapCheck_cons_occ _ _ _ ho] at h
      cases last with
      | none => exact ih _ _ h
      | some l =>
        simp only at h
        split at h
        · cases h; rfl
        · exact ih _ _ h
    · have ho' : occ e = false := by simpa using ho
      rw [overlapCheck_cons_not_occ _ _ _ ho'] at h
      exact ih _ _ h

theorem overlapCheck_skip_empty (es₁ es₂ : List Emitted) (e : Emitted) (he : e.size ≤ 0) :
    ∀ (last : Option Emitted),
      overlapCheck last (es₁ ++ e :: es₂) = overlapCheck last (es₁ ++ es₂) := by
  induction es₁ with
  | nil =>
    intro last
    have ho : occ e = false := by
      simp only [occ, Bool.and_eq_false_iff, decide_eq_false_iff_not]
      right; omega
    simp only [List.nil_append]
    exact overlapCheck_cons_not_occ _ _ _ ho
  | cons x rest ih =>
    intro last
    simp only [List.cons_append]
    by_cases ho : occ x = true
    · rw [overlapCheck_cons_occ _ _ _ ho, overlapCheck_cons_occ _ _ _ ho]
      cases last with
      | none => exact ih _
      | some l => simp only; rw [ih]
    · have ho' : occ x = false := by simpa using ho
      rw [overlapCheck_cons_not_occ _ _ _ ho', overlapCheck_cons_not_occ _ _ _ ho']
      exact ih _

/-! ## the address → byte map (C03) -/

/-- one dictionary assignment `m[a] = b` -/
def mput (m : List (Int × Nat)) (a : Int) (b : Nat) : List (Int × Nat) :=
  (m.filter (·.1 ≠ a)) ++ [(a, b)]

theorem mapGet_nil (a : Int) : mapGet [] a = none := rfl

theorem mapGet_cons (x : Int × Nat) (m : List (Int × Nat)) (a : Int) :
    mapGet (x :: m) a = if x.1 = a then some x.2 else mapGet m a := by
  unfold mapGet
  rw [List.find?_cons]
  by_cases h : x.1 = a
  · simp [h]
  · have hb : (x.1 == a) = false := by simpa using h
    simp [h, hb]

theorem mapGet_mput (m : List (Int × Nat)) (a : Int) (b : Nat) (a' : Int) :
    mapGet (mput m a b) a' = if a' = a then some b else mapGet m a' := by
  unfold mput
  induction m with
  | nil =>
    simp only [List.filter_nil, List.nil_append, mapGet_cons, mapGet_nil]
    by_cases h : a = a'
    · simp [h]
    · have h' : ¬ a' = a := fun e => h e.symm
      simp [h, h']
  | cons x m ih =>
    by_cases hx : x.1 = a
    · rw [List.filter_cons_of_neg (by simpa using hx), ih, mapGet_cons]
      by_cases h : a' = a
      · simp [h]
      · have : ¬ x.1 = a' := by omega
        simp [h, this]
    · rw [List.filter_cons_of_pos (by simpa using hx), List.cons_append, mapGet_cons, ih,
        mapGet_cons]
      by_cases h : a' = a
      · simp [h, hx]
      · simp [h]

/-- the inner loop: the first `n` bytes of a line -/
def putLine (m : List (Int × Nat)) (e : Emitted) (n : Nat) : List (Int × Nat) :=
  (List.range n).foldl (fun m (i : Nat) => mput m (e.addr + (i : Int)) e.bytes[i]!) m

theorem putLine_succ (m : List (Int × Nat)) (e : Emitted) (n : Nat) :
    putLine m e (n + 1) = mput (putLine m e n) (e.addr + (n : Int)) e.bytes[n]! := by
  unfold putLine
  rw [List.range_succ, List.foldl_append]
  rfl

theorem mapGet_putLine (m : List (Int × Nat)) (e : Emitted) (n : Nat) (a : Int) :
    mapGet (putLine m e n) a =
      if e.addr ≤ a ∧ a < e.addr + (n : Int) then some e.bytes[(a - e.addr).toNat]!
      else mapGet m a := by
  induction n with
  | zero =>
    have : ¬ (e.addr ≤ a ∧ a < e.addr + ((0 : Nat) : Int)) := by omega
    rw [if_neg this]
    rfl
  | succ n ih =>
    rw [putLine_succ, mapGet_mput, ih]
    by_cases h : a = e.addr + (n : Int)
    · have h1 : e.addr ≤ a ∧ a < e.addr + ((n + 1 : Nat) : Int) := by omega
      have h2 : (a - e.addr).toNat = n := by omega
      rw [if_pos h, if_pos h1, h2]
    · rw [if_neg h]
      by_cases h1 : e.addr ≤ a ∧ a < e.addr + (n : Int)
      · have h2 : e.addr ≤ a ∧ a < e.addr + ((n + 1 : Nat) : Int) := by omega
        rw [if_pos h1, if_pos h2]
      · have h2 : ¬ (e.addr ≤ a ∧ a < e.addr + ((n + 1 : Nat) : Int)) := by omega
        rw [if_neg h1, if_neg h2]

/-- the predicate of `specImageByte`: an unmuted byte line covers `a` -/
def cov (e : Emitted) (a : Int) : Bool :=
  e.isByte && !e.muted && decide (e.addr ≤ a) && decide (a < e.addr + e.bytes.length)

theorem cov_iff (e : Emitted) (a : Int) :
    cov e a = true ↔
      e.isByte = true ∧ e.muted = false ∧ e.addr ≤ a ∧ a < e.addr + e.bytes.length := by
  simp [cov, and_assoc]

/-- the outer loop body -/
def lineStep (m : List (Int × Nat)) (e : Emitted) : List (Int × Nat) :=
  if e.isByte && !e.muted then putLine m e e.bytes.length else m

theorem memMap_eq (es : List Emitted) : memMap es = es.foldl lineStep [] := rfl

theorem mapGet_lineStep (m : List (Int × Nat)) (e : Emitted) (a : Int) :
    mapGet (lineStep m e) a =
      if cov e a = true then some e.bytes[(a - e.addr).toNat]! else mapGet m a := by
  unfold lineStep
  by_cases h : (e.isByte && !e.muted) = true
  · rw [if_pos h, mapGet_putLine]
    have : cov e a = true ↔ (e.addr ≤ a ∧ a < e.addr + (e.bytes.length : Int)) := by
      rw [cov_iff]
      simp only [Bool.and_eq_true, Bool.not_eq_true'] at h
      constructor
      · intro hc; exact hc.2.2
      · intro hc; exact ⟨h.1, h.2, hc⟩
    by_cases hc : cov e a = true
    · rw [if_pos hc, if_pos (this.mp hc)]
    · rw [if_neg hc, if_neg (fun h' => hc (this.mpr h'))]
  · rw [if_neg h]
    have : ¬ cov e a = true := by
      intro hc
      rw [cov_iff] at hc
      apply h
      simp [hc.1, hc.2.1]
    rw [if_neg this]

theorem mapGet_foldl_uncovered (es : List Emitted) (a : Int) :
    ∀ (m : List (Int × Nat)), (∀ e ∈ es, cov e a = false) →
      mapGet (es.foldl lineStep m) a = mapGet m a := by
  induction es with
  | nil => intro m _; rfl
  | cons e es ih =>
    intro m h
    rw [List.foldl_cons, ih _ (fun e' he' => h e' (List.mem_cons_of_mem _ he')), mapGet_lineStep]
    have := h e List.mem_cons_self
    rw [if_neg (by simp [this])]

/-- the last covering line wins -/
theorem mapGet_foldl_last (l₁ l₂ : List Emitted) (e : Emitted) (a : Int) (m : List (Int × Nat))
    (hc : cov e a = true) (h₂ : ∀ e' ∈ l₂, cov e' a = false) :
    mapGet ((l₁ ++ e :: l₂).foldl lineStep m) a = some e.bytes[(a - e.addr).toNat]! := by
  rw [List.foldl_append, List.foldl_cons, mapGet_foldl_uncovered l₂ a _ h₂, mapGet_lineStep,
    if_pos hc]

theorem mapGet_foldl_isSome (es : List Emitted) (a : Int) :
    ∀ (m : List (Int × Nat)), ((mapGet m a).isSome = true ∨ ∃ e ∈ es, cov e a = true) →
      (mapGet (es.foldl lineStep m) a).isSome = true := by
  induction es with
  | nil =>
    intro m h
    rcases h with h | ⟨e, he, _⟩
    · exact h
    · cases he
  | cons e es ih =>
    intro m h
    rw [List.foldl_cons]
    apply ih
    by_cases hc : cov e a = true
    · left; rw [mapGet_lineStep, if_pos hc]; rfl
    · rcases h with h | ⟨e', he', hc'⟩
      · left; rw [mapGet_lineStep, if_neg hc]; exact h
      · rcases List.mem_cons.mp he' with rfl | he'
        · exact absurd hc' hc
        · right; exact ⟨e', he', hc'⟩

theorem mapGet_isSome_of_mem (m : List (Int × Nat)) (a : Int) (b : Nat) (h : (a, b) ∈ m) :
    (mapGet m a).isSome = true := by
  unfold mapGet
  rw [Option.isSome_map, List.find?_isSome]
  exact ⟨(a, b), h, by simp⟩

theorem mem_of_mapGet_isSome (m : List (Int × Nat)) (a : Int) (h : (mapGet m a).isSome = true) :
    ∃ b, (a, b) ∈ m := by
  unfold mapGet at h
  rw [Option.isSome_map, List.find?_isSome] at h
  obtain ⟨x, hx, hxa⟩ := h
  have : x.1 = a := by simpa using hxa
  exact ⟨x.2, by rw [← this]; exact hx⟩

/-! ## the highest address -/

def maxStep (acc : Option Int) (e : Int × Nat) : Option Int :=
  match acc with | none => some e.1 | some x => some (max x e.1)

theorem maxAddr_eq (m : List (Int × Nat)) : maxAddr m = m.foldl maxStep none := rfl

theorem maxFold_some (m : List (Int × Nat)) : ∀ (y : Int),
    ∃ x, m.foldl maxStep (some y) = some x ∧ y ≤ x ∧ (x = y ∨ ∃ b, (x, b) ∈ m) ∧
      ∀ k b, (k, b) ∈ m → k ≤ x := by
  induction m with
  | nil => intro y; exact ⟨y, rfl, Int.le_refl _, Or.inl rfl, by intro k b h; cases h⟩
  | cons e m ih =>
    intro y
    obtain ⟨x, hx, hle, hmem, hmax⟩ := ih (max y e.1)
    refine ⟨x, hx, by omega, ?_, ?_⟩
    · rcases hmem with h | ⟨b, hb⟩
      · by_cases hy : e.1 ≤ y
        · left; omega
        · right; exact ⟨e.2, by
            have : x = e.1 := by omega
            rw [this]; exact List.mem_cons_self⟩
      · right; exact ⟨b, List.mem_cons_of_mem _ hb⟩
    · intro k b hk
      rcases List.mem_cons.mp hk with rfl | hk
      · have : max y k ≤ x := hle
        omega
      · exact hmax k b hk

/-! ## the map and the image in terms of `cov` -/

/-- no two unmuted byte lines cover a common address -/
def NoCommon (es : List Emitted) : Prop :=
  es.Pairwise fun e e' => ∀ a, ¬ (cov e a = true ∧ cov e' a = true)

theorem cov_index_lt (e : Emitted) (a : Int) (hc : cov e a = true) :
    (a - e.addr).toNat < e.bytes.length := by
  have := ((cov_iff e a).mp hc).2.2
  omega

theorem mapGet_memMap_uncovered (es : List Emitted) (a : Int) (h : ∀ e ∈ es, cov e a = false) :
    mapGet (memMap es) a = none := by
  rw [memMap_eq, mapGet_foldl_uncovered es a [] h]
  rfl

theorem mapGet_memMap_covered (es : List Emitted) (hno : NoCommon es) (e : Emitted) (he : e ∈ es)
    (a : Int) (hc : cov e a = true) :
    mapGet (memMap es) a = some e.bytes[(a - e.addr).toNat]! := by
  obtain ⟨l₁, l₂, rfl⟩ := List.mem_iff_append.mp he
  have h₂ : ∀ e' ∈ l₂, cov e' a = false := by
    intro e' he'
    unfold NoCommon at hno
    rw [List.pairwise_append, List.pairwise_cons] at hno
    have hne := hno.2.1.1 e' he' a
    cases hce : cov e' a with
    | false => rfl
    | true => exact absurd ⟨hc, hce⟩ hne
  rw [memMap_eq, mapGet_foldl_last l₁ l₂ e a [] hc h₂]

theorem mapGet_memMap_isSome (es : List Emitted) (a : Int) (h : ∃ e ∈ es, cov e a = true) :
    (mapGet (memMap es) a).isSome = true := by
  rw [memMap_eq]
  exact mapGet_foldl_isSome es a [] (Or.inr h)

theorem memMap_mem_covered (es : List Emitted) (a : Int) (b : Nat) (h : (a, b) ∈ memMap es) :
    ∃ e ∈ es, cov e a = true := by
  apply Classical.byContradiction
  intro hne
  have hun := mapGet_memMap_uncovered es a (by
    intro e he
    cases hce : cov e a with
    | false => rfl
    | true => exact absurd ⟨e, he, hce⟩ hne)
  have hs := mapGet_isSome_of_mem _ a b h
  rw [hun] at hs
  cases hs

theorem specImageByte_eq (es : List Emitted) (hno : NoCommon es) (fill : Nat) (a : Int) :
    specImageByte es fill a = (mapGet (memMap es) a).getD fill := by
  have hspec : specImageByte es fill a =
      match es.find? (fun e => cov e a) with
      | some e => e.bytes[(a - e.addr).toNat]!
      | none => fill := rfl
  rw [hspec]
  cases hf : es.find? (fun e => cov e a) with
  | none =>
    have hun := mapGet_memMap_uncovered es a (by
      intro e he
      have := List.find?_eq_none.mp hf e he
      simpa using this)
    rw [hun]
    rfl
  | some e =>
    rw [mapGet_memMap_covered es hno e (List.mem_of_find?_eq_some hf) a
      (List.find?_some (p := fun e => cov e a) hf)]
    rfl

theorem imageOf_length (start : Int) (stop : Option Int) (fill : Nat) (m : List (Int × Nat)) :
    (imageOf start stop fill m).length =
      ((match stop with | some e => e | none => (maxAddr m).getD (start - 1)) + 1 - start).toNat := by
  cases stop <;> simp only [imageOf, List.length_map, List.length_range]

theorem imageOf_getElem? (start : Int) (stop : Option Int) (fill : Nat) (m : List (Int × Nat))
    (i : Nat) (hi : i < (imageOf start stop fill m).length) :
    (imageOf start stop fill m)[i]? = some ((mapGet m (start + (i : Int))).getD fill) := by
  cases stop <;>
  · simp only [imageOf, List.length_map, List.length_range] at hi
    simp only [imageOf, List.getElem?_map, List.getElem?_range hi, Option.map_some]

theorem imageOf_eq_spec (es : List Emitted) (hno : NoCommon es) (start : Int) (stop : Option Int)
    (fill : Nat) :
    imageOf start stop fill (memMap es) =
      (List.range ((match stop with
          | some e => e
          | none => (maxAddr (memMap es)).getD (start - 1)) + 1 - start).toNat).map
        fun (i : Nat) => specImageByte es fill (start + (i : Int)) := by
  cases stop <;>
  · simp only [imageOf]
    apply List.map_congr_left
    intro i _
    rw [specImageByte_eq es hno]

theorem maxAddr_none_iff' (m : List (Int × Nat)) : maxAddr m = none ↔ m = [] := by
  cases m with
  | nil => exact ⟨fun _ => rfl, fun _ => rfl⟩
  | cons e m =>
    obtain ⟨x, hx, _⟩ := maxFold_some m e.1
    have : maxAddr (e :: m) = some x := hx
    rw [this]
    exact ⟨fun h => (nomatch h), fun h => (nomatch h)⟩

theorem maxAddr_is_max' (m : List (Int × Nat)) (x : Int) (h : maxAddr m = some x) :
    (∃ b, (x, b) ∈ m) ∧ ∀ k b, (k, b) ∈ m → k ≤ x := by
  cases m with
  | nil => cases h
  | cons e m =>
    obtain ⟨x', hx', hle, hmem, hmax⟩ := maxFold_some m e.1
    have h' : maxAddr (e :: m) = some x' := hx'
    rw [h'] at h
    cases h
    refine ⟨?_, ?_⟩
    · rcases hmem with rfl | ⟨b, hb⟩
      · exact ⟨e.2, List.mem_cons_self⟩
      · exact ⟨b, List.mem_cons_of_mem _ hb⟩
    · intro k b hk
      rcases List.mem_cons.mp hk with rfl | hk
      · exact hle
      · exact hmax k b hk

theorem maxAddr_memMap (es : List Emitted) (x : Int) (h : maxAddr (memMap es) = some x) :
    (∃ e ∈ es, cov e x = true) ∧ ∀ a, (∃ e ∈ es, cov e a = true) → a ≤ x := by
  obtain ⟨⟨b, hb⟩, hmax⟩ := maxAddr_is_max' _ x h
  refine ⟨memMap_mem_covered es x b hb, ?_⟩
  intro a ha
  obtain ⟨b', hb'⟩ := mem_of_mapGet_isSome _ a (mapGet_memMap_isSome es a ha)
  exact hmax a b' hb'

end BV
