/-
  A muted line is assembled all the same: its bytes are built (and its names and constraints checked) although
  nothing of it reaches the image.
-/
import BespokeVerif.Model.Layout
namespace BV

theorem emitAll_all_ok (cfg : Cfg) (L : Labels) (ps : List Placed) (es : List Emitted)
    (h : emitAll cfg L ps = .ok es) : ∀ p ∈ ps, ∃ bs, lineBytes cfg L p = .ok bs := by
  induction ps generalizing es with
  | nil => intro p hp; cases hp
  | cons q rest ih =>
    rw [emitAll] at h
    cases hb : lineBytes cfg L q with
    | error e => rw [hb] at h; cases h
    | ok bs =>
      rw [hb] at h
      cases hr : emitAll cfg L rest with
      | error e => rw [hr] at h; cases h
      | ok es' =>
        intro p hp
        rcases List.mem_cons.1 hp with rfl | hp
        · exact ⟨bs, hb⟩
        · exact ih es' hr p hp

/-- one line whose bytes cannot be built - muted or not - and nothing is emitted -/
theorem emitAll_error_of_line (cfg : Cfg) (L : Labels) (ps : List Placed) (p : Placed) (hp : p ∈ ps) (e : Err)
    (he : lineBytes cfg L p = .error e) : ∃ e', emitAll cfg L ps = .error e' := by
  cases h : emitAll cfg L ps with
  | error e' => exact ⟨e', rfl⟩
  | ok es =>
    obtain ⟨bs, hb⟩ := emitAll_all_ok cfg L ps es h p hp
    rw [he] at hb; cases hb

/-- an accepted program has no line - muted or not - whose bytes could not be built -/
theorem assemble_all_lines_built (cfg : Cfg) (files : List (List Stmt)) (start : Int) (stop : Option Int) (fill : Nat)
    (o : Outcome) (h : assemble cfg files start stop fill = .ok o) :
    ∃ sorted L, assemblePlaced cfg files = .ok (sorted, L) ∧ ∀ p ∈ sorted, ∃ bs, lineBytes cfg L p = .ok bs := by
  unfold assemble at h
  cases hl : assembleLines cfg files with
  | error e => rw [hl] at h; cases h
  | ok r =>
    obtain ⟨es, L⟩ := r
    unfold assembleLines at hl
    cases hp : assemblePlaced cfg files with
    | error e => rw [hp] at hl; cases hl
    | ok pr =>
      obtain ⟨sorted, L'⟩ := pr
      rw [hp] at hl
      simp only [bind, Except.bind] at hl
      cases he : emitAll cfg L' sorted with
      | error e => rw [he] at hl; cases hl
      | ok es' =>
        exact ⟨sorted, L', rfl, emitAll_all_ok cfg L' sorted es' he⟩
end BV
