import BespokeVerif.Model.Select
import BespokeVerif.Lemmas.Bits
/-
  Helper lemmas for property C13 (variant / operand selection).
-/
namespace BV

/-! ## `sortByRank`: a stable insertion sort -/

theorem insertByRank'_perm {α : Type} (rank : α → Nat) (x : α) (l : List α) :
    (sortByRank.insertByRank' rank x l).Perm (x :: l) := by
  induction l with
  | nil => simp [sortByRank.insertByRank']
  | cons y ys ih =>
    simp only [sortByRank.insertByRank']
    split
    · exact List.Perm.refl _
    · exact (List.Perm.cons y ih).trans (List.Perm.swap x y ys)

theorem sortByRank_cons {α : Type} (rank : α → Nat) (x : α) (l : List α) :
    sortByRank rank (x :: l) = sortByRank.insertByRank' rank x (sortByRank rank l) := by
  simp [sortByRank]

theorem sortByRank_nil {α : Type} (rank : α → Nat) : sortByRank rank ([] : List α) = [] := by
  simp [sortByRank]

theorem sortByRank_perm' {α : Type} (rank : α → Nat) (l : List α) : (sortByRank rank l).Perm l := by
  induction l with
  | nil => simp [sortByRank_nil]
  | cons x xs ih =>
    rw [sortByRank_cons]
    exact (insertByRank'_perm rank x _).trans (List.Perm.cons x ih)

theorem insertByRank'_sorted {α : Type} (rank : α → Nat) (x : α) (l : List α)
    (h : l.Pairwise fun a b => rank a ≤ rank b) :
    (sortByRank.insertByRank' rank x l).Pairwise fun a b => rank a ≤ rank b := by
  induction l with
  | nil => simp [sortByRank.insertByRank']
  | cons y ys ih =>
    simp only [sortByRank.insertByRank']
    rw [List.pairwise_cons] at h
    split
    · rename_i hxy
      rw [List.pairwise_cons]
      refine ⟨?_, List.pairwise_cons.mpr h⟩
      intro b hb
      rcases List.mem_cons.mp hb with rfl | hb
      · exact hxy
      · exact Nat.le_trans hxy (h.1 b hb)
    · rename_i hxy
      rw [List.pairwise_cons]
      refine ⟨?_, ih h.2⟩
      intro b hb
      have hb' := (insertByRank'_perm rank x ys).mem_iff.mp hb
      rcases List.mem_cons.mp hb' with rfl | hb'
      · omega
      · exact h.1 b hb'

theorem sortByRank_sorted' {α : Type} (rank : α → Nat) (l : List α) :
    (sortByRank rank l).Pairwise fun a b => rank a ≤ rank b := by
  induction l with
  | nil => simp [sortByRank_nil]
  | cons x xs ih =>
    rw [sortByRank_cons]
    exact insertByRank'_sorted rank x _ ih

theorem insertByRank'_filter {α : Type} (rank : α → Nat) (x : α) (l : List α) (k : Nat) :
    (sortByRank.insertByRank' rank x l).filter (fun a => rank a == k) =
      (x :: l).filter (fun a => rank a == k) := by
  induction l with
  | nil => simp [sortByRank.insertByRank']
  | cons y ys ih =>
    simp only [sortByRank.insertByRank']
    split
    · rfl
    · rename_i hxy
      rw [List.filter_cons, ih]
      by_cases hx : rank x = k
      · have hy : ¬ rank y = k := by omega
        simp [hx, hy]
      · simp [List.filter_cons, hx]

theorem sortByRank_stable' {α : Type} (rank : α → Nat) (l : List α) (k : Nat) :
    (sortByRank rank l).filter (fun a => rank a == k) = l.filter (fun a => rank a == k) := by
  induction l with
  | nil => simp [sortByRank_nil]
  | cons x xs ih =>
    rw [sortByRank_cons, insertByRank'_filter, List.filter_cons, List.filter_cons, ih]

/-! ## `firstAccept` -/

theorem firstAccept_ok (regs : List String) (gz : Int × Int) (f : Form) (l : List (String × OperandCfg))
    (p : ParsedOp) (h : firstAccept regs gz f l = .ok p) :
    ∃ pre x post, l = pre ++ x :: post ∧ accepts regs gz x.1 x.2 f = .ok p ∧
      ∀ y ∈ pre, accepts regs gz y.1 y.2 f = .decline := by
  induction l with
  | nil => simp [firstAccept] at h
  | cons x xs ih =>
    obtain ⟨id, c⟩ := x
    simp only [firstAccept] at h
    cases ha : accepts regs gz id c f with
    | ok q =>
      rw [ha] at h
      simp only [Acc.ok.injEq] at h
      subst h
      exact ⟨[], (id, c), xs, rfl, ha, by simp⟩
    | hard => rw [ha] at h; simp at h
    | decline =>
      rw [ha] at h
      obtain ⟨pre, x, post, hl, hx, hpre⟩ := ih h
      refine ⟨(id, c) :: pre, x, post, by simp [hl], hx, ?_⟩
      intro y hy
      rcases List.mem_cons.mp hy with rfl | hy
      · exact ha
      · exact hpre y hy

/-! ## `selectVariant` -/

theorem selectVariant_ok (regs : List String) (gz : Int × Int) (vs : List VariantCfg) (fs : List Form) (i j : Nat)
    (v : VariantCfg) (m : Matched) (h : selectVariant regs gz vs fs i = .ok (j, v, m)) :
    ∃ pre post, vs = pre ++ v :: post ∧ j = i + pre.length ∧
      (∀ u ∈ pre, matchVariant regs gz u fs = .decline) ∧ matchVariant regs gz v fs = .ok m := by
  induction vs generalizing i with
  | nil => simp [selectVariant] at h
  | cons u us ih =>
    simp only [selectVariant] at h
    cases hu : matchVariant regs gz u fs with
    | ok q =>
      rw [hu] at h
      simp only [Acc.ok.injEq, Prod.mk.injEq] at h
      obtain ⟨rfl, rfl, rfl⟩ := h
      exact ⟨[], us, rfl, by simp, by simp, hu⟩
    | hard => rw [hu] at h; simp at h
    | decline =>
      rw [hu] at h
      obtain ⟨pre, post, hl, hj, hpre, hv⟩ := ih (i + 1) h
      refine ⟨u :: pre, post, by simp [hl], by simp; omega, ?_, hv⟩
      intro y hy
      rcases List.mem_cons.mp hy with rfl | hy
      · exact hu
      · exact hpre y hy

theorem selectVariant_decline_iff (regs : List String) (gz : Int × Int) (vs : List VariantCfg) (fs : List Form) (i : Nat) :
    selectVariant regs gz vs fs i = .decline ↔ ∀ v ∈ vs, matchVariant regs gz v fs = .decline := by
  induction vs generalizing i with
  | nil => simp [selectVariant]
  | cons u us ih =>
    simp only [selectVariant, List.mem_cons, forall_eq_or_imp]
    cases hu : matchVariant regs gz u fs with
    | ok q => simp
    | hard => simp
    | decline => simpa using ih (i + 1)

/-! ## `accepts` on particular operand types -/

theorem accepts_numeric_plain (regs gz id code arg va e) :
    accepts regs gz id (.numeric code arg va) (.plain e) =
    if hasReg regs e then .decline
    else .ok { id := id, code := code.map codeField,
               arg := some (argField arg e (if va then .zone gz.1 gz.2 else .plain)) } := by
  simp only [accepts]

theorem accepts_address_plain (regs gz id code arg zs ze sliced e) :
    accepts regs gz id (.address code arg zs ze sliced) (.plain e) =
    if hasReg regs e then .decline
    else .ok { id := id, code := code.map codeField,
               arg := some (argField arg e (if sliced then .sliced zs ze else .zone zs ze)) } := by
  simp only [accepts]

theorem accepts_relAddr_plain (regs gz id code arg mn mx fe curly e) :
    accepts regs gz id (.relAddr code arg mn mx fe curly) (.plain e) =
    if curly then .decline
    else if hasReg regs e then .decline
    else .ok { id := id, code := code.map codeField, arg := some (argField arg e (.rel fe mn mx gz.1 gz.2)) } := by
  simp only [accepts]

theorem accepts_numBytecode_plain (regs gz id size pos mn mx e) :
    accepts regs gz id (.numBytecode size pos mn mx) (.plain e) =
    if hasReg regs e then .decline
    else .ok { id := id, code := some ({ e := e, kind := .ranged (some mn) (some mx), size := size, align := false,
                                         little := false }, pos), arg := none } := by
  simp only [accepts]

theorem accepts_indNum_ind (regs gz id code arg e) :
    accepts regs gz id (.indNum code arg) (.ind e) =
    if !bracketOk e then .decline
    else if hasReg regs e then .decline
    else .ok { id := id, code := code.map codeField, arg := some (argField arg e .plain) } := by
  simp only [accepts]

theorem accepts_register_plain_label (regs gz id r code pre post s) :
    accepts regs gz id (.register r code pre post) (.plain (.label s)) =
    if pre == "" && post == "" && eqIgnoreCase s r then .ok { id := id, code := code.map codeField, arg := none }
    else .decline := by
  simp only [accepts]

end BV
