/-
  Helper lemmas for property C08 (conditional assembly): the condition-stack machine `runDirs`
  over a flattened block tree computes the tree semantics `selB/selL/selE`. Core Lean only.
-/
import BespokeVerif.Model.Cond
import BespokeVerif.Lemmas.Bits
namespace BV

/-! ## the stream semantics is compositional -/

theorem runDirs_append (ds₁ ds₂ : List Dir) (st : CondStack) (s : Sel) :
    runDirs (ds₁ ++ ds₂) st s = (runDirs ds₁ st s).bind fun p => runDirs ds₂ p.1 p.2 := by
  induction ds₁ generalizing st s with
  | nil => simp only [List.nil_append, runDirs, Except.bind]
  | cons d ds ih =>
    cases d with
    | item i =>
      cases i with
      | line id => simp only [List.cons_append, runDirs]; exact ih _ _
      | define n v =>
        simp only [List.cons_append, runDirs]
        split
        · cases h : addSym s.syms n v <;> simp only [bind, Except.bind, ih]
        · exact ih _ _
    | cond d =>
      simp only [List.cons_append, runDirs]
      cases h : condStep s.syms st d <;> simp only [bind, Except.bind, ih]

theorem active_cons (f : Frame) (st : CondStack) : CondStack.active (f :: st) = f.active := rfl
theorem active_nil : CondStack.active [] = true := rfl

/-! ## single steps of the condition stack in normal form -/

theorem condStep_endif (t : SymTab) (f : Frame) (rest : CondStack) :
    condStep t (f :: rest) .endif = .ok rest := rfl

theorem condStep_else (t : SymTab) (f : Frame) (rest : CondStack) (hk : f.kind ≠ .elsek) :
    condStep t (f :: rest) .elsec =
      .ok ({ active := rest.active && !f.taken, taken := f.taken || (rest.active && !f.taken),
             kind := .elsek } :: rest) := by
  simp only [condStep, hk, if_false, pushFrame, bind, Except.bind, pure, Except.pure]

theorem condStep_elif (t : SymTab) (c : CondExp) (f : Frame) (rest : CondStack)
    (hk : f.kind ≠ .elsek) :
    condStep t (f :: rest) (.elifc c) =
      (if rest.active && !f.taken then condHolds t c else pure false).bind fun h =>
        .ok ({ active := h, taken := f.taken || h, kind := .elifk } :: rest) := by
  simp only [condStep, hk, if_false, pushFrame, bind, Except.bind, pure, Except.pure]
  split <;> rename_i h
  · cases hc : condHolds t c <;> rfl
  · rfl

def openerKind : Opener → FrameKind
  | .ifc _ => .ifk
  | _ => .ifdefk

theorem openerKind_ne (o : Opener) : openerKind o ≠ .elsek := by
  cases o <;> simp [openerKind]

theorem condStep_opener (t : SymTab) (o : Opener) (st : CondStack) :
    condStep t st o.toDir =
      (if st.active then openerHolds t o else pure false).bind fun c0 =>
        .ok ({ active := st.active && c0, taken := st.active && c0, kind := openerKind o } :: st) := by
  cases o with
  | ifc c =>
    simp only [Opener.toDir, condStep, pushFrame, bind, Except.bind, pure, Except.pure, openerHolds,
      openerKind, Bool.not_false, Bool.and_true, Bool.false_or]
    cases hon : st.active
    · rfl
    · simp only [if_true]
      cases hc : condHolds t c <;> simp only [Bool.true_and]
  | ifdef n =>
    simp only [Opener.toDir, condStep, pushFrame, bind, Except.bind, pure, Except.pure, openerHolds,
      openerKind, Bool.not_false, Bool.and_true, Bool.false_or]
    cases hon : st.active <;> simp
  | ifndef n =>
    simp only [Opener.toDir, condStep, pushFrame, bind, Except.bind, pure, Except.pure, openerHolds,
      openerKind, Bool.not_false, Bool.and_true, Bool.false_or]
    cases hon : st.active <;> simp

/-! ## the refinement statements, one per syntactic class -/

def RunB (b : Block) : Prop := ∀ (st : CondStack) (s : Sel),
  runDirs (flattenB b) st s = (selB st.active s b).map fun s' => (st, s')

def RunL (bs : List Block) : Prop := ∀ (st : CondStack) (s : Sel),
  runDirs (flattenL bs) st s = (selL st.active s bs).map fun s' => (st, s')

/-- the `#elif` part of a chain whose frame `f` is on top of `rest`, followed by any tail that only
    looks at the `taken` flag of the chain's frame (and needs it not to be an `#else` frame) -/
def RunE (es : List (CondExp × List Block)) : Prop :=
  ∀ (f : Frame) (rest : CondStack) (s : Sel) (tail : List Dir)
    (R : Sel → Bool → Except Err (CondStack × Sel)),
    f.kind ≠ .elsek →
    (∀ (f' : Frame) (s' : Sel), f'.kind ≠ .elsek → runDirs tail (f' :: rest) s' = R s' f'.taken) →
    runDirs (flattenE es ++ tail) (f :: rest) s =
      (selE rest.active f.taken s es).bind fun p => R p.1 p.2

theorem runB_item (i : Item) : RunB (.item i) := by
  intro st s
  cases i with
  | line id => simp only [flattenB, runDirs, selB, Except.map]
  | define n v =>
    simp only [flattenB, runDirs, selB]
    split
    · cases addSym s.syms n v <;> simp only [bind, Except.bind, Except.map]
    · simp only [Except.map]

theorem runL_nil : RunL [] := by
  intro st s
  simp only [flattenL, runDirs, selL, Except.map]

theorem runL_cons {b : Block} {bs : List Block} (hb : RunB b) (hbs : RunL bs) : RunL (b :: bs) := by
  intro st s
  simp only [flattenL, selL, runDirs_append, hb st s]
  cases selB st.active s b <;> simp only [Except.map, Except.bind, bind, hbs st _]

theorem runE_nil : RunE [] := by
  intro f rest s tail R hk hR
  simp only [flattenE, List.nil_append, selE, Except.bind, hR f s hk]

theorem runE_cons {c : CondExp} {b : List Block} {es : List (CondExp × List Block)}
    (hb : RunL b) (hes : RunE es) : RunE ((c, b) :: es) := by
  intro f rest s tail R hk hR
  simp only [flattenE, List.append_assoc, List.cons_append, List.nil_append, runDirs, selE,
    condStep_elif _ _ _ _ hk]
  cases hon : rest.active && !f.taken
  · simp only [Bool.false_eq_true, if_false, pure, Except.pure, bind, Except.bind]
    rw [runDirs_append, hb, active_cons]
    simp only [Bool.and_false, Bool.or_false]
    cases selL false s b
    · simp only [Except.map, Except.bind]
    · simp only [Except.map, Except.bind]
      exact hes _ rest _ tail R (by simp) hR
  · simp only [if_true, bind, Except.bind]
    cases hc : condHolds s.syms c with
    | error e => rfl
    | ok h =>
      simp only
      rw [runDirs_append, hb, active_cons]
      have hra : rest.active = true := by
        cases hr : rest.active
        · rw [hr] at hon; simp at hon
        · rfl
      simp only [hra, Bool.true_and]
      cases selL h s b with
      | error e => simp only [Except.map, Except.bind]
      | ok s1 =>
        simp only [Except.map, Except.bind]
        have := hes { active := h, taken := f.taken || h, kind := .elifk } rest s1 tail R (by simp) hR
        simp only [hra] at this
        exact this

/-- what the part of a chain after its `#elif`s does, as a function of the chain's `taken` flag -/
def elseSel (on : Bool) (els : Option (List Block)) (s : Sel) (taken : Bool) : Except Err Sel :=
  match els with
  | none => .ok s
  | some b => selL (on && !taken) s b

def elseDirs (els : Option (List Block)) : List Dir :=
  (match els with | none => [] | some b => [.cond .elsec] ++ flattenL b) ++ [.cond .endif]

theorem run_elseDirs (els : Option (List Block)) (hels : ∀ b, els = some b → RunL b)
    (rest : CondStack) (f' : Frame) (s' : Sel) (hk : f'.kind ≠ .elsek) :
    runDirs (elseDirs els) (f' :: rest) s' =
      (elseSel rest.active els s' f'.taken).map fun s'' => (rest, s'') := by
  cases els with
  | none =>
    simp only [elseDirs, List.nil_append, runDirs, condStep_endif, bind, Except.bind, elseSel,
      Except.map]
  | some b =>
    simp only [elseDirs, elseSel, List.cons_append, List.nil_append, runDirs, condStep_else _ _ _ hk,
      bind, Except.bind]
    rw [runDirs_append, hels b rfl, active_cons]
    cases selL (rest.active && !f'.taken) s' b <;>
      simp only [Except.map, Except.bind, runDirs, condStep_endif, bind]

theorem runB_chain (o : Opener) (body : List Block) (elifs : List (CondExp × List Block))
    (els : Option (List Block)) (hbody : RunL body) (helifs : RunE elifs)
    (hels : ∀ b, els = some b → RunL b) : RunB (.chain o body elifs els) := by
  intro st s
  have hflat : flattenB (.chain o body elifs els) =
      .cond o.toDir :: (flattenL body ++ (flattenE elifs ++ elseDirs els)) := by
    cases els <;>
      simp only [flattenB, elseDirs, List.append_assoc, List.cons_append, List.nil_append]
  have hsel : ∀ on, selB on s (.chain o body elifs els) =
      (if on then openerHolds s.syms o else pure false).bind fun c0 =>
        (selL (on && c0) s body).bind fun s1 =>
          (selE on c0 s1 elifs).bind fun p => elseSel on els p.1 p.2 := by
    intro on
    cases els <;> cases on <;> (rw [selB]; rfl)
  rw [hflat, hsel]
  simp only [runDirs, condStep_opener, bind]
  cases hon : st.active
  · simp only [Bool.false_eq_true, if_false, pure, Except.pure, Except.bind, Bool.and_false]
    rw [runDirs_append, hbody, active_cons]
    cases selL false s body with
    | error e => simp only [Except.map, Except.bind]
    | ok s1 =>
      simp only [Except.map, Except.bind]
      have := helifs { active := false, taken := false, kind := openerKind o } st s1 (elseDirs els)
        (fun s' tk => (elseSel st.active els s' tk).map fun s'' => (st, s'')) (openerKind_ne o)
        (fun f' s' hk => run_elseDirs els hels st f' s' hk)
      rw [this, hon]
      cases selE false false s1 elifs <;> simp only [Except.map, Except.bind]
  · simp only [if_true, Except.bind, Bool.true_and]
    cases openerHolds s.syms o with
    | error e => simp only [Except.map]
    | ok c0 =>
      simp only
      rw [runDirs_append, hbody, active_cons]
      cases selL c0 s body with
      | error e => simp only [Except.map, Except.bind]
      | ok s1 =>
        simp only [Except.map, Except.bind]
        have := helifs { active := c0, taken := c0, kind := openerKind o } st s1 (elseDirs els)
          (fun s' tk => (elseSel st.active els s' tk).map fun s'' => (st, s'')) (openerKind_ne o)
          (fun f' s' hk => run_elseDirs els hels st f' s' hk)
        rw [this, hon]
        cases selE true c0 s1 elifs <;> simp only [Except.map, Except.bind]

/-! ## the mutual structural induction -/

mutual
theorem runB_all : ∀ b : Block, RunB b
  | .item i => runB_item i
  | .chain o body elifs none =>
    runB_chain o body elifs none (runL_all body) (runE_all elifs) (fun _ h => nomatch h)
  | .chain o body elifs (some eb) =>
    runB_chain o body elifs (some eb) (runL_all body) (runE_all elifs)
      (fun _ h => Option.some.inj h ▸ runL_all eb)
theorem runL_all : ∀ bs : List Block, RunL bs
  | [] => runL_nil
  | b :: bs => runL_cons (runB_all b) (runL_all bs)
theorem runE_all : ∀ es : List (CondExp × List Block), RunE es
  | [] => runE_nil
  | (_, b) :: es => runE_cons (runL_all b) (runE_all es)
end

/-! ## nothing happens inside an unselected branch -/

def OffB (b : Block) : Prop := ∀ s : Sel, selB false s b = .ok s
def OffL (bs : List Block) : Prop := ∀ s : Sel, selL false s bs = .ok s
def OffE (es : List (CondExp × List Block)) : Prop :=
  ∀ (s : Sel) (taken : Bool), selE false taken s es = .ok (s, taken)

theorem offB_item (i : Item) : OffB (.item i) := by
  intro s
  cases i <;> simp only [selB, Bool.false_eq_true, if_false]

theorem offL_cons {b : Block} {bs : List Block} (hb : OffB b) (hbs : OffL bs) : OffL (b :: bs) := by
  intro s
  simp only [selL, hb s, bind, Except.bind, hbs s]

theorem offE_cons {c : CondExp} {b : List Block} {es : List (CondExp × List Block)}
    (hb : OffL b) (hes : OffE es) : OffE ((c, b) :: es) := by
  intro s taken
  simp only [selE, Bool.false_and, Bool.false_eq_true, if_false, pure, Except.pure, bind,
    Except.bind, hb s, hes s, Bool.or_false]

theorem offB_chain (o : Opener) (body : List Block) (elifs : List (CondExp × List Block))
    (els : Option (List Block)) (hbody : OffL body) (helifs : OffE elifs)
    (hels : ∀ b, els = some b → OffL b) : OffB (.chain o body elifs els) := by
  intro s
  cases els with
  | none =>
    rw [selB]
    simp only [Bool.false_eq_true, if_false, pure, Except.pure, bind, Except.bind, Bool.false_and,
      hbody s, helifs s]
  | some b =>
    rw [selB]
    simp only [Bool.false_eq_true, if_false, pure, Except.pure, bind, Except.bind, Bool.false_and,
      hbody s, helifs s, hels b rfl s]

mutual
theorem offB_all : ∀ b : Block, OffB b
  | .item i => offB_item i
  | .chain o body elifs none =>
    offB_chain o body elifs none (offL_all body) (offE_all elifs) (fun _ h => nomatch h)
  | .chain o body elifs (some eb) =>
    offB_chain o body elifs (some eb) (offL_all body) (offE_all elifs)
      (fun _ h => Option.some.inj h ▸ offL_all eb)
theorem offL_all : ∀ bs : List Block, OffL bs
  | [] => fun _ => by simp only [selL]
  | b :: bs => offL_cons (offB_all b) (offL_all bs)
theorem offE_all : ∀ es : List (CondExp × List Block), OffE es
  | [] => fun _ _ => by simp only [selE]
  | (_, b) :: es => offE_cons (offL_all b) (offE_all es)
end

/-! ## numeric conditions -/

theorem truncQ_intCast (n : Int) : truncQ (n : Rat) = n := by
  simp only [truncQ, Rat.num_intCast, Rat.den_intCast, Int.natCast_one, Int.tdiv_one]

theorem condHolds_num (t : SymTab) (a b : Int) (op : CmpOp) :
    condHolds t { lhs := .num a, op := op, rhs := .num b } = .ok (cmpInt op a b) := by
  simp only [condHolds, substE, bind, Except.bind, hasLabel, Bool.or_self, Bool.false_eq_true,
    if_false, valueE, evalE, truncQ_intCast]

end BV
