import BespokeVerif.Model.Layout
import BespokeVerif.Lemmas.Bits
