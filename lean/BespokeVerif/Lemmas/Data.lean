/-
  Helper lemmas for property C11 (data / fill / string directives).
-/
import BespokeVerif.Model.Layout
import BespokeVerif.Lemmas.Bits
import BespokeVerif.Lemmas.ExprEval
namespace BV.DataLemmas
open BV

/-! ## `byteAt` arithmetic -/

theorem byteAt_zero (v : Int) : byteAt v 0 = (v % 256).toNat := by
  unfold byteAt
  simp

theorem byteAt_succ (v : Int) (k : Nat) : byteAt v (k + 1) = byteAt (v / 256) k := by
  unfold byteAt
  rw [Int.pow_succ, Int.mul_comm, Int.ediv_ediv_of_nonneg (by decide)]

theorem byteAt_mod (v : Int) (w j : Nat) (hj : j < w) :
    byteAt (v % (2 : Int) ^ (8 * w)) j = byteAt v j := by
  unfold byteAt
  have e : (2 : Int) ^ (8 * w) = 256 ^ j * (256 * 2 ^ (8 * (w - j - 1))) := by
    have : 8 * w = 8 * j + (8 + 8 * (w - j - 1)) := by omega
    rw [this, Int.pow_add, Int.pow_add, Int.pow_mul]; rfl
  have hA : (0 : Int) < 256 ^ j := Int.pow_pos (by decide)
  rw [e, EvalLemmas.ediv_emod_of_mask v _ 256 _ hA]

theorem byteAt_cast (v : Int) (k : Nat) : ((byteAt v k : Nat) : Int) = (v / 256 ^ k) % 256 := by
  unfold byteAt
  omega

theorem emod_mul_split (v M : Int) (hM : 0 < M) :
    v % 256 + 256 * ((v / 256) % M) = v % (256 * M) := by
  have h1 := Int.emod_add_mul_ediv v 256
  have h2 := Int.emod_add_mul_ediv (v / 256) M
  have h3 := Int.emod_nonneg (v / 256) (Int.ne_of_gt hM)
  have h4 := Int.emod_lt_of_pos (v / 256) hM
  generalize (v / 256) % M = s at *
  generalize (v / 256) / M = t at *
  generalize hq : v / 256 = q at *
  have h5 : 256 * s + 256 * M * t = 256 * q := by
    rw [← h2, Int.mul_add, Int.mul_assoc]
  have hv : v = (v % 256 + 256 * s) + (256 * M) * t := by
    omega
  have hr0 : 0 ≤ v % 256 := Int.emod_nonneg _ (by decide)
  have hr1 : v % 256 < 256 := Int.emod_lt_of_pos _ (by decide)
  generalize v % 256 = r at *
  rw [hv, Int.add_mul_emod_self_left]
  symm
  apply Int.emod_eq_of_lt <;> omega

/-! ## `wordBytes` -/

theorem wordBytes_length (w : Nat) (little : Bool) (v : Int) : (wordBytes w little v).length = w := by
  unfold wordBytes
  cases little <;> simp

theorem wordBytes_little (w : Nat) (v : Int) (j : Nat) (hj : j < w) :
    (wordBytes w true v)[j]? = some (byteAt v j) := by
  simp [wordBytes, hj]

theorem wordBytes_big (w : Nat) (v : Int) (j : Nat) (hj : j < w) :
    (wordBytes w false v)[j]? = some (byteAt v (w - 1 - j)) := by
  simp [wordBytes, hj]

theorem wordBytes_mod (w : Nat) (little : Bool) (v : Int) :
    wordBytes w little v = wordBytes w little (v % (2 : Int) ^ (8 * w)) := by
  have : (List.range w).map (byteAt v) = (List.range w).map (byteAt (v % (2 : Int) ^ (8 * w))) := by
    apply List.map_congr_left
    intro j hj
    exact (byteAt_mod v w j (List.mem_range.mp hj)).symm
  unfold wordBytes
  simp only [this]

theorem wordBytes_value (w : Nat) (v : Int) :
    ((wordBytes w true v).foldr (fun (b : Nat) (acc : Int) => (b : Int) + 256 * acc) (0 : Int))
      = v % (2 : Int) ^ (8 * w) := by
  simp only [wordBytes, if_true]
  induction w generalizing v with
  | zero => simp
  | succ w ih =>
    rw [List.range_succ_eq_map, List.map_cons, List.foldr_cons, List.map_map]
    have : (byteAt v ∘ Nat.succ) = byteAt (v / 256) := by
      funext k; exact byteAt_succ v k
    rw [this, ih, byteAt_cast]
    have hM : (0 : Int) < 2 ^ (8 * w) := Int.pow_pos (by decide)
    have e : (2 : Int) ^ (8 * (w + 1)) = 256 * 2 ^ (8 * w) := by
      have : 8 * (w + 1) = 8 + 8 * w := by omega
      rw [this, Int.pow_add]; rfl
    rw [e, ← emod_mul_split v _ hM]
    simp

/-! ## `mapM` in `Except` -/

theorem mapM_ok_length {α β ε : Type} (f : α → Except ε β) (l : List α) (r : List β)
    (h : l.mapM f = .ok r) : r.length = l.length := by
  induction l generalizing r with
  | nil => simp [List.mapM_nil, pure, Except.pure] at h; subst h; rfl
  | cons a l ih =>
    rw [List.mapM_cons] at h
    cases hf : f a with
    | error e => simp [hf, bind, Except.bind] at h
    | ok b =>
      cases hl : l.mapM f with
      | error e => simp [hf, hl, bind, Except.bind] at h
      | ok bs =>
        simp [hf, hl, bind, Except.bind, pure, Except.pure] at h
        subst h
        simp [ih bs hl]

theorem flatMap_wordBytes_length (w : Nat) (little : Bool) (vs : List Int) :
    (vs.flatMap (wordBytes w little)).length = w * vs.length := by
  induction vs with
  | nil => simp
  | cons v vs ih => simp [List.flatMap_cons, wordBytes_length, ih, Nat.mul_succ]; omega

end BV.DataLemmas
