/-
  Helper lemmas for C15 (determinism): every consumer of the register collection / the
  include-directory collection only depends on the collection up to permutation.
-/
import BespokeVerif.Model.Select
import BespokeVerif.Model.Layout
import BespokeVerif.Model.Include
import BespokeVerif.Lemmas.Include
import BespokeVerif.Lemmas.Bits
namespace BV

theorem det_contains_perm (regs regs' : List String) (h : regs.Perm regs') (s : String) :
    regs'.contains s = regs.contains s := by
  rw [Bool.eq_iff_iff, List.contains_iff_mem, List.contains_iff_mem]
  exact h.mem_iff.symm

theorem det_isRegName_perm (regs regs' : List String) (h : regs.Perm regs') (s : String) :
    isRegName regs' s = isRegName regs s := by
  unfold isRegName
  rw [Bool.eq_iff_iff, List.any_eq_true, List.any_eq_true]
  constructor
  · rintro ⟨r, hr, hp⟩; exact ⟨r, h.mem_iff.mpr hr, hp⟩
  · rintro ⟨r, hr, hp⟩; exact ⟨r, h.mem_iff.mp hr, hp⟩

theorem det_hasReg_perm (regs regs' : List String) (h : regs.Perm regs') (e : E) :
    hasReg regs' e = hasReg regs e := by
  unfold hasReg
  have : isRegName regs' = isRegName regs := funext (det_isRegName_perm regs regs' h)
  rw [this]

theorem det_acceptIdx_perm (regs regs' : List String) (h : regs.Perm regs') (gz : Int × Int) (id : String)
    (c : IdxCfg) (e : E) : acceptIdx regs' gz id c e = acceptIdx regs gz id c e := by
  unfold acceptIdx
  simp only [det_hasReg_perm regs regs' h]

theorem det_firstIdx_perm (regs regs' : List String) (h : regs.Perm regs') (gz : Int × Int) (e : E)
    (l : List (String × IdxCfg)) : firstIdx regs' gz e l = firstIdx regs gz e l := by
  induction l with
  | nil => rfl
  | cons x rest ih =>
    obtain ⟨id, c⟩ := x
    simp only [firstIdx, det_acceptIdx_perm regs regs' h, ih]

theorem det_accepts_perm (regs regs' : List String) (h : regs.Perm regs') (gz : Int × Int) (id : String)
    (c : OperandCfg) (f : Form) : accepts regs' gz id c f = accepts regs gz id c f := by
  have H : ∀ e, hasReg regs' e = hasReg regs e := det_hasReg_perm regs regs' h
  have H2 : ∀ gz e l, firstIdx regs' gz e l = firstIdx regs gz e l := det_firstIdx_perm regs regs' h
  have H3 : ∀ id r code off e, acceptIndReg regs' id r code off e = acceptIndReg regs id r code off e := by
    intro id r code off e
    unfold acceptIndReg
    simp only [H]
  unfold accepts
  simp only [H, H2, H3]

theorem det_firstAccept_perm (regs regs' : List String) (h : regs.Perm regs') (gz : Int × Int) (f : Form)
    (l : List (String × OperandCfg)) : firstAccept regs' gz f l = firstAccept regs gz f l := by
  induction l with
  | nil => rfl
  | cons x rest ih =>
    obtain ⟨id, c⟩ := x
    simp only [firstAccept, det_accepts_perm regs regs' h, ih]

theorem det_matchSet_perm (regs regs' : List String) (h : regs.Perm regs') (gz : Int × Int)
    (set : List (String × OperandCfg)) (f : Form) : matchSet regs' gz set f = matchSet regs gz set f := by
  unfold matchSet
  exact det_firstAccept_perm regs regs' h gz f _

theorem det_matchSets_perm (regs regs' : List String) (h : regs.Perm regs') (gz : Int × Int)
    (ss : List (List (String × OperandCfg))) (fs : List Form) :
    matchSets regs' gz ss fs = matchSets regs gz ss fs := by
  induction ss generalizing fs with
  | nil => cases fs <;> rfl
  | cons s ss ih =>
    cases fs with
    | nil => rfl
    | cons f fs => simp only [matchSets, det_matchSet_perm regs regs' h, ih]

theorem det_matchSpecificOps_perm (regs regs' : List String) (h : regs.Perm regs') (gz : Int × Int)
    (fs : List Form) (ops : List (String × OperandCfg)) (i nulls : Nat) (acc : List ParsedOp) :
    matchSpecificOps regs' gz fs ops i nulls acc = matchSpecificOps regs gz fs ops i nulls acc := by
  induction ops generalizing i nulls acc with
  | nil => rfl
  | cons x rest ih =>
    obtain ⟨id, c⟩ := x
    cases c <;> simp only [matchSpecificOps, det_accepts_perm regs regs' h, ih]

theorem det_matchSpecific_perm (regs regs' : List String) (h : regs.Perm regs') (gz : Int × Int)
    (count : Nat) (l : List SpecificCfg) (fs : List Form) :
    matchSpecific regs' gz count l fs = matchSpecific regs gz count l fs := by
  induction l with
  | nil => rfl
  | cons s rest ih => simp only [matchSpecific, det_matchSpecificOps_perm regs regs' h, ih]

theorem det_matchVariant_perm (regs regs' : List String) (h : regs.Perm regs') (gz : Int × Int)
    (v : VariantCfg) (fs : List Form) : matchVariant regs' gz v fs = matchVariant regs gz v fs := by
  unfold matchVariant
  simp only [det_matchSpecific_perm regs regs' h, det_matchSets_perm regs regs' h]

theorem det_selectVariant_perm (regs regs' : List String) (h : regs.Perm regs') (gz : Int × Int)
    (vs : List VariantCfg) (fs : List Form) (i : Nat) :
    selectVariant regs' gz vs fs i = selectVariant regs gz vs fs i := by
  induction vs generalizing i with
  | nil => rfl
  | cons v rest ih => simp only [selectVariant, det_matchVariant_perm regs regs' h, ih]

theorem det_lookup_perm (L : Labels) (regs regs' : List String) (h : regs.Perm regs') (sc : Scope)
    (name : String) : L.lookup regs' sc name = L.lookup regs sc name := by
  unfold Labels.lookup
  simp only [det_isRegName_perm regs regs' h]

/-- `locate` only depends on the directory collection up to permutation (no `Nodup` needed: with
    two or more hits both sides are the "found multiple times" error whatever the order) -/
theorem det_locate_perm (present : String → Bool) (dirs dirs' : List String) (hp : dirs.Perm dirs') :
    locate present dirs' = locate present dirs := by
  have hf : (dirs.filter present).Perm (dirs'.filter present) := hp.filter _
  rw [locate_eq_filter, locate_eq_filter]
  rcases h1 : dirs.filter present with _ | ⟨a, _ | ⟨b, t⟩⟩
  · rw [h1] at hf
    rw [List.nil_perm.1 hf]
  · rw [h1] at hf
    rw [List.singleton_perm.1 hf]
  · rw [h1] at hf
    have hl := hf.length_eq
    rcases h2 : dirs'.filter present with _ | ⟨a', _ | ⟨b', t'⟩⟩
    · simp [h2] at hl
    · simp [h2] at hl
    · rfl

theorem det_dedupDirs_perm (real : String → String) (dirs dirs' : List String) (hp : dirs.Perm dirs') :
    (dedupDirs real dirs).Perm (dedupDirs real dirs') := by
  refine (List.perm_ext_iff_of_nodup (dedupDirs_nodup' real dirs) (dedupDirs_nodup' real dirs')).2 ?_
  intro p
  rw [dedupDirs_mem', dedupDirs_mem']
  constructor
  · rintro ⟨d, hd, h⟩; exact ⟨d, hp.mem_iff.1 hd, h⟩
  · rintro ⟨d, hd, h⟩; exact ⟨d, hp.mem_iff.2 hd, h⟩

end BV
