/-
  Helper lemmas for property C07 (numeric expressions), split by topic:
  `ExprParse` (parser ↔ grammar, fuel), `ExprEval` (evaluation, bitwise ops, byte extraction),
  `ExprLex` (literal round trips through the scanner).
-/
import BespokeVerif.Model.Expr
import BespokeVerif.Lemmas.Bits
import BespokeVerif.Lemmas.ExprParse
import BespokeVerif.Lemmas.ExprEval
import BespokeVerif.Lemmas.ExprLex
