import BespokeVerif.Model.Output
import BespokeVerif.Lemmas.Bits
namespace BV

/-! ## hex helpers -/

theorem hexDigitChar_facts : ∀ d : Fin 16,
    isHexDigit (hexDigitChar d.val) = true ∧ hexVal (hexDigitChar d.val) = d.val := by
  decide

theorem isHexDigit_hexDigitChar {d : Nat} (h : d < 16) : isHexDigit (hexDigitChar d) = true :=
  (hexDigitChar_facts ⟨d, h⟩).1
theorem hexVal_hexDigitChar {d : Nat} (h : d < 16) : hexVal (hexDigitChar d) = d :=
  (hexDigitChar_facts ⟨d, h⟩).2

theorem parseHexPairs_hexByte_cons (b : Nat) (hb : b < 256) (rest : List Char) :
    parseHexPairs (hexByte b ++ rest) = (parseHexPairs rest).map (fun l => b :: l) := by
  have h1 : b / 16 % 16 < 16 := by omega
  have h2 : b % 16 < 16 := by omega
  simp only [hexByte, List.cons_append, List.nil_append, parseHexPairs,
    isHexDigit_hexDigitChar h1, isHexDigit_hexDigitChar h2, hexVal_hexDigitChar h1,
    hexVal_hexDigitChar h2, Bool.and_self, if_true]
  have : b / 16 % 16 * 16 + b % 16 = b := by omega
  rw [this]

theorem parseHexPairs_flatMap_hexByte (bs : List Nat) (h : ∀ b ∈ bs, b < 256) :
    parseHexPairs (bs.flatMap hexByte) = some bs := by
  induction bs with
  | nil => simp [parseHexPairs]
  | cons b bs ih =>
    rw [List.flatMap_cons, parseHexPairs_hexByte_cons b (h b (by simp)), ih (fun x hx => h x (by simp [hx]))]
    rfl

/-! ## Intel HEX -/

theorem foldl_add_eq (l : List Nat) (k : Nat) : l.foldl (· + ·) k = k + l.foldl (· + ·) 0 := by
  induction l generalizing k with
  | nil => simp
  | cons x xs ih => simp only [List.foldl_cons]; rw [ih (k + x), ih (0 + x)]; omega

theorem checksum_sum (r : IRec) : ((r.bytes.foldl (· + ·) 0) + r.checksum) % 256 = 0 := by
  unfold IRec.checksum; omega

theorem checksum_lt (r : IRec) : r.checksum < 256 := by
  unfold IRec.checksum; omega

theorem parseIRec_bytes (r : IRec) (h1 : r.addr < 65536) (h2 : r.typ < 256) (h3 : r.data.length < 256)
    (h4 : ∀ b ∈ r.data, b < 256) (c : Nat) (hc : c < 256) :
    parseIRec (':' :: (r.bytes ++ [c]).flatMap hexByte) =
      if c ≠ r.checksum then .error .other else .ok r := by
  have hall : ∀ b ∈ r.bytes ++ [c], b < 256 := by
    intro b hb
    simp only [IRec.bytes, List.mem_append, List.mem_cons, List.not_mem_nil, or_false] at hb
    rcases hb with ((hb | hb | hb | hb) | hb) | hb
    all_goals first | exact h4 b hb | omega
  unfold parseIRec
  simp only [parseHexPairs_flatMap_hexByte _ hall]
  have hlen : r.data.length % 256 = r.data.length := Nat.mod_eq_of_lt h3
  have haddr : r.addr / 256 % 256 * 256 + r.addr % 256 = r.addr := by omega
  have htyp : r.typ % 256 = r.typ := Nat.mod_eq_of_lt h2
  simp only [IRec.bytes, List.cons_append, List.nil_append, hlen, haddr, htyp, List.length_append,
    List.length_cons, List.length_nil, Nat.zero_add, ne_eq, not_true_eq_false, if_false,
    List.take_left', List.getLast?_append, List.getLast?_singleton, Option.some_or, Option.getD_some]

theorem range_map_split {α : Type} (n k : Nat) (f : Nat → α) (h : n ≤ k) :
    (List.range k).map f = (List.range n).map f ++ (List.range (k - n)).map (fun i => f (n + i)) := by
  obtain ⟨d, rfl⟩ : ∃ d, k = n + d := ⟨k - n, by omega⟩
  rw [List.range_add, List.map_append, List.map_map]
  have : n + d - n = d := by omega
  rw [this]; rfl

theorem getElem!_take_lt (bs : List Nat) {i n : Nat} (h : i < n) : (bs.take n)[i]! = bs[i]! := by
  simp [h]

theorem getElem!_drop' (bs : List Nat) (i n : Nat) : (bs.drop n)[i]! = bs[n + i]! := by
  simp [List.getElem?_drop]

theorem encRun_cons (fuel a : Nat) (b : Nat) (bs : List Nat) (up : Option Nat) :
    encRun (fuel + 1) a (b :: bs) up =
      ((if up = some (a / 65536) then []
          else [{ addr := 0, typ := 4, data := [a / 65536 / 256 % 256, a / 65536 % 256] }]) ++
        [{ addr := a % 65536, typ := 0,
           data := (b :: bs).take (min (min 16 (b :: bs).length) (65536 - a % 65536)) }] ++
        (encRun fuel (a + min (min 16 (b :: bs).length) (65536 - a % 65536))
          ((b :: bs).drop (min (min 16 (b :: bs).length) (65536 - a % 65536))) (some (a / 65536))).1,
       (encRun fuel (a + min (min 16 (b :: bs).length) (65536 - a % 65536))
          ((b :: bs).drop (min (min 16 (b :: bs).length) (65536 - a % 65536))) (some (a / 65536))).2) := by
  rw [encRun]
  exact fun h => List.cons_ne_nil _ _ h

theorem recsToMap_pre (a : Nat) (ha : a / 65536 < 65536) (up : Option Nat) (base : Int)
    (hb : ∀ hi, up = some hi → base = (hi : Int) * 65536) (r : IRec) (rest : List IRec) (m : AddrMap) :
    recsToMap ((if up = some (a / 65536) then []
          else [{ addr := 0, typ := 4, data := [a / 65536 / 256 % 256, a / 65536 % 256] }]) ++ [r] ++ rest) base m
      = recsToMap (r :: rest) ((a / 65536 : Nat) * 65536) m := by
  split
  · next h => rw [hb _ h]; rfl
  · simp only [List.cons_append, List.nil_append, recsToMap]
    have : a / 65536 / 256 % 256 * 256 + a / 65536 % 256 = a / 65536 := by omega
    simp [this]

theorem recsToMap_encRun_gen : ∀ (fuel : Nat) (bs : List Nat) (a : Nat) (up : Option Nat) (base : Int)
    (m : AddrMap), bs.length ≤ fuel → a + bs.length ≤ 2 ^ 32 →
    (∀ hi, up = some hi → base = (hi : Int) * 65536) →
    recsToMap (encRun fuel a bs up).1 base m =
      m ++ (List.range bs.length).map fun (i : Nat) => (((a + i : Nat) : Int), bs[i]!) := by
  intro fuel
  induction fuel with
  | zero =>
    intro bs a up base m hl _ _
    have : bs = [] := List.eq_nil_of_length_eq_zero (by omega)
    subst this
    simp [encRun, recsToMap]
  | succ fuel ih =>
    intro bs a up base m hl h32 hb
    cases bs with
    | nil => simp [encRun, recsToMap]
    | cons b bs =>
      rw [encRun_cons]
      generalize hn : min (min 16 (b :: bs).length) (65536 - a % 65536) = n
      have hlen : (b :: bs).length = bs.length + 1 := rfl
      have hn1 : 1 ≤ n := by omega
      have hn2 : n ≤ (b :: bs).length := by omega
      have hn3 : a % 65536 + n ≤ 65536 := by omega
      simp only []
      rw [recsToMap_pre a (by omega) up base hb]
      rw [recsToMap]
      simp only [if_true]
      rw [ih _ _ _ _ _ (by simp only [List.length_drop]; omega)
        (by simp only [List.length_drop]; omega) (by intro hi h; cases h; rfl)]
      rw [range_map_split n (b :: bs).length _ hn2, List.append_assoc]
      congr 1
      congr 1
      · rw [List.length_take, Nat.min_eq_left hn2]
        apply List.map_congr_left
        intro i hi
        rw [List.mem_range] at hi
        rw [getElem!_take_lt _ hi]
        congr 1
        omega
      · rw [List.length_drop]
        apply List.map_congr_left
        intro i _
        rw [getElem!_drop']
        congr 1
        omega

/-! ## compact hex -/

theorem getElem!_append_left' (l₁ l₂ : List Nat) {i : Nat} (h : i < l₁.length) :
    (l₁ ++ l₂)[i]! = l₁[i]! := by
  simp [List.getElem?_append_left h]

theorem getElem!_append_right' (l₁ l₂ : List Nat) (i : Nat) :
    (l₁ ++ l₂)[l₁.length + i]! = l₂[i]! := by
  simp [List.getElem?_append_right]

/-- the full rows cut from `all` decode to its first `16 * k` bytes -/
theorem mhRowsToMap_chunks (all : List Nat) : ∀ (k : Nat) (rest : List MHRow) (a : Int) (m : AddrMap),
    16 * k ≤ all.length →
    mhRowsToMap ((List.range k).map (fun i => MHRow.bytes ((all.drop (16 * i)).take 16)) ++ rest) a m =
      mhRowsToMap rest (a + ((16 * k : Nat) : Int))
        (m ++ (List.range (16 * k)).map fun (i : Nat) => (a + (i : Int), all[i]!)) := by
  intro k
  induction k with
  | zero => intro rest a m _; simp
  | succ k ih =>
    intro rest a m hk
    rw [List.range_succ, List.map_append, List.append_assoc, ih _ _ _ (by omega)]
    simp only [List.map_cons, List.map_nil, List.cons_append, List.nil_append, mhRowsToMap]
    have hl : ((all.drop (16 * k)).take 16).length = 16 := by
      rw [List.length_take, List.length_drop]; omega
    rw [hl, range_map_split (16 * k) (16 * (k + 1)) _ (by omega), List.append_assoc]
    have h16 : 16 * (k + 1) - 16 * k = 16 := by omega
    rw [h16]
    congr 1
    · omega
    · congr 1
      congr 1
      apply List.map_congr_left
      intro i hi
      rw [List.mem_range] at hi
      rw [getElem!_take_lt _ hi, getElem!_drop']
      congr 1
      omega

theorem outLinesMap_bytes_false (a : Int) (bs : List Nat) (rest : List OutLine) :
    outLinesMap (.bytes a bs false :: rest) =
      ((List.range bs.length).map fun (i : Nat) => (a + (i : Int), bs[i]!)) ++ outLinesMap rest := by
  rw [outLinesMap]
theorem outLinesMap_bytes_true (a : Int) (bs : List Nat) (rest : List OutLine) :
    outLinesMap (.bytes a bs true :: rest) = outLinesMap rest := by
  rw [outLinesMap]; simp
theorem outLinesMap_org (a : Int) (rest : List OutLine) :
    outLinesMap (.org a :: rest) = outLinesMap rest := by
  rw [outLinesMap]; simp
theorem outLinesMap_other (a : Int) (rest : List OutLine) :
    outLinesMap (.other a :: rest) = outLinesMap rest := by
  rw [outLinesMap]; simp

theorem outLinesMap_append_muted (a : Int) (bs : List Nat) (pre post : List OutLine) :
    outLinesMap (pre ++ .bytes a bs true :: post) = outLinesMap (pre ++ post) := by
  induction pre with
  | nil => simp [outLinesMap_bytes_true]
  | cons x pre ih =>
    cases x with
    | bytes a' bs' mu =>
      cases mu
      · simp only [List.cons_append, outLinesMap_bytes_false, ih]
      · simp only [List.cons_append, outLinesMap_bytes_true, ih]
    | org a' => simp only [List.cons_append, outLinesMap_org, ih]
    | other a' => simp only [List.cons_append, outLinesMap_other, ih]

theorem encMinHex_row_le_gen : ∀ (ols : List OutLine) (cur : List Nat), cur.length < 16 →
    ∀ r ∈ encMinHex ols cur, match r with | .bytes bs => bs.length ≤ 16 | .addr _ => True := by
  intro ols
  induction ols with
  | nil =>
    intro cur hc r hr
    simp only [encMinHex] at hr
    split at hr
    · simp at hr
    · simp only [List.mem_singleton] at hr; subst hr; simp only; omega
  | cons x ols ih =>
    intro cur hc r hr
    cases x with
    | bytes a bs mu =>
      cases mu
      · simp only [encMinHex, List.mem_append, List.mem_map, List.mem_range] at hr
        rcases hr with ⟨i, _, rfl⟩ | hr
        · simp only [List.length_take]; omega
        · refine ih _ ?_ r hr
          rw [List.length_drop]; omega
      · simp only [encMinHex] at hr
        exact ih _ hc r hr
    | org a =>
      simp only [encMinHex, List.mem_append, List.mem_singleton] at hr
      rcases hr with (hr | rfl) | hr
      · split at hr
        · simp at hr
        · simp only [List.mem_singleton] at hr; subst hr; simp only; omega
      · trivial
      · exact ih [] (by simp) r hr
    | other a =>
      simp only [encMinHex] at hr
      exact ih _ hc r hr

theorem minhex_roundtrip_gen : ∀ (ols : List OutLine) (cur : List Nat) (a run : Int) (m : AddrMap),
    everyGapHasOrg ols run = true → a + (cur.length : Int) = run →
    (∀ x, OutLine.org x ∈ ols → 0 ≤ x) →
    mhRowsToMap (encMinHex ols cur) a m =
      m ++ ((List.range cur.length).map fun (i : Nat) => (a + (i : Int), cur[i]!)) ++ outLinesMap ols := by
  intro ols
  induction ols with
  | nil =>
    intro cur a run m _ _ _
    simp only [encMinHex, outLinesMap, List.append_nil]
    split
    · next h => rw [List.isEmpty_iff] at h; subst h; simp [mhRowsToMap]
    · simp [mhRowsToMap]
  | cons x ols ih =>
    intro cur a run m hg hrun hnn
    have hnn' : ∀ x, OutLine.org x ∈ ols → 0 ≤ x := fun y hy => hnn y (List.mem_cons_of_mem _ hy)
    cases x with
    | bytes a' bs mu =>
      cases mu
      · simp only [everyGapHasOrg, Bool.and_eq_true, beq_iff_eq] at hg
        obtain ⟨ha', hg⟩ := hg
        subst ha'
        simp only [encMinHex]
        have hfull : 16 * ((cur ++ bs).length / 16) ≤ (cur ++ bs).length := by omega
        rw [mhRowsToMap_chunks _ _ _ _ _ hfull, outLinesMap_bytes_false]
        rw [ih _ _ _ _ hg (by rw [List.length_drop, List.length_append] at *; omega) hnn']
        simp only [← List.append_assoc]
        congr 1
        simp only [List.append_assoc]
        congr 1
        rw [List.length_drop]
        have e1 := range_map_split (16 * ((cur ++ bs).length / 16)) (cur ++ bs).length
          (fun (i : Nat) => (a + (i : Int), (cur ++ bs)[i]!)) hfull
        have e2 := range_map_split cur.length (cur ++ bs).length
          (fun (i : Nat) => (a + (i : Int), (cur ++ bs)[i]!)) (by simp)
        have e3 : (List.range ((cur ++ bs).length - 16 * ((cur ++ bs).length / 16))).map
            (fun (i : Nat) => (a + ((16 * ((cur ++ bs).length / 16) : Nat) : Int) + (i : Int),
              ((cur ++ bs).drop (16 * ((cur ++ bs).length / 16)))[i]!)) =
            (List.range ((cur ++ bs).length - 16 * ((cur ++ bs).length / 16))).map
            (fun (i : Nat) => (a + ((16 * ((cur ++ bs).length / 16) + i : Nat) : Int),
              (cur ++ bs)[16 * ((cur ++ bs).length / 16) + i]!)) := by
          apply List.map_congr_left
          intro i _
          rw [getElem!_drop']
          congr 1
          omega
        rw [e3, ← e1, e2]
        congr 1
        · apply List.map_congr_left
          intro i hi
          rw [List.mem_range] at hi
          rw [getElem!_append_left' _ _ hi]
        · have : (cur ++ bs).length - cur.length = bs.length := by simp
          rw [this]
          apply List.map_congr_left
          intro i _
          rw [getElem!_append_right']
          congr 1
          omega
      · simp only [everyGapHasOrg] at hg
        simp only [encMinHex, outLinesMap_bytes_true]
        exact ih _ _ _ _ hg hrun hnn'
    | org a' =>
      simp only [everyGapHasOrg] at hg
      have h0 : 0 ≤ a' := hnn a' (by simp)
      simp only [encMinHex, outLinesMap_org]
      split
      · next h =>
        rw [List.isEmpty_iff] at h; subst h
        simp only [List.nil_append, List.cons_append, mhRowsToMap]
        rw [ih [] _ a' _ hg (by simp; omega) hnn']
        simp
      · simp only [List.nil_append, List.cons_append, mhRowsToMap]
        rw [ih [] _ a' _ hg (by simp; omega) hnn']
        simp
    | other a' =>
      simp only [everyGapHasOrg] at hg
      simp only [encMinHex, outLinesMap_other]
      exact ih _ _ _ _ hg hrun hnn'

/-! ## listing -/

theorem lrowsMap_append' (r₁ r₂ : List LRow) : lrowsMap (r₁ ++ r₂) = lrowsMap r₁ ++ lrowsMap r₂ := by
  simp [lrowsMap, List.flatMap_append]

theorem lrowsMap_single (r : LRow) :
    lrowsMap [r] = (List.range r.bytes.length).map fun (i : Nat) => (((r.addr + i : Nat) : Int), r.bytes[i]!) := by
  simp [lrowsMap]

end BV
