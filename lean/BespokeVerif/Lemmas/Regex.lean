/-
  Helper lemmas for property C20: the backtracking matcher on the generated word-list pattern
  `\bw1\b|\bw2\b|…`.  Core Lean only.
-/
import BespokeVerif.Model.Regex
import BespokeVerif.Lemmas.Bits
namespace BV

/-! ## literals -/

theorem matchLit_spec (ci : Bool) (s inp m rest : List Char) :
    matchLit ci s inp = some (m, rest) ↔
      inp = m ++ rest ∧ m.length = s.length ∧
        ∀ i (h : i < s.length) (h' : i < m.length), charEq ci s[i] m[i] = true := by
  induction s generalizing inp m rest with
  | nil =>
    simp only [matchLit, Option.some.injEq, Prod.mk.injEq, List.length_nil, List.length_eq_zero_iff]
    constructor
    · rintro ⟨rfl, rfl⟩; simp
    · rintro ⟨h, rfl, -⟩; simp [h]
  | cons c cs ih =>
    cases inp with
    | nil =>
      simp only [matchLit, List.length_cons]
      constructor
      · intro h; cases h
      · rintro ⟨h, hl, -⟩
        cases m with
        | nil => simp at hl
        | cons _ _ => simp at h
    | cons x xs =>
      simp only [matchLit]
      by_cases hc : charEq ci c x = true
      · simp only [hc, if_true, Option.map_eq_some_iff]
        constructor
        · rintro ⟨⟨m', r'⟩, hm, heq⟩
          simp only [Prod.mk.injEq] at heq
          obtain ⟨rfl, rfl⟩ := heq
          obtain ⟨h1, h2, h3⟩ := (ih xs m' r').1 hm
          refine ⟨by simp [h1], by simp [h2], ?_⟩
          intro i h h'
          cases i with
          | zero => simpa using hc
          | succ i =>
            simp only [List.getElem_cons_succ]
            exact h3 i (by simpa using h) (by simpa using h')
        · rintro ⟨h1, h2, h3⟩
          cases m with
          | nil => simp at h2
          | cons y m' =>
            simp only [List.cons_append, List.cons.injEq] at h1
            obtain ⟨rfl, h1⟩ := h1
            refine ⟨(m', rest), (ih xs m' rest).2 ⟨h1, by simpa using h2, ?_⟩, rfl⟩
            intro i h h'
            have := h3 (i+1) (by simpa using h) (by simpa using h')
            simpa using this
      · simp only [hc, Bool.false_eq_true, if_false]
        constructor
        · intro h; cases h
        · rintro ⟨h1, h2, h3⟩
          cases m with
          | nil => simp at h2
          | cons y m' =>
            simp only [List.cons_append, List.cons.injEq] at h1
            obtain ⟨rfl, h1⟩ := h1
            have := h3 0 (by simp) (by simp)
            simp only [List.getElem_cons_zero] at this
            exact absurd this hc

/-! ## equality of words up to the case mode -/

/-- `x` and `w` are the same word: equal, or equal after case folding when `ci` -/
def wordEq (ci : Bool) (x w : List Char) : Prop :=
  if ci then x.map Char.toLower = w.map Char.toLower else x = w

instance (ci : Bool) (x w : List Char) : Decidable (wordEq ci x w) := by
  unfold wordEq; exact inferInstance

theorem charEq_pointwise_iff (ci : Bool) (s m : List Char) :
    (m.length = s.length ∧
      ∀ i (h : i < s.length) (h' : i < m.length), charEq ci s[i] m[i] = true) ↔ wordEq ci s m := by
  cases ci with
  | true =>
    simp only [wordEq, charEq, if_true, beq_iff_eq]
    constructor
    · rintro ⟨hl, h⟩
      apply List.ext_getElem (by simp [hl])
      intro i h1 h2
      simp only [List.getElem_map]
      exact h i (by simpa using h1) (by simpa using h2)
    · intro h
      have hl : m.length = s.length := by simpa using (congrArg List.length h).symm
      refine ⟨hl, ?_⟩
      intro i h1 h2
      have := List.getElem_of_eq h (i := i) (by simpa using h1)
      simpa using this
  | false =>
    simp only [wordEq, charEq, Bool.false_eq_true, if_false, beq_iff_eq]
    constructor
    · rintro ⟨hl, h⟩
      exact List.ext_getElem hl.symm (fun i h1 h2 => h i h1 h2)
    · rintro rfl
      exact ⟨rfl, fun _ _ _ => rfl⟩

theorem matchLit_whole_iff (ci : Bool) (s inp m : List Char) :
    matchLit ci s inp = some (m, []) ↔ inp = m ∧ wordEq ci s m := by
  rw [matchLit_spec, ← charEq_pointwise_iff]; simp

/-! ## one alternative `\bx\b` on a plain word -/

/-- a plain word as a character list: non-empty, word characters only -/
def PlainL (w : List Char) : Prop := w ≠ [] ∧ ∀ c ∈ w, isWordChar c = true

def wordRx (x : List Char) : Rx := .seq [.wordB, .lit x, .wordB]

theorem matchAt_wordRx (ci : Bool) (x w : List Char) (hx : PlainL x) (hw : PlainL w) :
    matchAt ci (wordRx x) none w = if wordEq ci x w then [(w.getLast?, [])] else [] := by
  obtain ⟨c, cs, rfl⟩ := List.exists_cons_of_ne_nil hw.1
  have hc : isWordChar c = true := hw.2 c (by simp)
  have hb : isBoundary none (c :: cs).head? = true := by simp [isBoundary, hc]
  simp only [wordRx, matchAt, matchSeq, matchCont, hb, if_true, List.append_nil]
  cases hm : matchLit ci x (c :: cs) with
  | none =>
    simp only [matchCont]
    have : ¬ wordEq ci x (c :: cs) := by
      intro h
      have := (matchLit_whole_iff ci x (c :: cs) (c :: cs)).2 ⟨rfl, h⟩
      rw [hm] at this; cases this
    simp [this]
  | some mr =>
    obtain ⟨m, rest⟩ := mr
    obtain ⟨h1, h2, h3⟩ := (matchLit_spec ci x (c :: cs) m rest).1 hm
    have hmne : m ≠ [] := by
      intro h; subst h
      exact hx.1 (List.length_eq_zero_iff.1 h2.symm)
    have hlast : ∃ l, m.getLast? = some l ∧ isWordChar l = true := by
      refine ⟨m.getLast hmne, List.getLast?_eq_some_getLast hmne, ?_⟩
      apply hw.2; rw [h1]; exact List.mem_append_left _ (List.getLast_mem hmne)
    obtain ⟨l, hl, hlw⟩ := hlast
    simp only [matchCont, matchSeq, matchAt, hl, Option.orElse_some, List.append_nil]
    cases rest with
    | nil =>
      have hw' : wordEq ci x (c :: cs) := by
        have := (matchLit_whole_iff ci x (c :: cs) m).1 hm
        rw [this.1]; exact this.2
      have hmw : c :: cs = m := by simpa using h1
      rw [hmw] at hw' ⊢
      simp [isBoundary, hlw, hw', hl, matchCont, matchSeq]
    | cons r rs =>
      have hr : isWordChar r = true := hw.2 r (by rw [h1]; simp)
      have : ¬ wordEq ci x (c :: cs) := by
        intro h
        have := (matchLit_whole_iff ci x (c :: cs) (c :: cs)).2 ⟨rfl, h⟩
        rw [hm] at this
        simp only [Option.some.injEq, Prod.mk.injEq] at this
        cases this.2
      simp [isBoundary, hlw, hr, this, matchCont]

/-! ## the alternation -/

theorem firstMatch_alt_wordRx (ci : Bool) (xs : List (List Char)) (w : List Char)
    (hxs : ∀ x ∈ xs, PlainL x) (hw : PlainL w) :
    firstMatch ci (.alt (xs.map wordRx)) w =
      if xs.any (fun x => decide (wordEq ci x w)) then some [] else none := by
  simp only [firstMatch, matchAt]
  induction xs with
  | nil => simp [matchAlt]
  | cons x xs ih =>
    have ih := ih (fun y hy => hxs y (List.mem_cons_of_mem _ hy))
    simp only [List.map_cons, matchAlt, matchAt_wordRx ci x w (hxs x (by simp)) hw, List.any_cons]
    by_cases h : wordEq ci x w
    · simp [h]
    · simp only [h, if_false, List.nil_append, decide_false, Bool.false_or]
      exact ih

theorem wordListRx_eq (ws : List String) :
    wordListRx ws = .alt ((ws.map String.toList).map wordRx) := by
  simp only [wordListRx, List.map_map]; rfl

theorem firstMatch_wordList (ci : Bool) (ws : List String) (w : String)
    (hws : ∀ x ∈ ws, PlainL x.toList) (hw : PlainL w.toList) :
    firstMatch ci (wordListRx ws) w.toList =
      if ws.any (fun x => decide (wordEq ci x.toList w.toList)) then some [] else none := by
  rw [wordListRx_eq, firstMatch_alt_wordRx ci _ _ (by simpa using hws) hw]
  simp [List.any_map, Function.comp_def]

theorem takesWhole_wordList (ci : Bool) (ws : List String) (w : String)
    (hws : ∀ x ∈ ws, PlainL x.toList) (hw : PlainL w.toList) :
    takesWhole ci (wordListRx ws) w = ws.any (fun x => decide (wordEq ci x.toList w.toList)) := by
  rw [takesWhole, firstMatch_wordList ci ws w hws hw]
  cases ws.any (fun x => decide (wordEq ci x.toList w.toList)) <;> simp

theorem firstMatch_isSome_wordList (ci : Bool) (ws : List String) (w : String)
    (hws : ∀ x ∈ ws, PlainL x.toList) (hw : PlainL w.toList) :
    (firstMatch ci (wordListRx ws) w.toList).isSome = takesWhole ci (wordListRx ws) w := by
  rw [takesWhole_wordList ci ws w hws hw, firstMatch_wordList ci ws w hws hw]
  cases ws.any (fun x => decide (wordEq ci x.toList w.toList)) <;> simp

/-! ## classification -/

theorem contains_toLower_iff (ws : List String) (w : String) :
    (ws.map String.toLower).contains w.toLower =
      ws.any (fun x => decide (wordEq true x.toList w.toList)) := by
  rw [Bool.eq_iff_iff]
  simp only [List.contains_iff_mem, List.mem_map, List.any_eq_true, decide_eq_true_eq, wordEq,
    if_true]
  constructor
  · rintro ⟨x, hx, h⟩
    refine ⟨x, hx, ?_⟩
    have := congrArg String.toList h
    simpa [String.toLower, String.toList_map] using this
  · rintro ⟨x, hx, h⟩
    refine ⟨x, hx, ?_⟩
    apply String.ext
    simpa [String.toLower, String.toList_map] using h

theorem contains_iff_cs (ws : List String) (w : String) :
    ws.contains w = ws.any (fun x => decide (wordEq false x.toList w.toList)) := by
  rw [Bool.eq_iff_iff]
  simp only [List.contains_iff_mem, List.any_eq_true, decide_eq_true_eq, wordEq,
    Bool.false_eq_true, if_false, String.toList_inj]
  constructor
  · intro h; exact ⟨w, h, rfl⟩
  · rintro ⟨x, hx, rfl⟩; exact hx

theorem classifyOrdered_eq_spec_aux (instrs macros regs pre : List String) (w : String)
    (h1 : ∀ x ∈ instrs, PlainL x.toList) (h2 : ∀ x ∈ macros, PlainL x.toList)
    (h3 : ∀ x ∈ regs, PlainL x.toList) (h4 : ∀ x ∈ pre, PlainL x.toList) (hw : PlainL w.toList) :
    classifyOrdered instrs macros regs pre w = classifySpec instrs macros regs pre w := by
  simp only [classifySpec, contains_toLower_iff]
  simp only [classifyOrdered, firstMatch_isSome_wordList true _ w h1 hw,
    firstMatch_isSome_wordList true _ w h2 hw, firstMatch_isSome_wordList true _ w h3 hw,
    takesWhole_wordList true _ w h1 hw, takesWhole_wordList true _ w h2 hw,
    takesWhole_wordList true _ w h3 hw, takesWhole_wordList false _ w h4 hw,
    contains_iff_cs]
  repeat' split
  all_goals first | rfl | contradiction

/-! ## longest-first ordering of the alternatives -/

theorem insertByLen_perm (x : String) (l : List String) : (insertByLen x l).Perm (x :: l) := by
  induction l with
  | nil => exact List.Perm.refl _
  | cons y ys ih =>
    unfold insertByLen
    split
    · exact List.Perm.refl _
    · exact (List.Perm.cons y ih).trans (List.Perm.swap x y ys)

theorem sortByLenDesc_perm (l : List String) : (sortByLenDesc l).Perm l := by
  induction l with
  | nil => exact List.Perm.refl _
  | cons x xs ih =>
    show (insertByLen x (sortByLenDesc xs)).Perm (x :: xs)
    exact (insertByLen_perm x _).trans (List.Perm.cons x ih)

theorem mem_sortByLenDesc (l : List String) (x : String) : x ∈ sortByLenDesc l ↔ x ∈ l :=
  (sortByLenDesc_perm l).mem_iff

theorem classifySpec_perm (i i' m m' r r' p p' : List String) (w : String)
    (hi : ∀ x, x ∈ i' ↔ x ∈ i) (hm : ∀ x, x ∈ m' ↔ x ∈ m) (hr : ∀ x, x ∈ r' ↔ x ∈ r) (hp : ∀ x, x ∈ p' ↔ x ∈ p) :
    classifySpec i' m' r' p' w = classifySpec i m r p w := by
  have key : ∀ (a b : List String) (f : String → String) (y : String), (∀ x, x ∈ a ↔ x ∈ b) →
      (a.map f).contains y = (b.map f).contains y := by
    intro a b f y h
    rw [Bool.eq_iff_iff]
    simp only [List.contains_iff_mem, List.mem_map, h]
  have key2 : ∀ (a b : List String) (y : String), (∀ x, x ∈ a ↔ x ∈ b) → a.contains y = b.contains y := by
    intro a b y h
    rw [Bool.eq_iff_iff]
    simp only [List.contains_iff_mem, h]
  simp only [classifySpec, key i' i _ _ hi, key m' m _ _ hm, key r' r _ _ hr, key2 p' p _ hp]

theorem classify_eq_spec_aux (instrs macros regs pre : List String) (w : String)
    (h1 : ∀ x ∈ instrs, PlainL x.toList) (h2 : ∀ x ∈ macros, PlainL x.toList)
    (h3 : ∀ x ∈ regs, PlainL x.toList) (h4 : ∀ x ∈ pre, PlainL x.toList) (hw : PlainL w.toList) :
    classify instrs macros regs pre w = classifySpec instrs macros regs pre w := by
  unfold classify
  rw [classifyOrdered_eq_spec_aux _ _ _ _ w
    (fun x hx => h1 x ((mem_sortByLenDesc _ _).1 hx)) (fun x hx => h2 x ((mem_sortByLenDesc _ _).1 hx))
    (fun x hx => h3 x ((mem_sortByLenDesc _ _).1 hx)) (fun x hx => h4 x ((mem_sortByLenDesc _ _).1 hx)) hw]
  exact classifySpec_perm _ _ _ _ _ _ _ _ w (mem_sortByLenDesc _) (mem_sortByLenDesc _) (mem_sortByLenDesc _)
    (mem_sortByLenDesc _)

/-- the sorted list is ordered by non-increasing length -/
theorem insertByLen_sorted (x : String) (l : List String)
    (h : l.Pairwise fun a b => b.length ≤ a.length) :
    (insertByLen x l).Pairwise fun a b => b.length ≤ a.length := by
  induction l with
  | nil => simp [insertByLen]
  | cons y ys ih =>
    unfold insertByLen
    rcases List.pairwise_cons.1 h with ⟨hy, hys⟩
    split
    · rename_i hle
      refine List.pairwise_cons.2 ⟨?_, h⟩
      intro b hb
      rcases List.mem_cons.1 hb with rfl | hb
      · exact hle
      · exact Nat.le_trans (hy b hb) hle
    · rename_i hnle
      refine List.pairwise_cons.2 ⟨?_, ih hys⟩
      intro b hb
      rcases List.mem_cons.1 ((insertByLen_perm x ys).mem_iff.1 hb) with rfl | hb
      · omega
      · exact hy b hb

theorem sortByLenDesc_sorted (l : List String) :
    (sortByLenDesc l).Pairwise fun a b => b.length ≤ a.length := by
  induction l with
  | nil => simp [sortByLenDesc]
  | cons x xs ih => exact insertByLen_sorted x _ ih

end BV
