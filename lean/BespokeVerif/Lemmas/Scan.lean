/-
  Helper lemmas for property C18 (surface syntax): the accumulator-style scanner `tokenizeAux`,
  the statement splitter `splitStmts`, case folding.  Core Lean only.
-/
import BespokeVerif.Model.Scan
import BespokeVerif.Lemmas.Bits
namespace BV

/-! ## tokenizer -/

theorem isSpaceChar_ne_semi {c : Char} (h : isSpaceChar c = true) : (c == ';') = false := by
  simp only [isSpaceChar, Bool.or_eq_true, beq_iff_eq] at h
  rcases h with h | h <;> subst h <;> decide

theorem isSpaceChar_not_quote {c : Char} (h : isSpaceChar c = true) : isQuote c = false := by
  simp only [isSpaceChar, Bool.or_eq_true, beq_iff_eq] at h
  rcases h with h | h <;> subst h <;> decide

theorem isPunct_not_quote {c : Char} (h : isPunct c = true) : isQuote c = false := by
  cases hq : isQuote c
  · rfl
  · simp only [isQuote, Bool.or_eq_true, beq_iff_eq] at hq
    rcases hq with hq | hq <;> subst hq <;> exact absurd h (by decide)

theorem isTokChar_not_quote {c : Char} (h : isTokChar c = true) : isQuote c = false := by
  cases hq : isQuote c
  · rfl
  · simp only [isQuote, Bool.or_eq_true, beq_iff_eq] at hq
    rcases hq with hq | hq <;> subst hq <;> exact absurd h (by decide)

/-- blanks with an empty current word are skipped -/
theorem tokenizeAux_spaces (ws rest : List Char) (acc : List String)
    (h : ∀ c ∈ ws, isSpaceChar c = true) :
    tokenizeAux none (ws ++ rest) [] acc = tokenizeAux none rest [] acc := by
  induction ws with
  | nil => rfl
  | cons c ws ih =>
    have hc := h c (List.mem_cons_self ..)
    have ih := ih (fun x hx => h x (List.mem_cons_of_mem _ hx))
    simp only [List.cons_append, tokenizeAux, isSpaceChar_ne_semi hc, isSpaceChar_not_quote hc, hc,
      List.isEmpty_nil, if_true, Bool.false_eq_true, if_false]
    exact ih

/-- everything from the first `;` outside a quoted literal on is ignored -/
theorem tokenizeAux_comment (s c cur : List Char) (acc : List String)
    (h : ∀ x ∈ s, x ≠ ';' ∧ isQuote x = false) :
    tokenizeAux none (s ++ ';' :: c) cur acc = tokenizeAux none s cur acc := by
  induction s generalizing cur acc with
  | nil => simp [tokenizeAux]
  | cons x s ih =>
    have hx : (x == ';') = false := by simpa using (h x (List.mem_cons_self ..)).1
    have hq := (h x (List.mem_cons_self ..)).2
    have ih := fun cur acc => ih cur acc (fun y hy => h y (List.mem_cons_of_mem _ hy))
    simp only [List.cons_append, tokenizeAux, hx, hq, Bool.false_eq_true, if_false]
    split
    · exact ih ..
    · split
      · exact ih ..
      · exact ih ..

/-- plain word characters are collected into the current word -/
theorem tokenizeAux_word (w rest cur : List Char) (acc : List String)
    (h : ∀ c ∈ w, isPunct c = false ∧ c ≠ ';' ∧ isSpaceChar c = false ∧ isQuote c = false) :
    tokenizeAux none (w ++ rest) cur acc = tokenizeAux none rest (w.reverse ++ cur) acc := by
  induction w generalizing cur with
  | nil => rfl
  | cons c w ih =>
    obtain ⟨h1, h2, h3, h4⟩ := h c (List.mem_cons_self ..)
    have h2' : (c == ';') = false := by simpa using h2
    have ih := ih (c :: cur) (fun y hy => h y (List.mem_cons_of_mem _ hy))
    simp only [List.cons_append, tokenizeAux, h1, h2', h3, h4, Bool.false_eq_true, if_false]
    rw [ih]; simp

/-- the rest of the line starts with a delimiter (or is empty): a blank, a punctuation character or
    the opening quote of a literal -/
def Delim (r : List Char) : Prop :=
  ∀ c, r.head? = some c → isSpaceChar c = true ∨ isPunct c = true ∨ isQuote c = true

/-- before a delimiter the current word may be flushed -/
theorem tokenizeAux_flush (r cur : List Char) (acc : List String) (hd : Delim r) (hc : cur ≠ []) :
    tokenizeAux none r cur acc = tokenizeAux none r [] (String.ofList cur.reverse :: acc) := by
  have hce : cur.isEmpty = false := by cases cur <;> simp_all
  cases r with
  | nil => simp [tokenizeAux, hce]
  | cons c r =>
    simp only [tokenizeAux, hce, List.isEmpty_nil, if_true, Bool.false_eq_true, if_false]
    rcases hd c rfl with h | h | h
    · simp only [h, isSpaceChar_not_quote h, if_true, Bool.false_eq_true, if_false]
    · simp only [h, isPunct_not_quote h, if_true, Bool.false_eq_true, if_false]
    · simp only [h, if_true]

/-- a single punctuation character is a token of its own -/
theorem tokenizeAux_punct (c : Char) (r : List Char) (acc : List String) (hp : isPunct c = true) :
    tokenizeAux none (c :: r) [] acc = tokenizeAux none r [] (String.ofList [c] :: acc) := by
  have h1 : (c == ';') = false := by
    cases h : c == ';'
    · rfl
    · rw [beq_iff_eq] at h; subst h; exact absurd hp (by decide)
  have h2 : isSpaceChar c = false := by
    cases h : isSpaceChar c
    · rfl
    · simp only [isSpaceChar, Bool.or_eq_true, beq_iff_eq] at h
      rcases h with h | h <;> subst h <;> exact absurd hp (by decide)
  simp only [tokenizeAux, h1, h2, hp, isPunct_not_quote hp, List.isEmpty_nil, if_true, Bool.false_eq_true, if_false]

theorem tokenizeAux_nil (acc : List String) : tokenizeAux none [] [] acc = acc.reverse := by
  simp [tokenizeAux]

/-- inside a literal every character other than the closing quote and the backslash is collected,
    whatever it is (`;`, `,`, `:`, blanks …) -/
theorem tokenizeAux_inside (q : Char) (body rest cur : List Char) (acc : List String) (hq : q ≠ '\\')
    (hb : ∀ c ∈ body, c ≠ q ∧ c ≠ '\\') :
    tokenizeAux (some (q, false)) (body ++ q :: rest) cur acc
      = tokenizeAux none rest [] (String.ofList (cur.reverse ++ body ++ [q]) :: acc) := by
  induction body generalizing cur with
  | nil =>
    have : (q == '\\') = false := by simpa using hq
    simp [tokenizeAux, this]
  | cons c body ih =>
    obtain ⟨h1, h2⟩ := hb c (List.mem_cons_self ..)
    have h1' : (c == q) = false := by simpa using h1
    have h2' : (c == '\\') = false := by simpa using h2
    have ih := ih (c :: cur) (fun y hy => hb y (List.mem_cons_of_mem _ hy))
    simp only [List.cons_append, tokenizeAux, h1', h2', Bool.false_eq_true, if_false]
    rw [ih]; simp

/-- a quoted literal is one token: the opening quote, the body, the closing quote -/
theorem tokenizeAux_quoted (q : Char) (body rest : List Char) (acc : List String) (hq : isQuote q = true)
    (hb : ∀ c ∈ body, c ≠ q ∧ c ≠ '\\') :
    tokenizeAux none (q :: body ++ q :: rest) [] acc
      = tokenizeAux none rest [] (String.ofList (q :: body ++ [q]) :: acc) := by
  have h1 : (q == ';') = false := by
    cases h : q == ';'
    · rfl
    · rw [beq_iff_eq] at h; subst h; exact absurd hq (by decide)
  have hbs : q ≠ '\\' := by
    intro h; subst h; exact absurd hq (by decide)
  have := tokenizeAux_inside q body rest [q] acc hbs hb
  simp only [List.cons_append, tokenizeAux, h1, hq, List.isEmpty_nil, if_true, Bool.false_eq_true, if_false]
  rw [this]; simp

/-- the tokens already produced are only ever prepended to -/
theorem tokenizeAux_acc_gen (m : QMode) (l cur : List Char) (acc : List String) :
    tokenizeAux m l cur acc = acc.reverse ++ tokenizeAux m l cur [] := by
  induction l generalizing m cur acc with
  | nil => cases m <;> simp only [tokenizeAux] <;> split <;> simp
  | cons c l ih =>
    cases m with
    | none =>
      simp only [tokenizeAux]
      split
      · split <;> simp
      · split
        · split
          · exact ih ..
          · rw [ih, ih _ _ [_]]; simp
        · split
          · split
            · exact ih ..
            · rw [ih, ih _ _ [_]]; simp
          · split
            · split
              · rw [ih, ih _ _ [_]]; simp
              · rw [ih, ih _ _ [_, _]]; simp
            · exact ih ..
    | some qe =>
      rcases qe with ⟨q, esc⟩
      simp only [tokenizeAux]
      split
      · exact ih ..
      · split
        · exact ih ..
        · split
          · rw [ih, ih _ _ [_]]; simp
          · exact ih ..

theorem tokenizeAux_acc (l : List Char) (acc : List String) :
    tokenizeAux none l [] acc = acc.reverse ++ tokenizeAux none l [] [] :=
  tokenizeAux_acc_gen none l [] acc

/-! ## case folding -/

theorem Char.eq_of_toLower_eq (c d : Char) (hd : d.val < 'a'.val ∨ d.val > 'z'.val)
    (h : c.toLower = d) : c = d := by
  unfold Char.toLower at h
  split at h
  · rename_i hc
    exfalso
    have : d.val = c.val + ('a'.val - 'A'.val) := by rw [← h]
    rw [this] at hd
    have h1 := hc.1
    have h2 := hc.2
    simp only [Char.reduceVal, UInt32.le_iff_toNat_le, UInt32.lt_iff_toNat_lt, ge_iff_le,
      gt_iff_lt] at h1 h2 hd
    rw [UInt32.toNat_add] at hd
    simp at hd h1 h2
    omega
  · exact h

/-- a one-character non-letter string is its own only preimage under case folding -/
theorem eq_of_toLower_eq_single (x : String) (d : Char) (hd : d.val < 'a'.val ∨ d.val > 'z'.val)
    (h : x.toLower = String.ofList [d]) : x = String.ofList [d] := by
  have h' := congrArg String.toList h
  rw [String.toLower, String.toList_map, String.toList_ofList] at h'
  rw [← String.ofList_toList (s := x)]
  congr 1
  match hx : x.toList, h' with
  | [c], h' =>
    simp only [List.map_cons, List.map_nil, List.cons.injEq, and_true] at h'
    rw [Char.eq_of_toLower_eq c d hd h']

theorem canonTok_eq_single (v : Vocab) (x : String) (d : Char)
    (hd : d.val < 'a'.val ∨ d.val > 'z'.val) (h : canonTok v x = String.ofList [d]) :
    x = String.ofList [d] := by
  unfold canonTok at h
  split at h
  · exact eq_of_toLower_eq_single x d hd h
  · exact h

/-! ## statement splitter -/

theorem splitStmts_acc_aux (v : Vocab) (ts cur : List String) (acc : List (List String)) :
    ∀ acc', splitStmts v ts cur (acc ++ acc') = acc'.reverse ++ splitStmts v ts cur acc := by
  fun_induction splitStmts v ts cur acc with
  | case1 cur acc =>
    intro acc'; simp only [splitStmts]; split <;> simp
  | case2 t rest cur acc h ih =>
    intro acc'
    rw [splitStmts, if_pos h, ← List.cons_append, ih]
  | case3 t rest cur acc h ih =>
    intro acc'
    rw [splitStmts, if_neg h, ← List.cons_append, ← List.cons_append, ih]
  | case4 t rest cur acc hne h ih =>
    intro acc'
    rw [splitStmts.eq_3 _ _ _ _ _ hne, if_pos h, ← List.cons_append, ih]
  | case5 t rest cur acc hne h ih =>
    intro acc'
    rw [splitStmts.eq_3 _ _ _ _ _ hne, if_neg h, ih]

/-- the accumulated statements are only ever prepended to -/
theorem splitStmts_acc (v : Vocab) (ts cur : List String) (acc : List (List String)) :
    splitStmts v ts cur acc = acc.reverse ++ splitStmts v ts cur [] := by
  simpa using splitStmts_acc_aux v ts cur [] acc

/-- the splitter's state after a run of tokens none of which is (or is followed by) a colon -/
def splitRun (v : Vocab) : List String → List String → List (List String) →
    List String × List (List String)
  | [], cur, acc => (cur, acc)
  | t :: rest, cur, acc =>
    if (v.isMnemonic t || directiveWords.contains t.toLower) && !cur.isEmpty && !(cur.head? == some "[") && !(cur.head? == some "+")
        && !(cur.head? == some ",")
    then splitRun v rest [canonTok v t] (cur.reverse :: acc)
    else splitRun v rest (canonTok v t :: cur) acc

/-- running the splitter over a colon-free prefix -/
theorem splitStmts_append (v : Vocab) (a r cur : List String) (acc : List (List String))
    (ha : ∀ x ∈ a, x ≠ ":") (hr : r.head? ≠ some ":") :
    splitStmts v (a ++ r) cur acc
      = splitStmts v r (splitRun v a cur acc).1 (splitRun v a cur acc).2 := by
  induction a generalizing cur acc with
  | nil => rfl
  | cons t a ih =>
    have ih := fun cur acc => ih cur acc (fun y hy => ha y (List.mem_cons_of_mem _ hy))
    have hne : ∀ rest', a ++ r = ":" :: rest' → False := by
      intro rest' h
      cases a with
      | nil => simp only [List.nil_append] at h; subst h; exact hr rfl
      | cons y a =>
        simp only [List.cons_append, List.cons.injEq] at h
        exact ha y (by simp) h.1
    rw [List.cons_append, splitStmts.eq_3 _ _ _ _ _ hne, splitRun]
    split
    · exact ih ..
    · exact ih ..

theorem splitStmts_eq_run (v : Vocab) (a cur : List String) (acc : List (List String))
    (ha : ∀ x ∈ a, x ≠ ":") :
    splitStmts v a cur acc
      = (if (splitRun v a cur acc).1.isEmpty then (splitRun v a cur acc).2
         else (splitRun v a cur acc).1.reverse :: (splitRun v a cur acc).2).reverse := by
  have := splitStmts_append v a [] cur acc ha (by simp)
  rw [List.append_nil] at this
  rw [this, splitStmts.eq_1]

/-- after a non-empty run the current statement ends with the (case-folded) last token -/
theorem splitRun_head (v : Vocab) (a cur : List String) (acc : List (List String)) (ha : a ≠ []) :
    ∃ x, a.getLast? = some x ∧ (splitRun v a cur acc).1.head? = some (canonTok v x) := by
  induction a generalizing cur acc with
  | nil => exact absurd rfl ha
  | cons t a ih =>
    cases a with
    | nil =>
      refine ⟨t, rfl, ?_⟩
      simp only [splitRun]
      split <;> rfl
    | cons t' a =>
      rw [splitRun]
      split
      · obtain ⟨x, h1, h2⟩ := ih [canonTok v t] (cur.reverse :: acc) (by simp)
        exact ⟨x, by rw [List.getLast?_cons_cons]; exact h1, h2⟩
      · obtain ⟨x, h1, h2⟩ := ih (canonTok v t :: cur) acc (by simp)
        exact ⟨x, by rw [List.getLast?_cons_cons]; exact h1, h2⟩

/-- a line whose second part starts with a mnemonic is split exactly there -/
theorem splitStmts_compound (v : Vocab) (a b : List String) (m : String)
    (hm : v.isMnemonic m = true) (hmc : m ≠ ":")
    (ha : a ≠ []) (hlast : ∀ x, a.getLast? = some x → x ≠ "[" ∧ x ≠ "+" ∧ x ≠ ",")
    (hnl : ∀ x ∈ a, x ≠ ":") (hb : b.head? ≠ some ":") :
    splitStmts v (a ++ m :: b) [] [] = splitStmts v a [] [] ++ splitStmts v (m :: b) [] [] := by
  obtain ⟨x, hx1, hx2⟩ := splitRun_head v a [] [] ha
  obtain ⟨l1, l2, l3⟩ := hlast x hx1
  have hbne : ∀ rest', b = ":" :: rest' → False := by
    intro rest' h; subst h; exact hb rfl
  rw [splitStmts_append v a (m :: b) [] [] hnl (by simpa using hmc), splitStmts_eq_run v a [] [] hnl]
  generalize splitRun v a [] [] = st at hx2
  obtain ⟨c1, a1⟩ := st
  simp only at hx2 ⊢
  have hc1 : c1.isEmpty = false := by cases c1 <;> simp_all
  have k1 : (c1.head? == some "[") = false := by
    rw [hx2]
    simp only [beq_eq_false_iff_ne, ne_eq, Option.some.injEq]
    exact fun h => l1 (canonTok_eq_single v x '[' (by decide) h)
  have k2 : (c1.head? == some "+") = false := by
    rw [hx2]
    simp only [beq_eq_false_iff_ne, ne_eq, Option.some.injEq]
    exact fun h => l2 (canonTok_eq_single v x '+' (by decide) h)
  have k3 : (c1.head? == some ",") = false := by
    rw [hx2]
    simp only [beq_eq_false_iff_ne, ne_eq, Option.some.injEq]
    exact fun h => l3 (canonTok_eq_single v x ',' (by decide) h)
  rw [splitStmts.eq_3 _ _ _ _ _ hbne, splitStmts.eq_3 _ _ _ _ _ hbne]
  simp only [hm, hc1, k1, k2, k3, Bool.true_or, Bool.not_false, Bool.and_self, if_true,
    List.isEmpty_nil, Bool.not_true, Bool.and_false, Bool.false_and, Bool.false_eq_true, if_false]
  rw [splitStmts_acc]
