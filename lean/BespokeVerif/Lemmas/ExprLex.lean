/-
  C07: the lexer on printed numerals.
  `lexExpr` applied to the standard printings (`Nat.toDigits`) of a natural number, with the
  prefixes / suffix accepted by the assembler, yields exactly one numeric token with that value.

  `lex_hex_H` is FALSE as a universal statement: a hex string `b0…H` / `b1…H` is taken by the first
  alternative `(?:\%|b)[01]+` (see `lex_hex_H_counterexample`); `lex_hex_H_partial` carries the
  exact side condition and `lex_hex_H_iff` shows that the condition is necessary and sufficient.
-/
import BespokeVerif.Model.Expr
namespace BV
namespace LexLemmas

/-! ## generic list facts -/

theorem takeWhile_all {p : Char → Bool} {l : List Char} (h : ∀ c ∈ l, p c = true) :
    l.takeWhile p = l := by
  have := List.takeWhile_append_of_pos (p := p) (l₁ := l) (l₂ := []) h
  simpa using this

theorem dropWhile_all {p : Char → Bool} {l : List Char} (h : ∀ c ∈ l, p c = true) :
    l.dropWhile p = [] := by
  have := List.dropWhile_append_of_pos (p := p) (l₁ := l) (l₂ := []) h
  simpa using this

theorem takeWhile_snoc {p : Char → Bool} {l : List Char} {x : Char} (h : ∀ c ∈ l, p c = true)
    (hx : p x = false) : (l ++ [x]).takeWhile p = l := by
  rw [List.takeWhile_append_of_pos h, List.takeWhile_cons_of_neg (by simp [hx])]
  simp

theorem dropWhile_snoc {p : Char → Bool} {l : List Char} {x : Char} (h : ∀ c ∈ l, p c = true)
    (hx : p x = false) : (l ++ [x]).dropWhile p = [x] := by
  rw [List.dropWhile_append_of_pos h, List.dropWhile_cons_of_neg (by simp [hx])]

/-! ## digit characters -/

/-- everything we need to know about `Nat.digitChar d`, `d < 16` (finite check) -/
theorem digitChar_facts : ∀ d : Fin 16,
    isHexDigit (Nat.digitChar d.val) = true ∧ hexVal (Nat.digitChar d.val) = d.val
    ∧ (d.val < 10 → (Nat.digitChar d.val).isDigit = true)
    ∧ (d.val < 2 → isBinDigit (Nat.digitChar d.val) = true) := by
  decide

theorem isHexDigit_digitChar {d : Nat} (h : d < 16) : isHexDigit (Nat.digitChar d) = true :=
  (digitChar_facts ⟨d, h⟩).1
theorem hexVal_digitChar {d : Nat} (h : d < 16) : hexVal (Nat.digitChar d) = d :=
  (digitChar_facts ⟨d, h⟩).2.1
theorem isDigit_digitChar {d : Nat} (h : d < 10) : (Nat.digitChar d).isDigit = true :=
  (digitChar_facts ⟨d, by omega⟩).2.2.1 h
theorem isBinDigit_digitChar {d : Nat} (h : d < 2) : isBinDigit (Nat.digitChar d) = true :=
  (digitChar_facts ⟨d, by omega⟩).2.2.2 h

/-- every character of `Nat.toDigits b n` is a digit character below the base -/
theorem mem_toDigits {b : Nat} (hb : 1 < b) (n : Nat) :
    ∀ c ∈ Nat.toDigits b n, ∃ d, d < b ∧ c = Nat.digitChar d := by
  induction n using Nat.strongRecOn with
  | _ n ih =>
    intro c hc
    rw [Nat.toDigits_eq_if hb] at hc
    split at hc
    · rename_i hlt
      rw [List.mem_singleton] at hc
      exact ⟨n, hlt, hc⟩
    · rename_i hge
      rw [List.mem_append, List.mem_singleton] at hc
      rcases hc with hc | hc
      · exact ih (n / b) (Nat.div_lt_self (by omega) hb) c hc
      · exact ⟨n % b, Nat.mod_lt _ (by omega), hc⟩

theorem toDigits_all_hex (n : Nat) : ∀ c ∈ Nat.toDigits 16 n, isHexDigit c = true := by
  intro c hc
  obtain ⟨d, hd, rfl⟩ := mem_toDigits (by decide) n c hc
  exact isHexDigit_digitChar hd

theorem toDigits_all_dec (n : Nat) : ∀ c ∈ Nat.toDigits 10 n, c.isDigit = true := by
  intro c hc
  obtain ⟨d, hd, rfl⟩ := mem_toDigits (by decide) n c hc
  exact isDigit_digitChar hd

theorem toDigits_all_bin (n : Nat) : ∀ c ∈ Nat.toDigits 2 n, isBinDigit c = true := by
  intro c hc
  obtain ⟨d, hd, rfl⟩ := mem_toDigits (by decide) n c hc
  exact isBinDigit_digitChar hd

theorem digitsVal_snoc (b : Nat) (l : List Char) (x : Char) :
    digitsVal b (l ++ [x]) = digitsVal b l * b + hexVal x := by
  simp only [digitsVal, List.foldl_append, List.foldl_cons, List.foldl_nil]

/-- reading back a printed number -/
theorem digitsVal_toDigits {b : Nat} (hb : 1 < b) (hb16 : b ≤ 16) (n : Nat) :
    digitsVal b (Nat.toDigits b n) = n := by
  induction n using Nat.strongRecOn with
  | _ n ih =>
    rw [Nat.toDigits_eq_if hb]
    split
    · rename_i hlt
      have : digitsVal b [Nat.digitChar n] = 0 * b + hexVal (Nat.digitChar n) := rfl
      rw [this, hexVal_digitChar (by omega)]; omega
    · rename_i hge
      rw [digitsVal_snoc, ih (n / b) (Nat.div_lt_self (by omega) hb),
        hexVal_digitChar (Nat.lt_of_lt_of_le (Nat.mod_lt _ (by omega)) hb16)]
      have := Nat.div_add_mod n b
      rw [Nat.mul_comm]; exact this

/-! ## character separations used to discharge the `if` conditions of `lexStep` -/

theorem isDigit_imp_hex {c : Char} (h : c.isDigit = true) : isHexDigit c = true := by
  simp only [isHexDigit, h, Bool.true_or]

theorem hex_ne {c x : Char} (h : isHexDigit c = true) (hx : isHexDigit x = false) :
    (c == x) = false := by
  rw [beq_eq_false_iff_ne]
  rintro rfl
  rw [h] at hx; exact Bool.noConfusion hx

theorem head_hex_ne_x {l : List Char} (h : ∀ c ∈ l, isHexDigit c = true) :
    (l.head? == some 'x') = false := by
  cases l with
  | nil => rfl
  | cons d ds =>
    have hd := h d (List.mem_cons_self ..)
    have : (d == 'x') = false := hex_ne hd (by decide)
    rw [beq_eq_false_iff_ne] at this ⊢
    intro he
    apply this
    simpa using he

/-! ## the main loop on a text made of a single token -/

theorem lexLoop_nil (k : Nat) : lexLoop k [] = .ok [] := by
  cases k <;> rfl

theorem lexExpr_single {c : Char} {rest : List Char} {t : Tok}
    (h : lexStep (c :: rest) = some (.ok t, [])) : lexExpr (c :: rest) = .ok [t] := by
  unfold lexExpr
  rw [lexLoop, h]
  simp only [lexLoop_nil]
  rfl

/-! ## `lexStep` on each numeral shape -/

theorem lexStep_dec {c : Char} {rest : List Char} (hc : c.isDigit = true)
    (hrest : ∀ d ∈ rest, d.isDigit = true) :
    lexStep (c :: rest) = some (.ok (.num (digitsVal 10 (c :: rest))), []) := by
  have hall : ∀ d ∈ c :: rest, d.isDigit = true := by
    intro d hd
    rcases List.mem_cons.mp hd with rfl | hd
    · exact hc
    · exact hrest d hd
  have hallx : ∀ d ∈ c :: rest, isHexDigit d = true := fun d hd => isDigit_imp_hex (hall d hd)
  have hch := isDigit_imp_hex hc
  have h1 : (c == '%') = false := hex_ne hch (by decide)
  have h2 : (c == 'b') = false := by
    rw [beq_eq_false_iff_ne]; rintro rfl; exact absurd hc (by decide)
  have h3 : (c == '$') = false := hex_ne hch (by decide)
  have h4 : (rest.head? == some 'x') = false :=
    head_hex_ne_x (fun d hd => isDigit_imp_hex (hrest d hd))
  have h5 : (c :: rest).dropWhile isHexDigit = [] := dropWhile_all hallx
  have h6 : (c :: rest).takeWhile Char.isDigit = c :: rest := takeWhile_all hall
  have h7 : (c :: rest).dropWhile Char.isDigit = [] := dropWhile_all hall
  unfold lexStep
  simp only [h1, h2, h3, h4, h5, h6, h7, hc, hch, Bool.or_self, Bool.false_and, Bool.and_false,
    List.head?_nil, Bool.false_eq_true, if_false, if_true,
    show ((none : Option Char) == some 'H') = false from rfl]

theorem lexStep_dollar {rest : List Char} (hne : rest ≠ [])
    (hrest : ∀ d ∈ rest, isHexDigit d = true) :
    lexStep ('$' :: rest) = some (.ok (.num (digitsVal 16 rest)), []) := by
  have h1 : ((rest.head?.map isHexDigit).getD false) = true := by
    cases rest with
    | nil => exact absurd rfl hne
    | cons d ds => simpa using hrest d (List.mem_cons_self ..)
  have h2 : rest.takeWhile isHexDigit = rest := takeWhile_all hrest
  have h3 : rest.dropWhile isHexDigit = [] := dropWhile_all hrest
  unfold lexStep
  simp only [h1, h2, h3, show ('$' == '%') = false from by decide,
    show ('$' == 'b') = false from by decide, show ('$' == '$') = true from by decide,
    Bool.or_self, Bool.false_and, Bool.and_self, Bool.false_eq_true, if_false,
    if_true]

theorem lexStep_0x {rest : List Char} (hne : rest ≠ [])
    (hrest : ∀ d ∈ rest, isHexDigit d = true) :
    lexStep ('0' :: 'x' :: rest) = some (.ok (.num (digitsVal 16 rest)), []) := by
  have h1 : ((rest.head?.map isHexDigit).getD false) = true := by
    cases rest with
    | nil => exact absurd rfl hne
    | cons d ds => simpa using hrest d (List.mem_cons_self ..)
  have h2 : rest.takeWhile isHexDigit = rest := takeWhile_all hrest
  have h3 : rest.dropWhile isHexDigit = [] := dropWhile_all hrest
  unfold lexStep
  simp only [h1, h2, h3, show ('0' == '%') = false from by decide,
    show ('0' == 'b') = false from by decide, show ('0' == '$') = false from by decide,
    show ('0' == '0') = true from by decide, List.head?_cons, List.drop_succ_cons, List.drop_zero,
    show (some 'x' == some 'x') = true from by decide,
    Bool.or_self, Bool.false_and, Bool.and_self, Bool.false_eq_true, if_false,
    if_true]

theorem lexStep_bin {c : Char} {rest : List Char} (hc : c = '%' ∨ c = 'b') (hne : rest ≠ [])
    (hrest : ∀ d ∈ rest, isBinDigit d = true) :
    lexStep (c :: rest) = some (.ok (.num (digitsVal 2 rest)), []) := by
  have h0 : (c == '%' || c == 'b') = true := by
    rcases hc with rfl | rfl <;> decide
  have h1 : ((rest.head?.map isBinDigit).getD false) = true := by
    cases rest with
    | nil => exact absurd rfl hne
    | cons d ds => simpa using hrest d (List.mem_cons_self ..)
  have h2 : rest.takeWhile isBinDigit = rest := takeWhile_all hrest
  have h3 : rest.dropWhile isBinDigit = [] := dropWhile_all hrest
  unfold lexStep
  simp only [h0, h1, h2, h3, Bool.and_self, if_true]

/-- the `…H` form: all of `c :: rest` hex digits, and NOT the shape `b[01]…` -/
theorem lexStep_hexH {c : Char} {rest : List Char} (hc : isHexDigit c = true)
    (hrest : ∀ d ∈ rest, isHexDigit d = true)
    (hb : c = 'b' → ∀ d ds, rest = d :: ds → isBinDigit d = false) :
    lexStep (c :: (rest ++ ['H'])) = some (.ok (.num (digitsVal 16 (c :: rest))), []) := by
  have hall : ∀ d ∈ c :: rest, isHexDigit d = true := by
    intro d hd
    rcases List.mem_cons.mp hd with rfl | hd
    · exact hc
    · exact hrest d hd
  have h1 : (c == '%') = false := hex_ne hc (by decide)
  have h3 : (c == '$') = false := hex_ne hc (by decide)
  have h0 : ((c == 'b') && (((rest ++ ['H']).head?.map isBinDigit).getD false)) = false := by
    cases hcb : c == 'b' with
    | false => rfl
    | true =>
      have hcb' : c = 'b' := by simpa using hcb
      cases rest with
      | nil => decide
      | cons d ds =>
        have := hb hcb' d ds rfl
        simp only [List.cons_append, List.head?_cons, Option.map_some, Option.getD_some, this,
          Bool.and_false]
  have h4 : ((rest ++ ['H']).head? == some 'x') = false := by
    cases rest with
    | nil => decide
    | cons d ds =>
      have := head_hex_ne_x (l := d :: ds) hrest
      simpa using this
  have h5 : (c :: (rest ++ ['H'])).dropWhile isHexDigit = ['H'] := by
    rw [← List.cons_append]; exact dropWhile_snoc hall (by decide)
  have h6 : (c :: (rest ++ ['H'])).takeWhile isHexDigit = c :: rest := by
    rw [← List.cons_append]; exact takeWhile_snoc hall (by decide)
  unfold lexStep
  simp only [h1, h3, h0, h4, h5, h6, hc, Bool.false_or, Bool.false_and, Bool.and_false,
    Bool.false_eq_true, if_false, List.head?_cons, List.drop_succ_cons,
    List.drop_zero, List.head?_nil, Option.map_none, Option.getD_none, Bool.not_false,
    show (some 'H' == some 'H') = true from by decide, Bool.and_self, if_true]

/-! ## the theorems -/

theorem lex_decimal (n : Nat) : lexExpr (Nat.toDigits 10 n) = .ok [.num n] := by
  have hall := toDigits_all_dec n
  have hval := digitsVal_toDigits (b := 10) (by decide) (by decide) n
  cases hds : Nat.toDigits 10 n with
  | nil => exact absurd hds Nat.toDigits_ne_nil
  | cons c rest =>
    rw [hds] at hall hval
    rw [lexExpr_single (lexStep_dec (hall c (List.mem_cons_self ..))
      (fun d hd => hall d (List.mem_cons_of_mem _ hd))), hval]

theorem lex_hex_dollar (n : Nat) : lexExpr ('$' :: Nat.toDigits 16 n) = .ok [.num n] := by
  rw [lexExpr_single (lexStep_dollar Nat.toDigits_ne_nil (toDigits_all_hex n)),
    digitsVal_toDigits (by decide) (by decide)]

theorem lex_hex_0x (n : Nat) : lexExpr ('0' :: 'x' :: Nat.toDigits 16 n) = .ok [.num n] := by
  rw [lexExpr_single (lexStep_0x Nat.toDigits_ne_nil (toDigits_all_hex n)),
    digitsVal_toDigits (by decide) (by decide)]

theorem lex_bin_percent (n : Nat) : lexExpr ('%' :: Nat.toDigits 2 n) = .ok [.num n] := by
  rw [lexExpr_single (lexStep_bin (.inl rfl) Nat.toDigits_ne_nil (toDigits_all_bin n)),
    digitsVal_toDigits (by decide) (by decide)]

theorem lex_bin_b (n : Nat) : lexExpr ('b' :: Nat.toDigits 2 n) = .ok [.num n] := by
  rw [lexExpr_single (lexStep_bin (.inr rfl) Nat.toDigits_ne_nil (toDigits_all_bin n)),
    digitsVal_toDigits (by decide) (by decide)]

/-- `lex_hex_H` with the exact side condition: the printed hex string is not of the shape
    `b0…` / `b1…` (which the alternative `(?:\%|b)[01]+` would take first). -/
theorem lex_hex_H_partial (n : Nat)
    (h : ∀ d ds, Nat.toDigits 16 n = 'b' :: d :: ds → isBinDigit d = false) :
    lexExpr (Nat.toDigits 16 n ++ ['H']) = .ok [.num n] := by
  have hall := toDigits_all_hex n
  have hval := digitsVal_toDigits (b := 16) (by decide) (by decide) n
  cases hds : Nat.toDigits 16 n with
  | nil => exact absurd hds Nat.toDigits_ne_nil
  | cons c rest =>
    rw [hds] at hall hval
    rw [List.cons_append, lexExpr_single (lexStep_hexH (hall c (List.mem_cons_self ..))
      (fun d hd => hall d (List.mem_cons_of_mem _ hd)) ?_), hval]
    rintro rfl d ds rfl
    exact h d ds hds

/-- the unrestricted `lex_hex_H` is false: `0xb1 = 177` prints as `b1`, and `b1H` lexes as the
    binary numeral `b1` followed by the label `H`. -/
theorem lex_hex_H_counterexample :
    lexExpr (Nat.toDigits 16 177 ++ ['H']) = .ok [.num 1, .label "H"] := by rfl

theorem lex_hex_H_false : ¬ ∀ n : Nat, lexExpr (Nat.toDigits 16 n ++ ['H']) = .ok [.num n] := by
  intro h
  have := h 177
  rw [lex_hex_H_counterexample] at this
  injection this with this
  injection this with _ this
  cases this

/-! ## `lex_hex_H`: the side condition is also necessary, and its arithmetic form -/

/-- a text that lexes to no token at all consists of blanks only -/
theorem lexLoop_ok_nil : ∀ (k : Nat) (cs : List Char), lexLoop k cs = .ok [] →
    ∀ c ∈ cs, isSpaceChar c = true := by
  intro k
  induction k with
  | zero =>
    intro cs h
    cases cs with
    | nil => intro c hc; cases hc
    | cons c rest =>
      have : lexLoop 0 (c :: rest) = .error .outOfFuel := rfl
      rw [this] at h; cases h
  | succ k ih =>
    intro cs h
    cases cs with
    | nil => intro c hc; cases hc
    | cons c rest =>
      rw [lexLoop] at h
      split at h
      · rename_i t rest' _
        cases hr : lexLoop k rest' with
        | error e => rw [hr] at h; cases h
        | ok ts => rw [hr] at h; cases h
      · cases h
      · split at h
        · rename_i hsp
          intro d hd
          rcases List.mem_cons.mp hd with rfl | hd
          · exact hsp
          · exact ih rest h d hd
        · cases h

theorem mem_dropWhile_snoc {p : Char → Bool} {x : Char} (hx : p x = false) :
    ∀ l : List Char, x ∈ (l ++ [x]).dropWhile p := by
  intro l
  induction l with
  | nil =>
    rw [List.nil_append, List.dropWhile_cons_of_neg (by simp [hx])]
    exact List.mem_cons_self ..
  | cons a l ih =>
    rw [List.cons_append, List.dropWhile_cons]
    split
    · exact ih
    · exact List.mem_cons_of_mem _ (List.mem_append_right _ (List.mem_cons_self ..))

/-- on the shape `b[01]…H` the binary alternative fires, and more text follows the first token -/
theorem lex_hex_H_bad {d : Char} {ds : List Char} (hd : isBinDigit d = true) (t : Tok) :
    lexExpr ('b' :: d :: ds ++ ['H']) ≠ .ok [t] := by
  intro h
  have hstep : lexStep ('b' :: (d :: ds ++ ['H'])) =
      some (.ok (.num (digitsVal 2 ((d :: ds ++ ['H']).takeWhile isBinDigit))),
        (d :: ds ++ ['H']).dropWhile isBinDigit) := by
    unfold lexStep
    simp only [show ('b' == '%' || 'b' == 'b') = true from by decide, List.cons_append,
      List.head?_cons, Option.map_some, Option.getD_some, hd, Bool.and_self, if_true]
  have hmem : 'H' ∈ (d :: ds ++ ['H']).dropWhile isBinDigit :=
    mem_dropWhile_snoc (by decide) (d :: ds)
  unfold lexExpr at h
  rw [List.cons_append, lexLoop, hstep] at h
  simp only [] at h
  cases hr : lexLoop (('b' :: (d :: ds ++ ['H'])).length) ((d :: ds ++ ['H']).dropWhile isBinDigit) with
  | error e => rw [hr] at h; cases h
  | ok ts =>
    rw [hr] at h
    cases ts with
    | nil =>
      have := lexLoop_ok_nil _ _ hr 'H' hmem
      exact absurd this (by decide)
    | cons t' ts' => cases h

/-- `lex_hex_H` holds exactly when the printed string is not of the shape `b[01]…` -/
theorem lex_hex_H_iff (n : Nat) :
    lexExpr (Nat.toDigits 16 n ++ ['H']) = .ok [.num n] ↔
      ∀ d ds, Nat.toDigits 16 n = 'b' :: d :: ds → isBinDigit d = false := by
  constructor
  · intro h d ds hds
    cases hd : isBinDigit d with
    | false => rfl
    | true =>
      rw [hds] at h
      exact absurd h (lex_hex_H_bad hd _)
  · exact lex_hex_H_partial n

/-- a proper prefix-with-rest of the printed number is the printed quotient -/
theorem toDigits_prefix_rev {b : Nat} (hb : 1 < b) : ∀ (r : List Char) (n : Nat) (pre : List Char),
    pre ≠ [] → Nat.toDigits b n = pre ++ r.reverse →
      pre = Nat.toDigits b (n / b ^ r.length) := by
  intro r
  induction r with
  | nil =>
    intro n pre _ h
    rw [List.reverse_nil, List.append_nil] at h
    rw [List.length_nil, Nat.pow_zero, Nat.div_one, h]
  | cons x r ih =>
    intro n pre hpre h
    rw [Nat.toDigits_eq_if hb, List.reverse_cons, ← List.append_assoc] at h
    split at h
    · have := List.append_inj' (s₁ := []) h rfl
      have h0 : pre ++ r.reverse = [] := this.1.symm
      exact absurd (List.append_eq_nil_iff.mp h0).1 hpre
    · have := (List.append_inj' h rfl).1
      rw [ih (n / b) pre hpre this, List.length_cons, Nat.pow_succ,
        Nat.div_div_eq_div_mul, Nat.mul_comm]

theorem toDigits_prefix {b : Nat} (hb : 1 < b) (suf : List Char) (n : Nat) (pre : List Char)
    (hpre : pre ≠ []) (h : Nat.toDigits b n = pre ++ suf) :
    pre = Nat.toDigits b (n / b ^ suf.length) := by
  have := toDigits_prefix_rev hb suf.reverse n pre hpre (by rw [List.reverse_reverse]; exact h)
  rw [List.length_reverse] at this
  exact this

/-- the printed quotient is a prefix of the printed number -/
theorem toDigits_quot_prefix {b : Nat} (hb : 1 < b) : ∀ (k n : Nat), 0 < n / b ^ k →
    ∃ suf, Nat.toDigits b n = Nat.toDigits b (n / b ^ k) ++ suf := by
  intro k
  induction k with
  | zero => intro n _; exact ⟨[], by rw [Nat.pow_zero, Nat.div_one, List.append_nil]⟩
  | succ k ih =>
    intro n h
    have hq : n / b ^ (k + 1) = n / b / b ^ k := by
      rw [Nat.pow_succ, Nat.div_div_eq_div_mul, Nat.mul_comm]
    rw [hq] at h ⊢
    have hge : b ≤ n := by
      apply Nat.le_of_not_lt
      intro hlt
      rw [Nat.div_eq_of_lt hlt, Nat.zero_div] at h
      exact absurd h (Nat.lt_irrefl 0)
    obtain ⟨suf, hs⟩ := ih (n / b) h
    exact ⟨suf ++ [Nat.digitChar (n % b)], by
      rw [Nat.toDigits_of_base_le hb hge, hs, List.append_assoc]⟩

/-- arithmetic form of the bad shape: some leading part of `n` (in base 16) is `0xb0` or `0xb1` -/
theorem hexH_bad_iff (n : Nat) :
    (∃ d ds, Nat.toDigits 16 n = 'b' :: d :: ds ∧ isBinDigit d = true) ↔
      ∃ k, n / 16 ^ k = 176 ∨ n / 16 ^ k = 177 := by
  constructor
  · rintro ⟨d, ds, hds, hd⟩
    have hp := toDigits_prefix (b := 16) (by decide) ds n ['b', d] (by simp) hds
    have hv := digitsVal_toDigits (b := 16) (by decide) (by decide) (n / 16 ^ ds.length)
    rw [← hp] at hv
    refine ⟨ds.length, ?_⟩
    rw [← hv]
    have : d = '0' ∨ d = '1' := by simpa [isBinDigit] using hd
    rcases this with rfl | rfl
    · exact .inl (by decide)
    · exact .inr (by decide)
  · rintro ⟨k, hk⟩
    have hpos : 0 < n / 16 ^ k := by rcases hk with h | h <;> rw [h] <;> decide
    obtain ⟨suf, hs⟩ := toDigits_quot_prefix (b := 16) (by decide) k n hpos
    rcases hk with h | h
    · rw [h] at hs
      exact ⟨'0', suf, hs, by decide⟩
    · rw [h] at hs
      exact ⟨'1', suf, hs, by decide⟩

/-- `lex_hex_H` with the side condition in arithmetic form -/
theorem lex_hex_H_partial_arith (n : Nat) (h : ∀ k, n / 16 ^ k ≠ 176 ∧ n / 16 ^ k ≠ 177) :
    lexExpr (Nat.toDigits 16 n ++ ['H']) = .ok [.num n] := by
  apply lex_hex_H_partial
  intro d ds hds
  cases hd : isBinDigit d with
  | false => rfl
  | true =>
    obtain ⟨k, hk⟩ := (hexH_bad_iff n).mp ⟨d, ds, hds, hd⟩
    rcases hk with hk | hk
    · exact absurd hk (h k).1
    · exact absurd hk (h k).2

theorem lex_hex_H_iff_arith (n : Nat) :
    lexExpr (Nat.toDigits 16 n ++ ['H']) = .ok [.num n] ↔
      ∀ k, n / 16 ^ k ≠ 176 ∧ n / 16 ^ k ≠ 177 := by
  constructor
  · intro h k
    have hb := (lex_hex_H_iff n).mp h
    constructor
    · intro hk
      obtain ⟨d, ds, hds, hd⟩ := (hexH_bad_iff n).mpr ⟨k, .inl hk⟩
      rw [hb d ds hds] at hd; cases hd
    · intro hk
      obtain ⟨d, ds, hds, hd⟩ := (hexH_bad_iff n).mpr ⟨k, .inr hk⟩
      rw [hb d ds hds] at hd; cases hd
  · exact lex_hex_H_partial_arith n

theorem lex_char (c : Char) : lexExpr ['\'', c, '\''] = .ok [.num c.toNat] := by
  apply lexExpr_single
  have hL : ∀ l : List Char, (('\'' :: l) == ['L', 'S', 'B', '(']) = false := fun _ => rfl
  have hB : ∀ l : List Char, (('\'' :: l) == ['B', 'Y', 'T', 'E']) = false := fun _ => rfl
  unfold lexStep
  simp only [show ('\'' == '%') = false from by decide, show ('\'' == 'b') = false from by decide,
    show ('\'' == '$') = false from by decide, show ('\'' == '0') = false from by decide,
    show isHexDigit '\'' = false from by decide, show Char.isDigit '\'' = false from by decide,
    show opOfChar '\'' = none from by decide,
    show ('\'' == '>') = false from by decide, show ('\'' == '<') = false from by decide,
    show ('\'' == '.') = false from by decide, show isWordChar '\'' = false from by decide,
    show ('\'' == '\'') = true from by decide,
    Bool.or_self, Bool.false_and, Bool.and_self, Bool.false_eq_true, if_false,
    if_true, List.head?_cons, List.drop_succ_cons, List.drop_zero, Option.isSome_some,
    Option.getD_some, List.take_succ_cons, hL, hB,
    show (some '\'' == some '\'') = true from by decide]

end LexLemmas
end BV
