import BespokeVerif.Model.Run
import BespokeVerif.Model.Select
import BespokeVerif.Lemmas.Bits
import BespokeVerif.Lemmas.Image
import BespokeVerif.Lemmas.Select
/-
  C14 helper lemmas: the file-system layer, error propagation through `mapM` / `emitAll`,
  unresolved labels, and the image loop.
-/
namespace BV

/-! ## the file system -/

theorem FS.read_write_same (fs : FS) (name : String) (data : List Nat) :
    (fs.write name data).read name = some data := by
  simp [FS.read, FS.write]

theorem FS.read_write_other (fs : FS) (name other : String) (data : List Nat)
    (hne : (other == name) = false) : (fs.write name data).read other = fs.read other := by
  have hne' : other ≠ name := by simpa using hne
  have h1 : ((name == other) = false) := by
    simp only [beq_eq_false_iff_ne, ne_eq]
    exact fun h => hne' h.symm
  simp only [FS.read, FS.write]
  rw [List.find?_cons_of_neg (by simpa using h1), List.find?_filter]
  congr 2
  funext f
  by_cases hf : f.1 = other
  · have : ¬ f.1 = name := fun h => hne' (hf ▸ h)
    simp [hf, hne']
  · simp [hf]

/-! ## `mapM` in `Except` -/

theorem mapM_except_error_of_mem {α β : Type} (f : α → Except Err β) (l : List α) (a : α) (ha : a ∈ l)
    (e : Err) (hf : f a = .error e) : ∃ e', l.mapM f = .error e' := by
  induction l with
  | nil => cases ha
  | cons x xs ih =>
    rw [List.mapM_cons]
    cases hx : f x with
    | error ex => exact ⟨ex, rfl⟩
    | ok b =>
      rcases List.mem_cons.mp ha with rfl | hmem
      · rw [hx] at hf; cases hf
      · obtain ⟨e', he'⟩ := ih hmem
        exact ⟨e', by rw [he']; rfl⟩

/-! ## unresolved labels -/

theorem evalE_unresolved (env : String → Option Int) (e : E) (s : String) (hs : s ∈ labelsOf e)
    (hn : env s = none) : ∃ err, evalE env e = .error err := by
  induction e with
  | num n => simp [labelsOf] at hs
  | label t =>
    simp only [labelsOf, List.mem_singleton] at hs
    subst hs
    exact ⟨.unresolvedLabel, by simp [evalE, hn]⟩
  | neg e ih =>
    obtain ⟨err, h⟩ := ih hs
    exact ⟨err, by simp only [evalE, h]; rfl⟩
  | byteN k e ih =>
    obtain ⟨err, h⟩ := ih hs
    exact ⟨err, by simp only [evalE, h]; rfl⟩
  | bin op l r ihl ihr =>
    simp only [labelsOf, List.mem_append] at hs
    cases hl : evalE env l with
    | error el => exact ⟨el, by simp only [evalE, hl]; rfl⟩
    | ok a =>
      rcases hs with hs | hs
      · obtain ⟨err, h⟩ := ihl hs
        rw [hl] at h; cases h
      · obtain ⟨err, h⟩ := ihr hs
        exact ⟨err, by simp only [evalE, hl, h]; rfl⟩

theorem valueE_label_unresolved (env : String → Option Int) (s : String) (hn : env s = none) :
    valueE env (.label s) = .error .unresolvedLabel := by
  simp only [valueE, evalE, hn]; rfl

/-! ## the second pass -/

theorem emitAll_error_at (cfg : Cfg) (L : Labels) (pre post : List Placed) (p : Placed) (e : Err)
    (hp : lineBytes cfg L p = .error e) (hpre : ∀ q ∈ pre, ∃ bs, lineBytes cfg L q = .ok bs) :
    emitAll cfg L (pre ++ p :: post) = .error e := by
  induction pre with
  | nil => simp only [List.nil_append, emitAll, hp]; rfl
  | cons q qs ih =>
    obtain ⟨bs, hq⟩ := hpre q (List.mem_cons_self)
    have := ih (fun x hx => hpre x (List.mem_cons_of_mem _ hx))
    simp only [List.cons_append, emitAll, hq, this]; rfl

theorem emitAll_ok_lines (cfg : Cfg) (L : Labels) (ps : List Placed) :
    ∀ (es : List Emitted), emitAll cfg L ps = .ok es → ∀ p ∈ ps, ∃ bs, lineBytes cfg L p = .ok bs := by
  induction ps with
  | nil => intro es _ p hp; cases hp
  | cons q qs ih =>
    intro es h p hp
    simp only [emitAll] at h
    cases hq : lineBytes cfg L q with
    | error e => rw [hq] at h; cases h
    | ok bs =>
      cases hr : emitAll cfg L qs with
      | error e => rw [hq, hr] at h; cases h
      | ok es' =>
        rcases List.mem_cons.mp hp with rfl | hmem
        · exact ⟨bs, hq⟩
        · exact ih es' hr p hmem

/-! ## the image loop -/

theorem lineStep_empty (m : List (Int × Nat)) (e : Emitted) (he : e.bytes = []) : lineStep m e = m := by
  unfold lineStep putLine
  rw [he]
  simp

theorem memMap_skip_empty (es₁ es₂ : List Emitted) (e : Emitted) (he : e.bytes = []) :
    memMap (es₁ ++ e :: es₂) = memMap (es₁ ++ es₂) := by
  rw [memMap_eq, memMap_eq, List.foldl_append, List.foldl_append, List.foldl_cons, lineStep_empty _ _ he]

end BV
