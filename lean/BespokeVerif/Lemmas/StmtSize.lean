/-
  Reserved size = emitted size for a whole ISA statement (C02 / C10): the number of bytes
  `assembleStmt` produces is the size `stmtSize` reserved from selection alone, whatever the label
  environment and the address are.  Route: sizes depend only on the (size, align) of every field;
  resolving values and evaluating expressions never changes those.
-/
import BespokeVerif.Model.Select
import BespokeVerif.Model.Macro
import BespokeVerif.Lemmas.Bits
import BespokeVerif.Lemmas.Macro
namespace BV

/-- forget the value (and byte order) of a field: what is left is all the size loop looks at -/
def Field.nz (f : Field) : Field := { value := 0, size := f.size, align := f.align, little := false }

def OpParts.nz (o : OpParts) : OpParts :=
  { code := o.code.map fun (f, p) => (f.nz, p), arg := o.arg.map Field.nz }

theorem totalBits_map_nz (fs : List Field) (acc : Nat) :
    totalBits (fs.map Field.nz) acc = totalBits fs acc := by
  induction fs generalizing acc with
  | nil => rfl
  | cons f fs ih => simp only [List.map_cons, totalBits, Field.nz, ih]

theorem byteSizeOf_map_nz (fs : List Field) : byteSizeOf (fs.map Field.nz) = byteSizeOf fs := by
  unfold byteSizeOf; rw [totalBits_map_nz]

theorem prefixGroup_map_nz (ops : List OpParts) :
    prefixGroup (ops.map OpParts.nz) = (prefixGroup ops).map Field.nz := by
  unfold prefixGroup
  rw [List.map_reverse]
  congr 1
  induction ops with
  | nil => rfl
  | cons o os ih =>
    simp only [List.map_cons, List.filterMap_cons]
    rcases o with ⟨_ | ⟨f, _ | _⟩, a⟩ <;> simp [OpParts.nz, ih]

theorem suffixGroup_map_nz (ops : List OpParts) :
    suffixGroup (ops.map OpParts.nz) = (suffixGroup ops).map Field.nz := by
  unfold suffixGroup
  induction ops with
  | nil => rfl
  | cons o os ih =>
    simp only [List.map_cons, List.filterMap_cons]
    rcases o with ⟨_ | ⟨f, _ | _⟩, a⟩ <;> simp [OpParts.nz, ih]

theorem argGroup_map_nz (ops : List OpParts) :
    argGroup (ops.map OpParts.nz) = (argGroup ops).map Field.nz := by
  unfold argGroup
  induction ops with
  | nil => rfl
  | cons o os ih =>
    simp only [List.map_cons, List.filterMap_cons]
    rcases o with ⟨c, _ | a⟩ <;> simp [OpParts.nz, ih]

theorem specOrder_map_nz (ops : List OpParts) (opcode : Field) (sfx : Option Field) (ra rc : Bool) :
    specOrder (ops.map OpParts.nz) opcode.nz (sfx.map Field.nz) ra rc
      = (specOrder ops opcode sfx ra rc).map Field.nz := by
  unfold specOrder
  simp only [prefixGroup_map_nz, suffixGroup_map_nz, argGroup_map_nz, List.map_append, List.map_cons,
    List.map_nil]
  cases sfx <;> cases ra <;> cases rc <;> simp [List.map_reverse]

/-- the reserved size of a field order depends only on the shapes of its parts -/
theorem byteSizeOf_fieldOrder_nz (ops : List OpParts) (opcode : Field) (sfx : Option Field) (ra rc : Bool) :
    byteSizeOf (fieldOrder (ops.map OpParts.nz) opcode.nz (sfx.map Field.nz) ra rc)
      = byteSizeOf (fieldOrder ops opcode sfx ra rc) := by
  rw [fieldOrder_eq_specOrder', fieldOrder_eq_specOrder', specOrder_map_nz, byteSizeOf_map_nz]

theorem byteSizeOf_fieldOrder_congr (ops ops' : List OpParts) (opcode : Field) (sfx : Option Field)
    (ra rc : Bool) (h : ops.map OpParts.nz = ops'.map OpParts.nz) :
    byteSizeOf (fieldOrder ops opcode sfx ra rc) = byteSizeOf (fieldOrder ops' opcode sfx ra rc) := by
  rw [← byteSizeOf_fieldOrder_nz ops, ← byteSizeOf_fieldOrder_nz ops', h]

/-! ### resolving a source operand keeps its shape -/

theorem SrcField.resolveField_nz {f : SrcField} {addr size : Int} {r : Field}
    (h : f.resolveField addr size = .ok r) : r.nz = f.shape.nz := by
  unfold SrcField.resolveField at h
  cases hv : f.src.resolve addr size f.size with
  | error e => simp [hv, bind, Except.bind] at h
  | ok v =>
    simp only [hv, bind, Except.bind, Except.ok.injEq] at h
    subst h; rfl

theorem SrcOp.resolve_nz {o : SrcOp} {addr size : Int} {r : OpParts}
    (h : o.resolve addr size = .ok r) : r.nz = o.shape.nz := by
  unfold SrcOp.resolve at h
  rcases o with ⟨code, arg⟩
  cases code with
  | none =>
    cases arg with
    | none =>
      simp only [bind, Except.bind, pure, Except.pure, Except.ok.injEq] at h
      subst h; rfl
    | some a =>
      simp only [bind, Except.bind, pure, Except.pure] at h
      cases ha : a.resolveField addr size with
      | error e => simp [ha] at h
      | ok ra =>
        simp only [ha, Except.ok.injEq] at h
        subst h
        simp [OpParts.nz, SrcOp.shape, SrcField.resolveField_nz ha]
  | some cp =>
    rcases cp with ⟨c, p⟩
    simp only [bind, Except.bind, pure, Except.pure] at h
    cases hc : c.resolveField addr size with
    | error e => simp [hc] at h
    | ok rc =>
      simp only [hc] at h
      cases arg with
      | none =>
        simp only [Except.ok.injEq] at h
        subst h
        simp [OpParts.nz, SrcOp.shape, SrcField.resolveField_nz hc]
      | some a =>
        simp only at h
        cases ha : a.resolveField addr size with
        | error e => simp [ha] at h
        | ok ra =>
          simp only [ha, Except.ok.injEq] at h
          subst h
          simp [OpParts.nz, SrcOp.shape, SrcField.resolveField_nz hc, SrcField.resolveField_nz ha]

theorem resolveOps_nz {addr size : Int} : ∀ {ops : List SrcOp} {parts : List OpParts},
    resolveOps addr size ops = .ok parts → parts.map OpParts.nz = (ops.map SrcOp.shape).map OpParts.nz
  | [], parts, h => by
    simp only [resolveOps, Except.ok.injEq] at h; subst h; rfl
  | o :: os, parts, h => by
    simp only [resolveOps, bind, Except.bind] at h
    cases ho : o.resolve addr size with
    | error e => simp [ho] at h
    | ok r =>
      simp only [ho] at h
      cases hos : resolveOps addr size os with
      | error e => simp [hos] at h
      | ok rs =>
        simp only [hos, Except.ok.injEq] at h
        subst h
        simp only [List.map_cons, SrcOp.resolve_nz ho, resolveOps_nz hos]

/-- `encodeInstr` emits exactly the reserved number of bytes -/
theorem encodeInstr_length {addr : Int} {ops : List SrcOp} {opcode : Field} {sfx : Option Field}
    {ra rc : Bool} {bs : List Nat} (h : encodeInstr addr ops opcode sfx ra rc = .ok (some bs)) :
    bs.length = instrSize ops opcode sfx ra rc := by
  unfold encodeInstr at h
  simp only [bind, Except.bind] at h
  cases hp : resolveOps addr (instrSize ops opcode sfx ra rc) ops with
  | error e => simp [hp] at h
  | ok parts =>
    simp only [hp] at h
    unfold getBytes at h
    simp only [bind, Except.bind] at h
    cases ha : PB.init.appendAll (fieldOrder parts opcode sfx ra rc) with
    | error e => simp [ha] at h
    | ok s =>
      simp only [ha] at h
      split at h
      · simp at h
      · rename_i hlen
        simp only [Except.ok.injEq, Option.some.injEq] at h
        subst h
        have hlen' : s.bytes.length = byteSizeOf (fieldOrder parts opcode sfx ra rc) := by
          simpa using hlen
        rw [hlen']
        unfold instrSize
        exact byteSizeOf_fieldOrder_congr _ _ _ _ _ _ (resolveOps_nz hp)

/-! ### evaluating the expressions of a matched operand keeps its shape -/

def ParsedOp.shapeParts (p : ParsedOp) : OpParts :=
  { code := p.code.map fun (f, pos) => (f.shape, pos), arg := p.arg.map FieldSpec.shape }

theorem FieldSpec.toSrc_nz {env : String → Option Int} {f : FieldSpec} {s : SrcField}
    (h : f.toSrc env = .ok s) : s.shape.nz = f.shape.nz := by
  unfold FieldSpec.toSrc at h
  simp only [bind, Except.bind] at h
  cases hv : valueE env f.e with
  | error e => simp [hv] at h
  | ok v =>
    simp only [hv] at h
    cases hpre : f.pre with
    | none =>
      simp only [hpre, Except.ok.injEq] at h
      subst h
      simp [SrcField.shape, FieldSpec.shape, Field.nz, hpre]
    | some pp =>
      rcases pp with ⟨pv, pn⟩
      simp only [hpre] at h
      cases hl : (f.kind.toSrc v).resolve 0 0 f.size with
      | error e => simp [hl] at h
      | ok lv =>
        simp only [hl] at h
        split at h
        · simp at h
        · simp only [Except.ok.injEq] at h
          subst h
          simp [SrcField.shape, FieldSpec.shape, Field.nz, hpre]

theorem ParsedOp.toSrcOp_nz {env : String → Option Int} {p : ParsedOp} {o : SrcOp}
    (h : p.toSrcOp env = .ok o) : o.shape.nz = p.shapeParts.nz := by
  unfold ParsedOp.toSrcOp at h
  rcases p with ⟨id, code, arg⟩
  cases code with
  | none =>
    cases arg with
    | none =>
      simp only [bind, Except.bind, pure, Except.pure, Except.ok.injEq] at h
      subst h; rfl
    | some a =>
      simp only [bind, Except.bind, pure, Except.pure] at h
      cases ha : a.toSrc env with
      | error e => simp [ha] at h
      | ok ra =>
        simp only [ha, Except.ok.injEq] at h
        subst h
        simp [OpParts.nz, SrcOp.shape, ParsedOp.shapeParts, FieldSpec.toSrc_nz ha]
  | some cp =>
    rcases cp with ⟨c, pos⟩
    simp only [bind, Except.bind, pure, Except.pure] at h
    cases hc : c.toSrc env with
    | error e => simp [hc] at h
    | ok rc =>
      simp only [hc] at h
      cases arg with
      | none =>
        simp only [Except.ok.injEq] at h
        subst h
        simp [OpParts.nz, SrcOp.shape, ParsedOp.shapeParts, FieldSpec.toSrc_nz hc]
      | some a =>
        simp only at h
        cases ha : a.toSrc env with
        | error e => simp [ha] at h
        | ok ra =>
          simp only [ha, Except.ok.injEq] at h
          subst h
          simp [OpParts.nz, SrcOp.shape, ParsedOp.shapeParts, FieldSpec.toSrc_nz hc, FieldSpec.toSrc_nz ha]

theorem mapM_toSrcOp_nz {env : String → Option Int} : ∀ {ps : List ParsedOp} {os : List SrcOp},
    ps.mapM (ParsedOp.toSrcOp env) = .ok os →
    (os.map SrcOp.shape).map OpParts.nz = (ps.map ParsedOp.shapeParts).map OpParts.nz
  | [], os, h => by
    simp only [List.mapM_nil, pure, Except.pure, Except.ok.injEq] at h; subst h; rfl
  | p :: ps, os, h => by
    simp only [List.mapM_cons, bind, Except.bind, pure, Except.pure] at h
    cases hp : p.toSrcOp env with
    | error e => simp [hp] at h
    | ok o =>
      simp only [hp] at h
      cases hps : ps.mapM (ParsedOp.toSrcOp env) with
      | error e => simp [hps] at h
      | ok os' =>
        simp only [hps, Except.ok.injEq] at h
        subst h
        simp only [List.map_cons, ParsedOp.toSrcOp_nz hp, mapM_toSrcOp_nz hps]

theorem stmtSize_eq (v : VariantCfg) (m : Matched) :
    stmtSize v m = byteSizeOf (fieldOrder (m.ops.map ParsedOp.shapeParts) v.opcode
      (if v.count.isNone then none else v.suffix) m.revArgs m.revCodes) := rfl

/-- **reserved = emitted** for an instruction statement: whatever the labels evaluate to and
    wherever the statement is placed, an accepted statement emits exactly `stmtSize` bytes of the
    variant that selection (which looks at no value) picked. -/
theorem assembleStmt_length {regs : List String} {gz : Int × Int} {env : String → Option Int} {addr : Int}
    {variants : List VariantCfg} {fs : List Form} {i : Nat} {bs : List Nat}
    (h : assembleStmt regs gz env addr variants fs = .ok (i, bs)) :
    ∃ v m, selectVariant regs gz variants fs 0 = .ok (i, v, m) ∧ bs.length = stmtSize v m := by
  unfold assembleStmt at h
  cases hs : selectVariant regs gz variants fs 0 with
  | decline => simp [hs] at h
  | hard => simp [hs] at h
  | ok r =>
    rcases r with ⟨j, v, m⟩
    simp only [hs, bind, Except.bind] at h
    cases hops : m.ops.mapM (ParsedOp.toSrcOp env) with
    | error e => simp [hops] at h
    | ok ops =>
      simp only [hops] at h
      cases henc : encodeInstr addr ops v.opcode (if v.count.isNone then none else v.suffix) m.revArgs m.revCodes with
      | error e => rw [henc] at h; simp at h
      | ok r =>
        rw [henc] at h
        cases r with
        | none => simp at h
        | some bs' =>
          simp only [Except.ok.injEq, Prod.mk.injEq] at h
          obtain ⟨rfl, rfl⟩ := h
          refine ⟨v, m, rfl, ?_⟩
          rw [encodeInstr_length henc, stmtSize_eq]
          unfold instrSize
          exact byteSizeOf_fieldOrder_congr _ _ _ _ _ _ (mapM_toSrcOp_nz hops)

/-- the step loop emits, for every label environment and address, exactly the bytes that the first
    pass reserved from selection alone -/
theorem assembleSteps_length {regs : List String} {gz : Int × Int} {env : String → Option Int} {tbl : InstrTable} :
    ∀ {steps : List (String × List Form)} {addr : Int} {bs : List Nat},
      assembleSteps regs gz env tbl addr steps = .ok bs →
      ∃ sizes, stepSizes regs gz tbl steps = some sizes ∧ bs.length = sizes.sum
  | [], addr, bs, h => by
    simp only [assembleSteps, Except.ok.injEq] at h
    subst h
    exact ⟨[], rfl, rfl⟩
  | (mn, fs) :: rest, addr, bs, h => by
    cases ht : tbl.find? (·.1 == mn) with
    | none => rw [assembleSteps_cons_none _ _ _ _ _ _ _ _ ht] at h; simp at h
    | some xv =>
      rcases xv with ⟨x, variants⟩
      cases h1 : assembleStmt regs gz env addr variants fs with
      | error e => rw [assembleSteps_cons_error _ _ _ _ _ _ _ _ _ _ _ ht h1] at h; simp at h
      | ok r =>
        rcases r with ⟨i, b1⟩
        rw [assembleSteps_cons_ok _ _ _ _ _ _ _ _ _ _ _ _ ht h1] at h
        cases hr : assembleSteps regs gz env tbl (addr + b1.length) rest with
        | error e => rw [hr] at h; simp [Except.map] at h
        | ok tail =>
          rw [hr] at h
          simp only [Except.map, Except.ok.injEq] at h
          subst h
          obtain ⟨v, m, hsel, hlen⟩ := assembleStmt_length h1
          obtain ⟨sizes, hsz, hsum⟩ := assembleSteps_length hr
          refine ⟨stmtSize v m :: sizes, ?_, ?_⟩
          · simp only [stepSizes, ht, hsel, hsz, Option.map_some]
          · simp only [List.length_append, List.sum_cons, hlen, hsum]

end BV
