/-
  Lemmas about the listing rows (Model/Listing.lean).
-/
import BespokeVerif.Model.Listing
namespace BV

theorem chunkRows_flatten (k : Nat) (hk : 0 < k) (f : Nat) (bs : List Nat) (hf : bs.length ≤ f) :
    (chunkRows k f bs).flatten = bs := by
  induction f generalizing bs with
  | zero =>
    have : bs = [] := List.length_eq_zero_iff.mp (by omega)
    subst this; simp [chunkRows]
  | succ f ih =>
    rw [chunkRows]
    cases bs with
    | nil => simp
    | cons b bs' =>
      simp only [List.isEmpty_cons, Bool.false_eq_true, if_false, List.flatten_cons]
      rw [ih]
      · exact List.take_append_drop k (b :: bs')
      · have hl : (b :: bs').length ≤ f + 1 := hf
        simp only [List.length_cons] at hl
        simp only [List.length_drop, List.length_cons]
        omega

theorem chunkRows_row_le (k : Nat) (f : Nat) (bs : List Nat) : ∀ c ∈ chunkRows k f bs, c.length ≤ k := by
  induction f generalizing bs with
  | zero => simp [chunkRows]
  | succ f ih =>
    rw [chunkRows]
    split
    · simp
    · intro c hc
      simp only [List.mem_cons] at hc
      rcases hc with rfl | hc
      · simp [List.length_take]; omega
      · exact ih _ c hc

theorem mergePRows_conts (cs : List (List Nat)) (rest : List PRow) (r : LRow) (acc : List LRow) :
    mergePRows (cs.map .cont ++ rest) (r :: acc) = mergePRows rest ({ r with bytes := r.bytes ++ cs.flatten } :: acc) := by
  induction cs generalizing r with
  | nil => simp
  | cons c cs ih =>
    simp only [List.map_cons, List.cons_append, mergePRows, List.flatten_cons]
    rw [ih]
    simp [List.append_assoc]

theorem mergePRows_line (k : Nat) (hk : 0 < k) (r : LRow) (rest : List PRow) (acc : List LRow) :
    mergePRows (encListingLine k r ++ rest) acc = mergePRows rest (r :: acc) := by
  unfold encListingLine
  have hfl := chunkRows_flatten k hk r.bytes.length r.bytes (Nat.le_refl _)
  cases hc : chunkRows k r.bytes.length r.bytes with
  | nil =>
    rw [hc] at hfl
    simp only [List.flatten_nil] at hfl
    simp only [List.cons_append, List.nil_append, mergePRows]
    congr 2
    cases r; simp_all
  | cons c cs =>
    rw [hc] at hfl
    simp only [List.flatten_cons] at hfl
    simp only [List.cons_append, mergePRows]
    rw [mergePRows_conts]
    congr 2
    cases r; simp_all

/-- every statement appears exactly once, with its address and all of its bytes, however many rows its bytes take -/
theorem mergePRows_listing (k : Nat) (hk : 0 < k) (rows : List LRow) :
    mergePRows (rows.flatMap (encListingLine k)) [] = rows := by
  have h : ∀ (rows : List LRow) (acc : List LRow),
      mergePRows (rows.flatMap (encListingLine k)) acc = acc.reverse ++ rows := by
    intro rows
    induction rows with
    | nil => intro acc; simp [mergePRows]
    | cons r rows ih =>
      intro acc
      rw [List.flatMap_cons, mergePRows_line k hk, ih]
      simp
  simpa using h rows []
end BV
