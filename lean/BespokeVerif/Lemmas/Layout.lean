import BespokeVerif.Model.Layout
import BespokeVerif.Lemmas.StmtSize
import BespokeVerif.Lemmas.Bits
/-!
  Helper lemmas for C02 / C05: `alignUp`, zones and their cursors, inversion of `firstPassStep`,
  sizes of the bytes of a line.
-/
namespace BV

/-! ## `alignUp` -/

theorem alignUp_dvd' (a p : Int) : p ∣ alignUp a p := by
  unfold alignUp
  split
  · exact Int.dvd_of_emod_eq_zero ‹_›
  · refine ⟨a / p + 1, ?_⟩
    have h := Int.emod_add_mul_ediv a p
    rw [Int.mul_add, Int.mul_one]
    omega

theorem alignUp_ge' (a p : Int) (hp : 0 < p) : a ≤ alignUp a p := by
  unfold alignUp
  split
  · exact Int.le_refl _
  · have := Int.emod_lt_of_pos a hp
    omega

theorem alignUp_least' (a p m : Int) (hp : 0 < p) (hd : p ∣ m) (hm : a ≤ m) : alignUp a p ≤ m := by
  unfold alignUp
  split
  · exact hm
  · rename_i hne
    obtain ⟨k, rfl⟩ := hd
    have h := Int.emod_add_mul_ediv a p
    have hlt := Int.emod_lt_of_pos a hp
    have hnn := Int.emod_nonneg a (Int.ne_of_gt hp)
    have hq : a / p + 1 ≤ k := by
      apply Classical.byContradiction
      intro hc
      have hk : k ≤ a / p := by omega
      have := Int.mul_le_mul_of_nonneg_left hk (Int.le_of_lt hp)
      omega
    have := Int.mul_le_mul_of_nonneg_left hq (Int.le_of_lt hp)
    rw [Int.mul_add, Int.mul_one] at this
    omega

theorem alignUp_aligned' (a p : Int) (h : p ∣ a) : alignUp a p = a := by
  unfold alignUp
  rw [if_pos (Int.emod_eq_zero_of_dvd h)]

/-! ## zones -/

theorem Zones.get?_name {zs : Zones} {n : String} {z : Zone} (h : zs.get? n = some z) : z.name = n := by
  have := List.find?_some h
  simpa using this

theorem Zones.get?_mem {zs : Zones} {n : String} {z : Zone} (h : zs.get? n = some z) : z ∈ zs :=
  List.mem_of_find?_eq_some h

theorem Zone.setCur_ok {z z' : Zone} {v : Int} (h : z.setCur v = .ok z') :
    z' = { z with cur := v } ∧ z.start ≤ v ∧ v ≤ z.stop + 1 := by
  unfold Zone.setCur at h
  split at h
  · cases h
  · split at h
    · cases h
    · cases h
      exact ⟨rfl, by omega, by omega⟩

theorem Zone.setCur_of_bounds {z : Zone} {v : Int} (h1 : z.start ≤ v) (h2 : v ≤ z.stop + 1) :
    z.setCur v = .ok { z with cur := v } := by
  unfold Zone.setCur
  rw [if_neg (by omega), if_neg (by omega)]

theorem Zone.setCur_error {z : Zone} {v : Int} (h : v < z.start ∨ z.stop + 1 < v) :
    z.setCur v = .error .zoneBounds := by
  unfold Zone.setCur
  by_cases h1 : v < z.start
  · rw [if_pos h1]
  · rw [if_neg h1, if_pos (by omega)]

/-- the zone list after replacing every zone called `n` by `z'` -/
def Zones.replace (zs : Zones) (n : String) (z' : Zone) : Zones :=
  zs.map fun y => if y.name == n then z' else y

theorem Zones.setCur_ok {zs zs' : Zones} {n : String} {v : Int} (h : zs.setCur n v = .ok zs') :
    ∃ z, zs.get? n = some z ∧ z.start ≤ v ∧ v ≤ z.stop + 1 ∧
      zs' = zs.replace n { z with cur := v } := by
  unfold Zones.setCur at h
  split at h
  · cases h
  · rename_i z hz
    cases hs : z.setCur v with
    | error e => rw [hs] at h; cases h
    | ok z' =>
      rw [hs] at h
      obtain ⟨rfl, h1, h2⟩ := Zone.setCur_ok hs
      refine ⟨z, hz, h1, h2, ?_⟩
      cases h
      rfl

theorem Zones.setCur_eq {zs : Zones} {n : String} {v : Int} {z : Zone} (hz : zs.get? n = some z) :
    zs.setCur n v = (z.setCur v).bind fun z' => .ok (zs.replace n z') := by
  unfold Zones.setCur
  rw [hz]
  rfl

theorem Zones.get?_replace_same {zs : Zones} {n : String} {z z' : Zone} (hz : zs.get? n = some z)
    (hn : z'.name = n) : (zs.replace n z').get? n = some z' := by
  induction zs with
  | nil => cases hz
  | cons y ys ih =>
    unfold Zones.get? at hz ih ⊢
    unfold Zones.replace at ih ⊢
    rw [List.find?_cons] at hz
    rw [List.map_cons, List.find?_cons]
    by_cases hy : (y.name == n) = true
    · simp only [hy, if_true]
      have : (z'.name == n) = true := by simp [hn]
      simp only [this]
    · simp only [hy] at hz ⊢
      simp only [Bool.false_eq_true, if_false, hy]
      exact ih hz

theorem Zones.get?_replace_other {zs : Zones} {n m : String} {z' : Zone} (hn : z'.name = n)
    (hm : m ≠ n) : (zs.replace n z').get? m = zs.get? m := by
  induction zs with
  | nil => rfl
  | cons y ys ih =>
    unfold Zones.get? at ih ⊢
    unfold Zones.replace at ih ⊢
    rw [List.map_cons, List.find?_cons, List.find?_cons, ih]
    by_cases hy : (y.name == n) = true
    · have hyn : y.name = n := by simpa using hy
      have h1 : (z'.name == m) = false := by simp [hn, Ne.symm hm]
      have h2 : (y.name == m) = false := by simp [hyn, Ne.symm hm]
      simp only [hy, if_true, h1, h2]
    · simp only [hy, Bool.false_eq_true, if_false]

theorem Zones.mem_replace {zs : Zones} {n : String} {z' x : Zone} (hx : x ∈ zs.replace n z') :
    x = z' ∨ x ∈ zs := by
  unfold Zones.replace at hx
  rw [List.mem_map] at hx
  obtain ⟨y, hy, rfl⟩ := hx
  split
  · exact Or.inl rfl
  · exact Or.inr hy

/-! ## the first pass, one line -/

/-- address and size of a line, given the zone it is assembled in -/
def placeOf (cfg : Cfg) (zs : Zones) (L : Labels) (ln : Line) (z : Zone) : Except Err (Int × Int) :=
  let env := envOf L cfg.regs ln.scope
  let cur := z.cur
  match ln.stmt with
  | .data w vals => .ok (cur, (w * vals.length : Int))
  | .bytes bs => .ok (cur, (bs.length : Int))
  | .str raw term => .ok (cur, (((unescape raw.toList).length + term.toList.length : Nat) : Int))
  | .fill cnt _ => (valueE env cnt).bind fun n => .ok (cur, n)
  | .zerountil a => (valueE env a).bind fun t => .ok (cur, if t ≥ cur then t - cur + 1 else 0)
  | .instr _ args => .ok (cur, ((1 + args.foldl (fun s a => s + a.2) 0 : Nat) : Int))
  | .isa mn fs => (isaSize cfg mn fs).bind fun n => .ok (cur, (n : Int))
  | .org e zn =>
    (valueE env e).bind fun v =>
      let value := match zn with | none => v | some _ => z.start + v
      match zs.get? "GLOBAL" with
      | none => .error .zoneDecl
      | some g =>
        if value < g.start then .error .zoneBounds
        else if value > g.stop then .error .zoneBounds
        else .ok (value, 0)
  | .align p =>
    (match p with | some e => valueE env e | none => .ok cfg.pageSize).bind fun ps =>
      if ps = 0 then .error .divZero else .ok (alignUp cur ps, 0)
  | _ => .ok (cur, 0)

def labelUpd (L : Labels) (ln : Line) (addr : Int) : Except Err Labels :=
  match ln.stmt with
  | .label name => L.set ln.scope name addr
  | _ => .ok L

theorem firstPassStep_eq (cfg : Cfg) (zs : Zones) (L : Labels) (ln : Line) :
    firstPassStep cfg (zs, L) ln =
      match zs.get? ln.zone with
      | none => .error .zoneDecl
      | some z =>
        (placeOf cfg zs L ln z).bind fun as =>
          (zs.setCur ln.zone (as.1 + as.2)).bind fun zs' =>
            (labelUpd L ln as.1).bind fun L' =>
              .ok ({ line := ln, addr := as.1, size := as.2 }, zs', L') := by
  obtain ⟨stmt, sc, zone, muted, file, cv⟩ := ln
  cases hz : zs.get? zone with
  | none => simp only [firstPassStep, hz, bind, Except.bind]
  | some z =>
    cases stmt <;>
      simp only [firstPassStep, placeOf, labelUpd, hz, bind, Except.bind, pure, Except.pure]
    all_goals (try rfl)
    case fill cnt val => cases valueE (envOf L cfg.regs sc) cnt <;> rfl
    case zerountil a => cases valueE (envOf L cfg.regs sc) a <;> rfl
    case isa mn fs => cases isaSize cfg mn fs <;> rfl
    case org e zn =>
      cases valueE (envOf L cfg.regs sc) e with
      | error er => rfl
      | ok v =>
        cases zs.get? "GLOBAL" with
        | none => rfl
        | some g =>
          cases zn with
          | none =>
            simp only []
            by_cases h1 : v < g.start
            · simp only [h1, if_true]
            · by_cases h2 : v > g.stop
              · simp only [h1, h2, if_true, if_false]
              · simp only [h1, h2, if_false]
          | some nm =>
            simp only []
            by_cases h1 : z.start + v < g.start
            · simp only [h1, if_true]
            · by_cases h2 : z.start + v > g.stop
              · simp only [h1, h2, if_true, if_false]
              · simp only [h1, h2, if_false]
    case align p =>
      cases p with
      | none =>
        simp only []
        by_cases h0 : cfg.pageSize = 0
        · simp only [h0, if_true]
        · simp only [h0, if_false]
      | some e =>
        simp only []
        cases valueE (envOf L cfg.regs sc) e with
        | error er => rfl
        | ok v =>
          simp only []
          by_cases h0 : v = 0
          · simp only [h0, if_true]
          · simp only [h0, if_false]

theorem firstPassStep_ok {cfg : Cfg} {zs : Zones} {L : Labels} {ln : Line} {p : Placed} {zs' : Zones}
    {L' : Labels} (h : firstPassStep cfg (zs, L) ln = .ok (p, zs', L')) :
    ∃ z addr size, zs.get? ln.zone = some z ∧ placeOf cfg zs L ln z = .ok (addr, size) ∧
      zs.setCur ln.zone (addr + size) = .ok zs' ∧ labelUpd L ln addr = .ok L' ∧
      p = { line := ln, addr := addr, size := size } := by
  rw [firstPassStep_eq] at h
  cases hz : zs.get? ln.zone with
  | none => rw [hz] at h; cases h
  | some z =>
    rw [hz] at h
    simp only [] at h
    cases hp : placeOf cfg zs L ln z with
    | error e => rw [hp] at h; cases h
    | ok as =>
      obtain ⟨addr, size⟩ := as
      rw [hp] at h
      simp only [Except.bind] at h
      cases hs : zs.setCur ln.zone (addr + size) with
      | error e => rw [hs] at h; cases h
      | ok zs1 =>
        rw [hs] at h
        simp only [] at h
        cases hl : labelUpd L ln addr with
        | error e => rw [hl] at h; cases h
        | ok L1 =>
          rw [hl] at h
          simp only [] at h
          cases h
          exact ⟨z, addr, size, rfl, hp, hs, hl, rfl⟩

/-- statements whose address is not the cursor (the same function as `C02.movesCursor`) -/
def movesCur : Stmt → Bool
  | .org .. => true
  | .align .. => true
  | _ => false

theorem placeOf_addr {cfg : Cfg} {zs : Zones} {L : Labels} {ln : Line} {z : Zone} {a s : Int}
    (hm : movesCur ln.stmt = false) (h : placeOf cfg zs L ln z = .ok (a, s)) : a = z.cur := by
  obtain ⟨stmt, sc, zone, muted, file, cv⟩ := ln
  cases stmt <;> simp only [movesCur, Bool.true_eq_false] at hm <;> simp only [placeOf] at h
  case fill cnt val =>
    cases hv : valueE (envOf L cfg.regs sc) cnt with
    | error e => rw [hv] at h; cases h
    | ok v => rw [hv] at h; cases h; rfl
  case zerountil t =>
    cases hv : valueE (envOf L cfg.regs sc) t with
    | error e => rw [hv] at h; cases h
    | ok v => rw [hv] at h; cases h; rfl
  case isa mn fs =>
    cases hv : isaSize cfg mn fs with
    | error e => rw [hv] at h; cases h
    | ok v => rw [hv] at h; cases h; rfl
  all_goals (cases h; rfl)

theorem placeOf_nonbyte {cfg : Cfg} {zs : Zones} {L : Labels} {ln : Line} {z : Zone} {a s : Int}
    (hb : isByteLine ln.stmt = false) (h : placeOf cfg zs L ln z = .ok (a, s)) : s = 0 := by
  obtain ⟨stmt, sc, zone, muted, file, cv⟩ := ln
  cases stmt <;> simp only [isByteLine, Bool.true_eq_false] at hb <;> simp only [placeOf] at h
  case org e zn =>
    cases hv : valueE (envOf L cfg.regs sc) e with
    | error e => rw [hv] at h; cases h
    | ok v =>
      rw [hv] at h
      simp only [Except.bind] at h
      cases hg : zs.get? "GLOBAL" with
      | none => rw [hg] at h; cases h
      | some g =>
        rw [hg] at h
        cases zn <;> simp only [] at h <;> split at h
        · cases h
        · split at h
          · cases h
          · cases h; rfl
        · cases h
        · split at h
          · cases h
          · cases h; rfl
  case align p =>
    cases hv : (match p with | some e => valueE (envOf L cfg.regs sc) e | none => Except.ok cfg.pageSize) with
    | error e => rw [hv] at h; cases h
    | ok v =>
      rw [hv] at h
      simp only [Except.bind] at h
      split at h
      · cases h
      · cases h; rfl
  all_goals (cases h; rfl)

theorem placeOf_byte_addr {cfg : Cfg} {zs : Zones} {L : Labels} {ln : Line} {z : Zone} {a s : Int}
    (hb : isByteLine ln.stmt = true) (h : placeOf cfg zs L ln z = .ok (a, s)) : a = z.cur := by
  apply placeOf_addr _ h
  cases hs : ln.stmt <;> rw [hs] at hb <;> first | rfl | cases hb

theorem placeOf_label {cfg : Cfg} {zs : Zones} {L : Labels} {ln : Line} {z : Zone} {name : String}
    (hs : ln.stmt = .label name) : placeOf cfg zs L ln z = .ok (z.cur, 0) := by
  simp only [placeOf, hs]

theorem placeOf_data {cfg : Cfg} {zs : Zones} {L : Labels} {ln : Line} {z : Zone} {w : Nat} {vals : List E}
    (hs : ln.stmt = .data w vals) : placeOf cfg zs L ln z = .ok (z.cur, (w * vals.length : Int)) := by
  simp only [placeOf, hs]

theorem placeOf_zerountil {cfg : Cfg} {zs : Zones} {L : Labels} {ln : Line} {z : Zone} {a : E} {t : Int}
    (hs : ln.stmt = .zerountil a) (ht : valueE (envOf L cfg.regs ln.scope) a = .ok t) :
    placeOf cfg zs L ln z = .ok (z.cur, if t ≥ z.cur then t - z.cur + 1 else 0) := by
  simp only [placeOf, hs, ht, Except.bind]

theorem placeOf_org {cfg : Cfg} {zs : Zones} {L : Labels} {ln : Line} {z : Zone} {e : E} {zn : Option String}
    {v a s : Int} (hs : ln.stmt = .org e zn) (hv : valueE (envOf L cfg.regs ln.scope) e = .ok v)
    (h : placeOf cfg zs L ln z = .ok (a, s)) :
    a = (match zn with | none => v | some _ => z.start + v) ∧ s = 0 ∧
      ∃ g, zs.get? "GLOBAL" = some g ∧ g.start ≤ a ∧ a ≤ g.stop := by
  simp only [placeOf, hs, hv, Except.bind] at h
  cases hg : zs.get? "GLOBAL" with
  | none => rw [hg] at h; cases h
  | some g =>
    rw [hg] at h
    cases zn <;> simp only [] at h <;> split at h
    · cases h
    · split at h
      · cases h
      · cases h
        exact ⟨rfl, rfl, g, rfl, by omega, by omega⟩
    · cases h
    · split at h
      · cases h
      · cases h
        exact ⟨rfl, rfl, g, rfl, by omega, by omega⟩

theorem labelUpd_label {L : Labels} {ln : Line} {a : Int} {name : String} (hs : ln.stmt = .label name) :
    labelUpd L ln a = L.set ln.scope name a := by
  simp only [labelUpd, hs]

theorem labelUpd_other {L : Labels} {ln : Line} {a : Int} (hs : ∀ name, ln.stmt ≠ .label name) :
    labelUpd L ln a = .ok L := by
  unfold labelUpd
  split
  · rename_i name h; exact absurd h (hs name)
  · rfl

/-! ## sizes of the emitted bytes -/

theorem mapM_ok_length {α β : Type} (f : α → Except Err β) :
    ∀ (l : List α) (vs : List β), l.mapM f = .ok vs → vs.length = l.length
  | [], vs, h => by
    rw [List.mapM_nil] at h; cases h; rfl
  | a :: l, vs, h => by
    rw [List.mapM_cons] at h
    cases hf : f a with
    | error e => rw [hf] at h; cases h
    | ok b =>
      cases hl : l.mapM f with
      | error e => rw [hf, hl] at h; cases h
      | ok bs =>
        rw [hf, hl] at h
        cases h
        rw [List.length_cons, List.length_cons, mapM_ok_length f l bs hl]

theorem wordBytes_length (w : Nat) (little : Bool) (v : Int) : (wordBytes w little v).length = w := by
  unfold wordBytes
  cases little <;> simp

theorem flatMap_wordBytes_length (w : Nat) (little : Bool) :
    ∀ vs : List Int, (vs.flatMap (wordBytes w little)).length = w * vs.length
  | [] => by simp
  | v :: vs => by
    rw [List.flatMap_cons, List.length_append, wordBytes_length, flatMap_wordBytes_length w little vs,
      List.length_cons, Nat.mul_succ, Nat.add_comm]

theorem foldl_argw_shift (args : List (E × Nat)) :
    ∀ k : Nat, args.foldl (fun s a => s + a.2) k = k + args.foldl (fun s a => s + a.2) 0 := by
  induction args with
  | nil => intro k; rfl
  | cons a rest ih =>
    intro k
    rw [List.foldl_cons, List.foldl_cons, ih (k + a.2), ih (0 + a.2)]
    omega

theorem instr_args_length (little : Bool) (env : String → Option Int) :
    ∀ (args : List (E × Nat)) (bs : List (List Nat)),
      args.mapM (fun (x : E × Nat) =>
          (match x with
          | (e, w) => do
            let v ← valueE env e
            if Fits v (8 * w) then .ok (wordBytes w little v) else .error .fieldOverflow :
            Except Err (List Nat))) = .ok bs →
        bs.flatten.length = args.foldl (fun s a => s + a.2) 0
  | [], bs, h => by
    rw [List.mapM_nil] at h; cases h; rfl
  | (e, w) :: rest, bs, h => by
    rw [List.mapM_cons] at h
    simp only [] at h
    cases hv : valueE env e with
    | error er => rw [hv] at h; cases h
    | ok v =>
      rw [hv] at h
      simp only [bind, Except.bind] at h
      by_cases hf : Fits v (8 * w)
      · simp only [hf, if_true] at h
        generalize hr : List.mapM (m := Except Err) _ rest = r at h
        cases r with
        | error er => cases h
        | ok bs' =>
          cases h
          rw [List.flatten_cons, List.length_append, wordBytes_length, instr_args_length little env rest bs' hr,
            List.foldl_cons, foldl_argw_shift rest (0 + w)]
          omega
      · simp only [hf, if_false] at h
        cases h

/-- an ISA statement (instruction or macro invocation) emits exactly the bytes that were reserved
    for it from selection alone, for every label environment and address -/
theorem isaBytes_length {cfg : Cfg} {env : String → Option Int} {addr : Int} {mn : String} {fs : List Form}
    {bs : List Nat} {n : Nat} (hs : isaSize cfg mn fs = .ok n) (hb : isaBytes cfg env addr mn fs = .ok bs) :
    bs.length = n := by
  unfold isaSize at hs
  unfold isaBytes at hb
  cases ht : cfg.tbl.find? (·.1 == mn) with
  | some xv =>
    rcases xv with ⟨x, variants⟩
    simp only [ht] at hs hb
    cases ha : assembleStmt cfg.regs (cfgGz cfg) env addr variants fs with
    | error e => simp [ha, Except.map] at hb
    | ok r =>
      rcases r with ⟨i, b⟩
      simp only [ha, Except.map, Except.ok.injEq] at hb
      subst hb
      obtain ⟨v, m, hsel, hlen⟩ := assembleStmt_length ha
      simp only [hsel, Except.ok.injEq] at hs
      omega
  | none =>
    simp only [ht] at hs hb
    cases hm : cfg.macros.find? (·.1 == mn) with
    | none => simp [hm] at hs
    | some xm =>
      rcases xm with ⟨x, mvs⟩
      simp only [hm] at hs hb
      cases ha : assembleMacro cfg.regs (cfgGz cfg) env cfg.tbl addr mvs fs with
      | error e => simp [ha, Except.map] at hb
      | ok r =>
        rcases r with ⟨i, b⟩
        simp only [ha, Except.map, Except.ok.injEq] at hb
        subst hb
        unfold assembleMacro at ha
        cases he : expandMacro cfg.regs (cfgGz cfg) mvs fs with
        | error e => simp [he, bind, Except.bind] at ha
        | ok es =>
          rcases es with ⟨j, steps⟩
          simp only [he, bind, Except.bind] at ha
          simp only [he] at hs
          cases hst : assembleSteps cfg.regs (cfgGz cfg) env cfg.tbl addr steps with
          | error e => simp [hst] at ha
          | ok b' =>
            simp only [hst, Except.ok.injEq, Prod.mk.injEq] at ha
            obtain ⟨_, rfl⟩ := ha
            obtain ⟨sizes, hsz, hsum⟩ := assembleSteps_length hst
            simp only [hsz, Except.ok.injEq] at hs
            omega

theorem lineBytes_length {cfg : Cfg} {zs : Zones} {L L₂ : Labels} {ln : Line} {z : Zone} {a s : Int}
    {bs : List Nat} (hp : placeOf cfg zs L ln z = .ok (a, s))
    (hb : lineBytes cfg L₂ { line := ln, addr := a, size := s } = .ok bs)
    (hbyte : isByteLine ln.stmt = true) (hpos : 0 ≤ s) : (bs.length : Int) = s := by
  obtain ⟨stmt, sc, zone, muted, file, cv⟩ := ln
  cases stmt <;> simp only [isByteLine, Bool.false_eq_true] at hbyte <;>
    simp only [placeOf] at hp <;> simp only [lineBytes] at hb
  case data w vals =>
    cases hp
    cases hm : vals.mapM (valueE (envOf L₂ cfg.regs sc)) with
    | error e => rw [hm] at hb; cases hb
    | ok vs =>
      rw [hm] at hb
      cases hb
      rw [flatMap_wordBytes_length, mapM_ok_length _ _ _ hm]
      exact Int.natCast_mul _ _
  case bytes bl =>
    cases hp; cases hb
    rw [List.length_map]
  case str raw term =>
    cases hp; cases hb
    rw [List.length_append, List.length_map, List.length_map]
  case fill cnt val =>
    cases hc : valueE (envOf L cfg.regs sc) cnt with
    | error e => rw [hc] at hp; cases hp
    | ok n =>
      rw [hc] at hp
      cases hp
      cases hv : valueE (envOf L₂ cfg.regs sc) val with
      | error e => rw [hv] at hb; cases hb
      | ok v =>
        rw [hv] at hb
        cases hb
        rw [List.length_replicate]
        exact Int.toNat_of_nonneg hpos
  case zerountil t =>
    cases hb
    rw [List.length_replicate]
    exact Int.toNat_of_nonneg hpos
  case instr opc args =>
    cases hp
    generalize hm : List.mapM (m := Except Err) _ args = r at hb
    cases r with
    | error e => cases hb
    | ok bl =>
      cases hb
      rw [List.length_cons, instr_args_length cfg.little _ args bl hm, Nat.add_comm]
  case isa mn fs =>
    cases hsz : isaSize cfg mn fs with
    | error e => rw [hsz] at hp; cases hp
    | ok n =>
      rw [hsz] at hp
      cases hp
      rw [isaBytes_length hsz hb]

theorem lineBytes_nonbyte {cfg : Cfg} {L₂ : Labels} {ln : Line} {a s : Int}
    (hbyte : isByteLine ln.stmt = false) :
    lineBytes cfg L₂ { line := ln, addr := a, size := s } = .ok [] := by
  obtain ⟨stmt, sc, zone, muted, file, cv⟩ := ln
  cases stmt <;> simp only [isByteLine, Bool.true_eq_false] at hbyte <;> rfl

/-! ## the whole first pass -/

theorem firstPass_cons_ok {cfg : Cfg} {ln : Line} {rest : List Line} {st : Zones × Labels}
    {out : List Placed} {zs : Zones} {L : Labels} (h : firstPass cfg (ln :: rest) st = .ok (out, zs, L)) :
    ∃ p zs1 L1 ps, firstPassStep cfg st ln = .ok (p, zs1, L1) ∧
      firstPass cfg rest (zs1, L1) = .ok (ps, zs, L) ∧ out = p :: ps := by
  rw [firstPass] at h
  cases h1 : firstPassStep cfg st ln with
  | error e => rw [h1] at h; cases h
  | ok r =>
    obtain ⟨p, zs1, L1⟩ := r
    rw [h1] at h
    simp only [bind, Except.bind] at h
    cases h2 : firstPass cfg rest (zs1, L1) with
    | error e => rw [h2] at h; cases h
    | ok r2 =>
      obtain ⟨ps, zs2, L2⟩ := r2
      rw [h2] at h
      cases h
      exact ⟨p, zs1, L1, ps, rfl, h2, rfl⟩

theorem firstPass_length {cfg : Cfg} : ∀ (lines : List Line) (st : Zones × Labels) (out : List Placed)
    (zs : Zones) (L : Labels), firstPass cfg lines st = .ok (out, zs, L) → out.length = lines.length
  | [], st, out, zs, L, h => by
    rw [firstPass] at h; cases h; rfl
  | ln :: rest, st, out, zs, L, h => by
    obtain ⟨p, zs1, L1, ps, _, h2, rfl⟩ := firstPass_cons_ok h
    rw [List.length_cons, List.length_cons, firstPass_length rest _ _ _ _ h2]

/-! ## zone declarations -/

theorem mkZone_ok {bits : Nat} {name : String} {s e : Int} {z : Zone} (h : mkZone bits name s e = .ok z) :
    z = { name := name, start := s, stop := e, cur := s } ∧ 0 ≤ s ∧ s ≤ e ∧ e ≤ (2 : Int) ^ bits - 1 := by
  unfold mkZone at h
  split at h
  · cases h
  · split at h
    · cases h
    · split at h
      · cases h
      · cases h
        exact ⟨rfl, by omega, by omega, by omega⟩

theorem mkZone_of_bounds {bits : Nat} {name : String} {s e : Int} (h0 : 0 ≤ s) (h1 : s ≤ e)
    (h2 : e ≤ (2 : Int) ^ bits - 1) :
    mkZone bits name s e = .ok { name := name, start := s, stop := e, cur := s } := by
  unfold mkZone
  rw [if_neg (by omega), if_neg (by omega), if_neg (by omega)]

theorem Zones.setCur_mem {zs zs' : Zones} {n : String} {v : Int} {x : Zone} (h : zs.setCur n v = .ok zs')
    (hx : x ∈ zs') :
    x ∈ zs ∨ ∃ z, zs.get? n = some z ∧ x = { z with cur := v } ∧ z.start ≤ v ∧ v ≤ z.stop + 1 := by
  obtain ⟨z, hz, h1, h2, rfl⟩ := Zones.setCur_ok h
  rcases Zones.mem_replace hx with rfl | hm
  · exact Or.inr ⟨z, hz, rfl, h1, h2⟩
  · exact Or.inl hm

theorem Zones.setCur_get?_other {zs zs' : Zones} {n m : String} {v : Int} (h : zs.setCur n v = .ok zs')
    (hm : m ≠ n) : zs'.get? m = zs.get? m := by
  obtain ⟨z, hz, _, _, rfl⟩ := Zones.setCur_ok h
  exact Zones.get?_replace_other (z' := { z with cur := v }) (Zones.get?_name (z := z) hz) hm

theorem Zones.setCur_get?_same {zs zs' : Zones} {n : String} {v : Int} (h : zs.setCur n v = .ok zs') :
    ∃ z, zs.get? n = some z ∧ zs'.get? n = some { z with cur := v } := by
  obtain ⟨z, hz, _, _, rfl⟩ := Zones.setCur_ok h
  exact ⟨z, hz, Zones.get?_replace_same hz (Zones.get?_name (z := z) hz)⟩

/-- `setCur` never changes the bounds of the zone found under a name -/
theorem Zones.setCur_get?_bounds {zs zs' : Zones} {n m : String} {v : Int} {g : Zone}
    (h : zs.setCur n v = .ok zs') (hg : zs.get? m = some g) :
    ∃ g', zs'.get? m = some g' ∧ g'.start = g.start ∧ g'.stop = g.stop := by
  by_cases hm : m = n
  · subst hm
    obtain ⟨z, hz, hz'⟩ := Zones.setCur_get?_same h
    rw [hg] at hz; cases hz
    exact ⟨_, hz', rfl, rfl⟩
  · exact ⟨g, by rw [Zones.setCur_get?_other h hm, hg], rfl, rfl⟩

theorem Zones.get?_append_some {zs : Zones} {n : String} {z : Zone} (ys : Zones) (h : zs.get? n = some z) :
    (zs ++ ys).get? n = some z := by
  unfold Zones.get? at h ⊢
  rw [List.find?_append, h]
  rfl

theorem foldlM_inv {α β : Type} (P : β → Prop) (f : β → α → Except Err β)
    (hf : ∀ b a b', P b → f b a = .ok b' → P b') :
    ∀ (l : List α) (b b' : β), P b → l.foldlM f b = .ok b' → P b'
  | [], b, b', hb, h => by
    rw [List.foldlM_nil] at h; cases h; exact hb
  | a :: l, b, b', hb, h => by
    rw [List.foldlM_cons] at h
    cases h1 : f b a with
    | error e => rw [h1] at h; cases h
    | ok b1 =>
      rw [h1] at h
      exact foldlM_inv P f hf l b1 b' (hf b a b1 hb h1) h

end BV
