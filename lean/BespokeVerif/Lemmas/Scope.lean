/-
  Helper lemmas for C06 (label scopes): the three association lists of `Labels`,
  `Labels.lookup` / `Labels.set` in terms of per-table getters.
-/
import BespokeVerif.Model.Layout
import BespokeVerif.Lemmas.Bits
namespace BV

/-! ## label kinds -/

theorem labelKind_cases (n : String) : labelKind n = 0 ∨ labelKind n = 1 ∨ labelKind n = 2 := by
  unfold labelKind; split <;> simp

/-! ## per-table getters -/

/-- first value of `(f, k, name, _)` in the local table -/
def locGet (l : List (Nat × Nat × String × Int)) (f k : Nat) (name : String) : Option Int :=
  (l.find? fun e => e.1 == f && e.2.1 == k && e.2.2.1 == name).map (·.2.2.2)

/-- first value of `(f, name, _)` in the file table -/
def fileGet (l : List (Nat × String × Int)) (f : Nat) (name : String) : Option Int :=
  (l.find? fun e => e.1 == f && e.2.1 == name).map (·.2.2)

theorem lookup_loc_eq (L : Labels) (regs : List String) (f k : Nat) (name : String) :
    L.lookup regs (.loc f k) name =
      match locGet L.loc f k name with
      | some v => .ok v
      | none =>
        match fileGet L.file f name with
        | some v => .ok v
        | none =>
          if isRegName regs name then .error .unresolvedLabel
          else match assocGet L.glob name with
            | some v => .ok v
            | none => .error .unresolvedLabel := rfl

theorem lookup_file_eq (L : Labels) (regs : List String) (f : Nat) (name : String) :
    L.lookup regs (.file f) name =
      match fileGet L.file f name with
      | some v => .ok v
      | none =>
        if isRegName regs name then .error .unresolvedLabel
        else match assocGet L.glob name with
          | some v => .ok v
          | none => .error .unresolvedLabel := rfl

/-! ### local table -/

theorem locGet_cons (e : Nat × Nat × String × Int) (l) (f k : Nat) (n : String) :
    locGet (e :: l) f k n =
      if e.1 = f ∧ e.2.1 = k ∧ e.2.2.1 = n then some e.2.2.2 else locGet l f k n := by
  unfold locGet; grind

theorem locGet_some_mem {l f k n v} (h : locGet l f k n = some v) : (f, k, n, v) ∈ l := by
  induction l with
  | nil => simp [locGet] at h
  | cons e l ih =>
    rw [locGet_cons] at h
    split at h
    · rename_i hc
      obtain ⟨h1, h2, h3⟩ := hc
      have : e = (f, k, n, v) := by
        rcases e with ⟨a, b, c, d⟩; simp_all
      simp [this]
    · exact List.mem_cons_of_mem _ (ih h)

theorem locGet_eq_none_iff {l f k n} : locGet l f k n = none ↔ ∀ v, (f, k, n, v) ∉ l := by
  induction l with
  | nil => simp [locGet]
  | cons e l ih =>
    rw [locGet_cons]
    rcases e with ⟨a, b, c, d⟩
    by_cases hc : a = f ∧ b = k ∧ c = n
    · simp only [hc, and_self, if_true]
      constructor
      · intro h; cases h
      · intro h; exact absurd (List.mem_cons_self) (h d)
    · simp only [hc, if_false, ih, List.mem_cons, not_or]
      constructor
      · intro h v; refine ⟨?_, h v⟩
        intro he; apply hc; simp_all
      · intro h v; exact (h v).2

theorem locGet_append {l f k n f' k' n' v'} :
    locGet (l ++ [(f', k', n', v')]) f k n =
      (locGet l f k n).or (if f' = f ∧ k' = k ∧ n' = n then some v' else none) := by
  induction l with
  | nil => simp [locGet, and_assoc]
  | cons e l ih =>
    rw [List.cons_append, locGet_cons, locGet_cons, ih]
    split <;> simp

theorem loc_any_eq {l : List (Nat × Nat × String × Int)} {f k n} :
    (l.any fun e => e.1 == f && e.2.1 == k && e.2.2.1 == n) = (locGet l f k n).isSome := by
  induction l with
  | nil => simp [locGet]
  | cons e l ih =>
    rw [locGet_cons, List.any_cons, ih]
    by_cases hc : e.1 = f ∧ e.2.1 = k ∧ e.2.2.1 = n
    · simp [hc]
    · simp only [hc, if_false]
      have : (e.1 == f && e.2.1 == k && e.2.2.1 == n) = false := by
        simp only [Bool.and_eq_false_iff, beq_eq_false_iff_ne]; grind
      simp [this]

/-! ### file table -/

theorem fileGet_cons (e : Nat × String × Int) (l) (f : Nat) (n : String) :
    fileGet (e :: l) f n =
      if e.1 = f ∧ e.2.1 = n then some e.2.2 else fileGet l f n := by
  unfold fileGet; grind

theorem fileGet_some_mem {l f n v} (h : fileGet l f n = some v) : (f, n, v) ∈ l := by
  induction l with
  | nil => simp [fileGet] at h
  | cons e l ih =>
    rw [fileGet_cons] at h
    split at h
    · rename_i hc
      obtain ⟨h1, h2⟩ := hc
      have : e = (f, n, v) := by
        rcases e with ⟨a, b, c⟩; simp_all
      simp [this]
    · exact List.mem_cons_of_mem _ (ih h)

theorem fileGet_eq_none_iff {l f n} : fileGet l f n = none ↔ ∀ v, (f, n, v) ∉ l := by
  induction l with
  | nil => simp [fileGet]
  | cons e l ih =>
    rw [fileGet_cons]
    rcases e with ⟨a, b, c⟩
    by_cases hc : a = f ∧ b = n
    · simp only [hc, and_self, if_true]
      constructor
      · intro h; cases h
      · intro h; exact absurd (List.mem_cons_self) (h c)
    · simp only [hc, if_false, ih, List.mem_cons, not_or]
      constructor
      · intro h v; refine ⟨?_, h v⟩
        intro he; apply hc; simp_all
      · intro h v; exact (h v).2

theorem fileGet_append {l f n f' n' v'} :
    fileGet (l ++ [(f', n', v')]) f n =
      (fileGet l f n).or (if f' = f ∧ n' = n then some v' else none) := by
  induction l with
  | nil => simp [fileGet]
  | cons e l ih =>
    rw [List.cons_append, fileGet_cons, fileGet_cons, ih]
    split <;> simp

theorem file_any_eq {l : List (Nat × String × Int)} {f n} :
    (l.any fun e => e.1 == f && e.2.1 == n) = (fileGet l f n).isSome := by
  induction l with
  | nil => simp [fileGet]
  | cons e l ih =>
    rw [fileGet_cons, List.any_cons, ih]
    by_cases hc : e.1 = f ∧ e.2.1 = n
    · simp [hc]
    · simp only [hc, if_false]
      have : (e.1 == f && e.2.1 == n) = false := by
        simp only [Bool.and_eq_false_iff, beq_eq_false_iff_ne]; grind
      simp [this]

/-! ### global table -/

theorem globGet_cons (e : String × Int) (l) (n : String) :
    assocGet (e :: l) n = if e.1 = n then some e.2 else assocGet l n := by
  unfold assocGet; grind

theorem globGet_some_mem {l : List (String × Int)} {n v} (h : assocGet l n = some v) : (n, v) ∈ l := by
  induction l with
  | nil => simp [assocGet] at h
  | cons e l ih =>
    rw [globGet_cons] at h
    split at h
    · rename_i hc
      have : e = (n, v) := by
        rcases e with ⟨a, b⟩; simp_all
      simp [this]
    · exact List.mem_cons_of_mem _ (ih h)

theorem globGet_eq_none_iff {l : List (String × Int)} {n} : assocGet l n = none ↔ ∀ v, (n, v) ∉ l := by
  induction l with
  | nil => simp [assocGet]
  | cons e l ih =>
    rw [globGet_cons]
    rcases e with ⟨a, b⟩
    by_cases hc : a = n
    · simp only [hc, if_true]
      constructor
      · intro h; cases h
      · intro h; exact absurd (List.mem_cons_self) (h b)
    · simp only [hc, if_false, ih, List.mem_cons, not_or]
      constructor
      · intro h v; refine ⟨?_, h v⟩
        intro he; apply hc; simp_all
      · intro h v; exact (h v).2

theorem globGet_append {l : List (String × Int)} {n n' v'} :
    assocGet (l ++ [(n', v')]) n = (assocGet l n).or (if n' = n then some v' else none) := by
  induction l with
  | nil => simp [assocGet]
  | cons e l ih =>
    rw [List.cons_append, globGet_cons, globGet_cons, ih]
    split <;> simp

/-! ## lookup / set through the getters -/

/-- the local-table part of a lookup from scope `sc` -/
def scGet (L : Labels) (sc : Scope) (name : String) : Option Int :=
  match sc with
  | .loc f k => locGet L.loc f k name
  | .file _ => none

theorem lookup_eq (L : Labels) (regs : List String) (sc : Scope) (name : String) :
    L.lookup regs sc name =
      match scGet L sc name with
      | some v => .ok v
      | none =>
        match fileGet L.file sc.fileId name with
        | some v => .ok v
        | none =>
          if isRegName regs name then .error .unresolvedLabel
          else match assocGet L.glob name with
            | some v => .ok v
            | none => .error .unresolvedLabel := by
  cases sc <;> rfl

theorem scGet_some {L : Labels} {sc name v} (h : scGet L sc name = some v) :
    ∃ f k, sc = .loc f k ∧ locGet L.loc f k name = some v := by
  cases sc with
  | file f => simp [scGet] at h
  | loc f k => exact ⟨f, k, rfl, h⟩

theorem locGet_none_of_kind {l : List (Nat × Nat × String × Int)} {f k name}
    (hw : ∀ e ∈ l, labelKind e.2.2.1 = 2) (hk : labelKind name ≠ 2) : locGet l f k name = none := by
  rw [locGet_eq_none_iff]
  intro v hm
  exact hk (hw _ hm)

theorem scGet_none_of_kind {L : Labels} {sc name}
    (hw : ∀ e ∈ L.loc, labelKind e.2.2.1 = 2) (hk : labelKind name ≠ 2) : scGet L sc name = none := by
  cases sc with
  | file f => rfl
  | loc f k => exact locGet_none_of_kind hw hk

theorem fileGet_none_of_kind {l : List (Nat × String × Int)} {f name}
    (hw : ∀ e ∈ l, labelKind e.2.1 = 1) (hk : labelKind name ≠ 1) : fileGet l f name = none := by
  rw [fileGet_eq_none_iff]
  intro v hm
  exact hk (hw _ hm)

theorem globGet_none_of_kind {l : List (String × Int)} {name}
    (hw : ∀ e ∈ l, labelKind e.1 = 0) (hk : labelKind name ≠ 0) : assocGet l name = none := by
  rw [globGet_eq_none_iff]
  intro v hm
  exact hk (hw _ hm)

theorem set_eq (L : Labels) (sc : Scope) (name : String) (v : Int) :
    L.set sc name v =
      if keywords.contains (labelBase name) then .error .keywordLabel
      else if labelKind name = 0 then
        (if (assocGet L.glob name).isSome then .error .duplicateLabel
         else .ok { L with glob := L.glob ++ [(name, v)] })
      else if labelKind name = 1 then
        (if (fileGet L.file sc.fileId name).isSome then .error .duplicateLabel
         else .ok { L with file := L.file ++ [(sc.fileId, name, v)] })
      else match sc with
        | .file _ => .error .scopeTooLow
        | .loc f k =>
          if (locGet L.loc f k name).isSome then .error .duplicateLabel
          else .ok { L with loc := L.loc ++ [(f, k, name, v)] } := by
  unfold Labels.set
  split
  · rfl
  · rcases labelKind_cases name with h | h | h <;> rw [h]
    · simp
    · simp [file_any_eq]
    · cases sc <;> simp [loc_any_eq]

theorem lookup_error {L : Labels} {regs : List String} {sc name}
    (h1 : scGet L sc name = none) (h2 : fileGet L.file sc.fileId name = none)
    (h3 : isRegName regs name = true ∨ assocGet L.glob name = none) :
    L.lookup regs sc name = .error .unresolvedLabel := by
  rw [lookup_eq, h1, h2]
  rcases h3 with h3 | h3
  · simp only [h3, if_true]
  · simp only [h3]; split <;> rfl

/-- the three ways a definition is accepted -/
theorem set_cases {L L' : Labels} {sc : Scope} {name : String} {v : Int}
    (h : L.set sc name v = .ok L') :
    keywords.contains (labelBase name) = false ∧
    ((labelKind name = 0 ∧ assocGet L.glob name = none ∧
        L' = { L with glob := L.glob ++ [(name, v)] }) ∨
     (labelKind name = 1 ∧ fileGet L.file sc.fileId name = none ∧
        L' = { L with file := L.file ++ [(sc.fileId, name, v)] }) ∨
     (labelKind name = 2 ∧ ∃ f k, sc = .loc f k ∧ locGet L.loc f k name = none ∧
        L' = { L with loc := L.loc ++ [(f, k, name, v)] })) := by
  rw [set_eq] at h
  split at h
  · cases h
  rename_i hkw
  refine ⟨by simpa using hkw, ?_⟩
  split at h
  · rename_i hk
    split at h
    · cases h
    · rename_i hn
      left
      refine ⟨hk, by simpa using hn, ?_⟩
      cases h; rfl
  · rename_i hk0
    split at h
    · rename_i hk
      split at h
      · cases h
      · rename_i hn
        right; left
        refine ⟨hk, by simpa using hn, ?_⟩
        cases h; rfl
    · rename_i hk1
      have hk : labelKind name = 2 := by
        rcases labelKind_cases name with h | h | h <;> simp_all
      cases sc with
      | file f => cases h
      | loc f k =>
        simp only at h
        split at h
        · cases h
        · rename_i hn
          right; right
          refine ⟨hk, f, k, rfl, by simpa using hn, ?_⟩
          cases h; rfl

/-! ## a definition never shadows an existing entry of the same table -/

theorem set_scGet_mono {L L' : Labels} {sc' : Scope} {name' : String} {v' : Int}
    (h : L.set sc' name' v' = .ok L') {sc : Scope} {name : String} {v : Int}
    (hv : scGet L sc name = some v) : scGet L' sc name = some v := by
  obtain ⟨-, hc⟩ := set_cases h
  rcases hc with ⟨-, -, rfl⟩ | ⟨-, -, rfl⟩ | ⟨-, f, k, -, -, rfl⟩
  · exact hv
  · exact hv
  · cases sc with
    | file g => exact hv
    | loc g j =>
      simp only [scGet] at hv ⊢
      rw [locGet_append, hv, Option.some_or]

theorem set_fileGet_mono {L L' : Labels} {sc' : Scope} {name' : String} {v' : Int}
    (h : L.set sc' name' v' = .ok L') {f : Nat} {name : String} {v : Int}
    (hv : fileGet L.file f name = some v) : fileGet L'.file f name = some v := by
  obtain ⟨-, hc⟩ := set_cases h
  rcases hc with ⟨-, -, rfl⟩ | ⟨-, -, rfl⟩ | ⟨-, f, k, -, -, rfl⟩
  · exact hv
  · simp only
    rw [fileGet_append, hv, Option.some_or]
  · exact hv

theorem set_globGet_mono {L L' : Labels} {sc' : Scope} {name' : String} {v' : Int}
    (h : L.set sc' name' v' = .ok L') {name : String} {v : Int}
    (hv : assocGet L.glob name = some v) : assocGet L'.glob name = some v := by
  obtain ⟨-, hc⟩ := set_cases h
  rcases hc with ⟨-, -, rfl⟩ | ⟨-, -, rfl⟩ | ⟨-, f, k, -, -, rfl⟩
  · simp only
    rw [globGet_append, hv, Option.some_or]
  · exact hv
  · exact hv

end BV
